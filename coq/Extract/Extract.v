(* Extraction of the executable model for the correspondence check.
   ExtrOcamlBasic only: bool, option, unit, list, prod, sumbool, sumor map to OCaml's; andb/orb are
   inlined. Numbers (N, Z, positive, nat) stay the extracted inductive types. *)
From Coq Require Extraction.
From Coq Require Import ExtrOcamlBasic.
From CKC Require Import Base.Prelude Base.SortN Model.Card Model.Deck Model.Hands Model.Shift Model.Five Model.HandRank
  Model.Binary Model.Two Model.Parse Model.Container Model.Search Model.Proj.

Extraction Language OCaml.
Extraction "model.ml"
  Model.Card.card_filter Model.Card.create
  Model.Card.get_card_rank Model.Card.get_card_suit Model.Card.get_rank_prime Model.Card.get_rank_bit
  Model.Card.get_rank_flag Model.Card.get_suit_bit Model.Card.get_suit_flag Model.Card.get_rank_char
  Model.Card.get_suit_char Model.Card.get_suit_letter Model.Card.is_blank Model.Card.get_chen_points_x2
  Model.Card.next_suit
  Model.Card.flag_as_pair Model.Card.flag_as_trips Model.Card.flag_as_quads Model.Card.strip_multiples_flags
  Model.Card.shift_suit
  Model.Deck.deck_get
  Model.Hands.is_valid Model.Hands.is_corrupt Model.Hands.are_unique Model.Hands.contain_blank
  Base.SortN.sort_desc Model.Hands.shift_suit_hand Model.Shift.shift_suit_sized
  Model.Five.hrvh Model.Five.hand_rank_value Model.Five.hand_rank_value_validated Model.Five.evaluate_five_cards
  Model.Five.find_in_products Model.Five.is_flush Model.Five.is_straight Model.Five.is_straight_flush
  Model.Five.is_wheel Model.Five.or_rank_bits Model.Five.and_bits Model.Five.or_bits Model.Five.multiply_primes
  Model.Five.select Model.Five.evaluate_is_flush Model.Five.evaluate_or_rank_bits
  Model.HandRank.hr_from Model.HandRank.hr_default Model.HandRank.is_invalid Model.HandRank.is_a_valid_hand_rank
  Model.HandRank.determine_name Model.HandRank.determine_class Model.HandRank.NAME_FLUSH
  Model.HandRank.NAME_STRAIGHT Model.HandRank.NAME_STRAIGHT_FLUSH Model.HandRank.hr_cmp Model.HandRank.hr_eqb
  Model.HandRank.hr_lt Model.HandRank.hr_le Model.HandRank.hr_gt Model.HandRank.hr_ge
  Model.Binary.from_ckc Model.Binary.from_binary_card Model.Binary.bc_from_hand Model.Binary.fold_in
  Model.Binary.has Model.Binary.number_of_cards Model.Binary.is_single_card Model.Binary.bc_is_valid
  Model.Binary.peel Model.Binary.two_try_from_bc Model.Binary.ERR_INVALID_INDEX
  Model.Two.chen_formula Model.Two.get_gap Model.Two.high_card Model.Two.is_connector Model.Two.is_pocket_pair
  Model.Two.is_suited Model.Two.is_suited_connector
  Model.Parse.card_from_index Model.Parse.get_rank_and_suit Model.Parse.hand_from_index Model.Parse.bc_from_index
  Model.Container.step
  Model.Search.first_bad_class
  Model.Proj.proj_wit Model.Proj.proj_best Model.Proj.proj_chain7 Model.Proj.proj_rankp Model.Proj.proj_shiftinv
  Model.Proj.proj_hrkey Model.Proj.proj_sortp Model.Proj.proj_vrank Model.Proj.proj_hrself Model.Proj.proj_perm5
  Model.Proj.proj_relabel Model.Proj.proj_bcsetp Model.Proj.proj_vsame.
