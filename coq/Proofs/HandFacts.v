(* Facts about five-card hands that do NOT depend on the contents of the lookup tables: the Hand5
   predicate, positions in a list, and "the shape of five distinct real cards is one of the 7 462
   classes" (a statement about the rules of poker only). *)
From Coq Require Import Sorting.Permutation.
From CKC Require Import Base.Prelude Base.Reflect Base.SortN Spec.Layout Spec.Poker.
From CKC Require Import Proofs.CardBase Proofs.SortFacts Proofs.BitFacts Proofs.FiveFacts Proofs.PokerFacts
  Proofs.RankedFacts Proofs.ShapeFacts.
From CKC Require Export Model.Search.
Open Scope N_scope.

(* ---- enumerating a list with positions ------------------------------------------------------ *)
Lemma enum_from_split {A} (P : N * A -> bool) (l : list A) n :
  forallb P (enum_from n l) = true ->
  forall pre x post, l = pre ++ x :: post -> P (n + N.of_nat (length pre), x) = true.
Proof.
  revert n. induction l as [|a l IH]; intros n H pre x post E.
  - destruct pre; discriminate.
  - cbn [enum_from forallb] in H. apply andb_true_iff in H. destruct H as [H1 H2].
    destruct pre as [|b pre]; cbn [app length] in *.
    + injection E as -> _. now rewrite N.add_0_r.
    + injection E as -> E. specialize (IH _ H2 _ _ _ E).
      replace (n + N.of_nat (S (length pre))) with (N.succ n + N.of_nat (length pre)) by lia.
      exact IH.
Qed.

Definition Hand5 (ws : list N) : Prop := length ws = 5%nat /\ Forall RealCard ws /\ NoDup ws.

Lemma shape_class ws : Hand5 ws -> exists c, In c all_shapes /\ score c = score (shape_of ws).
Proof.
  intros (HL & HR & HN). pose proof (shape_valid ws HL HR HN) as HV. unfold shape_of in *.
  eexists. split; [apply canon_in_all_shapes, HV|].
  apply score_perm, sort_desc_perm.
Qed.

