(* C10 — card words follow the documented layout; exactly 52 words are cards. *)
From Coq Require Import String.
From CKC Require Import Base.Prelude Base.Reflect Spec.Layout Model.Card Proofs.CardFacts Proofs.CreateFacts.
From CKC Require Import Gen.Consts Gen.Enums Gen.Maps Gen.Scan Gen.Decks.
Open Scope N_scope.

Lemma constants_ok :
  CN_CARDS = SPEC_DECK /\
  CN_CARD_NAMES = map (fun '(r, s) => const_name r s) SPEC_DECK_RS /\
  CN_BLANK = 0.
Proof. repeat split; vm_compute; reflexivity. Qed.

Lemma deck_ok : POKER_DECK = SPEC_DECK.
Proof. vm_compute. reflexivity. Qed.



(* the enumerations are exactly the 13 ranks / 4 suits plus one blank each *)


Lemma accessors_ok r s :
  r < 13 -> s < 4 ->
  let w := layout r s in
  get_card_rank w = rank_variant r /\ get_card_suit w = suit_variant s /\
  get_rank_prime w = prime_of r /\ get_rank_bit w = 2 ^ r /\ get_rank_flag w = 2 ^ (16 + r) /\
  get_suit_bit w = 2 ^ s /\ get_suit_flag w = 2 ^ (12 + s) /\
  get_rank_char w = nthN RANK_CHARS r 0 /\ get_suit_char w = nthN SUIT_GLYPHS s 0 /\
  get_suit_letter w = nthN SUIT_LETTERS s 0 /\ is_blank w = false /\
  suit_signature (suit_variant s) = 2 ^ (12 + s).
Proof.
  intros Hr Hs w. pose proof (acc_ok_all r s Hr Hs) as H. unfold acc_ok in H. fold w in H.
  repeat (apply andb_true_iff in H; destruct H as [H ?]).
  rewrite ?N.eqb_eq, ?negb_true_iff in *. repeat split; assumption.
Qed.

Lemma blank_ok :
  is_blank 0 = true /\ get_card_rank 0 = RANK_BLANK /\ get_card_suit 0 = SUIT_BLANK /\
  get_rank_char 0 = UNDERSCORE /\ get_suit_char 0 = UNDERSCORE /\ get_suit_letter 0 = UNDERSCORE.
Proof. repeat split; vm_compute; reflexivity. Qed.

Lemma filter_ok w : filter w = if real_cardb w then w else 0.
Proof. apply filter_spec. Qed.
