(* Facts about sort_asc / sort_desc / strictly_desc_from (Base/SortN.v). *)
From Coq Require Import Sorting.Mergesort Sorting.Sorted Sorting.Permutation.
From Coq Require Import RelationClasses.
From CKC Require Import Base.Prelude Base.SortN.
Open Scope N_scope.

(* ---- auxiliary ---- *)
Lemma lebt_trans : Transitive (fun x y : N => is_true (NLeb.leb x y)).
Proof. intros x y z. unfold NLeb.leb, is_true. rewrite !N.leb_le. lia. Qed.

Lemma SS_impl {A} (R S : A -> A -> Prop) l :
  (forall a b, R a b -> S a b) -> StronglySorted R l -> StronglySorted S l.
Proof.
  intros H; induction 1 as [|a l HS IH F]; constructor; auto.
  eapply Forall_impl; [|exact F]. auto.
Qed.

Lemma SS_app {A} (R : A -> A -> Prop) l1 l2 :
  StronglySorted R l1 -> StronglySorted R l2 ->
  (forall x y, In x l1 -> In y l2 -> R x y) -> StronglySorted R (l1 ++ l2).
Proof.
  induction l1 as [|a l1 IH]; cbn [app]; intros H1 H2 H; auto.
  apply StronglySorted_inv in H1; destruct H1 as [H1 F]. constructor.
  - apply IH; auto. intros x y Hx Hy. apply H; [right|]; auto.
  - apply Forall_app; split; auto.
    apply Forall_forall; intros y Hy; apply H; [left; reflexivity|exact Hy].
Qed.

Lemma SS_rev {A} (R : A -> A -> Prop) l :
  StronglySorted R l -> StronglySorted (fun a b => R b a) (rev l).
Proof.
  induction 1 as [|a l HS IH F]; cbn [rev].
  - constructor.
  - apply SS_app; auto.
    + repeat constructor.
    + intros x y Hx Hy. destruct Hy as [<-|[]]. apply in_rev in Hx.
      rewrite Forall_forall in F. auto.
Qed.

Lemma noninc_rev l : noninc l -> nondec (rev l).
Proof.
  unfold noninc, nondec. intros H. apply SS_rev in H.
  eapply SS_impl; [|exact H]. cbn beta. auto.
Qed.

Lemma nondec_rev l : nondec l -> noninc (rev l).
Proof.
  unfold noninc, nondec. intros H. apply SS_rev in H.
  eapply SS_impl; [|exact H]. cbn beta. auto.
Qed.

(* ---- the facts ---- *)
Lemma sort_asc_perm l : Permutation (sort_asc l) l.
Proof. unfold sort_asc. symmetry. apply NSort.Permuted_sort. Qed.

Lemma sort_asc_sorted l : nondec (sort_asc l).
Proof.
  unfold nondec, sort_asc.
  eapply SS_impl; [|apply NSort.StronglySorted_sort, lebt_trans].
  intros a b H. apply N.leb_le. exact H.
Qed.

Lemma nondec_unique l1 l2 : nondec l1 -> nondec l2 -> Permutation l1 l2 -> l1 = l2.
Proof.
  unfold nondec. revert l2. induction l1 as [|a l1 IH]; intros l2 H1 H2 P.
  - apply Permutation_nil in P. auto.
  - destruct l2 as [|b l2].
    { symmetry in P. apply Permutation_nil in P. discriminate. }
    apply StronglySorted_inv in H1. destruct H1 as [H1 F1].
    apply StronglySorted_inv in H2. destruct H2 as [H2 F2].
    assert (E : a = b).
    { assert (Ia : In a (b :: l2)) by (eapply Permutation_in; [exact P | left; auto]).
      assert (Ib : In b (a :: l1)) by (eapply Permutation_in; [symmetry; exact P | left; auto]).
      rewrite Forall_forall in F1, F2.
      destruct Ia as [->|Ha]; auto. destruct Ib as [->|Hb]; auto.
      apply F1 in Hb. apply F2 in Ha. lia. }
    subst b. f_equal. apply IH; auto. eapply Permutation_cons_inv; eauto.
Qed.

Lemma sort_asc_of_perm l1 l2 : Permutation l1 l2 -> sort_asc l1 = sort_asc l2.
Proof.
  intros P. apply nondec_unique; try apply sort_asc_sorted.
  rewrite !sort_asc_perm. exact P.
Qed.

Lemma sort_asc_id l : nondec l -> sort_asc l = l.
Proof.
  intros H. apply nondec_unique; auto using sort_asc_sorted, sort_asc_perm.
Qed.

Lemma sort_desc_perm l : Permutation (sort_desc l) l.
Proof.
  unfold sort_desc. rewrite <- Permutation_rev. apply sort_asc_perm.
Qed.

Lemma sort_desc_sorted l : noninc (sort_desc l).
Proof. unfold sort_desc. apply nondec_rev, sort_asc_sorted. Qed.

Lemma noninc_unique l1 l2 : noninc l1 -> noninc l2 -> Permutation l1 l2 -> l1 = l2.
Proof.
  intros H1 H2 P.
  rewrite <- (rev_involutive l1), <- (rev_involutive l2). f_equal.
  apply nondec_unique; auto using noninc_rev.
  rewrite <- !Permutation_rev. exact P.
Qed.

Lemma sort_desc_of_perm l1 l2 : Permutation l1 l2 -> sort_desc l1 = sort_desc l2.
Proof. intros P. unfold sort_desc. f_equal. apply sort_asc_of_perm, P. Qed.

Lemma sort_desc_id l : noninc l -> sort_desc l = l.
Proof.
  intros H. apply noninc_unique; auto using sort_desc_sorted, sort_desc_perm.
Qed.

Lemma sort_desc_idem l : sort_desc (sort_desc l) = sort_desc l.
Proof. apply sort_desc_id, sort_desc_sorted. Qed.

Lemma sort_desc_length l : length (sort_desc l) = length l.
Proof. apply Permutation_length, sort_desc_perm. Qed.

Lemma sort_desc_In x l : In x (sort_desc l) <-> In x l.
Proof.
  split; apply Permutation_in; [|symmetry]; apply sort_desc_perm.
Qed.

(* the sort-and-scan uniqueness test on a non-increasing list *)
Lemma strictly_desc_from_spec last l :
  noninc l -> (strictly_desc_from last l = true <-> NoDup l /\ Forall (fun x => x < last) l).
Proof.
  unfold noninc. revert last. induction l as [|c r IH]; intros last H; cbn [strictly_desc_from].
  - split; auto. intros _. split; constructor.
  - apply StronglySorted_inv in H. destruct H as [HS F].
    destruct (N.leb_spec last c) as [Hle|Hlt].
    + split; [discriminate|]. intros [_ FA]. inversion FA; subst. lia.
    + rewrite (IH c HS). rewrite Forall_forall in F. split.
      * intros [ND FA]. rewrite Forall_forall in FA. split.
        -- constructor; auto. intros Hin. apply FA in Hin. lia.
        -- constructor; auto. apply Forall_forall. intros x Hx. apply FA in Hx. lia.
      * intros [ND FA]. inversion ND as [|? ? Hnin ND']; subst. split; auto.
        apply Forall_forall. intros x Hx.
        assert (x <= c) by (apply F; exact Hx).
        assert (x <> c) by (intros ->; contradiction).
        lia.
Qed.

Lemma strictly_desc_sort_spec last l :
  strictly_desc_from last (sort_desc l) = true <-> NoDup l /\ Forall (fun x => x < last) l.
Proof.
  rewrite (strictly_desc_from_spec last _ (sort_desc_sorted l)).
  pose proof (sort_desc_perm l) as P.
  split; intros [ND FA]; split.
  - eapply Permutation_NoDup; eauto.
  - eapply Permutation_Forall; eauto.
  - eapply Permutation_NoDup; [symmetry|]; eauto.
  - eapply Permutation_Forall; [symmetry|]; eauto.
Qed.
