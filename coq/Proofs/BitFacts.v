(* General bit-level and fold lemmas used by the abstraction of the five-card evaluator. *)
From Coq Require Import Sorting.Permutation.
From CKC Require Import Base.Prelude.
Open Scope N_scope.

(* ---- folds of commutative, associative operations are permutation invariant ---------------- *)
Lemma fold_left_perm (op : N -> N -> N) :
  (forall a b, op a b = op b a) -> (forall a b c, op (op a b) c = op a (op b c)) ->
  forall l l' a, Permutation l l' -> fold_left op l a = fold_left op l' a.
Proof.
  intros C A l l' a P. revert a. induction P; intros a; cbn [fold_left].
  - reflexivity.
  - apply IHP.
  - f_equal. rewrite !A. f_equal. apply C.
  - rewrite IHP1. apply IHP2.
Qed.

Lemma fold_lor_perm l l' a : Permutation l l' -> fold_left N.lor l a = fold_left N.lor l' a.
Proof.
  apply fold_left_perm; intros; [apply N.lor_comm | symmetry; apply N.lor_assoc].
Qed.
Lemma fold_land_perm l l' a : Permutation l l' -> fold_left N.land l a = fold_left N.land l' a.
Proof.
  apply fold_left_perm; intros; [apply N.land_comm | symmetry; apply N.land_assoc].
Qed.
Lemma fold_land_testbit r w i :
  N.testbit (fold_left N.land r w) i = forallb (fun x => N.testbit x i) (w :: r).
Proof.
  revert w. induction r as [|x r IH]; intros w; cbn [fold_left].
  - cbn [forallb]. now rewrite andb_true_r.
  - rewrite IH. cbn [forallb]. rewrite N.land_spec. now rewrite andb_assoc.
Qed.

Lemma forallb_perm {A} (f : A -> bool) l l' :
  Permutation l l' -> forallb f l = forallb f l'.
Proof.
  induction 1; cbn [forallb].
  - reflexivity.
  - now rewrite IHPermutation.
  - rewrite !andb_assoc. f_equal. apply andb_comm.
  - now rewrite IHPermutation1.
Qed.

Lemma fold_mul_perm l l' a : Permutation l l' -> fold_left N.mul l a = fold_left N.mul l' a.
Proof.
  apply fold_left_perm; intros; [apply N.mul_comm | symmetry; apply N.mul_assoc].
Qed.

(* AND of a non-empty list, written head-first as in the code, is permutation invariant *)
Definition and_all (ws : list N) : N := match ws with [] => 0 | w :: r => fold_left N.land r w end.
Lemma and_all_perm ws ws' : Permutation ws ws' -> and_all ws = and_all ws'.
Proof.
  intros P. destruct ws as [|w r], ws' as [|w' r'].
  - reflexivity.
  - exfalso. eapply Permutation_nil_cons; exact P.
  - exfalso. eapply Permutation_nil_cons; apply Permutation_sym; exact P.
  - unfold and_all. apply N.bits_inj. intro i.
    rewrite !fold_land_testbit. apply forallb_perm. exact P.
Qed.

(* ---- shifting and masking distribute over the folds ---------------------------------------- *)
Lemma land_land_mask w x m : N.land (N.land w x) m = N.land (N.land w m) (N.land x m).
Proof.
  apply N.bits_inj. intro i. rewrite !N.land_spec.
  destruct (N.testbit w i), (N.testbit x i), (N.testbit m i); reflexivity.
Qed.

Lemma fold_lor_shiftr ws n acc :
  N.shiftr (fold_left N.lor ws acc) n = fold_left N.lor (map (fun w => N.shiftr w n) ws) (N.shiftr acc n).
Proof.
  revert acc. induction ws as [|w ws IH]; intros acc; cbn [fold_left map].
  - reflexivity.
  - rewrite IH, N.shiftr_lor. reflexivity.
Qed.

Lemma fold_land_mask r w m :
  N.land (fold_left N.land r w) m = fold_left N.land (map (fun x => N.land x m) r) (N.land w m).
Proof.
  revert w. induction r as [|x r IH]; intros w; cbn [fold_left map].
  - reflexivity.
  - rewrite IH, land_land_mask. reflexivity.
Qed.

(* ---- one-hot values -------------------------------------------------------------------------- *)
Lemma fold_land_0 l : fold_left N.land l 0 = 0.
Proof.
  induction l as [|x l IH]; cbn [fold_left]; [reflexivity|].
  rewrite N.land_0_l. exact IH.
Qed.

Lemma land_pow2 a b : N.land (2 ^ a) (2 ^ b) = if a =? b then 2 ^ a else 0.
Proof.
  apply N.bits_inj. intro i. rewrite N.land_spec, !N.pow2_bits_eqb.
  destruct (N.eqb_spec a b) as [->|Hab].
  - rewrite N.pow2_bits_eqb. apply andb_diag.
  - rewrite N.bits_0. destruct (N.eqb_spec a i), (N.eqb_spec b i); try reflexivity; congruence.
Qed.

Lemma mul_w_ok W chk a b : a * b < W -> mul_w W chk a b = Ok (a * b).
Proof.
  intros H. unfold mul_w. cbv zeta. destruct (N.ltb_spec (a * b) W); [reflexivity|lia].
Qed.

Lemma fold_land_onehot k ss s0 :
  fold_left N.land (map (fun s => 2 ^ (k + s)) ss) (2 ^ (k + s0)) =
  if forallb (N.eqb s0) ss then 2 ^ (k + s0) else 0.
Proof.
  induction ss as [|s ss IH]; cbn [map fold_left forallb].
  - reflexivity.
  - rewrite land_pow2.
    destruct (N.eqb_spec (k + s0) (k + s)), (N.eqb_spec s0 s); try lia; cbn [andb].
    + apply IH.
    + apply fold_land_0.
Qed.

(* ---- checked/wrapping multiplication never overflows on small factors ----------------------- *)
Lemma fold_mul_w_ok chk (bound : N) ps acc :
  Forall (fun p => p <= bound) ps -> acc * bound ^ (N.of_nat (length ps)) < U32 ->
  fold_left (fun a q => let* x := a in mul_w U32 chk x q) ps (Ok acc) = Ok (fold_left N.mul ps acc).
Proof.
  revert acc. induction ps as [|p r IH]; intros acc HF HB; cbn [fold_left].
  - reflexivity.
  - inversion HF as [|? ? Hp HF']; subst.
    cbn [length] in HB. rewrite Nat2N.inj_succ, N.pow_succ_r' in HB.
    assert (Hle : acc * p <= acc * bound) by (apply N.mul_le_mono_l; exact Hp).
    assert (Hle2 : acc * p * bound ^ N.of_nat (length r) < U32).
    { eapply N.le_lt_trans; [|exact HB]. rewrite N.mul_assoc.
      apply N.mul_le_mono_r. exact Hle. }
    assert (H1 : acc * p < U32).
    { destruct (N.eq_dec bound 0) as [Hb|Hb].
      - subst bound. assert (p = 0) by lia. subst p. rewrite N.mul_0_r. reflexivity.
      - assert (Hx : bound ^ N.of_nat (length r) <> 0) by (apply N.pow_nonzero; exact Hb).
        eapply N.le_lt_trans; [|exact Hle2].
        rewrite <- (N.mul_1_r (acc * p)) at 1. apply N.mul_le_mono_l. lia. }
    cbn [bind]. rewrite (mul_w_ok _ _ _ _ H1). apply IH; assumption.
Qed.

Lemma land_le_mask w m : N.land w m <= m.
Proof.
  rewrite N.land_comm.
  assert (H0 : N.land (N.ldiff m w) (N.land m w) = 0).
  { apply N.bits_inj. intro i. rewrite !N.land_spec, N.ldiff_spec, N.bits_0.
    destruct (N.testbit m i), (N.testbit w i); reflexivity. }
  pose proof (N.lor_ldiff_and m w) as H.
  rewrite <- (N.lxor_lor _ _ H0), <- (N.add_nocarry_lxor _ _ H0) in H.
  lia.
Qed.
