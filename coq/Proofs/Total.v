(* Totality of ranking on card-or-blank hands (C05, first half), and everything else that depends on the
   lookup tables only through their LENGTHS: table indexes stay in range, the product search returns,
   the best-of loop never panics. Used by C03 / C08 / C04 / C09 as well, so that a changed table CELL
   does not disturb them. *)
From Coq Require Import Sorting.Permutation Sorting.Sorted.
From CKC Require Import Base.Prelude Base.Reflect Base.SortN Spec.Layout Spec.Poker.
From CKC Require Import Model.Card Model.Hands Model.Five Model.HandRank.
From CKC Require Import Proofs.CardBase Proofs.SortFacts Proofs.BitFacts Proofs.FiveFacts Proofs.PokerFacts
  Proofs.FipTotal.
From CKC Require Import Gen.Consts Gen.Tables Gen.Decks.
Open Scope N_scope.

(* ---- table totality (closed computations on the current data) -------------------------------- *)
Lemma flushes_total i : i < 7937 -> exists v, tget FLUSHES_T i = Ok v.
Proof.
  intros Hi.
  assert (H : forallb (fun i => is_ok (tget FLUSHES_T i)) (N_range 7937) = true) by (vm_compute; reflexivity).
  pose proof (forallb_N_range _ _ H i Hi) as Hk. cbv beta in Hk.
  destruct (tget FLUSHES_T i) as [v| |]; [exists v; reflexivity | discriminate | discriminate].
Qed.

Lemma unique5_total i : i < 7937 -> exists v, unique5 i = Ok v.
Proof.
  intros Hi.
  assert (H : forallb (fun i => is_ok (unique5 i)) (N_range 7937) = true) by (vm_compute; reflexivity).
  pose proof (forallb_N_range _ _ H i Hi) as Hk. cbv beta in Hk.
  destruct (unique5 i) as [v| |]; [exists v; reflexivity | discriminate | discriminate].
Qed.

(* ---- the product path is total for ANY five words ------------------------------------------- *)
Lemma not_unique_total chk ws : (length ws <= 5)%nat -> exists v, not_unique chk ws = Ok v.
Proof.
  intros HL. unfold not_unique. rewrite (multiply_primes_ok chk ws HL). cbn [bind].
  destruct (find_in_products_total chk (fold_left N.mul (map get_rank_prime ws) 1)) as [i [Hi Hlt]].
  rewrite Hi. cbn [bind].
  destruct (products_total i Hlt) as [p Hp]. rewrite Hp. cbn [bind].
  destruct (p =? _); [apply values_total, Hlt | eexists; reflexivity].
Qed.

(* ---- abstraction of card-or-blank words to codes 0..12 (rank) / 13 (blank) ------------------ *)
Definition code_of_word (w : N) : N := if w =? 0 then 13 else rank_of_word w.
Definition bit_of_code (k : N) : N := if k =? 13 then 0 else 2 ^ k.
Definition code_or (ks : list N) : N := fold_left N.lor (map bit_of_code ks) 0.
Definition CODES_DESC : list N := [13; 12; 11; 10; 9; 8; 7; 6; 5; 4; 3; 2; 1; 0].

Lemma code_fields w :
  CardOrBlank w -> N.shiftr w 16 = bit_of_code (code_of_word w) /\ code_of_word w < 14.
Proof.
  intros [->|H]; [split; reflexivity|].
  pose proof (real_card_fields w H) as F. cbv zeta in F. destruct F as (F1 & _ & _ & F4 & _).
  pose proof (RealCard_nonzero w H) as Hnz.
  unfold code_of_word, bit_of_code. destruct (N.eqb_spec w 0); [contradiction|].
  destruct (N.eqb_spec (rank_of_word w) 13); [lia|]. split; [exact F4 | lia].
Qed.

Lemma or_rank_bits_code ws :
  Forall CardOrBlank ws -> or_rank_bits ws = code_or (map code_of_word ws).
Proof.
  intros H. unfold or_rank_bits, or_bits, code_or. change CN_RANK_FLAG_SHIFT with 16.
  rewrite fold_lor_shiftr, N.shiftr_0_l, map_map. f_equal.
  apply map_ext_in. intros w Hw. rewrite Forall_forall in H. apply (code_fields w (H w Hw)).
Qed.

Lemma code_or_perm ks ks' : Permutation ks ks' -> code_or ks = code_or ks'.
Proof. intros H. unfold code_or. apply fold_lor_perm, Permutation_map, H. Qed.

Lemma CODES_DESC_sorted : StronglySorted (fun a b => b < a) CODES_DESC.
Proof. unfold CODES_DESC. repeat constructor; lia. Qed.

Lemma lt14_In_CODES k : k < 14 -> In k CODES_DESC.
Proof.
  intros H. apply memN_In. revert k H.
  apply (forallb_N_range (fun r => memN r CODES_DESC) 14). vm_compute. reflexivity.
Qed.

(* lifting a boolean sweep over the 8 568 sorted rank-or-blank multisets to every five codes in any order *)
Lemma code_sweep_all (P : list N -> bool) :
  (forall ks ks', Permutation ks ks' -> P ks = P ks') ->
  forallb P (multisets CODES_DESC 5) = true ->
  forall ks, length ks = 5%nat -> Forall (fun k => k < 14) ks -> P ks = true.
Proof.
  intros Pperm HS ks HL HB.
  pose proof (sort_desc_perm ks) as HP.
  assert (Hin : In (sort_desc ks) (multisets CODES_DESC 5)).
  { rewrite <- HL, <- (sort_desc_length ks). apply multisets_complete.
    - exact CODES_DESC_sorted.
    - apply sort_desc_sorted.
    - rewrite Forall_forall in *. intros x Hx. apply lt14_In_CODES, HB.
      apply (proj1 (sort_desc_In x ks)), Hx. }
  rewrite forallb_forall in HS. rewrite <- (Pperm _ _ HP). apply HS, Hin.
Qed.

Lemma code_multisets_count : N.of_nat (length (multisets CODES_DESC 5)) = 8568.
Proof. vm_compute. reflexivity. Qed.

(* THE REFLECTION (pure arithmetic, no table involved): the OR of at most five one-hot 13-bit fields is a
   valid index of the 7 937-entry tables *)
Definition range_ok (ks : list N) : bool := code_or ks <? 7937.
Lemma range_ok_sweep : forallb range_ok (multisets CODES_DESC 5) = true.
Proof. vm_cast_no_check (eq_refl true). Qed.

Definition Slots (n : nat) (ws : list N) : Prop := length ws = n /\ Forall CardOrBlank ws.

Lemma slots_b n ws :
  Nat.eqb (length ws) n && forallb (fun w => (w =? 0) || real_cardb w) ws = true -> Slots n ws.
Proof.
  intros H. apply andb_true_iff in H. destruct H as [H1 H2]. apply Nat.eqb_eq in H1.
  split; [exact H1|]. apply Forall_forall. intros w Hw. rewrite forallb_forall in H2.
  specialize (H2 w Hw). apply orb_true_iff in H2. destruct H2 as [H2|H2].
  - left. apply N.eqb_eq, H2.
  - right. apply real_cardb_spec, H2.
Qed.

Lemma codes_small ws : Forall CardOrBlank ws -> Forall (fun k => k < 14) (map code_of_word ws).
Proof.
  intros H. apply Forall_forall. intros k Hk. apply in_map_iff in Hk. destruct Hk as [w [<- Hw]].
  rewrite Forall_forall in H. apply (code_fields w (H w Hw)).
Qed.

Lemma index_in_range ws : Slots 5 ws -> or_rank_bits ws < 7937.
Proof.
  intros [HL HC]. rewrite (or_rank_bits_code ws HC).
  pose proof (code_sweep_all range_ok
                (fun ks ks' HP => f_equal (fun x => x <? 7937) (code_or_perm ks ks' HP)) range_ok_sweep
                (map code_of_word ws) ltac:(now rewrite map_length) (codes_small ws HC)) as H.
  apply N.ltb_lt in H. exact H.
Qed.

(* ---- five slots ------------------------------------------------------------------------------ *)
Lemma hrvh5_total chk ws : Slots 5 ws -> exists v, hrvh5 chk ws = Ok (v, ws).
Proof.
  intros HS. pose proof (index_in_range ws HS) as Hi. destruct HS as [HL HC].
  unfold hrvh5. cbv zeta.
  destruct (is_flush ws).
  - destruct (flushes_total _ Hi) as [v Hv]. rewrite Hv. exists v. reflexivity.
  - destruct (unique5_total _ Hi) as [u Hu]. rewrite Hu. cbn [bind].
    destruct (u =? 0).
    + destruct (not_unique_total chk ws ltac:(lia)) as [v Hv]. rewrite Hv. exists v. reflexivity.
    + exists u. reflexivity.
Qed.

(* ---- six and seven slots: the best-of loop never panics -------------------------------------- *)
Lemma idx_ok {A} (l : list A) i : (N.to_nat i < length l)%nat -> exists a, idx l i = Ok a /\ In a l.
Proof.
  intros H. unfold idx. destruct (nth_error l (N.to_nat i)) eqn:E.
  - exists a. split; [reflexivity | eapply nth_error_In; eauto].
  - apply nth_error_None in E. lia.
Qed.

Lemma select_ok ws perm :
  Forall (fun i => (N.to_nat i < length ws)%nat) perm ->
  exists hand, select ws perm = Ok hand /\ length hand = length perm /\ incl hand ws.
Proof.
  unfold select. induction perm as [|i perm IH]; intros H; cbn [mapM].
  - exists []. repeat split. intros x [].
  - inversion H as [|? ? Hi Hr]; subst. destruct (idx_ok ws i Hi) as [a [Ha Hin]].
    destruct (IH Hr) as [hand [Hh [Hlen Hincl]]]. rewrite Ha, Hh. cbn [bind].
    exists (a :: hand). repeat split.
    + cbn [length]. now rewrite Hlen.
    + intros x [<-|Hx]; [exact Hin | apply Hincl, Hx].
Qed.

Definition rows_ok (n : nat) (perms : list (list N)) : bool :=
  forallb (fun p => Nat.eqb (length p) 5 && forallb (fun i => N.to_nat i <? n)%nat p) perms.

Lemma rows_ok_current : rows_ok 6 SIX_PERMUTATIONS = true /\ rows_ok 7 SEVEN_PERMUTATIONS = true.
Proof. split; vm_compute; reflexivity. Qed.

Lemma best_fold_total chk ws perms acc :
  Forall CardOrBlank ws -> rows_ok (length ws) perms = true ->
  exists r, fold_left (best_step chk ws) perms (Ok acc) = Ok r.
Proof.
  intros HC. revert acc. induction perms as [|p perms IH]; intros acc HR; cbn [fold_left].
  - exists acc. reflexivity.
  - unfold rows_ok in HR. cbn [forallb] in HR. apply andb_true_iff in HR. destruct HR as [Hp HR].
    apply andb_true_iff in Hp. destruct Hp as [Hlen Hidx]. apply Nat.eqb_eq in Hlen.
    assert (Hsel : Forall (fun i => (N.to_nat i < length ws)%nat) p).
    { apply Forall_forall. intros i Hi. rewrite forallb_forall in Hidx. specialize (Hidx i Hi).
      apply Nat.ltb_lt in Hidx. exact Hidx. }
    destruct (select_ok ws p Hsel) as [hand [Hh [Hl Hincl]]].
    assert (HS : Slots 5 hand).
    { split; [lia|]. apply Forall_forall. intros x Hx. rewrite Forall_forall in HC. apply HC, Hincl, Hx. }
    destruct (hrvh5_total chk hand HS) as [v Hv].
    assert (Hstep : exists acc', best_step chk ws (Ok acc) p = Ok acc').
    { unfold best_step. destruct acc as [bh bhand]. cbn [bind]. rewrite Hh. cbn [bind].
      unfold hrv5, rmap. rewrite Hv. cbn [bind fst].
      destruct ((bh =? 0) || (negb (v =? 0) && (v <? bh))); eexists; reflexivity. }
    destruct Hstep as [acc' Hacc]. rewrite Hacc. apply IH. exact HR.
Qed.

Lemma hrvh_total chk n ws :
  (n = 5 \/ n = 6 \/ n = 7)%nat -> Slots n ws -> exists v h, hrvh chk ws = Ok (v, h).
Proof.
  intros Hn [HL HC]. unfold hrvh. rewrite HL.
  destruct Hn as [->|[->| ->]].
  - destruct (hrvh5_total chk ws (conj HL HC)) as [v Hv]. exists v, ws. exact Hv.
  - unfold hrvh_best.
    destruct (best_fold_total chk ws SIX_PERMUTATIONS (0, FIVE_DEFAULT) HC) as [[v h] Hr].
    { rewrite HL. apply rows_ok_current. }
    rewrite Hr. cbn [bind]. eexists _, _. reflexivity.
  - unfold hrvh_best.
    destruct (best_fold_total chk ws SEVEN_PERMUTATIONS (0, FIVE_DEFAULT) HC) as [[v h] Hr].
    { rewrite HL. apply rows_ok_current. }
    rewrite Hr. cbn [bind]. eexists _, _. reflexivity.
Qed.

(* every ranking entry point of every ranking size returns normally *)
Lemma rank_total chk n ws :
  (n = 5 \/ n = 6 \/ n = 7)%nat -> Slots n ws ->
  (exists v h, hrvh chk ws = Ok (v, h)) /\
  (exists v, hand_rank_value chk ws = Ok v) /\
  (exists r, rmap hr_from (hand_rank_value chk ws) = Ok r) /\
  (exists v, hand_rank_value_validated chk ws = Ok v) /\
  (exists r, rmap hr_from (hand_rank_value_validated chk ws) = Ok r) /\
  (n = 5%nat -> exists v, evaluate_five_cards chk ws = Ok v).
Proof.
  intros Hn HS. destruct (hrvh_total chk n ws Hn HS) as [v [h Hv]].
  assert (E : hand_rank_value chk ws = Ok v) by (unfold hand_rank_value, rmap; rewrite Hv; reflexivity).
  assert (V : exists x, hand_rank_value_validated chk ws = Ok x).
  { unfold hand_rank_value_validated. destruct (negb (is_valid ws)); eexists; [reflexivity | exact E]. }
  repeat split.
  - exists v, h. exact Hv.
  - exists v. exact E.
  - rewrite E. eexists. reflexivity.
  - exact V.
  - destruct V as [x Hx]. rewrite Hx. eexists. reflexivity.
  - intros _. exact V.
Qed.

