(* The best-of loop of Six / Seven (Model/Five.v best_step): for candidates that all rank normally
   with non-zero values, the fold returns the minimum value together with the FIRST candidate that
   attains it. General lemmas, no enumeration of hands. *)
From Coq Require Import Sorting.Permutation.
From CKC Require Import Base.Prelude Base.Reflect Base.SortN Base.Combs.
From CKC Require Import Model.Card Model.Hands Model.Five Proofs.CombFacts.
Open Scope N_scope.

(* the pure selection step on already evaluated candidates *)
Definition pick (acc c : N * list N) : N * list N :=
  let '(bv, bh) := acc in let '(v, h) := c in
  if (bv =? 0) || (negb (v =? 0) && (v <? bv)) then (v, h) else (bv, bh).
Definition best_of (cands : list (N * list N)) (acc : N * list N) : N * list N := fold_left pick cands acc.

(* the monadic fold of the model is the pure fold when every candidate selects and ranks normally *)
Lemma best_fold_pure chk ws perms cands acc :
  Forall2 (fun p c => select ws p = Ok (snd c) /\ hrv5 chk (snd c) = Ok (fst c)) perms cands ->
  fold_left (best_step chk ws) perms (Ok acc) = Ok (best_of cands acc).
Proof.
  intros H. revert acc. induction H as [|p c perms cands [Hs Hv] _ IH]; intros acc; cbn [fold_left].
  - reflexivity.
  - unfold best_of. cbn [fold_left]. fold (best_of cands (pick acc c)). rewrite <- IH. f_equal.
    unfold best_step. destruct acc as [bv bh]. destruct c as [v h]. cbn [fst snd] in *.
    cbn [bind]. rewrite Hs. cbn [bind]. rewrite Hv. cbn [bind]. unfold pick.
    destruct ((bv =? 0) || (negb (v =? 0) && (v <? bv))); reflexivity.
Qed.

(* invariant of the pure fold *)
Definition best_inv (seen : list (N * list N)) (acc : N * list N) : Prop :=
  match seen with
  | [] => fst acc = 0
  | _ => In acc seen /\ fst acc <> 0 /\ forall c, In c seen -> fst acc <= fst c
  end.

Lemma pick_inv seen acc c :
  fst c <> 0 -> (forall x, In x seen -> fst x <> 0) -> best_inv seen acc -> best_inv (seen ++ [c]) (pick acc c).
Proof.
  intros Hc Hseen Hinv. destruct acc as [bv bh]. destruct c as [v h]. cbn [fst] in *.
  unfold pick. destruct seen as [|s0 seen'].
  - cbn [best_inv fst] in Hinv. subst bv. cbn [app]. change (0 =? 0) with true. cbn [orb].
    cbn [best_inv]. repeat split.
    + left; reflexivity.
    + exact Hc.
    + intros x [<-|[]]. cbn [fst]. lia.
  - cbn [best_inv] in Hinv. destruct Hinv as [Hin [Hnz Hmin]]. cbn [fst] in *.
    destruct (N.eqb_spec bv 0) as [E|_]; [contradiction|]. cbn [orb].
    destruct (N.eqb_spec v 0) as [E|_]; [contradiction|]. cbn [negb andb].
    change ((s0 :: seen') ++ [(v, h)]) with (s0 :: (seen' ++ [(v, h)])).
    destruct (N.ltb_spec v bv) as [Hlt|Hge]; cbn [best_inv]; repeat split; cbn [fst].
    + right. apply in_or_app. right. left. reflexivity.
    + exact Hc.
    + intros x Hx. change (s0 :: seen' ++ [(v, h)]) with ((s0 :: seen') ++ [(v, h)]) in Hx.
      apply in_app_or in Hx. destruct Hx as [Hx|[<-|[]]]; [|cbn [fst]; lia].
      specialize (Hmin x Hx). lia.
    + change (s0 :: seen' ++ [(v, h)]) with ((s0 :: seen') ++ [(v, h)]). apply in_or_app. left. exact Hin.
    + exact Hnz.
    + intros x Hx. change (s0 :: seen' ++ [(v, h)]) with ((s0 :: seen') ++ [(v, h)]) in Hx.
      apply in_app_or in Hx. destruct Hx as [Hx|[<-|[]]]; [apply Hmin, Hx | cbn [fst]; lia].
Qed.

Lemma best_of_inv cands : forall seen acc,
  (forall x, In x (seen ++ cands) -> fst x <> 0) -> best_inv seen acc ->
  best_inv (seen ++ cands) (best_of cands acc).
Proof.
  induction cands as [|c cands IH]; intros seen acc Hnz Hinv.
  - rewrite app_nil_r. exact Hinv.
  - unfold best_of. cbn [fold_left]. fold (best_of cands (pick acc c)).
    replace (seen ++ c :: cands) with ((seen ++ [c]) ++ cands) by (rewrite <- app_assoc; reflexivity).
    apply IH.
    + intros x Hx. apply Hnz. rewrite <- app_assoc in Hx. exact Hx.
    + apply pick_inv; [| |exact Hinv].
      * apply Hnz. apply in_or_app. right. left. reflexivity.
      * intros x Hx. apply Hnz. apply in_or_app. left. exact Hx.
Qed.

(* THE RESULT: a non-empty list of candidates with non-zero values: the loop returns a candidate of
   minimal value *)
Lemma best_of_min cands d :
  cands <> [] -> (forall x, In x cands -> fst x <> 0) ->
  let r := best_of cands (0, d) in
  In r cands /\ fst r <> 0 /\ forall c, In c cands -> fst r <= fst c.
Proof.
  intros Hne Hnz r.
  pose proof (best_of_inv cands [] (0, d) Hnz eq_refl) as H. cbn [app] in H.
  destruct cands as [|c cands]; [congruence|]. exact H.
Qed.

(* ---- selecting slots ------------------------------------------------------------------------- *)
Lemma idx_nth (ws : list N) i : (N.to_nat i < length ws)%nat -> idx ws i = Ok (nthN ws i 0).
Proof.
  intros H. unfold idx, nthN. destruct (nth_error ws (N.to_nat i)) eqn:E.
  - now rewrite (nth_error_nth _ _ _ E).
  - apply nth_error_None in E. lia.
Qed.

Lemma select_map ws perm :
  Forall (fun i => (N.to_nat i < length ws)%nat) perm ->
  select ws perm = Ok (map (fun i => nthN ws i 0) perm).
Proof.
  unfold select. induction perm as [|i perm IH]; intros H; cbn [mapM map]; [reflexivity|].
  inversion H as [|? ? Hi Hr]; subst. rewrite (idx_nth ws i Hi), (IH Hr). reflexivity.
Qed.

Lemma select_panic ws perm :
  Exists (fun i => (length ws <= N.to_nat i)%nat) perm -> select ws perm = Panic.
Proof.
  unfold select. induction perm as [|i perm IH]; intros H; [inversion H|]. cbn [mapM].
  unfold idx at 1. destruct (nth_error ws (N.to_nat i)) eqn:E.
  - cbn [bind]. inversion H as [? ? Hi|? ? Hr]; subst.
    + assert (nth_error ws (N.to_nat i) = None) by (apply nth_error_None; exact Hi). congruence.
    + rewrite (IH Hr). reflexivity.
  - reflexivity.
Qed.

(* a list is the image of its index range *)
Lemma map_nth_range (ws : list N) : map (fun i => nthN ws i 0) (N_range (lenN ws)) = ws.
Proof.
  unfold N_range, lenN, nthN. rewrite Nat2N.id, map_map.
  erewrite map_ext by (intros a; rewrite Nat2N.id; reflexivity).
  induction ws as [|w ws IH]; [reflexivity|].
  cbn [length seq map nth]. f_equal. rewrite <- seq_shift, map_map. exact IH.
Qed.

(* the five-card sub-hands of ws in list position order are the images of the index combinations *)
Lemma combs_select (ws : list N) k :
  combs ws k = map (map (fun i => nthN ws i 0)) (combs (N_range (lenN ws)) k).
Proof. rewrite <- combs_map, map_nth_range. reflexivity. Qed.
