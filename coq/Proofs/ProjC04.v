(* The `vrank` projection (Model/Proj.v), for ANY words in five, six or seven slots, is one of two constants,
   chosen by validity alone: by C04's validated-ranking lemma. *)
From CKC Require Import Base.Prelude Spec.Layout.
From CKC Require Import Model.Hands Model.Five Model.Proj Proofs.ValidFacts Proofs.FreeFacts Proofs.C04.
Open Scope N_scope.

Lemma proj_vrank_const chk n ws :
  (n = 5 \/ n = 6 \/ n = 7)%nat -> length ws = n ->
  proj_vrank chk ws =
    (if is_valid ws then [Ok true; Ok false; Ok true; Ok true] else [Ok false; Ok true; Ok true])
    ++ (if Nat.eqb n 5 then [Ok true] else []).
Proof.
  intros Hn HL. destruct (validated_ok chk n ws Hn HL) as [H0 H1].
  unfold proj_vrank. cbv zeta. unfold evaluate_five_cards. rewrite HL.
  destruct (is_valid ws) eqn:V.
  - destruct (H1 eq_refl) as (v & A & B & NZ). rewrite A, B. cbn [rmap bind eqr app].
    rewrite N.eqb_refl. apply N.eqb_neq in NZ. rewrite NZ.
    destruct (Nat.eqb n 5); reflexivity.
  - rewrite (H0 eq_refl). cbn [rmap bind eqr app]. destruct (Nat.eqb n 5); reflexivity.
Qed.

(* on distinct real cards: the `1 0 1 1` line *)
Lemma proj_vrank_hand chk n ws :
  (n = 5 \/ n = 6 \/ n = 7)%nat -> HandN n ws ->
  proj_vrank chk ws = [Ok true; Ok false; Ok true; Ok true] ++ (if Nat.eqb n 5 then [Ok true] else []).
Proof.
  intros Hn (HL & HR & HN). rewrite (proj_vrank_const chk n ws Hn HL).
  rewrite (proj2 (is_valid_spec ws) (conj HR HN)). reflexivity.
Qed.
