(* C04 — validated ranking yields 0 exactly for non-hands, for any words. *)
From Coq Require Import Sorting.Permutation.
From CKC Require Import Base.Prelude Base.Reflect Base.SortN Spec.Layout Spec.Poker.
From CKC Require Import Model.Card Model.Hands Model.Five Model.HandRank.
From CKC Require Import Proofs.CardBase Proofs.SortFacts Proofs.ValidFacts Proofs.FiveFacts Proofs.HandFacts Proofs.NonZero Proofs.GenericTable.
From CKC Require Import Gen.Consts.
Open Scope N_scope.

Lemma unique_small ws : (2 <= length ws <= 5)%nat -> (are_unique ws = true <-> NoDup ws).
Proof. apply are_unique_small. Qed.

Lemma unique_big ws :
  (length ws = 6 \/ length ws = 7)%nat ->
  (are_unique ws = true <-> NoDup ws /\ Forall (fun x => x < U32MAX) ws).
Proof. intros H. apply are_unique_big. lia. Qed.

(* validated ranking: ANY words in the slots. Needs from the lookup tables only that five distinct real
   cards never rank 0 (Proofs/NonZero.v), not which value they get. *)
Lemma model_ranks chk : ranks_with chk (model_val chk).
Proof. intros c H. apply hrv5_nonzero, H. Qed.

Lemma validated_ok chk n ws :
  (n = 5 \/ n = 6 \/ n = 7)%nat -> length ws = n ->
  (is_valid ws = false -> hand_rank_value_validated chk ws = Ok 0) /\
  (is_valid ws = true ->
     exists v, hand_rank_value_validated chk ws = Ok v /\ hand_rank_value chk ws = Ok v /\ v <> 0).
Proof.
  intros Hn HL. split.
  - intros Hv. unfold hand_rank_value_validated. rewrite Hv. reflexivity.
  - intros Hv. pose proof (proj1 (is_valid_spec ws) Hv) as [HR HN].
    destruct Hn as [->|Hn].
    + destruct (hrv5_nonzero chk ws (conj HL (conj HR HN))) as [E NZ].
      assert (E1 : hand_rank_value chk ws = Ok (model_val chk ws)).
      { unfold hand_rank_value, hrvh. rewrite HL. exact E. }
      exists (model_val chk ws). split; [|split; [exact E1 | exact NZ]].
      unfold hand_rank_value_validated. rewrite Hv. exact E1.
    + destruct (value_table_ok chk _ n ws (model_ranks chk) Hn (conj HL (conj HR HN))) as (A & _ & _ & B & C & _).
      eexists. split; [exact B|]. split; [exact A | exact C].
Qed.

Lemma validated_zero_iff chk n ws :
  (n = 5 \/ n = 6 \/ n = 7)%nat -> length ws = n ->
  exists v, hand_rank_value_validated chk ws = Ok v /\ (v = 0 <-> is_valid ws = false).
Proof.
  intros Hn HL. destruct (validated_ok chk n ws Hn HL) as [H0 H1].
  destruct (is_valid ws) eqn:E.
  - destruct (H1 eq_refl) as (v & A & _ & B). exists v. split; [exact A|]. split; [intros ->; congruence | discriminate].
  - exists 0. split; [apply H0; reflexivity | tauto].
Qed.
