(* C19 — hand containers store and return exactly the words put into them.

   Model/Container.v: the state of an n-slot container is the list of its n words in slot order
   (tuple field 0 of Two .. Seven).  In that model the readers first() .. seventh() are [nth i],
   to_arr() and iter() are the list itself, so "reading back returns the given words in the given
   slots" is the statement about the state proved here.  The reference is a PLAIN ARRAY written
   independently as a function nat -> N with functional update.  The refinement is proved by
   induction over the whole history of constructor / setter calls. *)
From CKC Require Import Base.Prelude Model.Container Model.Hands Model.Five.
Open Scope N_scope.

(* ---- set_nth ----------------------------------------------------------------------------------- *)
Lemma set_nth_length i w l : length (set_nth i w l) = length l.
Proof.
  revert i. induction l as [|x r IH]; intros [|j]; cbn [set_nth length]; try reflexivity.
  now rewrite IH.
Qed.

Lemma set_nth_same i w l : (i < length l)%nat -> nth i (set_nth i w l) 0 = w.
Proof.
  revert i. induction l as [|x r IH]; intros [|j] H; cbn [length] in H; cbn [set_nth nth];
    try lia; try reflexivity.
  apply IH. lia.
Qed.

Lemma set_nth_other i j w l : j <> i -> nth j (set_nth i w l) 0 = nth j l 0.
Proof.
  revert i j. induction l as [|x r IH]; intros [|i] [|j] H; cbn [set_nth nth]; try reflexivity; try lia.
  apply IH. lia.
Qed.

Lemma set_nth_ok i w l :
  (i < length l)%nat ->
  nth i (set_nth i w l) 0 = w /\
  (forall j, j <> i -> nth j (set_nth i w l) 0 = nth j l 0) /\
  length (set_nth i w l) = length l.
Proof.
  intros H. repeat split; [now apply set_nth_same | intros j Hj; now apply set_nth_other | apply set_nth_length].
Qed.

(* the familiar closed form *)
Lemma set_nth_firstn_skipn i w l :
  (i < length l)%nat -> set_nth i w l = firstn i l ++ w :: skipn (S i) l.
Proof.
  revert i. induction l as [|x r IH]; intros [|j] H; cbn [length] in H; try lia.
  - reflexivity.
  - cbn [set_nth firstn skipn app]. f_equal. apply IH. lia.
Qed.

(* out of range: nothing happens (no setter of the crate is out of range; recorded for completeness) *)
Lemma set_nth_out i w l : (length l <= i)%nat -> set_nth i w l = l.
Proof.
  revert i. induction l as [|x r IH]; intros [|j] H; cbn [length] in H; cbn [set_nth]; try reflexivity; try lia.
  f_equal. apply IH. lia.
Qed.

(* ---- the reference: a plain array ---------------------------------------------------------------- *)
Definition array := nat -> N.
Definition array_upd (a : array) (i : nat) (w : N) : array := fun k => if Nat.eqb k i then w else a k.
Definition array_of_list (ws : list N) : array := fun k => nth k ws 0.

Definition array_step (a : array) (o : op) : array :=
  match o with
  | OpDefault => fun _ => 0
  | OpArr ws => array_of_list ws
  | OpNew ws => array_of_list ws
  | OpSet i w => array_upd a i w
  end.

Fixpoint array_run (a : array) (ops : list op) : list array :=
  match ops with
  | [] => []
  | o :: r => let a' := array_step a o in a' :: array_run a' r
  end.

(* well-formed operations of an n-slot container *)
Definition wf_op (n : nat) (o : op) : Prop :=
  match o with
  | OpDefault => True
  | OpArr ws => length ws = n
  | OpNew ws => length ws = n
  | OpSet i _ => (i < n)%nat
  end.

(* the container state [st] represents the array [a] on the n slots *)
Definition represents (n : nat) (st : list N) (a : array) : Prop :=
  length st = n /\ forall j, (j < n)%nat -> nth j st 0 = a j.

Lemma step_refines n st a o :
  represents n st a -> wf_op n o -> represents n (step n st o) (array_step a o).
Proof.
  intros [HL HR] Hwf. destruct o as [|ws|ws|i w]; cbn [step array_step wf_op] in *.
  - split; [apply repeat_length|]. intros j Hj.
    assert (H : In (nth j (repeat 0 n) 0) (repeat 0 n)) by (apply nth_In; rewrite repeat_length; exact Hj).
    apply repeat_spec in H. exact H.
  - split; [exact Hwf | reflexivity].
  - split; [exact Hwf | reflexivity].
  - split; [rewrite set_nth_length; exact HL|]. intros j Hj. unfold array_upd.
    destruct (Nat.eqb_spec j i) as [->|Hne].
    + apply set_nth_same. lia.
    + rewrite (set_nth_other _ _ _ _ Hne). apply HR, Hj.
Qed.

Lemma run_refines n ops : forall st a,
  represents n st a -> Forall (wf_op n) ops -> Forall2 (represents n) (run n st ops) (array_run a ops).
Proof.
  induction ops as [|o r IH]; intros st a HR Hwf; cbn [run array_run]; [constructor|].
  inversion Hwf as [|? ? Ho Hr]; subst. cbv zeta.
  pose proof (step_refines n st a o HR Ho) as H1.
  constructor; [exact H1 | apply IH; assumption].
Qed.

Lemma represents_start st : represents (length st) st (array_of_list st).
Proof. split; reflexivity. Qed.

Lemma run_length n st ops : length (run n st ops) = length ops.
Proof. revert st. induction ops as [|o r IH]; intros st; cbn [run length]; [reflexivity|]. now rewrite IH. Qed.
Lemma array_run_length a ops : length (array_run a ops) = length ops.
Proof. revert a. induction ops as [|o r IH]; intros a; cbn [array_run length]; [reflexivity|]. now rewrite IH. Qed.

Lemma Forall2_nth {A B} (R : A -> B -> Prop) l l' da db :
  Forall2 R l l' -> forall i, (i < length l)%nat -> R (nth i l da) (nth i l' db).
Proof.
  induction 1 as [|x y l l' Hxy _ IH]; intros i Hi; cbn [length] in Hi; [lia|].
  destruct i as [|i]; cbn [nth]; [exact Hxy | apply IH; lia].
Qed.

(* the statement of the property: from any n-slot start, after ANY history of well-formed
   constructor and setter calls, the state after the i-th call has n slots and, read at every slot,
   equals the plain array that received the same writes *)
Lemma refines n st ops :
  length st = n -> Forall (wf_op n) ops ->
  length (run n st ops) = length ops /\ length (array_run (array_of_list st) ops) = length ops /\
  forall i, (i < length ops)%nat ->
    length (nth i (run n st ops) []) = n /\
    forall j, (j < n)%nat -> nth j (nth i (run n st ops) []) 0 = nth i (array_run (array_of_list st) ops) (fun _ => 0) j.
Proof.
  intros HL Hwf. split; [apply run_length|]. split; [apply array_run_length|].
  intros i Hi. subst n.
  pose proof (run_refines _ ops st _ (represents_start st) Hwf) as H.
  apply (Forall2_nth _ _ _ [] (fun _ => 0) H i). rewrite run_length. exact Hi.
Qed.

(* each setter changes only the slot it names; each constructor stores its arguments in order *)
Lemma step_set n st i w :
  (i < length st)%nat ->
  nth i (step n st (OpSet i w)) 0 = w /\
  (forall j, j <> i -> nth j (step n st (OpSet i w)) 0 = nth j st 0) /\
  length (step n st (OpSet i w)) = length st.
Proof. apply set_nth_ok. Qed.

Lemma step_construct n st ws :
  step n st (OpArr ws) = ws /\ step n st (OpNew ws) = ws /\
  step n st OpDefault = repeat 0 n /\ length (repeat 0 n) = n /\ (forall j, nth j (repeat 0 n) 0 = 0).
Proof.
  repeat split; [apply repeat_length|]. intros j.
  destruct (Nat.lt_ge_cases j n) as [Hj|Hj].
  - assert (H : In (nth j (repeat 0 n) 0) (repeat 0 n)) by (apply nth_In; rewrite repeat_length; exact Hj).
    apply repeat_spec in H. exact H.
  - apply nth_overflow. rewrite repeat_length. exact Hj.
Qed.

(* the state after a whole history, [fold_left (step n) ops st], is the last element of [run] *)
Lemma run_snoc n st ops o :
  run n st (ops ++ [o]) = run n st ops ++ [step n (fold_left (step n) ops st) o].
Proof.
  revert st. induction ops as [|o' r IH]; intros st; cbn [app run fold_left]; [reflexivity|].
  cbv zeta. rewrite IH. reflexivity.
Qed.

Lemma array_run_snoc a ops o :
  array_run a (ops ++ [o]) = array_run a ops ++ [array_step (fold_left array_step ops a) o].
Proof.
  revert a. induction ops as [|o' r IH]; intros a; cbn [app array_run fold_left]; [reflexivity|].
  cbv zeta. rewrite IH. reflexivity.
Qed.

Lemma final_refines n ops : forall st a,
  represents n st a -> Forall (wf_op n) ops ->
  represents n (fold_left (step n) ops st) (fold_left array_step ops a).
Proof.
  induction ops as [|o r IH]; intros st a HR Hwf; cbn [fold_left]; [exact HR|].
  inversion Hwf as [|? ? Ho Hr]; subst. apply IH; [apply step_refines; assumption | exact Hr].
Qed.

(* construct from an array (or by the slot constructor), apply any setters, read back: slot j of
   the container (accessor j, to_arr()[j], the j-th item of iter()) is slot j of the plain array *)
Lemma writes_then_reads (ws : list N) ops :
  Forall (wf_op (length ws)) ops ->
  length (fold_left (step (length ws)) ops ws) = length ws /\
  forall j, (j < length ws)%nat ->
    nth j (fold_left (step (length ws)) ops ws) 0 = fold_left array_step ops (array_of_list ws) j.
Proof. intros Hwf. exact (final_refines _ ops ws _ (represents_start ws) Hwf). Qed.

(* ---- slot-index selection (Permutator::five_from_permutation) ------------------------------------ *)
Lemma idx_in {A} (l : list A) i d : i < lenN l -> idx l i = Ok (nthN l i d).
Proof.
  unfold lenN, idx, nthN. intros H.
  destruct (nth_error l (N.to_nat i)) eqn:E.
  - now rewrite (nth_error_nth _ _ _ E).
  - apply nth_error_None in E. lia.
Qed.

Lemma idx_out {A} (l : list A) i : lenN l <= i -> idx l i = Panic.
Proof.
  unfold lenN, idx. intros H.
  destruct (nth_error l (N.to_nat i)) eqn:E; [|reflexivity].
  assert (nth_error l (N.to_nat i) <> None) by congruence.
  apply nth_error_Some in H0. lia.
Qed.

Lemma select_in ws perm :
  Forall (fun i => i < lenN ws) perm -> select ws perm = Ok (map (fun i => nthN ws i 0) perm).
Proof.
  unfold select. induction 1 as [|i r Hi _ IH]; cbn [mapM map]; [reflexivity|].
  rewrite (idx_in ws i 0 Hi). cbn [bind]. rewrite IH. reflexivity.
Qed.

Lemma select_out ws perm :
  Exists (fun i => lenN ws <= i) perm -> select ws perm = Panic.
Proof.
  unfold select. induction perm as [|i r IH]; intros H; [inversion H|]. cbn [mapM].
  destruct (N.lt_ge_cases i (lenN ws)) as [Hi|Hi].
  - rewrite (idx_in ws i 0 Hi). cbn [bind].
    inversion H as [? ? H1|? ? H1]; subst; [lia|]. rewrite (IH H1). reflexivity.
  - rewrite (idx_out ws i Hi). reflexivity.
Qed.

Lemma select_ok ws perm :
  (Forall (fun i => i < lenN ws) perm -> select ws perm = Ok (map (fun i => nth (N.to_nat i) ws 0) perm)) /\
  (~ Forall (fun i => i < lenN ws) perm -> select ws perm = Panic).
Proof.
  split; [apply select_in|]. intros H. apply select_out.
  induction perm as [|i r IH]; [exfalso; apply H; constructor|].
  destruct (N.lt_ge_cases i (lenN ws)) as [Hi|Hi]; [|left; exact Hi].
  right. apply IH. intros HF. apply H. constructor; assumption.
Qed.

Lemma select_never_diverges ws perm : select ws perm <> Diverge.
Proof.
  unfold select. induction perm as [|i r IH]; cbn [mapM]; [discriminate|].
  unfold idx at 1. destruct (nth_error ws (N.to_nat i)); cbn [bind]; [|discriminate].
  destruct (mapM (idx ws) r); cbn [bind]; try discriminate. congruence.
Qed.

(* ---- composite constructors ------------------------------------------------------------------------ *)
(* Six::from_1_and_2_and_3(one, two, three) and Seven::new(two, five) read their parts through the
   parts' accessors and store them in order: the flattened argument list of [OpNew] *)
Lemma six_from_parts one two three :
  length two = 2%nat -> length three = 3%nat ->
  [one] ++ two ++ three =
  [one; nth 0 two 0; nth 1 two 0; nth 0 three 0; nth 1 three 0; nth 2 three 0] /\
  length ([one] ++ two ++ three) = 6%nat.
Proof.
  intros H2 H3. destruct two as [|a [|b [|? ?]]]; try discriminate.
  destruct three as [|c [|d [|e [|? ?]]]]; try discriminate. split; reflexivity.
Qed.

Lemma seven_from_parts two five :
  length two = 2%nat -> length five = 5%nat ->
  two ++ five =
  [nth 0 two 0; nth 1 two 0; nth 0 five 0; nth 1 five 0; nth 2 five 0; nth 3 five 0; nth 4 five 0] /\
  length (two ++ five) = 7%nat.
Proof.
  intros H2 H5. destruct two as [|a [|b [|? ?]]]; try discriminate.
  destruct five as [|c [|d [|e [|f [|g [|? ?]]]]]]; try discriminate. split; reflexivity.
Qed.

Lemma array_step_def a o k :
  array_step a o k =
  match o with
  | OpDefault => 0
  | OpArr ws => nth k ws 0
  | OpNew ws => nth k ws 0
  | OpSet i w => if Nat.eqb k i then w else a k
  end.
Proof. destruct o; reflexivity. Qed.
