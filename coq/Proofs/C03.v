(* C03 — the reported best hand is a sorted five-card witness drawn from the input; free of lookup-table contents. *)
From Coq Require Import Sorting.Permutation Sorting.Sorted.
From CKC Require Import Base.Prelude Base.Reflect Base.SortN Spec.Layout Spec.Poker.
From CKC Require Import Model.Card Model.Hands Model.Five Model.HandRank.
From CKC Require Import Proofs.CardBase Proofs.SortFacts Proofs.BitFacts Proofs.FiveFacts Proofs.ShapeFacts
  Proofs.BestFacts Proofs.Total Proofs.FreeFacts Proofs.TablesValid.
From CKC Require Import Gen.Consts Gen.Decks.
Open Scope N_scope.

(* ---- C03, free of table contents ------------------------------------------------------------------------ *)
Lemma witness_free chk n ws :
  (n = 6 \/ n = 7)%nat -> HandN n ws ->
  exists v h,
    hrvh chk ws = Ok (v, h) /\ hand_rank_value chk ws = Ok v /\
    length h = 5%nat /\ NoDup h /\ incl h ws /\ noninc h /\ Forall RealCard h /\
    hrvh chk h = Ok (v, h) /\ hand_rank_value chk h = Ok v.
Proof.
  intros Hn H. pose proof H as (HL & HR & HN). destruct tables_valid as [T6 T7].
  set (perms := if Nat.eqb n 6 then SIX_PERMUTATIONS else SEVEN_PERMUTATIONS).
  assert (T : valid_table n perms) by (destruct Hn as [->| ->]; assumption).
  assert (Eh : hrvh chk ws = hrvh_best chk perms ws).
  { unfold hrvh. rewrite HL. destruct Hn as [->| ->]; reflexivity. }
  destruct T as [PNE TR].
  (* every row selects five real cards and ranks normally (C05's totality, no table contents) *)
  destruct (Forall2_exists (fun p c => select ws p = Ok (snd c) /\ hrv5 chk (snd c) = Ok (fst c)) perms) as [cands HC].
  { intros p Hp. destruct (sel_facts n ws p H (TR p Hp)) as (A & B & _ & _ & E).
    assert (HS : Slots 5 (sel ws p)).
    { split; [exact A|]. eapply Forall_impl; [|exact B]. intros x Hx. right. exact Hx. }
    destruct (hrvh5_total chk (sel ws p) HS) as [v Hv].
    exists (v, sel ws p). cbn [fst snd]. split; [exact E|]. unfold hrv5, rmap. rewrite Hv. reflexivity. }
  assert (Hne : cands <> []).
  { intros ->. inversion HC. subst. congruence. }
  pose proof (best_fold_pure chk ws perms cands (0, FIVE_DEFAULT) HC) as HF.
  pose proof (best_of_in cands FIVE_DEFAULT Hne) as Hin.
  destruct (best_of cands (0, FIVE_DEFAULT)) as [v h].
  destruct (Forall2_In_r _ _ _ _ HC Hin) as [p [Hp [Hsel Hval]]]. cbn [fst snd] in Hsel, Hval.
  destruct (sel_facts n ws p H (TR p Hp)) as (A & B & C & D & E).
  assert (Eq : h = sel ws p) by congruence. subst h.
  set (h := sel ws p) in *.
  assert (Er : hrvh chk ws = Ok (v, sort_desc h)).
  { rewrite Eh. unfold hrvh_best. rewrite HF. reflexivity. }
  pose proof (sort_desc_perm h) as HP.
  assert (L' : length (sort_desc h) = 5%nat) by (rewrite sort_desc_length; exact A).
  assert (V' : hrv5 chk (sort_desc h) = Ok v).
  { rewrite <- Hval. apply hrv5_perm; [exact L' | exact HP]. }
  assert (W : hrvh chk (sort_desc h) = Ok (v, sort_desc h)).
  { unfold hrvh. rewrite L'. apply hrvh5_of_hrv5, V'. }
  exists v, (sort_desc h). repeat split.
  - exact Er.
  - unfold hand_rank_value, rmap. rewrite Er. reflexivity.
  - exact L'.
  - eapply Permutation_NoDup; [symmetry; exact HP | exact C].
  - intros x Hx. apply (proj1 (sort_desc_In x h)) in Hx. apply D, Hx.
  - apply sort_desc_sorted.
  - eapply Permutation_Forall; [symmetry; exact HP | exact B].
  - exact W.
  - unfold hand_rank_value, rmap. rewrite W. reflexivity.
Qed.

Lemma five_identity chk ws v h : length ws = 5%nat -> hrvh chk ws = Ok (v, h) -> h = ws.
Proof.
  intros HL H. unfold hrvh in H. rewrite HL in H. unfold hrvh5 in H.
  match type of H with bind ?X _ = _ => destruct X; cbn [bind] in H; try discriminate H end.
  now injection H.
Qed.

Lemma five_returns chk ws : length ws = 5%nat -> Forall RealCard ws -> exists v, hrvh chk ws = Ok (v, ws).
Proof.
  intros HL HR. unfold hrvh. rewrite HL. apply hrvh5_total. split; [exact HL|].
  eapply Forall_impl; [|exact HR]. intros x Hx. right. exact Hx.
Qed.

