(* C11 — numeric card order is rank-then-suit; sorting is a descending rearrangement.

   Part 1 (order) is a GENERAL arithmetic proof on the documented layout (Spec/Layout.v): the four
   fields of [layout r s] occupy disjoint bit ranges, so the word is the SUM of its fields
   ([layout_sum]); the order then follows from monotonicity of powers of two.  No sweep over the
   52 x 52 pairs is used.

   Part 2 (sorting): sort() and sort_in_place() of Two .. Seven are both "sort_unstable, then
   reverse" on the same array (sort() copies the array and calls sort_in_place() on the copy), so
   both are the single model function [Base.SortN.sort_desc]; the statement is for lists of ANY
   length holding ANY words.  [sort_unstable] is modelled by its specification; the uniqueness
   lemma shows that the result is determined by the specification alone. *)
From Coq Require Import Sorting.Permutation Sorting.Sorted.
From CKC Require Import Base.Prelude Base.Reflect Base.SortN Spec.Layout Proofs.SortFacts.
Open Scope N_scope.

(* ---- disjoint bit fields add ------------------------------------------------------------- *)
Lemma lor_disjoint_add a b : N.land a b = 0 -> N.lor a b = a + b.
Proof.
  intros H. rewrite <- (N.lxor_lor _ _ H). symmetry. apply N.add_nocarry_lxor. exact H.
Qed.

Lemma land_mul_pow2_small a b k : b < 2 ^ k -> N.land (a * 2 ^ k) b = 0.
Proof.
  intros Hb. apply N.bits_inj. intro i. rewrite N.land_spec, N.bits_0.
  destruct (N.lt_ge_cases i k) as [Hi|Hi].
  - rewrite (N.mul_pow2_bits_low _ _ _ Hi). reflexivity.
  - rewrite <- (N.mod_small b (2 ^ k) Hb), (N.mod_pow2_bits_high _ _ _ Hi). apply andb_false_r.
Qed.

Lemma lor_mul_pow2_add a b k : b < 2 ^ k -> N.lor (a * 2 ^ k) b = a * 2 ^ k + b.
Proof. intros H. apply lor_disjoint_add, land_mul_pow2_small, H. Qed.

Lemma lor_pow2_add b k : b < 2 ^ k -> N.lor (2 ^ k) b = 2 ^ k + b.
Proof. intros H. rewrite <- (N.mul_1_l (2 ^ k)). apply lor_mul_pow2_add, H. Qed.

Lemma pow2_le_mono a b : a <= b -> 2 ^ a <= 2 ^ b.
Proof. intros H. apply N.pow_le_mono_r; [discriminate | exact H]. Qed.

Lemma pow2_lt_mono a b : a < b -> 2 ^ a < 2 ^ b.
Proof. intros H. apply N.pow_lt_mono_r; [reflexivity | exact H]. Qed.

(* ---- the layout word is the sum of its fields ------------------------------------------------ *)
Lemma prime_of_small r : prime_of r < 64.
Proof.
  unfold prime_of, nthN.
  assert (HF : Forall (fun p => p < 64) PRIMES) by (repeat constructor).
  destruct (Nat.lt_ge_cases (N.to_nat r) (length PRIMES)) as [Hlt|Hge].
  - rewrite Forall_forall in HF. apply HF, nth_In, Hlt.
  - rewrite (nth_overflow _ _ Hge). reflexivity.
Qed.

Definition low_fields (r s : N) : N := 2 ^ (12 + s) + (r * 2 ^ 8 + prime_of r).

Lemma layout_sum r s : r < 13 -> s < 4 -> layout r s = 2 ^ (16 + r) + low_fields r s.
Proof.
  intros Hr Hs. unfold layout, low_fields.
  rewrite !N.shiftl_1_l, N.shiftl_mul_pow2, <- !N.lor_assoc.
  pose proof (prime_of_small r) as Hp.
  assert (H8 : prime_of r < 2 ^ 8) by lia.
  rewrite (lor_mul_pow2_add r _ 8 H8).
  assert (H12 : r * 2 ^ 8 + prime_of r < 2 ^ (12 + s)).
  { apply N.lt_le_trans with (2 ^ 12); [lia | apply pow2_le_mono; lia]. }
  rewrite (lor_pow2_add _ _ H12).
  assert (H15 : 2 ^ (12 + s) <= 2 ^ 15) by (apply pow2_le_mono; lia).
  assert (H16 : 2 ^ (12 + s) + (r * 2 ^ 8 + prime_of r) < 2 ^ (16 + r)).
  { apply N.lt_le_trans with (2 ^ 16); [lia | apply pow2_le_mono; lia]. }
  rewrite (lor_pow2_add _ _ H16). reflexivity.
Qed.

Lemma low_fields_bound r s : r < 13 -> s < 4 -> low_fields r s < 2 ^ 16.
Proof.
  intros Hr Hs. unfold low_fields. pose proof (prime_of_small r) as Hp.
  assert (H15 : 2 ^ (12 + s) <= 2 ^ 15) by (apply pow2_le_mono; lia).
  lia.
Qed.

(* ---- order ----------------------------------------------------------------------------------- *)
Lemma layout_pos r s : r < 13 -> s < 4 -> 0 < layout r s.
Proof.
  intros Hr Hs. rewrite (layout_sum r s Hr Hs).
  assert (0 < 2 ^ (16 + r)) by (apply N.neq_0_lt_0, N.pow_nonzero; discriminate). lia.
Qed.

Lemma layout_lt_rank r s r' s' :
  r < 13 -> s < 4 -> r' < 13 -> s' < 4 -> r < r' -> layout r s < layout r' s'.
Proof.
  intros Hr Hs Hr' Hs' Hlt.
  rewrite (layout_sum r s Hr Hs), (layout_sum r' s' Hr' Hs').
  pose proof (low_fields_bound r s Hr Hs) as Hb.
  assert (H1 : 2 ^ 16 <= 2 ^ (16 + r)) by (apply pow2_le_mono; lia).
  assert (H2 : 2 ^ (N.succ (16 + r)) <= 2 ^ (16 + r')) by (apply pow2_le_mono; lia).
  rewrite N.pow_succ_r' in H2. lia.
Qed.

Lemma layout_lt_suit r s s' :
  r < 13 -> s < 4 -> s' < 4 -> s < s' -> layout r s < layout r s'.
Proof.
  intros Hr Hs Hs' Hlt.
  rewrite (layout_sum r s Hr Hs), (layout_sum r s' Hr Hs'). unfold low_fields.
  assert (H : 2 ^ (12 + s) < 2 ^ (12 + s')) by (apply pow2_lt_mono; lia). lia.
Qed.

Definition lex_lt (r s r' s' : N) : Prop := r < r' \/ (r = r' /\ s < s').

Lemma layout_lex_lt r s r' s' :
  r < 13 -> s < 4 -> r' < 13 -> s' < 4 -> lex_lt r s r' s' -> layout r s < layout r' s'.
Proof.
  intros Hr Hs Hr' Hs' [H|[-> H]]; [now apply layout_lt_rank | now apply layout_lt_suit].
Qed.

Lemma order_ok r s r' s' :
  r < 13 -> s < 4 -> r' < 13 -> s' < 4 ->
  (layout r s < layout r' s' <-> r < r' \/ (r = r' /\ s < s')).
Proof.
  intros Hr Hs Hr' Hs'. split; [|now apply layout_lex_lt].
  intros Hlt.
  destruct (N.lt_trichotomy r r') as [H|[H|H]]; [left; exact H| |].
  - subst r'. destruct (N.lt_trichotomy s s') as [H|[H|H]]; [right; now split| |].
    + subst s'. lia.
    + pose proof (layout_lt_suit r s' s Hr Hs' Hs H). lia.
  - pose proof (layout_lt_rank r' s' r s Hr' Hs' Hr Hs H). lia.
Qed.

(* consequences: the encoding is injective and integer comparison is the lexicographic one *)
Lemma layout_inj r s r' s' :
  r < 13 -> s < 4 -> r' < 13 -> s' < 4 -> layout r s = layout r' s' -> r = r' /\ s = s'.
Proof.
  intros Hr Hs Hr' Hs' E.
  destruct (N.lt_trichotomy r r') as [H|[H|H]].
  - pose proof (layout_lt_rank r s r' s' Hr Hs Hr' Hs' H). lia.
  - subst r'. split; [reflexivity|]. destruct (N.lt_trichotomy s s') as [H|[H|H]]; [|exact H|].
    + pose proof (layout_lt_suit r s s' Hr Hs Hs' H). lia.
    + pose proof (layout_lt_suit r s' s Hr Hs' Hs H). lia.
  - pose proof (layout_lt_rank r' s' r s Hr' Hs' Hr Hs H). lia.
Qed.

Lemma compare_ok r s r' s' :
  r < 13 -> s < 4 -> r' < 13 -> s' < 4 ->
  (layout r s ?= layout r' s') = match r ?= r' with Eq => s ?= s' | c => c end.
Proof.
  intros Hr Hs Hr' Hs'.
  destruct (N.compare_spec r r') as [E|L|G].
  - subst r'. destruct (N.compare_spec s s') as [E|L|G].
    + subst s'. apply N.compare_refl.
    + apply N.compare_lt_iff. now apply layout_lt_suit.
    + apply N.compare_gt_iff. now apply layout_lt_suit.
  - apply N.compare_lt_iff. now apply layout_lt_rank.
  - apply N.compare_gt_iff. now apply layout_lt_rank.
Qed.

Lemma blank_below r s : r < 13 -> s < 4 -> 0 < layout r s.
Proof. apply layout_pos. Qed.

(* ---- sorting ----------------------------------------------------------------------------------- *)
Lemma sort_ok (ws : list N) :
  Permutation (sort_desc ws) ws /\ noninc (sort_desc ws) /\ sort_desc (sort_desc ws) = sort_desc ws.
Proof. repeat split; [apply sort_desc_perm | apply sort_desc_sorted | apply sort_desc_idem]. Qed.

(* the specification determines the result: whatever algorithm produces a non-increasing
   rearrangement of ws produces sort_desc ws *)
Lemma sort_unique (ws out : list N) : Permutation out ws -> noninc out -> out = sort_desc ws.
Proof.
  intros P S. apply noninc_unique; [exact S | apply sort_desc_sorted |].
  rewrite P. symmetry. apply sort_desc_perm.
Qed.

(* non-increasing, spelled out on positions *)
Lemma noninc_nth (l : list N) :
  noninc l -> forall i j, (i < j)%nat -> (j < length l)%nat -> nth j l 0 <= nth i l 0.
Proof.
  unfold noninc. induction 1 as [|a l HS IH F]; intros i j Hij Hj; cbn [length] in Hj; [lia|].
  destruct j as [|j]; [lia|]. destruct i as [|i]; cbn [nth].
  - rewrite Forall_forall in F. apply F, nth_In. lia.
  - apply IH; lia.
Qed.

Lemma sort_length ws : length (sort_desc ws) = length ws.
Proof. apply sort_desc_length. Qed.

Lemma sort_perm_invariant ws ws' : Permutation ws ws' -> sort_desc ws = sort_desc ws'.
Proof. apply sort_desc_of_perm. Qed.

Lemma sort_slots (ws : list N) :
  length (sort_desc ws) = length ws /\
  forall i j, (i < j)%nat -> (j < length ws)%nat -> nth j (sort_desc ws) 0 <= nth i (sort_desc ws) 0.
Proof.
  split; [apply sort_length|]. intros i j Hij Hj.
  apply noninc_nth; [apply sort_desc_sorted | exact Hij | rewrite sort_length; exact Hj].
Qed.
