(* Validity of hands: each of the differently written uniqueness tests is equivalent to NoDup (in
   conjunction with "not corrupt" for the sort-and-scan form). *)
From Coq Require Import Sorting.Permutation.
From CKC Require Import Base.Prelude Base.Reflect Base.SortN Spec.Layout.
From CKC Require Import Model.Card Model.Hands Proofs.CardFacts Proofs.SortFacts.
From CKC Require Import Gen.Consts.
Open Scope N_scope.

Lemma is_corrupt_spec ws : is_corrupt ws = false <-> Forall RealCard ws.
Proof.
  unfold is_corrupt. change CN_BLANK with 0.
  induction ws as [|c ws IH]; cbn [existsb].
  - split; auto.
  - rewrite orb_false_iff, IH, N.eqb_neq, filter_zero_iff. split.
    + intros [H1 H2]. constructor; [|exact H2].
      destruct (real_cardb c) eqn:E.
      * apply real_cardb_spec. exact E.
      * exfalso. apply H1. intros H. apply real_cardb_spec in H. congruence.
    + intros H. inversion H; subst. split; auto.
Qed.

Lemma contain_blank_spec ws : contain_blank ws = true <-> In 0 ws.
Proof.
  unfold contain_blank. change CN_BLANK with 0. rewrite existsb_exists. split.
  - intros [x [Hx He]]. apply N.eqb_eq in He. now subst.
  - intros H. exists 0. split; [exact H | reflexivity].
Qed.

Lemma RealCard_small w : RealCard w -> w < 2 ^ 29.
Proof.
  intros (r & s & Hr & Hs & ->).
  pose proof (acc_ok_all r s Hr Hs) as H. unfold acc_ok in H. cbv zeta in H.
  apply andb_true_iff in H. destruct H as [_ H]. apply N.ltb_lt in H. exact H.
Qed.

(* sizes 2..5: the test as written computes the boolean NoDup *)
Lemma are_unique_small_nodupb ws : (2 <= length ws <= 5)%nat -> are_unique ws = nodupb ws.
Proof.
  intros H.
  destruct ws as [|a [|b [|c [|d [|e [|f ws]]]]]]; cbn [length] in H; try lia;
    unfold are_unique; cbn [length].
  - unfold are_unique2, neq. cbn [nodupb memN existsb].
    destruct (a =? b); reflexivity.
  - unfold are_unique3, neq. cbn [nodupb memN existsb].
    destruct (a =? b), (a =? c), (b =? c); reflexivity.
  - unfold are_unique4, neq. cbn [nodupb memN existsb].
    destruct (a =? b), (a =? c), (a =? d), (b =? c), (b =? d), (c =? d); reflexivity.
  - unfold are_unique5. cbn [existsb nth skipn Nat.sub nodupb].
    destruct (memN a [b; c; d; e]), (memN b [c; d; e]), (memN c [d; e]), (memN d [e]);
      reflexivity.
Qed.

(* sizes 2..5: pairwise clauses / windowed contains, for ANY words *)
Lemma are_unique_small ws : (2 <= length ws <= 5)%nat -> (are_unique ws = true <-> NoDup ws).
Proof. intros H. rewrite (are_unique_small_nodupb ws H). apply nodupb_NoDup. Qed.

(* every other size: sort descending and scan from the sentinel u32::MAX *)
Lemma are_unique_big ws :
  (length ws < 2 \/ 6 <= length ws)%nat ->
  (are_unique ws = true <-> NoDup ws /\ Forall (fun x => x < U32MAX) ws).
Proof.
  intros H.
  assert (E : are_unique ws = are_unique_sorted ws).
  { destruct ws as [|a [|b [|c [|d [|e [|f ws]]]]]]; cbn [length] in H; try lia;
      unfold are_unique; cbn [length]; reflexivity. }
  rewrite E. unfold are_unique_sorted. apply strictly_desc_sort_spec.
Qed.

(* a hand is valid exactly when every slot is a real card and no two slots are equal *)
Lemma is_valid_spec ws : is_valid ws = true <-> Forall RealCard ws /\ NoDup ws.
Proof.
  unfold is_valid. rewrite andb_true_iff, negb_true_iff, is_corrupt_spec.
  destruct (le_lt_dec 2 (length ws)) as [H2|H2]; [destruct (le_lt_dec (length ws) 5) as [H5|H5]|].
  - rewrite (are_unique_small ws (conj H2 H5)). tauto.
  - rewrite (are_unique_big ws (or_intror H5)). split.
    + intros [[ND _] F]. split; assumption.
    + intros [F ND]. repeat split; try assumption.
      eapply Forall_impl; [|exact F]. intros x Hx. apply RealCard_small in Hx.
      unfold U32MAX. assert (2 ^ 29 = 536870912) by reflexivity. lia.
  - rewrite (are_unique_big ws (or_introl H2)). split.
    + intros [[ND _] F]. split; assumption.
    + intros [F ND]. repeat split; try assumption.
      eapply Forall_impl; [|exact F]. intros x Hx. apply RealCard_small in Hx.
      unfold U32MAX. assert (2 ^ 29 = 536870912) by reflexivity. lia.
Qed.
