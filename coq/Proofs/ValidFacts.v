(* Validity of hands, exactly: a hand is valid iff every slot is a real card and no two slots are equal
   (needs the EXACT filter, Proofs/FilterExact.v). *)
From Coq Require Import Sorting.Permutation.
From CKC Require Import Base.Prelude Base.Reflect Base.SortN Spec.Layout.
From CKC Require Import Model.Card Model.Hands Proofs.CardBase Proofs.FilterExact Proofs.SortFacts.
From CKC Require Export Proofs.ValidReal.
From CKC Require Import Gen.Consts.
Open Scope N_scope.

Lemma is_corrupt_spec ws : is_corrupt ws = false <-> Forall RealCard ws.
Proof.
  unfold is_corrupt. change CN_BLANK with 0.
  induction ws as [|c ws IH]; cbn [existsb].
  - split; auto.
  - rewrite orb_false_iff, IH, N.eqb_neq, filter_zero_iff. split.
    + intros [H1 H2]. constructor; [|exact H2].
      destruct (real_cardb c) eqn:E.
      * apply real_cardb_spec. exact E.
      * exfalso. apply H1. intros H. apply real_cardb_spec in H. congruence.
    + intros H. inversion H; subst. split; auto.
Qed.

(* a hand is valid exactly when every slot is a real card and no two slots are equal *)
Lemma is_valid_spec ws : is_valid ws = true <-> Forall RealCard ws /\ NoDup ws.
Proof.
  unfold is_valid. rewrite andb_true_iff, negb_true_iff, is_corrupt_spec.
  destruct (le_lt_dec 2 (length ws)) as [H2|H2]; [destruct (le_lt_dec (length ws) 5) as [H5|H5]|].
  - rewrite (are_unique_small ws (conj H2 H5)). tauto.
  - rewrite (are_unique_big ws (or_intror H5)). split.
    + intros [[ND _] F]. split; assumption.
    + intros [F ND]. repeat split; try assumption.
      eapply Forall_impl; [|exact F]. intros x Hx. apply RealCard_small in Hx.
      unfold U32MAX. assert (2 ^ 29 = 536870912) by reflexivity. lia.
  - rewrite (are_unique_big ws (or_introl H2)). split.
    + intros [[ND _] F]. split; assumption.
    + intros [F ND]. repeat split; try assumption.
      eapply Forall_impl; [|exact F]. intros x Hx. apply RealCard_small in Hx.
      unfold U32MAX. assert (2 ^ 29 = 536870912) by reflexivity. lia.
Qed.
