(* A WEAK reflection over the 7 462 classes: on every class the tables give SOME non-zero value
   (nothing about which one). This is all C04 and C09 need from the contents of the lookup tables,
   so a wrong-but-non-zero cell leaves their theorems standing (it breaks C01 / C02 / C06 only). *)
From Coq Require Import Sorting.Permutation.
From CKC Require Import Base.Prelude Base.Reflect Base.SortN Spec.Layout Spec.Poker.
From CKC Require Import Model.Card Model.Hands Model.Five.
From CKC Require Import Proofs.CardBase Proofs.SortFacts Proofs.BitFacts Proofs.FiveFacts Proofs.PokerFacts
  Proofs.RankedFacts Proofs.ShapeFacts Proofs.HandFacts.
Open Scope N_scope.

Definition eval_nonzero (chk : bool) (p : N * shape) : bool :=
  let '(_, (rs, fl)) := p in
  match eval_abs chk rs fl with Ok v => negb (v =? 0) | _ => false end.

Lemma nonzero_ranked chk : forallb (eval_nonzero chk) ranked = true.
Proof. destruct chk; vm_cast_no_check (eq_refl true). Qed.

(* the value the model's five-card evaluation returns (0 if it did not return) *)
Definition model_val (chk : bool) (c : list N) : N := match hrv5 chk c with Ok v => v | _ => 0 end.

Lemma hrv5_nonzero chk ws : Hand5 ws -> hrv5 chk ws = Ok (model_val chk ws) /\ model_val chk ws <> 0.
Proof.
  intros (HL & HR & HN). unfold model_val.
  rewrite (hrv5_abs chk ws HL HR).
  pose proof (shape_valid ws HL HR HN) as HV. unfold shape_of in *.
  set (rs := map rank_of_word ws) in *. set (fl := all_same (map suit_of_word ws)) in *.
  rewrite (eval_abs_perm chk rs (sort_desc rs) fl) by (apply Permutation_sym, sort_desc_perm).
  pose proof (canon_in_all_shapes rs fl HV) as Hin. apply in_ranked in Hin.
  pose proof (nonzero_ranked chk) as HS. rewrite forallb_forall in HS. specialize (HS _ Hin).
  cbn [eval_nonzero] in HS.
  destruct (eval_abs chk (sort_desc rs) fl) as [v| |]; try discriminate HS.
  apply negb_true_iff, N.eqb_neq in HS. split; [reflexivity | exact HS].
Qed.
