(* C06 — hand rank name and class describe exactly the poker class of the value. *)
From Coq Require Import String Sorting.Permutation.
From CKC Require Import Base.Prelude Base.Reflect Base.SortN Spec.Layout Spec.Poker.
From CKC Require Import Gen.Enums Gen.HandRankMaps.
From CKC Require Import Model.Card Model.Hands Model.Five Model.HandRank.
From CKC Require Import Proofs.SortFacts Proofs.FiveFacts Proofs.PokerFacts Proofs.RankedFacts
  Proofs.ShapeFacts Proofs.HandFacts.
Open Scope N_scope.

(* ============================================================================================ *)
(* SPEC SIDE (written from the property text, never from the code; conceptually Spec/Poker.v).    *)
(* The identifier of a hand's category and of its specific class, built from the hand's structure. *)
(* Ranks: deuce = 0 .. ace = 12.                                                                   *)
Definition RANK_SINGULAR : list string :=
  ["Deuce"; "Trey"; "Four"; "Five"; "Six"; "Seven"; "Eight"; "Nine"; "Ten"; "Jack"; "Queen"; "King";
   "Ace"]%string.
Definition RANK_PLURAL : list string :=
  ["Deuces"; "Treys"; "Fours"; "Fives"; "Sixes"; "Sevens"; "Eights"; "Nines"; "Tens"; "Jacks";
   "Queens"; "Kings"; "Aces"]%string.
Definition singular (r : N) : string := nth (N.to_nat r) RANK_SINGULAR EmptyString.
Definition plural (r : N) : string := nth (N.to_nat r) RANK_PLURAL EmptyString.

(* indexed by the category number of Spec/Poker.v: HIGH_CARD = 0 .. STRAIGHT_FLUSH = 8 *)
Definition CATEGORY_NAMES : list string :=
  ["HighCard"; "Pair"; "TwoPair"; "ThreeOfAKind"; "Straight"; "Flush"; "FullHouse"; "FourOfAKind";
   "StraightFlush"]%string.
Definition category_name (h : shape) : string := nth (N.to_nat (category h)) CATEGORY_NAMES EmptyString.

(* [kickers h] is [top] for straights (the five for the wheel) and otherwise the distinct ranks by
   multiplicity then rank, so its head is the quads / trips / high pair / pair / top card and its
   second element the pair of a full house / the low pair of two pair *)
Definition class_name_spec (h : shape) : string :=
  let k0 := nth 0 (kickers h) 0 in
  let k1 := nth 1 (kickers h) 0 in
  let c := category h in
  (if (c =? STRAIGHT_FLUSH)%N then
     (if (k0 =? 12)%N then "RoyalFlush" else singular k0 ++ "HighStraightFlush")
   else if (c =? FOUR_OF_A_KIND)%N then "Four" ++ plural k0
   else if (c =? FULL_HOUSE)%N then plural k0 ++ "Over" ++ plural k1
   else if (c =? FLUSH)%N then singular k0 ++ "HighFlush"
   else if (c =? STRAIGHT)%N then singular k0 ++ "HighStraight"
   else if (c =? THREE_OF_A_KIND)%N then "Three" ++ plural k0
   else if (c =? TWO_PAIR)%N then plural k0 ++ "And" ++ plural k1
   else if (c =? PAIR)%N then "PairOf" ++ plural k0
   else singular k0 ++ "High")%string.

(* the enumeration variant with the expected category identifier, and the Debug name of a variant *)
Definition name_variant_spec (h : shape) : N := variant HandRankName_NAMES (category_name h).
Definition class_string (c : N) : string := nth (N.to_nat c) HandRankClass_NAMES EmptyString.
Definition name_string (n : N) : string := nth (N.to_nat n) HandRankName_NAMES EmptyString.

Lemma category_name_perm rs rs' fl :
  Permutation rs rs' -> category_name (rs, fl) = category_name (rs', fl).
Proof. intros H. unfold category_name. rewrite (category_perm _ _ fl H). reflexivity. Qed.

Lemma class_name_spec_perm rs rs' fl :
  Permutation rs rs' -> class_name_spec (rs, fl) = class_name_spec (rs', fl).
Proof.
  intros H. unfold class_name_spec. rewrite (category_perm _ _ fl H), (kickers_perm _ _ fl H).
  reflexivity.
Qed.

(* ============================================================================================ *)
(* A general fact about run-length encoded graphs: a boolean test on the runs, seen as intervals
   [lo, hi] with their value, holds of the run that contains any given key.                        *)
Fixpoint rle_all (P : N -> N -> N -> bool) (top : N) (g : list (N * N)) : bool :=
  match g with
  | [] => true
  | (s, v) :: r =>
      match r with
      | [] => P s top v
      | (s', _) :: _ => (s <? s') && P s (s' - 1) v && rle_all P top r
      end
  end.

Lemma rle_all_cons2 P top s v s' v' r :
  rle_all P top ((s, v) :: (s', v') :: r)
  = (s <? s') && P s (s' - 1) v && rle_all P top ((s', v') :: r).
Proof. reflexivity. Qed.

Lemma rle_all_sound P top g :
  rle_all P top g = true ->
  forall d k, match g with [] => False | (s, _) :: _ => s <= k end -> k <= top ->
  exists lo hi, lo <= k /\ k <= hi /\ P lo hi (rle g k d) = true.
Proof.
  induction g as [|[s v] r IH]; intros H d k H0 Hk; [contradiction|].
  cbn [rle]. rewrite (proj2 (N.leb_le s k) H0).
  destruct r as [|[s' v'] r'].
  - cbn [rle_all] in H. cbn [rle]. exists s, top. repeat split; assumption.
  - rewrite rle_all_cons2 in H. apply andb_true_iff in H. destruct H as [H H3].
    apply andb_true_iff in H. destruct H as [H1 H2]. apply N.ltb_lt in H1.
    destruct (N.leb_spec s' k) as [L|L].
    + apply (IH H3 v k); assumption.
    + cbn [rle]. rewrite (proj2 (N.leb_gt s' k) L).
      exists s, (s' - 1). repeat split; [assumption | lia | assumption].
Qed.

(* both graphs start at 0, so every u16 value lies in a run *)
Lemma name_rle_sound P :
  rle_all P 65535 NAME_RLE = true ->
  forall v, v < 65536 -> exists lo hi, lo <= v /\ v <= hi /\ P lo hi (determine_name v) = true.
Proof.
  intros H v Hv. apply (rle_all_sound P 65535 NAME_RLE H NAME_INVALID v); [|lia].
  change (0 <= v). apply N.le_0_l.
Qed.

Lemma class_rle_sound P :
  rle_all P 65535 CLASS_RLE = true ->
  forall v, v < 65536 -> exists lo hi, lo <= v /\ v <= hi /\ P lo hi (determine_class v) = true.
Proof.
  intros H v Hv. apply (rle_all_sound P 65535 CLASS_RLE H CLASS_INVALID v); [|lia].
  change (0 <= v). apply N.le_0_l.
Qed.

(* ---- C06_invalid ----------------------------------------------------------------------------- *)
Definition inv_P (inv lo hi v : N) : bool :=
  if v =? inv then (hi =? 0) || (7462 <? lo) else (0 <? lo) && (hi <=? 7462).

Lemma inv_P_iff inv lo hi x v :
  lo <= v -> v <= hi -> inv_P inv lo hi x = true -> (x = inv <-> (v = 0 \/ 7462 < v)).
Proof.
  intros H1 H2 HP. unfold inv_P in HP. destruct (N.eqb_spec x inv) as [E|E].
  - apply orb_true_iff in HP. rewrite N.eqb_eq, N.ltb_lt in HP. split; [intros _|intros _; exact E]. lia.
  - apply andb_true_iff in HP. rewrite N.ltb_lt, N.leb_le in HP. split; [contradiction|]. lia.
Qed.

Lemma name_invalid v : v < 65536 -> (determine_name v = NAME_INVALID <-> (v = 0 \/ 7462 < v)).
Proof.
  intros Hv.
  destruct (name_rle_sound (inv_P NAME_INVALID) ltac:(vm_compute; reflexivity) v Hv)
    as (lo & hi & H1 & H2 & HP).
  exact (inv_P_iff _ _ _ _ _ H1 H2 HP).
Qed.

Lemma class_invalid v : v < 65536 -> (determine_class v = CLASS_INVALID <-> (v = 0 \/ 7462 < v)).
Proof.
  intros Hv.
  destruct (class_rle_sound (inv_P CLASS_INVALID) ltac:(vm_compute; reflexivity) v Hv)
    as (lo & hi & H1 & H2 & HP).
  exact (inv_P_iff _ _ _ _ _ H1 H2 HP).
Qed.

Lemma invalid_ok v :
  v < 65536 ->
  (determine_name v = NAME_INVALID <-> (v = 0 \/ 7462 < v)) /\
  (determine_class v = CLASS_INVALID <-> (v = 0 \/ 7462 < v)).
Proof. intros Hv. split; [apply name_invalid | apply class_invalid]; exact Hv. Qed.

(* ---- C06_ranges ------------------------------------------------------------------------------ *)
(* the first run carrying variant [c], as an interval *)
Fixpoint find_run (top c : N) (g : list (N * N)) : option (N * N) :=
  match g with
  | [] => None
  | (s, v) :: r =>
      if v =? c then Some (s, match r with [] => top | (s', _) :: _ => s' - 1 end)
      else find_run top c r
  end.

(* the run of [c] is [LO, HI]; every other run lies entirely outside it *)
Definition range_P (c LO HI lo hi v : N) : bool :=
  if v =? c then (lo =? LO) && (hi =? HI) else (hi <? LO) || (HI <? lo).

Definition range_ok (g : list (N * N)) (c : N) : bool :=
  match find_run 65535 c g with
  | Some (LO, HI) => (1 <=? LO) && (LO <=? HI) && (HI <=? 7462) && rle_all (range_P c LO HI) 65535 g
  | None => false
  end.

Lemma range_P_iff c LO HI lo hi x v :
  lo <= v -> v <= hi -> range_P c LO HI lo hi x = true -> (x = c <-> LO <= v <= HI).
Proof.
  intros H1 H2 HP. unfold range_P in HP. destruct (N.eqb_spec x c) as [E|E].
  - apply andb_true_iff in HP. rewrite !N.eqb_eq in HP. destruct HP as [-> ->].
    split; [intros _; split; assumption | intros _; exact E].
  - apply orb_true_iff in HP. rewrite !N.ltb_lt in HP. split; [contradiction|]. lia.
Qed.

Lemma class_ranges_all : forallb (range_ok CLASS_RLE) (N_range CLASS_INVALID) = true.
Proof. vm_compute. reflexivity. Qed.
Lemma name_ranges_all : forallb (range_ok NAME_RLE) (N_range NAME_INVALID) = true.
Proof. vm_compute. reflexivity. Qed.

Lemma class_range c :
  c < CLASS_INVALID ->
  exists lo hi, 1 <= lo /\ lo <= hi /\ hi <= 7462 /\
    forall v, v < 65536 -> (determine_class v = c <-> lo <= v <= hi).
Proof.
  intros Hc. pose proof (forallb_N_range _ _ class_ranges_all c Hc) as H. unfold range_ok in H.
  destruct (find_run 65535 c CLASS_RLE) as [[LO HI]|]; [|discriminate].
  repeat (apply andb_true_iff in H; destruct H as [H ?]).
  rewrite !N.leb_le in *. exists LO, HI.
  split; [assumption|]. split; [assumption|]. split; [assumption|]. intros v Hv.
  destruct (class_rle_sound _ H0 v Hv) as (lo & hi & L1 & L2 & HP).
  exact (range_P_iff _ _ _ _ _ _ _ L1 L2 HP).
Qed.

Lemma name_range n :
  n < NAME_INVALID ->
  exists lo hi, 1 <= lo /\ lo <= hi /\ hi <= 7462 /\
    forall v, v < 65536 -> (determine_name v = n <-> lo <= v <= hi).
Proof.
  intros Hc. pose proof (forallb_N_range _ _ name_ranges_all n Hc) as H. unfold range_ok in H.
  destruct (find_run 65535 n NAME_RLE) as [[LO HI]|]; [|discriminate].
  repeat (apply andb_true_iff in H; destruct H as [H ?]).
  rewrite !N.leb_le in *. exists LO, HI.
  split; [assumption|]. split; [assumption|]. split; [assumption|]. intros v Hv.
  destruct (name_rle_sound _ H0 v Hv) as (lo & hi & L1 & L2 & HP).
  exact (range_P_iff _ _ _ _ _ _ _ L1 L2 HP).
Qed.

(* every value is mapped to a variant of the enumeration *)
Lemma variants_in_range v :
  v < 65536 -> determine_name v <= NAME_INVALID /\ determine_class v <= CLASS_INVALID.
Proof.
  intros Hv. split.
  - destruct (name_rle_sound (fun _ _ x => x <=? NAME_INVALID) ltac:(vm_compute; reflexivity) v Hv)
      as (lo & hi & _ & _ & HP). apply N.leb_le. exact HP.
  - destruct (class_rle_sound (fun _ _ x => x <=? CLASS_INVALID) ltac:(vm_compute; reflexivity) v Hv)
      as (lo & hi & _ & _ & HP). apply N.leb_le. exact HP.
Qed.

(* the shape of the run lists themselves *)
Definition runs_shape (g : list (N * N)) (inv : N) : Prop :=
  strictly_increasing (map fst g) = true /\
  exists mid,
    g = (0, inv) :: mid ++ [(7463, inv)] /\
    option_map fst (hd_error mid) = Some 1 /\
    NoDup (map snd mid) /\ ~ In inv (map snd mid) /\
    (forall c, c < inv -> In c (map snd mid)) /\ lenN mid = inv.

Ltac runs_shape_tac g inv :=
  split; [vm_compute; reflexivity|];
  exists (removelast (tl g));
  split; [vm_compute; reflexivity|];
  split; [vm_compute; reflexivity|];
  split; [apply nodupb_NoDup; vm_compute; reflexivity|];
  split; [apply memN_false; vm_compute; reflexivity|];
  split; [|vm_compute; reflexivity];
  let c := fresh "c" in let Hc := fresh "Hc" in
  intros c Hc; apply memN_In;
  exact (forallb_N_range (fun c => memN c (map snd (removelast (tl g)))) inv
           ltac:(vm_compute; reflexivity) c Hc).

Lemma class_runs_shape : runs_shape CLASS_RLE CLASS_INVALID.
Proof. runs_shape_tac CLASS_RLE CLASS_INVALID. Qed.
Lemma name_runs_shape : runs_shape NAME_RLE NAME_INVALID.
Proof. runs_shape_tac NAME_RLE NAME_INVALID. Qed.

Lemma ranges_ok :
  (lenN HandRankClass_NAMES = 310 /\ CLASS_INVALID = 309 /\
   lenN HandRankName_NAMES = 10 /\ NAME_INVALID = 9) /\
  (forall c, c < CLASS_INVALID ->
     exists lo hi, 1 <= lo /\ lo <= hi /\ hi <= 7462 /\
       forall v, v < 65536 -> (determine_class v = c <-> lo <= v <= hi)) /\
  (forall n, n < NAME_INVALID ->
     exists lo hi, 1 <= lo /\ lo <= hi /\ hi <= 7462 /\
       forall v, v < 65536 -> (determine_name v = n <-> lo <= v <= hi)) /\
  (forall v, v < 65536 -> determine_name v <= NAME_INVALID /\ determine_class v <= CLASS_INVALID) /\
  runs_shape CLASS_RLE CLASS_INVALID /\ runs_shape NAME_RLE NAME_INVALID.
Proof.
  split; [repeat split; vm_compute; reflexivity|].
  split; [exact class_range|]. split; [exact name_range|]. split; [exact variants_in_range|].
  split; [exact class_runs_shape | exact name_runs_shape].
Qed.

(* ---- C06_consistent -------------------------------------------------------------------------- *)
Lemma hr_eqb_eq a b : hr_eqb a b = true <-> a = b.
Proof.
  unfold hr_eqb. rewrite !andb_true_iff, !N.eqb_eq.
  destruct a as [av an ac], b as [bv bn bc]; cbn [hr_value hr_name hr_class].
  split; [intros [[-> ->] ->]; reflexivity | intros E; injection E as -> -> ->; repeat split].
Qed.

Lemma consistent_ok :
  (forall v, is_a_valid_hand_rank (hr_from v) = true) /\
  (forall h, is_a_valid_hand_rank h = true <-> h = hr_from (hr_value h)) /\
  hr_default = hr_from 0 /\
  (forall v, hr_value (hr_from v) = v) /\
  (forall v, is_invalid (hr_from v) = true <-> determine_name v = NAME_INVALID) /\
  (forall v, v < 65536 -> (is_invalid (hr_from v) = true <-> (v = 0 \/ 7462 < v))) /\
  is_invalid hr_default = true.
Proof.
  split; [intros v; unfold is_a_valid_hand_rank; apply hr_eqb_eq; reflexivity|].
  split; [intros h; unfold is_a_valid_hand_rank; apply hr_eqb_eq|].
  split; [reflexivity|]. split; [reflexivity|].
  split; [intros v; unfold is_invalid; cbn [hr_from hr_name]; apply N.eqb_eq|].
  split; [|vm_compute; reflexivity].
  intros v Hv. unfold is_invalid. cbn [hr_from hr_name]. rewrite N.eqb_eq.
  apply name_invalid, Hv.
Qed.

(* ---- C06_describes --------------------------------------------------------------------------- *)
Definition describes_ok (ip : N * (N * shape)) : bool :=
  let '(i, (_, h)) := ip in
  let v := i + 1 in
  (determine_name v =? name_variant_spec h)
  && String.eqb (class_string (determine_class v)) (class_name_spec h)
  && String.eqb (name_string (determine_name v)) (category_name h).

Strategy expand [describes_ok].

Lemma describes_ranked : forallb describes_ok (enum_from 0 ranked) = true.
Proof. vm_cast_no_check (eq_refl true). Qed.

Lemma enum_from_In {A} (l : list A) n i x :
  In (i, x) (enum_from n l) -> exists pre post, l = pre ++ x :: post /\ i = n + N.of_nat (length pre).
Proof.
  revert n. induction l as [|a l IH]; intros n H; [destruct H|].
  cbn [enum_from In] in H. destruct H as [E|H].
  - injection E as <- <-. exists [], l. split; [reflexivity|]. cbn [length]. lia.
  - destruct (IH _ H) as (pre & post & -> & ->). exists (a :: pre), post. split; [reflexivity|].
    cbn [length]. lia.
Qed.

Definition describes (v : N) (h : shape) : Prop :=
  determine_name v = name_variant_spec h /\
  name_string (determine_name v) = category_name h /\
  class_string (determine_class v) = class_name_spec h.

Lemma describes_split pre sc h post :
  ranked = pre ++ (sc, h) :: post ->
  N.of_nat (length pre) + 1 = ordinal h /\ describes (ordinal h) h.
Proof.
  intros E. pose proof (enum_from_split _ _ _ describes_ranked _ _ _ E) as H.
  pose proof (ordinal_of_ranked _ _ _ E) as HO. cbn [snd] in HO.
  cbn [describes_ok] in H. rewrite N.add_0_l in H.
  replace (N.of_nat (length pre) + 1) with (ordinal h) in * by lia.
  split; [reflexivity|].
  apply andb_true_iff in H. destruct H as [H H3]. apply andb_true_iff in H. destruct H as [H1 H2].
  apply N.eqb_eq in H1. apply String.eqb_eq in H2. apply String.eqb_eq in H3.
  exact (conj H1 (conj H3 H2)).
Qed.

(* every one of the 7462 classes, with its position *)
Lemma describes_enum i sc h :
  In (i, (sc, h)) (enum_from 0 ranked) ->
  let v := i + 1 in
  v = ordinal h /\ 1 <= v <= 7462 /\ In h all_shapes /\ sc = score h /\ describes v h.
Proof.
  intros H v. destruct (enum_from_In _ _ _ _ H) as (pre & post & E & Hi).
  destruct (describes_split _ _ _ _ E) as [HV HD].
  assert (Ev : v = ordinal h) by (subst v; lia).
  assert (Hin : In (sc, h) ranked) by (rewrite E; apply in_or_app; right; left; reflexivity).
  destruct (ranked_score _ Hin) as [Hs Ha]. cbn [fst snd] in Hs, Ha.
  assert (HR : 1 <= ordinal h <= 7462).
  { apply (ordinal_range h). exists h. split; [exact Ha | reflexivity]. }
  rewrite Ev. exact (conj eq_refl (conj HR (conj Ha (conj Hs HD)))).
Qed.

(* the general form: every hand class *)
Lemma describes_class h : In h all_shapes -> 1 <= ordinal h <= 7462 /\ describes (ordinal h) h.
Proof.
  intros Hin. split; [apply ordinal_range; exists h; split; [exact Hin | reflexivity]|].
  destruct (in_split _ _ (in_ranked h Hin)) as (pre & post & E).
  exact (proj2 (describes_split _ _ _ _ E)).
Qed.

(* the enumeration covers every value 1..7462 *)
Lemma describes_onto v :
  1 <= v <= 7462 -> exists h, In h all_shapes /\ ordinal h = v /\ describes v h.
Proof.
  intros Hv.
  assert (Hn : (N.to_nat (v - 1) < length ranked)%nat) by (pose proof ranked_length_N; lia).
  destruct (nth_split ranked (0, ([], false)) Hn) as (pre & post & Hs & Hl).
  destruct (nth (N.to_nat (v - 1)) ranked (0, ([], false))) as [sc h].
  destruct (describes_split _ _ _ _ Hs) as [HV HD].
  assert (Hin : In (sc, h) ranked) by (rewrite Hs; apply in_or_app; right; left; reflexivity).
  destruct (ranked_score _ Hin) as [_ Ha]. cbn [snd] in Ha.
  assert (E : ordinal h = v) by (rewrite <- HV, Hl; lia).
  exists h. rewrite <- E. exact (conj Ha (conj eq_refl HD)).
Qed.

