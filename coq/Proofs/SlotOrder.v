(* "... in increasing order": the published slot-index tables list the combinations in increasing (lexicographic)
   order of their rows, i.e. they ARE the lists [combs] enumerates. Only C18 states this; C02 / C09 / C03 use the
   order-free completeness of Proofs/SlotTables.v, so the order of the rows is of no concern to them. *)
From CKC Require Import Base.Prelude Base.Reflect Base.Combs Spec.Layout.
From CKC Require Import Gen.Consts Gen.Decks.
From CKC Require Import Proofs.SlotTables.
Open Scope N_scope.

(* rows compared lexicographically *)
Fixpoint row_ltb (a b : list N) : bool :=
  match a, b with
  | x :: a', y :: b' => (x <? y) || ((x =? y) && row_ltb a' b')
  | [], _ :: _ => true
  | _, _ => false
  end.
Fixpoint rows_increasing (t : list (list N)) : bool :=
  match t with
  | a :: ((b :: _) as r) => row_ltb a b && rows_increasing r
  | _ => true
  end.

Lemma slot_tables_lex :
  OMAHA_PERMUTATIONS = SPEC_2_OF_4 /\ SIX_PERMUTATIONS = SPEC_5_OF_6 /\ SEVEN_PERMUTATIONS = SPEC_5_OF_7 /\
  rows_increasing OMAHA_PERMUTATIONS = true /\ rows_increasing SIX_PERMUTATIONS = true /\
  rows_increasing SEVEN_PERMUTATIONS = true.
Proof. repeat split; vm_compute; reflexivity. Qed.
