(* Per-card Chen points on the 52 cards (doubled). *)
From Coq Require Import String.
From CKC Require Import Base.Prelude Base.Reflect Spec.Layout Model.Card.
From CKC Require Import Gen.Consts Gen.Enums Gen.Maps Gen.Scan Gen.Decks.
From CKC Require Import Proofs.CardBase.
Open Scope N_scope.

Lemma acc_chen r s : r < 13 -> s < 4 -> let w := layout r s in get_chen_points_x2 w = chen_points_x2 r.
Proof.
  intros Hr Hs w. subst w.
  pose proof (sweep_rs (fun r s => let w := layout r s in (get_chen_points_x2 w =? chen_points_x2 r)) ltac:(vm_compute; reflexivity) r s Hr Hs) as H.
  cbv zeta in H. rewrite ?andb_true_iff, ?N.eqb_eq, ?negb_true_iff in H. cbv zeta. tauto.
Qed.
