(* The `wit` projection (Model/Proj.v) is constant on six / seven distinct real cards: by C03's witness lemma. *)
From Coq Require Import Sorting.Sorted.
From CKC Require Import Base.Prelude Base.Reflect Base.SortN Spec.Layout.
From CKC Require Import Model.Five Model.Proj Proofs.ProjBase Proofs.FreeFacts Proofs.C03.
Open Scope N_scope.

Lemma proj_wit_const chk n ws :
  (n = 6 \/ n = 7)%nat -> HandN n ws -> proj_wit chk ws = Ok [true; true; true; true].
Proof.
  intros Hn H. destruct (witness_free chk n ws Hn H) as (v & h & E & _ & _ & ND & IN & NI & _ & _ & RE).
  unfold proj_wit. rewrite E. destruct H as (HL & _ & _). rewrite HL.
  assert (F : Nat.eqb n 5 = false) by (destruct Hn as [->| ->]; reflexivity). rewrite F.
  assert (A : forallb (fun x => memN x ws) h = true).
  { apply forallb_forall. intros x Hx. apply memN_In, IN, Hx. }
  rewrite A, (proj2 (nodupb_NoDup h) ND), (noninc_descb h NI). unfold ok_is. rewrite RE, N.eqb_refl. reflexivity.
Qed.
