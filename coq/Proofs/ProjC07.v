(* The `hrkey` projection (Model/Proj.v) is constant on all pairs of u16 values: by C07's order, equality,
   antisymmetry and operator lemmas. *)
From CKC Require Import Base.Prelude.
From CKC Require Import Model.HandRank Model.Proj Proofs.C07.
Open Scope N_scope.

Lemma cmp_eqb_eq c d : cmp_eqb c d = true <-> c = d.
Proof. destruct c, d; cbn [cmp_eqb]; split; intros H; try reflexivity; discriminate H. Qed.
Lemma cmp_eqb_refl c : cmp_eqb c c = true.
Proof. destruct c; reflexivity. Qed.
Lemma eqb_of_iff (p q : bool) : (p = true <-> q = true) -> Bool.eqb p q = true.
Proof.
  destruct p, q; cbn [Bool.eqb]; intros [A B]; try reflexivity.
  - apply A. reflexivity.
  - apply B. reflexivity.
Qed.

Lemma inval_iff v : inval v = true <-> (v = 0 \/ 7462 < v).
Proof. unfold inval. rewrite orb_true_iff, N.eqb_eq, N.ltb_lt. reflexivity. Qed.
Lemma inval_false v : inval v = false -> 1 <= v /\ v <= 7462.
Proof.
  unfold inval. intros H. apply orb_false_iff in H. destruct H as [A B].
  apply N.eqb_neq in A. apply N.ltb_ge in B. lia.
Qed.

Lemma hrkey_spec_const a b : a < 65536 -> b < 65536 -> hrkey_spec_ok a b = true.
Proof.
  intros Ha Hb. destruct order_ok as (O1 & O2 & O3). unfold hrkey_spec_ok. cbv zeta.
  change (hr_cmp (hr_from a) (hr_from b)) with (R a b). change (hr_cmp (hr_from b) (hr_from a)) with (R b a).
  destruct (inval a) eqn:Ia, (inval b) eqn:Ib.
  - apply inval_iff in Ia. apply inval_iff in Ib. rewrite (cmp_antisym a b Ha Hb), cmp_eqb_refl, andb_true_r.
    rewrite (O3 a b Ha Hb Ia Ib). apply eqb_of_iff. rewrite cmp_eqb_eq, N.compare_eq_iff, N.eqb_eq.
    split; intros E; symmetry; exact E.
  - apply inval_iff in Ia. apply inval_false in Ib. destruct Ib as [B1 B2].
    rewrite (proj1 (O2 a b Ha Ia B1 B2)). reflexivity.
  - apply inval_iff in Ib. apply inval_false in Ia. destruct Ia as [A1 A2].
    rewrite (proj2 (O2 b a Hb Ib A1 A2)). reflexivity.
  - apply inval_false in Ia. apply inval_false in Ib. destruct Ia as [A1 A2], Ib as [B1 B2].
    apply cmp_eqb_eq. destruct (N.compare_spec b a) as [E|L|G].
    + subst b. apply cmp_refl, Ha.
    + exact (proj2 (O1 b a B1 L A2)).
    + exact (proj1 (O1 a b A1 G B2)).
Qed.

Lemma hrkey_eq_const a b : a < 65536 -> b < 65536 -> hrkey_eq_ok a b = true.
Proof.
  intros Ha Hb. destruct (eq_ok a b Ha Hb) as (E1 & E2 & E3). unfold hrkey_eq_ok. cbv zeta.
  change (hr_cmp (hr_from a) (hr_from b)) with (R a b).
  apply andb_true_iff. split; apply eqb_of_iff.
  - rewrite N.eqb_eq. tauto.
  - rewrite cmp_eqb_eq. exact E1.
Qed.

Lemma hrkey_ops_const x y : hrkey_ops_ok x y = true.
Proof. unfold hrkey_ops_ok, hr_lt, hr_le, hr_gt, hr_ge. cbv zeta. destruct (hr_cmp x y); reflexivity. Qed.

Lemma proj_hrkey_const a b : a < 65536 -> b < 65536 -> proj_hrkey a b = [true; true; true].
Proof.
  intros Ha Hb. unfold proj_hrkey.
  rewrite (hrkey_spec_const a b Ha Hb), (hrkey_eq_const a b Ha Hb), hrkey_ops_const. reflexivity.
Qed.
