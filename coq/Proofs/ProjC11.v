(* The `sortp` projection (Model/Proj.v) is constant on ALL lists of words: by C11's sorting lemma. *)
From Coq Require Import Sorting.Permutation.
From CKC Require Import Base.Prelude Base.Reflect Base.SortN Model.Proj Proofs.ProjBase Proofs.C11.
Open Scope N_scope.

Lemma countN_perm x l l' : Permutation l l' -> countN x l = countN x l'.
Proof.
  induction 1 as [|y l l' HP IH|y z l|l l' l'' H1 IH1 H2 IH2]; cbn [countN].
  - reflexivity.
  - rewrite IH. reflexivity.
  - destruct (x =? z), (x =? y); reflexivity.
  - congruence.
Qed.

Lemma same_multiset_perm a b : Permutation a b -> same_multiset a b = true.
Proof.
  intros H. unfold same_multiset. apply forallb_forall. intros x _. apply Nat.eqb_eq, countN_perm, H.
Qed.

Lemma proj_sortp_const ws : proj_sortp ws = [true; true; true; true].
Proof.
  destruct (sort_ok ws) as (P & S & I). unfold proj_sortp. cbv zeta.
  rewrite (noninc_descb _ S), (same_multiset_perm _ _ P), I, (proj2 (list_eqb_eq _ _) eq_refl). reflexivity.
Qed.
