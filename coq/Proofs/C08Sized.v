(* C08 — the six per-size transcriptions of `impl Shifty` (Model/Shift.v) are the slot-wise map. *)
From CKC Require Import Base.Prelude Model.Card Model.Hands Model.Shift.
Open Scope N_scope.

Lemma sized_is_map ws :
  (2 <= length ws <= 7)%nat -> shift_suit_sized ws = Ok (shift_suit_hand ws).
Proof.
  intros HL. unfold shift_suit_sized, shift_suit_hand.
  destruct ws as [|a [|b [|c [|d [|e [|f [|g [|h r]]]]]]]]; cbn [length] in HL |- *;
    try (exfalso; lia); reflexivity.
Qed.

Lemma sized_panics ws : ~ (2 <= length ws <= 7)%nat -> shift_suit_sized ws = Panic.
Proof.
  intros HL. unfold shift_suit_sized.
  destruct ws as [|a [|b [|c [|d [|e [|f [|g [|h r]]]]]]]]; cbn [length] in HL |- *;
    try reflexivity; exfalso; apply HL; lia.
Qed.

Lemma sized_each :
  (forall a b, shift_suit_two [a; b] = Ok (shift_suit_hand [a; b])) /\
  (forall a b c, shift_suit_three [a; b; c] = Ok (shift_suit_hand [a; b; c])) /\
  (forall a b c d, shift_suit_four [a; b; c; d] = Ok (shift_suit_hand [a; b; c; d])) /\
  (forall a b c d e, shift_suit_five [a; b; c; d; e] = Ok (shift_suit_hand [a; b; c; d; e])) /\
  (forall a b c d e f, shift_suit_six [a; b; c; d; e; f] = Ok (shift_suit_hand [a; b; c; d; e; f])) /\
  (forall a b c d e f g,
     shift_suit_seven [a; b; c; d; e; f; g] = Ok (shift_suit_hand [a; b; c; d; e; f; g])).
Proof. repeat split. Qed.
