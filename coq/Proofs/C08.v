(* C08 — suit shifting is a rank-preserving 4-cycle and never changes a hand's value; more
   generally no consistent relabelling of the four suits does. *)
From Coq Require Import Sorting.Permutation.
From CKC Require Import Base.Prelude Base.Reflect Base.SortN Base.Combs Spec.Layout Spec.Poker.
From CKC Require Import Model.Card Model.Hands Model.Five Model.HandRank.
From CKC Require Import Proofs.CardBase Proofs.CombFacts Proofs.FiveFacts Proofs.ShapeFacts Proofs.BestFacts Proofs.Total Proofs.FreeFacts.
From CKC Require Import Gen.Consts.
Open Scope N_scope.

(* spades -> hearts -> diamonds -> clubs -> spades   (spades = 3 ... clubs = 0) *)
Definition next_suit_spec (s : N) : N := if s =? 0 then 3 else s - 1.

Lemma shift_card r s : r < 13 -> s < 4 -> shift_suit (layout r s) = layout r (next_suit_spec s).
Proof.
  intros Hr Hs.
  pose proof (sweep_rs (fun r s => shift_suit (layout r s) =? layout r (next_suit_spec s))
                ltac:(vm_compute; reflexivity) r s Hr Hs) as H.
  apply N.eqb_eq in H. exact H.
Qed.

Lemma shift_blank : shift_suit 0 = 0.
Proof. vm_compute. reflexivity. Qed.

Lemma shift_four r s :
  r < 13 -> s < 4 -> shift_suit (shift_suit (shift_suit (shift_suit (layout r s)))) = layout r s.
Proof.
  intros Hr Hs.
  pose proof (sweep_rs (fun r s => shift_suit (shift_suit (shift_suit (shift_suit (layout r s)))) =? layout r s)
                ltac:(vm_compute; reflexivity) r s Hr Hs) as H.
  apply N.eqb_eq in H. exact H.
Qed.

Lemma shift_not_fixed r s : r < 13 -> s < 4 -> shift_suit (layout r s) <> layout r s.
Proof.
  intros Hr Hs.
  pose proof (sweep_rs (fun r s => negb (shift_suit (layout r s) =? layout r s))
                ltac:(vm_compute; reflexivity) r s Hr Hs) as H.
  apply negb_true_iff, N.eqb_neq in H. exact H.
Qed.

Lemma shift_hand_slots ws :
  shift_suit_hand ws = map shift_suit ws /\ length (shift_suit_hand ws) = length ws /\
  forall i, (i < length ws)%nat -> nth i (shift_suit_hand ws) 0 = shift_suit (nth i ws 0).
Proof.
  unfold shift_suit_hand. repeat split.
  - apply map_length.
  - intros i Hi. rewrite <- shift_blank at 1. apply map_nth.
Qed.

(* ---- relabelling the suits ----------------------------------------------------------------------- *)
Definition relabel (f : N -> N) (w : N) : N := layout (rank_of_word w) (f (suit_of_word w)).
Definition suit_bijection (f : N -> N) : Prop :=
  (forall s, s < 4 -> f s < 4) /\ (forall s t, s < 4 -> t < 4 -> f s = f t -> s = t).

Lemma next_suit_bijection : suit_bijection next_suit_spec.
Proof.
  split.
  - intros s Hs. unfold next_suit_spec. destruct (N.eqb_spec s 0); lia.
  - intros s t Hs Ht. unfold next_suit_spec. destruct (N.eqb_spec s 0), (N.eqb_spec t 0); lia.
Qed.

Lemma shift_is_relabel w : RealCard w -> shift_suit w = relabel next_suit_spec w.
Proof.
  intros H. pose proof (real_card_fields w H) as F. cbv zeta in F. destruct F as (F1 & F2 & F3 & _).
  unfold relabel. rewrite F3 at 1. apply shift_card; assumption.
Qed.

Lemma relabel_fields f w :
  suit_bijection f -> RealCard w ->
  RealCard (relabel f w) /\ rank_of_word (relabel f w) = rank_of_word w /\
  suit_of_word (relabel f w) = f (suit_of_word w).
Proof.
  intros [Hf _] H. pose proof (real_card_fields w H) as F. cbv zeta in F. destruct F as (F1 & F2 & _).
  unfold relabel. destruct (decode_layout (rank_of_word w) (f (suit_of_word w)) F1 (Hf _ F2)) as [A B].
  repeat split; try assumption. exists (rank_of_word w), (f (suit_of_word w)). repeat split; auto.
Qed.

Lemma all_same_map_inj (f : N -> N) (l : list N) :
  (forall s t, In s l -> In t l -> f s = f t -> s = t) -> all_same (map f l) = all_same l.
Proof.
  destruct l as [|a l]; intros Hinj; [reflexivity|]. cbn [map all_same].
  induction l as [|b l IH]; [reflexivity|]. cbn [map forallb].
  rewrite IH by (intros s t Hs Ht; apply Hinj; cbn [In] in *; tauto). f_equal.
  destruct (N.eqb_spec a b) as [->|Hne]; [apply N.eqb_refl|].
  apply N.eqb_neq. intros E. apply Hne. apply Hinj; cbn [In]; tauto.
Qed.

(* relabelling keeps the cards real, the ranks, and "all suits equal" (repetition allowed) *)
Lemma relabel_shape f ws :
  suit_bijection f -> Forall RealCard ws ->
  Forall RealCard (map (relabel f) ws) /\ shape_of (map (relabel f) ws) = shape_of ws.
Proof.
  intros Hf HR. pose proof Hf as [Hf1 Hf2].
  assert (HR' : Forall RealCard (map (relabel f) ws)).
  { apply Forall_forall. intros x Hx. apply in_map_iff in Hx. destruct Hx as [w [<- Hw]].
    rewrite Forall_forall in HR. apply (relabel_fields f w Hf (HR w Hw)). }
  assert (Er : map rank_of_word (map (relabel f) ws) = map rank_of_word ws).
  { rewrite map_map. apply map_ext_in. intros w Hw. rewrite Forall_forall in HR.
    apply (relabel_fields f w Hf (HR w Hw)). }
  assert (Es : map suit_of_word (map (relabel f) ws) = map f (map suit_of_word ws)).
  { rewrite !map_map. apply map_ext_in. intros w Hw. rewrite Forall_forall in HR.
    apply (relabel_fields f w Hf (HR w Hw)). }
  split; [exact HR'|].
  unfold shape_of. rewrite Er, Es. apply (f_equal (pair (map rank_of_word ws))). apply all_same_map_inj.
  intros s t Hs Ht. apply in_map_iff in Hs, Ht. destruct Hs as [x [<- Hx]]. destruct Ht as [y [<- Hy]].
  rewrite Forall_forall in HR.
  pose proof (real_card_fields x (HR x Hx)) as Fx. pose proof (real_card_fields y (HR y Hy)) as Fy.
  cbv zeta in Fx, Fy. apply Hf2; tauto.
Qed.

(* the five-card evaluation only sees ranks and "all suits equal": NO table contents involved *)
Lemma hrv5_relabel chk f ws :
  suit_bijection f -> length ws = 5%nat -> Forall RealCard ws ->
  hrv5 chk (map (relabel f) ws) = hrv5 chk ws.
Proof.
  intros Hf HL HR. destruct (relabel_shape f ws Hf HR) as [HR' E].
  assert (HL' : length (map (relabel f) ws) = 5%nat) by (rewrite map_length; exact HL).
  rewrite (hrv5_abs chk _ HL' HR'), (hrv5_abs chk ws HL HR).
  unfold shape_of in E. injection E as -> ->. reflexivity.
Qed.

Lemma relabel_handN f n ws :
  suit_bijection f -> HandN n ws -> HandN n (map (relabel f) ws).
Proof.
  intros Hf (HL & HR & HN). pose proof Hf as [Hf1 Hf2]. repeat split.
  - now rewrite map_length.
  - apply (relabel_shape f ws Hf HR).
  - apply NoDup_map_inj_in; [|exact HN]. intros x y Hx Hy E.
    rewrite Forall_forall in HR.
    pose proof (relabel_fields f x Hf (HR x Hx)) as (_ & A1 & A2).
    pose proof (relabel_fields f y Hf (HR y Hy)) as (_ & B1 & B2).
    pose proof (real_card_fields x (HR x Hx)) as Fx. pose proof (real_card_fields y (HR y Hy)) as Fy.
    cbv zeta in Fx, Fy.
    apply real_card_eq; auto; [congruence|]. apply Hf2; try tauto. congruence.
Qed.

Lemma sel_map_commute (g : N -> N) n ws p :
  length ws = n -> wf_row n p -> sel (map g ws) p = map g (sel ws p).
Proof.
  intros HL (_ & PR). unfold sel. rewrite map_map. apply map_ext_in. intros i Hi.
  rewrite Forall_forall in PR. specialize (PR i Hi). unfold nthN.
  rewrite (nth_indep (map g ws) 0 (g 0)) by (rewrite map_length; lia). apply map_nth.
Qed.

(* the ranking functions return the SAME outcome on the relabelled hand: no table contents involved, and the slot
   tables only need five in-range indices per row *)
Lemma relabel_same chk f n ws :
  suit_bijection f -> (n = 5 \/ n = 6 \/ n = 7)%nat -> HandN n ws ->
  hand_rank_value chk (map (relabel f) ws) = hand_rank_value chk ws.
Proof.
  intros Hf Hn H. pose proof H as (HL & HR & HN). unfold hand_rank_value, hrvh.
  rewrite map_length, HL. destruct Hn as [->|Hn].
  - exact (hrv5_relabel chk f ws Hf HL HR).
  - destruct tables_wf as [T6 T7].
    assert (G : forall perms, wf_table n perms ->
              rmap fst (hrvh_best chk perms (map (relabel f) ws)) = rmap fst (hrvh_best chk perms ws)).
    { intros perms TR. rewrite !hrvh_best_value. apply best_fold_rel; [|reflexivity].
      intros p Hp. destruct (sel_real n ws p HL HR (TR p Hp)) as (A & B & E).
      destruct (relabel_shape f ws Hf HR) as [HR' _].
      destruct (sel_real n (map (relabel f) ws) p ltac:(now rewrite map_length) HR' (TR p Hp)) as (_ & _ & E').
      exists (sel ws p), (sel (map (relabel f) ws) p). split; [exact E|]. split; [exact E'|].
      rewrite (sel_map_commute (relabel f) n ws p HL (TR p Hp)). apply hrv5_relabel; assumption. }
    destruct Hn as [->| ->]; [exact (G _ T6) | exact (G _ T7)].
Qed.

(* the value returned by ranking is invariant, for five, six and seven cards *)
Lemma relabel_value chk f n ws :
  suit_bijection f -> (n = 5 \/ n = 6 \/ n = 7)%nat -> HandN n ws ->
  exists v, hand_rank_value chk ws = Ok v /\ hand_rank_value chk (map (relabel f) ws) = Ok v.
Proof.
  intros Hf Hn H. pose proof H as (HL & HR & _).
  assert (HS : Slots n ws).
  { split; [exact HL|]. eapply Forall_impl; [|exact HR]. intros x Hx. right. exact Hx. }
  destruct (rank_total chk n ws Hn HS) as (_ & [v Hv] & _).
  exists v. split; [exact Hv|]. rewrite (relabel_same chk f n ws Hf Hn H). exact Hv.
Qed.

Lemma shift_hand_is_relabel ws : Forall RealCard ws -> shift_suit_hand ws = map (relabel next_suit_spec) ws.
Proof.
  intros H. unfold shift_suit_hand. apply map_ext_in. intros w Hw. rewrite Forall_forall in H.
  apply shift_is_relabel, H, Hw.
Qed.

Lemma shift_value chk n ws :
  (n = 5 \/ n = 6 \/ n = 7)%nat -> HandN n ws ->
  exists v, hand_rank_value chk ws = Ok v /\ hand_rank_value chk (shift_suit_hand ws) = Ok v.
Proof.
  intros Hn H. rewrite (shift_hand_is_relabel ws (proj1 (proj2 H))).
  exact (relabel_value chk next_suit_spec n ws next_suit_bijection Hn H).
Qed.
