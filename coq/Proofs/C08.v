(* C08 — suit shifting is a rank-preserving 4-cycle and never changes a hand's value; more
   generally no consistent relabelling of the four suits does. *)
From Coq Require Import Sorting.Permutation.
From CKC Require Import Base.Prelude Base.Reflect Base.SortN Base.Combs Spec.Layout Spec.Poker.
From CKC Require Import Model.Card Model.Hands Model.Five Model.HandRank.
From CKC Require Import Proofs.CardFacts Proofs.CombFacts Proofs.FiveFacts Proofs.ShapeFacts Proofs.C01 Proofs.TableFacts.
From CKC Require Import Gen.Consts.
Open Scope N_scope.

(* spades -> hearts -> diamonds -> clubs -> spades   (spades = 3 ... clubs = 0) *)
Definition next_suit_spec (s : N) : N := if s =? 0 then 3 else s - 1.

Lemma shift_card r s : r < 13 -> s < 4 -> shift_suit (layout r s) = layout r (next_suit_spec s).
Proof.
  intros Hr Hs.
  pose proof (sweep_rs (fun r s => shift_suit (layout r s) =? layout r (next_suit_spec s))
                ltac:(vm_compute; reflexivity) r s Hr Hs) as H.
  apply N.eqb_eq in H. exact H.
Qed.

Lemma shift_blank : shift_suit 0 = 0.
Proof. vm_compute. reflexivity. Qed.

Lemma shift_four r s :
  r < 13 -> s < 4 -> shift_suit (shift_suit (shift_suit (shift_suit (layout r s)))) = layout r s.
Proof.
  intros Hr Hs.
  pose proof (sweep_rs (fun r s => shift_suit (shift_suit (shift_suit (shift_suit (layout r s)))) =? layout r s)
                ltac:(vm_compute; reflexivity) r s Hr Hs) as H.
  apply N.eqb_eq in H. exact H.
Qed.

Lemma shift_not_fixed r s : r < 13 -> s < 4 -> shift_suit (layout r s) <> layout r s.
Proof.
  intros Hr Hs.
  pose proof (sweep_rs (fun r s => negb (shift_suit (layout r s) =? layout r s))
                ltac:(vm_compute; reflexivity) r s Hr Hs) as H.
  apply negb_true_iff, N.eqb_neq in H. exact H.
Qed.

Lemma shift_hand_slots ws :
  shift_suit_hand ws = map shift_suit ws /\ length (shift_suit_hand ws) = length ws /\
  forall i, (i < length ws)%nat -> nth i (shift_suit_hand ws) 0 = shift_suit (nth i ws 0).
Proof.
  unfold shift_suit_hand. repeat split.
  - apply map_length.
  - intros i Hi. rewrite <- shift_blank at 1. apply map_nth.
Qed.

(* ---- relabelling the suits ----------------------------------------------------------------------- *)
Definition relabel (f : N -> N) (w : N) : N := layout (rank_of_word w) (f (suit_of_word w)).
Definition suit_bijection (f : N -> N) : Prop :=
  (forall s, s < 4 -> f s < 4) /\ (forall s t, s < 4 -> t < 4 -> f s = f t -> s = t).

Lemma next_suit_bijection : suit_bijection next_suit_spec.
Proof.
  split.
  - intros s Hs. unfold next_suit_spec. destruct (N.eqb_spec s 0); lia.
  - intros s t Hs Ht. unfold next_suit_spec. destruct (N.eqb_spec s 0), (N.eqb_spec t 0); lia.
Qed.

Lemma shift_is_relabel w : RealCard w -> shift_suit w = relabel next_suit_spec w.
Proof.
  intros H. pose proof (real_card_fields w H) as F. cbv zeta in F. destruct F as (F1 & F2 & F3 & _).
  unfold relabel. rewrite F3 at 1. apply shift_card; assumption.
Qed.

Lemma relabel_fields f w :
  suit_bijection f -> RealCard w ->
  RealCard (relabel f w) /\ rank_of_word (relabel f w) = rank_of_word w /\
  suit_of_word (relabel f w) = f (suit_of_word w).
Proof.
  intros [Hf _] H. pose proof (real_card_fields w H) as F. cbv zeta in F. destruct F as (F1 & F2 & _).
  unfold relabel. destruct (decode_layout (rank_of_word w) (f (suit_of_word w)) F1 (Hf _ F2)) as [A B].
  repeat split; try assumption. exists (rank_of_word w), (f (suit_of_word w)). repeat split; auto.
Qed.

Lemma all_same_map_inj (f : N -> N) (l : list N) :
  (forall s t, In s l -> In t l -> f s = f t -> s = t) -> all_same (map f l) = all_same l.
Proof.
  destruct l as [|a l]; intros Hinj; [reflexivity|]. cbn [map all_same].
  induction l as [|b l IH]; [reflexivity|]. cbn [map forallb].
  rewrite IH by (intros s t Hs Ht; apply Hinj; cbn [In] in *; tauto). f_equal.
  destruct (N.eqb_spec a b) as [->|Hne]; [apply N.eqb_refl|].
  apply N.eqb_neq. intros E. apply Hne. apply Hinj; cbn [In]; tauto.
Qed.

Lemma relabel_hand5 f ws :
  suit_bijection f -> Hand5 ws ->
  Hand5 (map (relabel f) ws) /\ shape_of (map (relabel f) ws) = shape_of ws.
Proof.
  intros Hf (HL & HR & HN). pose proof Hf as [Hf1 Hf2].
  assert (HR' : Forall RealCard (map (relabel f) ws)).
  { apply Forall_forall. intros x Hx. apply in_map_iff in Hx. destruct Hx as [w [<- Hw]].
    rewrite Forall_forall in HR. apply (relabel_fields f w Hf (HR w Hw)). }
  assert (Er : map rank_of_word (map (relabel f) ws) = map rank_of_word ws).
  { rewrite map_map. apply map_ext_in. intros w Hw. rewrite Forall_forall in HR.
    apply (relabel_fields f w Hf (HR w Hw)). }
  assert (Es : map suit_of_word (map (relabel f) ws) = map f (map suit_of_word ws)).
  { rewrite !map_map. apply map_ext_in. intros w Hw. rewrite Forall_forall in HR.
    apply (relabel_fields f w Hf (HR w Hw)). }
  split.
  - repeat split; [now rewrite map_length | exact HR'|].
    apply NoDup_map_inj_in; [|exact HN]. intros x y Hx Hy E.
    rewrite Forall_forall in HR.
    pose proof (relabel_fields f x Hf (HR x Hx)) as (_ & A1 & A2).
    pose proof (relabel_fields f y Hf (HR y Hy)) as (_ & B1 & B2).
    pose proof (real_card_fields x (HR x Hx)) as Fx. pose proof (real_card_fields y (HR y Hy)) as Fy.
    cbv zeta in Fx, Fy.
    apply real_card_eq; auto; [congruence|]. apply Hf2; try tauto. congruence.
  - unfold shape_of. rewrite Er, Es. f_equal. apply all_same_map_inj.
    intros s t Hs Ht. apply in_map_iff in Hs, Ht. destruct Hs as [x [<- Hx]]. destruct Ht as [y [<- Hy]].
    rewrite Forall_forall in HR.
    pose proof (real_card_fields x (HR x Hx)) as Fx. pose proof (real_card_fields y (HR y Hy)) as Fy.
    cbv zeta in Fx, Fy. apply Hf2; tauto.
Qed.

Lemma relabel_handN f n ws :
  suit_bijection f -> HandN n ws -> HandN n (map (relabel f) ws).
Proof.
  intros Hf (HL & HR & HN). pose proof Hf as [Hf1 Hf2]. repeat split.
  - now rewrite map_length.
  - apply Forall_forall. intros x Hx. apply in_map_iff in Hx. destruct Hx as [w [<- Hw]].
    rewrite Forall_forall in HR. apply (relabel_fields f w Hf (HR w Hw)).
  - apply NoDup_map_inj_in; [|exact HN]. intros x y Hx Hy E.
    rewrite Forall_forall in HR.
    pose proof (relabel_fields f x Hf (HR x Hx)) as (_ & A1 & A2).
    pose proof (relabel_fields f y Hf (HR y Hy)) as (_ & B1 & B2).
    pose proof (real_card_fields x (HR x Hx)) as Fx. pose proof (real_card_fields y (HR y Hy)) as Fy.
    cbv zeta in Fx, Fy.
    apply real_card_eq; auto; [congruence|]. apply Hf2; try tauto. congruence.
Qed.

Lemma sel_map_commute (g : N -> N) n ws p :
  length ws = n -> valid_row n p -> sel (map g ws) p = map g (sel ws p).
Proof.
  intros HL (_ & _ & PR). unfold sel. rewrite map_map. apply map_ext_in. intros i Hi.
  rewrite Forall_forall in PR. specialize (PR i Hi). unfold nthN.
  rewrite (nth_indep (map g ws) 0 (g 0)) by (rewrite map_length; lia). apply map_nth.
Qed.

Lemma relabel_table_value f n perms ws :
  suit_bijection f -> valid_table n perms -> HandN n ws ->
  table_value perms (map (relabel f) ws) = table_value perms ws.
Proof.
  intros Hf [_ T] H. unfold table_value. apply (f_equal min_list). apply map_ext_in. intros p Hp.
  rewrite (sel_map_commute (relabel f) n ws p (proj1 H) (T p Hp)).
  destruct (relabel_hand5 f (sel ws p) Hf (proj1 (sel_hand5 n ws p H (T p Hp)))) as [_ E].
  unfold value5. rewrite E. reflexivity.
Qed.

(* the value returned by ranking is invariant, for five, six and seven cards *)
Lemma relabel_value chk f n ws :
  suit_bijection f -> (n = 5 \/ n = 6 \/ n = 7)%nat -> HandN n ws ->
  exists v, hand_rank_value chk ws = Ok v /\ hand_rank_value chk (map (relabel f) ws) = Ok v.
Proof.
  intros Hf Hn H. destruct Hn as [->|Hn].
  - destruct (relabel_hand5 f ws Hf H) as [H' E].
    exists (ordinal (shape_of ws)). split.
    + exact (proj1 (value_ok chk ws H)).
    + rewrite <- E. exact (proj1 (value_ok chk _ H')).
  - eexists. split.
    + exact (proj1 (value_table_ok chk n ws Hn H)).
    + rewrite <- (relabel_table_value f n _ ws Hf).
      * exact (proj1 (value_table_ok chk n _ Hn (relabel_handN f n ws Hf H))).
      * destruct tables_valid as [T6 T7]. destruct Hn as [->| ->]; assumption.
      * exact H.
Qed.

Lemma shift_hand_is_relabel ws : Forall RealCard ws -> shift_suit_hand ws = map (relabel next_suit_spec) ws.
Proof.
  intros H. unfold shift_suit_hand. apply map_ext_in. intros w Hw. rewrite Forall_forall in H.
  apply shift_is_relabel, H, Hw.
Qed.

Lemma shift_value chk n ws :
  (n = 5 \/ n = 6 \/ n = 7)%nat -> HandN n ws ->
  exists v, hand_rank_value chk ws = Ok v /\ hand_rank_value chk (shift_suit_hand ws) = Ok v.
Proof.
  intros Hn H. rewrite (shift_hand_is_relabel ws (proj1 (proj2 H))).
  exact (relabel_value chk next_suit_spec n ws next_suit_bijection Hn H).
Qed.
