(* C17 — the starting-hand score equals the Chen formula for every two-card hand. *)
From Coq Require Import Sorting.Permutation.
From CKC Require Import Base.Prelude Base.Reflect Base.SortN Spec.Layout.
From CKC Require Import Model.Card Model.Hands Model.Two.
From CKC Require Import Proofs.CardBase Proofs.AccChen Proofs.SortFacts Proofs.FiveFacts Proofs.ShapeFacts.
Open Scope N_scope.

(* ============================================================================================ *)
(* SPEC SIDE (written from the property text, never from the code; conceptually Spec).            *)
(* Ranks: deuce = 0 .. ace = 12. All point values are DOUBLED so that halves are integers; the     *)
(* result is the final integer score. [chen_points_x2] (Spec/Layout.v): ace 20, king 16, queen 14, *)
(* jack 12, otherwise the pip value r + 2 (half the pip value, doubled).                           *)
Definition chen_gap (r1 r2 : N) : N :=
  Z.to_N (Z.max 0 (Z.abs (Z.of_N r1 - Z.of_N r2) - 1)).

(* 0, 1, 2, 4, 5 points for gaps 0, 1, 2, 3, 4+ *)
Definition chen_penalty_x2 (gap : N) : Z :=
  if gap =? 0 then 0%Z else if gap =? 1 then 2%Z else if gap =? 2 then 4%Z
  else if gap =? 3 then 8%Z else 10%Z.

Definition chen_spec (r1 r2 : N) (suited : bool) : Z :=
  let hi := N.max r1 r2 in
  let base := Z.of_N (chen_points_x2 hi) in
  let gap := chen_gap r1 r2 in
  let total :=
    if r1 =? r2 then Z.max (2 * base) 10                       (* doubled, minimum 5 *)
    else (base - chen_penalty_x2 gap
          + (if ((gap <? 2) && (hi <? 10))%N then 2 else 0))%Z in  (* +1 below a queen, gap under 2 *)
  let total := if suited then (total + 4)%Z else total in     (* +2 suited *)
  ((total + 1) / 2)%Z.                                         (* rounded half-up: ceil (total/2) *)

(* the higher card: by rank, suit as tie-break *)
Definition higher (r1 s1 r2 s2 : N) : N :=
  if (r2 <? r1) || ((r1 =? r2) && (s2 <? s1)) then layout r1 s1 else layout r2 s2.

(* ============================================================================================ *)
(* lifting a sweep over all ordered pairs of (rank, suit) *)
Definition all_pairs (P : N -> N -> N -> N -> bool) : bool :=
  forallb (fun r1 => forallb (fun s1 =>
    forallb (fun r2 => forallb (P r1 s1 r2) (N_range 4)) (N_range 13)) (N_range 4)) (N_range 13).

Lemma sweep_pairs (P : N -> N -> N -> N -> bool) :
  all_pairs P = true ->
  forall r1 s1 r2 s2, r1 < 13 -> s1 < 4 -> r2 < 13 -> s2 < 4 -> P r1 s1 r2 s2 = true.
Proof.
  intros H r1 s1 r2 s2 H1 H2 H3 H4. unfold all_pairs in H.
  pose proof (forallb_N_range2 _ _ _ H r1 s1 H1 H2) as H'. cbv beta in H'.
  exact (forallb_N_range2 _ _ _ H' r2 s2 H3 H4).
Qed.

Definition resZ_eqb (x : res Z) (z : Z) : bool := match x with Ok y => Z.eqb y z | _ => false end.
Definition resN_eqb (x : res N) (n : N) : bool := match x with Ok y => y =? n | _ => false end.
Definition resb_eqb (x : res bool) (b : bool) : bool := match x with Ok y => Bool.eqb y b | _ => false end.
Lemma resZ_eqb_eq x z : resZ_eqb x z = true -> x = Ok z.
Proof. destruct x; cbn; try discriminate. intros H. apply Z.eqb_eq in H. now subst. Qed.
Lemma resN_eqb_eq x n : resN_eqb x n = true -> x = Ok n.
Proof. destruct x; cbn; try discriminate. intros H. apply N.eqb_eq in H. now subst. Qed.
Lemma resb_eqb_eq x b : resb_eqb x b = true -> x = Ok b.
Proof. destruct x; cbn; try discriminate. intros H. apply Bool.eqb_prop in H. now subst. Qed.

(* ---- C17_chen --------------------------------------------------------------------------------- *)
Definition chen_pair_ok (chk : bool) (r1 s1 r2 s2 : N) : bool :=
  resZ_eqb (chen_formula chk [layout r1 s1; layout r2 s2]) (chen_spec r1 r2 (s1 =? s2)).

Strategy expand [chen_pair_ok].

Lemma chen_sweep chk : all_pairs (chen_pair_ok chk) = true.
Proof. destruct chk; vm_compute; reflexivity. Qed.

(* holds for every ordered pair, also of two equal cards *)
Lemma chen_any chk r1 s1 r2 s2 :
  r1 < 13 -> s1 < 4 -> r2 < 13 -> s2 < 4 ->
  chen_formula chk [layout r1 s1; layout r2 s2] = Ok (chen_spec r1 r2 (s1 =? s2)).
Proof.
  intros H1 H2 H3 H4. apply resZ_eqb_eq. exact (sweep_pairs _ (chen_sweep chk) r1 s1 r2 s2 H1 H2 H3 H4).
Qed.

Lemma chen_ok chk r1 s1 r2 s2 :
  r1 < 13 -> s1 < 4 -> r2 < 13 -> s2 < 4 -> (r1, s1) <> (r2, s2) ->
  chen_formula chk [layout r1 s1; layout r2 s2] = Ok (chen_spec r1 r2 (s1 =? s2)).
Proof. intros H1 H2 H3 H4 _. apply chen_any; assumption. Qed.

(* the same, stated on card words *)
Lemma chen_cards chk w1 w2 :
  RealCard w1 -> RealCard w2 -> w1 <> w2 ->
  chen_formula chk [w1; w2]
  = Ok (chen_spec (rank_of_word w1) (rank_of_word w2) (suit_of_word w1 =? suit_of_word w2)).
Proof.
  intros (r1 & s1 & H1 & H2 & ->) (r2 & s2 & H3 & H4 & ->) _.
  destruct (decode_layout r1 s1 H1 H2) as [-> ->]. destruct (decode_layout r2 s2 H3 H4) as [-> ->].
  apply chen_any; assumption.
Qed.

(* ---- C17_helpers ------------------------------------------------------------------------------ *)
Definition helpers_pair_ok (chk : bool) (r1 s1 r2 s2 : N) : bool :=
  let ws := [layout r1 s1; layout r2 s2] in
  let gap := chen_gap r1 r2 in
  Bool.eqb (is_pocket_pair ws) (r1 =? r2)
  && Bool.eqb (is_suited ws) (s1 =? s2)
  && resN_eqb (get_gap chk ws) gap
  && resb_eqb (is_connector chk ws) (gap =? 0)
  && resb_eqb (is_suited_connector chk ws) ((s1 =? s2) && (gap =? 0))
  && (high_card ws =? higher r1 s1 r2 s2)
  && Bool.eqb (layout r1 s1 <? layout r2 s2) ((r1 <? r2) || ((r1 =? r2) && (s1 <? s2))).

Strategy expand [helpers_pair_ok].

Lemma helpers_sweep chk : all_pairs (helpers_pair_ok chk) = true.
Proof. destruct chk; vm_compute; reflexivity. Qed.

Lemma helpers_ok chk r1 s1 r2 s2 :
  r1 < 13 -> s1 < 4 -> r2 < 13 -> s2 < 4 ->
  let ws := [layout r1 s1; layout r2 s2] in
  let gap := chen_gap r1 r2 in
  is_pocket_pair ws = (r1 =? r2) /\
  is_suited ws = (s1 =? s2) /\
  get_gap chk ws = Ok gap /\
  is_connector chk ws = Ok (gap =? 0) /\
  is_suited_connector chk ws = Ok ((s1 =? s2) && (gap =? 0)) /\
  high_card ws = N.max (layout r1 s1) (layout r2 s2) /\
  high_card ws = higher r1 s1 r2 s2 /\
  (layout r1 s1 < layout r2 s2 <-> (r1 < r2 \/ (r1 = r2 /\ s1 < s2))).
Proof.
  intros H1 H2 H3 H4 ws gap.
  pose proof (sweep_pairs _ (helpers_sweep chk) r1 s1 r2 s2 H1 H2 H3 H4) as H.
  unfold helpers_pair_ok in H. cbv zeta in H. fold gap in H.
  change [layout r1 s1; layout r2 s2] with ws in H.
  apply andb_true_iff in H. destruct H as [H G7]. apply andb_true_iff in H. destruct H as [H G6].
  apply andb_true_iff in H. destruct H as [H G5]. apply andb_true_iff in H. destruct H as [H G4].
  apply andb_true_iff in H. destruct H as [H G3]. apply andb_true_iff in H. destruct H as [G1 G2].
  apply Bool.eqb_prop in G1, G2, G7. apply resN_eqb_eq in G3. apply resb_eqb_eq in G4, G5.
  apply N.eqb_eq in G6.
  split; [exact G1|]. split; [exact G2|]. split; [exact G3|]. split; [exact G4|].
  split; [exact G5|]. split; [reflexivity|]. split; [exact G6|].
  rewrite <- N.ltb_lt, G7, orb_true_iff, andb_true_iff, !N.ltb_lt, N.eqb_eq. reflexivity.
Qed.

(* the gap, read arithmetically *)
Lemma chen_gap_spec r1 r2 :
  chen_gap r1 r2 = N.max r1 r2 - N.min r1 r2 - 1 /\
  (chen_gap r1 r2 = 0 <-> (r1 <= r2 + 1 /\ r2 <= r1 + 1)).
Proof. unfold chen_gap. split; lia. Qed.

(* ---- C17_symmetric ---------------------------------------------------------------------------- *)
(* slot order is irrelevant, for arbitrary words *)
Lemma chen_swap chk a b : chen_formula chk [a; b] = chen_formula chk [b; a].
Proof.
  assert (E1 : high_card [a; b] = high_card [b; a]) by (unfold high_card, first, second; cbn [nth]; apply N.max_comm).
  assert (E2 : is_pocket_pair [a; b] = is_pocket_pair [b; a])
    by (unfold is_pocket_pair, first, second; cbn [nth]; apply N.eqb_sym).
  assert (E3 : is_suited [a; b] = is_suited [b; a])
    by (unfold is_suited, first, second; cbn [nth]; apply N.eqb_sym).
  assert (E4 : get_gap chk [a; b] = get_gap chk [b; a]).
  { unfold get_gap. rewrite (sort_desc_of_perm [a; b] [b; a]) by apply perm_swap. reflexivity. }
  unfold chen_formula. rewrite E1, E2, E3, E4. reflexivity.
Qed.

Lemma helpers_swap chk a b :
  high_card [a; b] = high_card [b; a] /\ is_pocket_pair [a; b] = is_pocket_pair [b; a] /\
  is_suited [a; b] = is_suited [b; a] /\ get_gap chk [a; b] = get_gap chk [b; a] /\
  is_connector chk [a; b] = is_connector chk [b; a] /\
  is_suited_connector chk [a; b] = is_suited_connector chk [b; a].
Proof.
  assert (E1 : high_card [a; b] = high_card [b; a]) by (unfold high_card, first, second; cbn [nth]; apply N.max_comm).
  assert (E2 : is_pocket_pair [a; b] = is_pocket_pair [b; a])
    by (unfold is_pocket_pair, first, second; cbn [nth]; apply N.eqb_sym).
  assert (E3 : is_suited [a; b] = is_suited [b; a])
    by (unfold is_suited, first, second; cbn [nth]; apply N.eqb_sym).
  assert (E4 : get_gap chk [a; b] = get_gap chk [b; a]).
  { unfold get_gap. rewrite (sort_desc_of_perm [a; b] [b; a]) by apply perm_swap. reflexivity. }
  repeat split; try assumption.
  - unfold is_connector. now rewrite E4.
  - unfold is_suited_connector, is_connector. now rewrite E3, E4.
Qed.

(* suit shifting of both cards *)
Definition resZ_eq2 (x y : res Z) : bool :=
  match x, y with Ok a, Ok b => Z.eqb a b | _, _ => false end.
Lemma resZ_eq2_eq x y : resZ_eq2 x y = true -> x = y.
Proof.
  destruct x as [a| |], y as [b| |]; cbn; try discriminate. intros H. apply Z.eqb_eq in H. now subst.
Qed.

Definition shift_pair_ok (chk : bool) (r1 s1 r2 s2 : N) : bool :=
  resZ_eq2 (chen_formula chk (shift_suit_hand [layout r1 s1; layout r2 s2]))
           (chen_formula chk [layout r1 s1; layout r2 s2]).

(* conversion hint: always unfold the sweep predicate first (otherwise the conversion test may start
   evaluating the model on symbolic cards) *)
Strategy expand [shift_pair_ok].

Lemma shift_sweep chk : all_pairs (shift_pair_ok chk) = true.
Proof. destruct chk; vm_compute; reflexivity. Qed.

Lemma chen_shift chk r1 s1 r2 s2 :
  r1 < 13 -> s1 < 4 -> r2 < 13 -> s2 < 4 ->
  chen_formula chk (shift_suit_hand [layout r1 s1; layout r2 s2])
  = chen_formula chk [layout r1 s1; layout r2 s2].
Proof.
  intros H1 H2 H3 H4. apply resZ_eq2_eq.
  exact (sweep_pairs _ (shift_sweep chk) r1 s1 r2 s2 H1 H2 H3 H4).
Qed.

Lemma symmetric_ok :
  (forall chk a b, chen_formula chk [a; b] = chen_formula chk [b; a]) /\
  (forall chk r1 s1 r2 s2, r1 < 13 -> s1 < 4 -> r2 < 13 -> s2 < 4 ->
     chen_formula chk (shift_suit_hand [layout r1 s1; layout r2 s2])
     = chen_formula chk [layout r1 s1; layout r2 s2]) /\
  (forall chk w1 w2, RealCard w1 -> RealCard w2 ->
     chen_formula chk (shift_suit_hand [w1; w2]) = chen_formula chk [w1; w2]).
Proof.
  split; [exact chen_swap|]. split; [exact chen_shift|].
  intros chk w1 w2 (r1 & s1 & H1 & H2 & ->) (r2 & s2 & H3 & H4 & ->). now apply chen_shift.
Qed.

(* ---- C17_points ------------------------------------------------------------------------------- *)
Lemma points_ok :
  (forall r s, r < 13 -> s < 4 -> get_chen_points_x2 (layout r s) = chen_points_x2 r) /\
  get_chen_points_x2 0 = 0 /\
  map chen_points_x2 [0; 1; 2; 3; 4; 5; 6; 7; 8; 9; 10; 11; 12]
  = [2; 3; 4; 5; 6; 7; 8; 9; 10; 12; 14; 16; 20].
Proof.
  split; [|split; vm_compute; reflexivity].
  intros r s Hr Hs. exact (acc_chen r s Hr Hs).
Qed.
