(* C18 — deck and published tables are complete and duplicate-free. *)
From CKC Require Import Base.Prelude Base.Reflect Base.Combs Spec.Layout Model.Deck Proofs.CardBase.
From CKC Require Import Gen.Consts Gen.Decks.
From CKC Require Export Proofs.SlotTables.
Open Scope N_scope.

(* spec of the preset starting-hand tables: higher card first *)
Definition two_table (r1 r2 : N) (ok : N -> N -> bool) : list (list N) :=
  flat_map (fun s1 => flat_map (fun s2 => if ok s1 s2 then [[layout r1 s1; layout r2 s2]] else [])
                               SUITS_DESC) SUITS_DESC.
Definition SPEC_AA := two_table 12 12 (fun s1 s2 => s2 <? s1).
Definition SPEC_AK := two_table 12 11 (fun _ _ => true).
Definition SPEC_AKs := two_table 12 11 N.eqb.
Definition SPEC_AKo := two_table 12 11 (fun a b => negb (a =? b)).
Definition SPEC_AQs := two_table 12 10 N.eqb.
Definition SPEC_AQo := two_table 12 10 (fun a b => negb (a =? b)).

Lemma deck_ok : POKER_DECK = SPEC_DECK /\ length POKER_DECK = 52%nat /\ NoDup POKER_DECK /\ DECK_LEN = 52 /\ DECK_SIZE = 52.
Proof.
  assert (H : POKER_DECK = SPEC_DECK) by (vm_compute; reflexivity).
  repeat split; try (vm_compute; reflexivity). rewrite H. apply SPEC_DECK_NoDup.
Qed.

Lemma deck_len : length POKER_DECK = 52%nat.
Proof. reflexivity. Qed.

Lemma get_ok i : deck_get i = Ok (nthN POKER_DECK i 0).
Proof.
  unfold deck_get. replace DECK_LEN with 52 by (vm_compute; reflexivity).
  pose proof deck_len as HL.
  destruct (i <? 52) eqn:E.
  - apply N.ltb_lt in E. unfold idx, nthN.
    destruct (nth_error POKER_DECK (N.to_nat i)) eqn:En.
    + now rewrite (nth_error_nth _ _ _ En).
    + apply nth_error_None in En. lia.
  - apply N.ltb_ge in E. unfold nthN. rewrite nth_overflow; [reflexivity|]. lia.
Qed.

Lemma get_past_end i : 52 <= i -> deck_get i = Ok 0.
Proof.
  intros H. rewrite get_ok. unfold nthN. pose proof deck_len as HL.
  rewrite nth_overflow; [reflexivity|]. lia.
Qed.

Lemma presets_ok :
  table_ok TWO_AA SPEC_AA 6 /\ table_ok TWO_AK SPEC_AK 16 /\
  table_ok TWO_AKs SPEC_AKs 4 /\ table_ok TWO_AKo SPEC_AKo 12 /\
  table_ok TWO_AQs SPEC_AQs 4 /\ table_ok TWO_AQo SPEC_AQo 12.
Proof. repeat match goal with |- _ /\ _ => split end; apply table_okb; vm_compute; reflexivity. Qed.


