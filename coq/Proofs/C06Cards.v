(* C06, the link to the cards: the rank reported for five distinct real cards carries the hand's
   value, category and class. This is the only part of C06 that depends on the contents of the
   lookup tables (through C01). *)
From Coq Require Import String Sorting.Permutation.
From CKC Require Import Base.Prelude Base.Reflect Base.SortN Spec.Layout Spec.Poker.
From CKC Require Import Gen.Enums Gen.HandRankMaps.
From CKC Require Import Model.Card Model.Hands Model.Five Model.HandRank.
From CKC Require Import Proofs.SortFacts Proofs.FiveFacts Proofs.PokerFacts Proofs.RankedFacts
  Proofs.ShapeFacts Proofs.C01 Proofs.C06.
Open Scope N_scope.

(* ---- C06_cards ------------------------------------------------------------------------------- *)
Lemma cards_ok chk ws :
  Hand5 ws ->
  let h := shape_of ws in
  let v := ordinal h in
  rmap hr_from (hand_rank_value chk ws) = Ok (hr_from v) /\
  rmap hr_from (hand_rank_value_validated chk ws) = Ok (hr_from v) /\
  hr_value (hr_from v) = v /\
  hr_name (hr_from v) = name_variant_spec h /\
  name_string (hr_name (hr_from v)) = category_name h /\
  class_string (hr_class (hr_from v)) = class_name_spec h /\
  is_invalid (hr_from v) = false /\ is_a_valid_hand_rank (hr_from v) = true.
Proof.
  intros H h v. pose proof (value_ok chk ws H) as HV. cbv zeta in HV. fold h in HV. fold v in HV.
  destruct HV as (E1 & _ & _ & E4 & _ & HR).
  destruct H as (HL & HRc & HN). pose proof (shape_valid ws HL HRc HN) as HS.
  unfold shape_of in *. set (rs := map rank_of_word ws) in *.
  set (fl := all_same (map suit_of_word ws)) in *.
  pose proof (canon_in_all_shapes rs fl HS) as Hin.
  pose proof (sort_desc_perm rs) as HP.
  destruct (describes_class _ Hin) as [_ HD].
  assert (EO : ordinal (sort_desc rs, fl) = v).
  { subst v h. apply ordinal_score, score_perm, HP. }
  rewrite EO in HD. destruct HD as (D1 & D2 & D3).
  rewrite E1, E4. cbn [rmap bind hr_from hr_value hr_name hr_class].
  split; [reflexivity|]. split; [reflexivity|]. split; [reflexivity|].
  split; [|split; [|split; [|split]]].
  - rewrite D1. unfold name_variant_spec. subst h.
    rewrite (category_name_perm _ _ fl HP). reflexivity.
  - rewrite D2. subst h. apply category_name_perm, HP.
  - rewrite D3. subst h. apply class_name_spec_perm, HP.
  - unfold is_invalid. cbn [hr_name]. apply N.eqb_neq. intros EI.
    apply name_invalid in EI; lia.
  - unfold is_a_valid_hand_rank. apply hr_eqb_eq. reflexivity.
Qed.

(* ---- six and seven cards: the reported rank describes the BEST five cards the hand contains --------- *)
From CKC Require Import Proofs.CombFacts Proofs.HandFacts Proofs.TableFacts Proofs.TablesComplete Proofs.C02.

Lemma cards_n_ok chk n ws :
  (n = 6 \/ n = 7)%nat -> HandN n ws ->
  exists s,
    Subseq s ws /\ Hand5 s /\
    let h := shape_of s in
    let v := ordinal h in
    v = best_value5 ws /\
    rmap hr_from (hand_rank_value chk ws) = Ok (hr_from v) /\
    rmap hr_from (hand_rank_value_validated chk ws) = Ok (hr_from v) /\
    name_string (hr_name (hr_from v)) = category_name h /\
    class_string (hr_class (hr_from v)) = class_name_spec h /\
    is_invalid (hr_from v) = false.
Proof.
  intros Hn H.
  destruct (attained_spec n ws ltac:(lia) H) as (s & Hs & _ & H5 & E).
  destruct (value_n_spec chk n ws Hn H) as (A & _ & _ & B & _). cbv zeta in A, B.
  destruct (cards_ok chk s H5) as (_ & _ & _ & _ & C5 & C6 & C7 & _). cbv zeta in C5, C6, C7.
  exists s. split; [exact Hs|]. split; [exact H5|]. cbv zeta.
  assert (Ev : ordinal (shape_of s) = best_value5 ws) by (symmetry; exact E).
  split; [exact Ev|]. rewrite A, B, <- Ev. repeat split; assumption.
Qed.
