(* Facts about k-combinations (Base/Combs.v). *)
From Coq Require Import Sorting.Permutation.
From CKC Require Import Base.Prelude Base.Combs.

Inductive Subseq {A : Type} : list A -> list A -> Prop :=
| Subseq_nil : Subseq [] []
| Subseq_skip x s l : Subseq s l -> Subseq s (x :: l)
| Subseq_take x s l : Subseq s l -> Subseq (x :: s) (x :: l).

Lemma Subseq_nil_l {A} (l : list A) : Subseq [] l.
Proof. induction l; constructor; auto. Qed.

Lemma Subseq_incl {A} (s l : list A) : Subseq s l -> incl s l.
Proof.
  induction 1; intros y Hy.
  - exact Hy.
  - right. apply IHSubseq, Hy.
  - destruct Hy as [->|Hy]; [left; reflexivity | right; apply IHSubseq, Hy].
Qed.

Lemma Subseq_NoDup {A} (s l : list A) : Subseq s l -> NoDup l -> NoDup s.
Proof.
  induction 1; intros Hnd.
  - constructor.
  - inversion Hnd; auto.
  - inversion Hnd; subst. constructor; auto.
    intro Hin. apply H2. eapply Subseq_incl; eauto.
Qed.

Lemma Subseq_length {A} (s l : list A) : Subseq s l -> (length s <= length l)%nat.
Proof. induction 1; cbn [length]; lia. Qed.

Lemma In_combs {A} (l : list A) k s : In s (combs l k) <-> Subseq s l /\ length s = k.
Proof.
  revert k s; induction l as [|x r IH]; intros k s.
  - destruct k; cbn [combs]; split.
    + intros [<-|[]]. split; [constructor|reflexivity].
    + intros [H Hl]. inversion H; subst. left; reflexivity.
    + intros [].
    + intros [H Hl]. inversion H; subst. discriminate.
  - destruct k; cbn [combs].
    + split.
      * intros [<-|[]]. split; [apply Subseq_nil_l | reflexivity].
      * intros [H Hl]. destruct s; [left; reflexivity | discriminate].
    + rewrite in_app_iff, in_map_iff. split.
      * intros [[s0 [<- Hin]] | Hin].
        -- apply IH in Hin. destruct Hin as [Hs Hl].
           split; [apply Subseq_take; auto | cbn [length]; lia].
        -- apply IH in Hin. destruct Hin as [Hs Hl].
           split; [apply Subseq_skip; auto | auto].
      * intros [H Hl]. inversion H; subst.
        -- right. apply IH. split; auto.
        -- left. exists s0. split; auto. apply IH. split; auto.
Qed.

Lemma combs_map {A B} (f : A -> B) (l : list A) k : combs (map f l) k = map (map f) (combs l k).
Proof.
  revert k; induction l as [|x r IH]; intros k.
  - destruct k; reflexivity.
  - destruct k; cbn [combs map]; [reflexivity|].
    rewrite map_app, !IH, !map_map. reflexivity.
Qed.

Lemma Subseq_filter {A} (f : A -> bool) (l : list A) : Subseq (filter f l) l.
Proof.
  induction l as [|x r IH]; cbn [filter]; [constructor|].
  destruct (f x); [apply Subseq_take | apply Subseq_skip]; auto.
Qed.

(* a duplicate-free list included in a duplicate-free list is a permutation of a sub-sequence *)
Lemma perm_subseq (s l : list N) :
  NoDup s -> NoDup l -> incl s l -> exists s', Subseq s' l /\ Permutation s s'.
Proof.
  intros Hs Hl Hincl.
  exists (filter (fun x => existsb (N.eqb x) s) l). split.
  - apply Subseq_filter.
  - apply NoDup_Permutation; auto.
    + eapply Subseq_NoDup; [apply Subseq_filter | exact Hl].
    + intros x. rewrite filter_In, existsb_exists. split.
      * intros Hx. split; [apply Hincl, Hx|]. exists x. split; auto. apply N.eqb_refl.
      * intros [_ [y [Hy Heq]]]. apply N.eqb_eq in Heq. subst; auto.
Qed.

Lemma subset_in_combs (s l : list N) k :
  NoDup s -> NoDup l -> incl s l -> length s = k ->
  exists c, In c (combs l k) /\ Permutation s c.
Proof.
  intros Hs Hl Hincl Hlen.
  destruct (perm_subseq s l Hs Hl Hincl) as [c [Hc Hp]].
  exists c. split; auto. apply In_combs. split; auto.
  rewrite <- Hlen. symmetry. apply Permutation_length, Hp.
Qed.

(* Sub-sequences of a duplicate-free list that are permutations of each other are equal. *)
Lemma Subseq_perm_eq (s1 s2 l : list N) :
  NoDup l -> Subseq s1 l -> Subseq s2 l -> Permutation s1 s2 -> s1 = s2.
Proof.
  revert s1 s2; induction l as [|x r IH]; intros s1 s2 Hnd H1 H2 Hp.
  - inversion H1; inversion H2; subst; reflexivity.
  - inversion Hnd as [|? ? Hnin Hr]; subst.
    inversion H1 as [|? ? ? H1'|? t1 ? H1']; inversion H2 as [|? ? ? H2'|? t2 ? H2']; subst.
    + apply IH; auto.
    + exfalso. apply Hnin. apply (Subseq_incl _ _ H1').
      apply (Permutation_in x (Permutation_sym Hp)). left; reflexivity.
    + exfalso. apply Hnin. apply (Subseq_incl _ _ H2').
      apply (Permutation_in x Hp). left; reflexivity.
    + f_equal. apply IH; auto. eapply Permutation_cons_inv; eauto.
Qed.
