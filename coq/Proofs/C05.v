(* C05, second half: a five-slot hand that contains a blank is never given a real rank. Depends on the
   CONTENTS of the tables (no product is 0; the five-distinct-ranks table is 0 on patterns of fewer than
   five ranks). Totality is in Proofs/Total.v. *)
From Coq Require Import Sorting.Permutation Sorting.Sorted.
From CKC Require Import Base.Prelude Base.Reflect Base.SortN Spec.Layout Spec.Poker.
From CKC Require Import Model.Card Model.Hands Model.Five Model.HandRank.
From CKC Require Import Proofs.CardBase Proofs.SortFacts Proofs.BitFacts Proofs.FiveFacts Proofs.PokerFacts
  Proofs.FipTotal.
From CKC Require Export Proofs.Total.
From CKC Require Import Gen.Consts Gen.Tables Gen.Decks.
Open Scope N_scope.

Lemma products_nonzero i p : i < 4888 -> tget PRODUCTS_T i = Ok p -> p <> 0.
Proof.
  intros Hi Hp.
  assert (H : forallb (fun i => match tget PRODUCTS_T i with Ok p => negb (p =? 0) | _ => false end)
                      (N_range 4888) = true) by (vm_compute; reflexivity).
  pose proof (forallb_N_range _ _ H i Hi) as Hk. cbv beta in Hk. rewrite Hp in Hk.
  apply negb_true_iff, N.eqb_neq in Hk. exact Hk.
Qed.

(* a zero prime field anywhere makes the product zero, which is not in the table: value 0 *)
Lemma fold_mul_zero l a : In 0 l -> fold_left N.mul l a = 0.
Proof.
  revert a. induction l as [|x l IH]; intros a H; [destruct H|]. cbn [fold_left].
  destruct H as [->|H]; [|apply IH, H].
  rewrite N.mul_0_r. clear. induction l as [|y l IH]; [reflexivity|]. cbn [fold_left]. exact IH.
Qed.

Lemma not_unique_blank chk ws : (length ws <= 5)%nat -> In 0 ws -> not_unique chk ws = Ok 0.
Proof.
  intros HL Hin. unfold not_unique. rewrite (multiply_primes_ok chk ws HL). cbn [bind].
  assert (Hz : fold_left N.mul (map get_rank_prime ws) 1 = 0).
  { apply fold_mul_zero. apply in_map_iff. exists 0. split; [reflexivity | exact Hin]. }
  rewrite Hz.
  destruct (find_in_products_total chk 0) as [i [Hi Hlt]]. rewrite Hi. cbn [bind].
  destruct (products_total i Hlt) as [p Hp]. rewrite Hp. cbn [bind].
  pose proof (products_nonzero i p Hlt Hp) as Hnz.
  destruct (N.eqb_spec p 0); [contradiction | reflexivity].
Qed.

(* THE REFLECTION over all 8 568 sorted rank-or-blank multisets: a hand with a blank never hits a non-zero
   cell of the five-distinct-ranks table *)
Definition blank_ok (ks : list N) : bool :=
  if memN 13 ks then match unique5 (code_or ks) with Ok 0 => true | _ => false end else true.

Lemma blank_ok_sweep : forallb blank_ok (multisets CODES_DESC 5) = true.
Proof. vm_cast_no_check (eq_refl true). Qed.

Lemma memN_perm x l l' : Permutation l l' -> memN x l = memN x l'.
Proof.
  intros HP. destruct (memN x l) eqn:E1, (memN x l') eqn:E2; try reflexivity.
  - apply memN_In in E1. apply (Permutation_in _ HP) in E1. apply (proj2 (memN_In _ _)) in E1. congruence.
  - apply memN_In in E2. apply (Permutation_in _ (Permutation_sym HP)) in E2. apply (proj2 (memN_In _ _)) in E2. congruence.
Qed.

Lemma blank_ok_all ks : length ks = 5%nat -> Forall (fun k => k < 14) ks -> blank_ok ks = true.
Proof.
  apply code_sweep_all; [|exact blank_ok_sweep].
  intros a b HP. unfold blank_ok. rewrite (memN_perm 13 a b HP), (code_or_perm a b HP). reflexivity.
Qed.

Lemma and_bits_blank ws : In 0 ws -> and_bits ws = 0.
Proof.
  intros Hin. destruct ws as [|w r]; [destruct Hin|]. cbn [and_bits].
  apply N.bits_inj. intro i. rewrite fold_land_testbit, N.bits_0.
  apply not_true_is_false. intros Hall. rewrite forallb_forall in Hall.
  specialize (Hall 0 Hin). rewrite N.bits_0 in Hall. discriminate.
Qed.

Lemma hrvh5_blank chk ws : Slots 5 ws -> In 0 ws -> hrvh5 chk ws = Ok (0, ws).
Proof.
  intros [HL HC] Hin. unfold hrvh5. cbv zeta.
  assert (Hf : is_flush ws = false).
  { unfold is_flush. rewrite (and_bits_blank ws Hin), N.land_0_l. reflexivity. }
  rewrite Hf. rewrite (or_rank_bits_code ws HC).
  pose proof (blank_ok_all (map code_of_word ws) ltac:(now rewrite map_length) (codes_small ws HC)) as H.
  unfold blank_ok in H.
  assert (Hm : memN 13 (map code_of_word ws) = true).
  { apply memN_In. apply in_map_iff. exists 0. split; [reflexivity | exact Hin]. }
  rewrite Hm in H.
  destruct (unique5 (code_or (map code_of_word ws))) as [u| |]; try discriminate H.
  destruct u; [|discriminate H]. cbn [bind]. change (0 =? 0) with true. cbv iota.
  rewrite (not_unique_blank chk ws ltac:(lia) Hin). reflexivity.
Qed.

(* a five-slot hand with a blank is never given a real rank *)
Lemma blank_five chk ws :
  Slots 5 ws -> In 0 ws ->
  hand_rank_value chk ws = Ok 0 /\ hrvh chk ws = Ok (0, ws) /\
  hand_rank_value_validated chk ws = Ok 0 /\ evaluate_five_cards chk ws = Ok 0 /\
  hr_name (hr_from 0) = NAME_INVALID /\ hr_class (hr_from 0) = CLASS_INVALID /\
  is_invalid (hr_from 0) = true.
Proof.
  intros HS Hin. pose proof (hrvh5_blank chk ws HS Hin) as H. destruct HS as [HL HC].
  assert (E1 : hrvh chk ws = Ok (0, ws)) by (unfold hrvh; rewrite HL; exact H).
  assert (E2 : hand_rank_value chk ws = Ok 0) by (unfold hand_rank_value, rmap; rewrite E1; reflexivity).
  assert (E3 : hand_rank_value_validated chk ws = Ok 0).
  { unfold hand_rank_value_validated. destruct (negb (is_valid ws)); [reflexivity | exact E2]. }
  repeat split; try assumption; vm_compute; reflexivity.
Qed.
