(* The `hrself` projection (Model/Proj.v) is constant on five, six or seven distinct real cards: the reported
   record is the conversion of the reported value, is not Invalid and passes its own consistency test
   (C06's cards lemmas + C06's consistency lemma). *)
From CKC Require Import Base.Prelude Spec.Layout Spec.Poker.
From CKC Require Import Model.Five Model.HandRank Model.Proj.
From CKC Require Import Proofs.FiveFacts Proofs.CombFacts Proofs.HandFacts Proofs.TableFacts Proofs.C02 Proofs.C06 Proofs.C06Cards.
Open Scope N_scope.

Lemma rmap_hr_from_inv (r : res N) v : rmap hr_from r = Ok (hr_from v) -> r = Ok v.
Proof.
  destruct r as [x| |]; cbn [rmap bind]; intros E; try discriminate E.
  apply (f_equal (fun o => match o with Ok h => hr_value h | _ => 0 end)) in E. cbn [hr_value hr_from] in E.
  rewrite E. reflexivity.
Qed.

Lemma hr_eqb_refl h : hr_eqb h h = true.
Proof. unfold hr_eqb. rewrite !N.eqb_refl. reflexivity. Qed.

Lemma hrself_of_value chk ws v :
  rmap hr_from (hand_rank_value chk ws) = Ok (hr_from v) ->
  rmap hr_from (hand_rank_value_validated chk ws) = Ok (hr_from v) ->
  is_invalid (hr_from v) = false ->
  proj_hrself chk ws = [Ok true; Ok true; Ok true].
Proof.
  intros A B G. apply rmap_hr_from_inv in A. apply rmap_hr_from_inv in B.
  unfold proj_hrself. cbv zeta. rewrite A, B. unfold guard1.
  rewrite hr_eqb_refl, G, (proj1 consistent_ok v). reflexivity.
Qed.

Lemma proj_hrself_const chk n ws :
  (n = 5 \/ n = 6 \/ n = 7)%nat -> HandN n ws -> proj_hrself chk ws = [Ok true; Ok true; Ok true].
Proof.
  intros [->|Hn] H.
  - pose proof (cards_ok chk ws H) as X. cbv zeta in X. destruct X as (A & B & _ & _ & _ & _ & G & _).
    exact (hrself_of_value chk ws _ A B G).
  - destruct (cards_n_ok chk n ws Hn H) as (s & _ & _ & X). cbv zeta in X. destruct X as (_ & A & B & _ & _ & G).
    exact (hrself_of_value chk ws _ A B G).
Qed.
