(* The rules-of-poker instance of the generic table lemmas: [value5 c] = the ordinal of the shape of
   five cards; by C01 (full reflection of the lookup tables) the five-card evaluation returns it. *)
From Coq Require Import Sorting.Permutation.
From CKC Require Import Base.Prelude Base.Reflect Spec.Layout Spec.Poker.
From CKC Require Import Model.Card Model.Hands Model.Five.
From CKC Require Import Proofs.FiveFacts Proofs.RankedFacts Proofs.HandFacts Proofs.C01.
From CKC Require Export Proofs.GenericTable.
Open Scope N_scope.

(* the poker value of five cards under the rules (Spec): the ordinal of their shape *)
Definition value5 (ws : list N) : N := ordinal (shape_of ws).

Lemma value5_range c : Hand5 c -> 1 <= value5 c <= 7462.
Proof. intros H. apply (ordinal_range (shape_of c)), shape_class, H. Qed.

Lemma value5_ranks chk : ranks_with chk value5.
Proof.
  intros c H. split; [apply hrv5_ordinal, H|]. pose proof (value5_range c H). lia.
Qed.

Lemma value5_perm s c : Hand5 s -> Permutation s c -> value5 s = value5 c.
Proof. apply (val_perm false value5 s c (value5_ranks false)). Qed.
