(* Ranking through a table of five-slot selections (Six / Seven), assuming only that every row of the
   table is WELL FORMED (five distinct in-range slot indices) and the table is non-empty. Enough for:
   the reported hand is a sorted witness from the input (C03), the value is a real rank (C04), the
   value is invariant under suit relabelling (C08). Completeness of the table (every combination is
   listed) is needed only for C02 / C09 and is used in Proofs/C02.v. *)
From Coq Require Import Sorting.Permutation Sorting.Sorted.
From CKC Require Import Base.Prelude Base.Reflect Base.SortN Base.Combs Spec.Layout Spec.Poker.
From CKC Require Import Model.Card Model.Hands Model.Five Model.HandRank.
From CKC Require Import Proofs.CardFacts Proofs.SortFacts Proofs.CombFacts Proofs.BitFacts Proofs.FiveFacts
  Proofs.PokerFacts Proofs.RankedFacts Proofs.ShapeFacts Proofs.ValidFacts Proofs.C01 Proofs.BestFacts.
From CKC Require Export Proofs.FreeFacts.
From CKC Require Import Gen.Consts Gen.Decks.
Open Scope N_scope.

(* the poker value of five cards under the rules (Spec): the ordinal of their shape *)
Definition value5 (ws : list N) : N := ordinal (shape_of ws).

Lemma sub_hand n ws c : HandN n ws -> Subseq c ws -> length c = 5%nat -> Hand5 c.
Proof.
  intros (HL & HR & HN) HS HC. repeat split; [exact HC| |eapply Subseq_NoDup; eauto].
  apply Forall_forall. intros x Hx. rewrite Forall_forall in HR. apply HR. eapply Subseq_incl; eauto.
Qed.

Lemma value5_range c : Hand5 c -> 1 <= value5 c <= 7462.
Proof. intros H. apply (ordinal_range (shape_of c)), shape_class, H. Qed.

(* slot order does not matter for the rule-based value *)
Lemma value5_perm s c : Hand5 s -> Permutation s c -> value5 s = value5 c.
Proof.
  intros HS HP.
  assert (HC : Hand5 c).
  { destruct HS as (HL & HR & HN). repeat split.
    - rewrite <- HL. symmetry. apply Permutation_length, HP.
    - eapply Permutation_Forall; eauto.
    - eapply Permutation_NoDup; eauto. }
  pose proof (hrv5_ordinal false s HS) as E1. pose proof (hrv5_ordinal false c HC) as E2.
  rewrite (hrv5_perm false s c (proj1 HS) HP) in E1. unfold value5. congruence.
Qed.

(* ---- minimum of a list -------------------------------------------------------------------------- *)
Definition min_list (l : list N) : N := match l with [] => 0 | x :: r => fold_left N.min r x end.

Lemma fold_min_le r : forall x, fold_left N.min r x <= x /\ (forall y, In y r -> fold_left N.min r x <= y).
Proof.
  induction r as [|a r IH]; intros x; cbn [fold_left]; [split; [lia | intros y []]|].
  destruct (IH (N.min x a)) as [H1 H2]. split; [lia|]. intros y [<-|Hy]; [lia | apply H2, Hy].
Qed.
Lemma fold_min_in r : forall x, fold_left N.min r x = x \/ In (fold_left N.min r x) r.
Proof.
  induction r as [|a r IH]; intros x; cbn [fold_left]; [left; reflexivity|].
  destruct (IH (N.min x a)) as [H|H]; [|right; right; exact H].
  destruct (N.min_spec x a) as [[_ E]|[_ E]]; rewrite E in H; [left | right; left]; congruence.
Qed.
Lemma min_list_char l v : In v l -> (forall y, In y l -> v <= y) -> v = min_list l.
Proof.
  intros Hin Hmin. destruct l as [|x r]; [destruct Hin|]. cbn [min_list].
  destruct (fold_min_le r x) as [H1 H2].
  assert (Hle : fold_left N.min r x <= v).
  { destruct Hin as [<-|Hin]; [exact H1 | apply H2, Hin]. }
  assert (Hge : v <= fold_left N.min r x).
  { destruct (fold_min_in r x) as [E|E]; [rewrite E; apply Hmin; left; reflexivity | apply Hmin; right; exact E]. }
  lia.
Qed.

Lemma Forall2_map_r {A B} (R : A -> B -> Prop) (f : A -> B) (l : list A) :
  (forall x, In x l -> R x (f x)) -> Forall2 R l (map f l).
Proof.
  induction l as [|a l IH]; intros H; cbn [map]; constructor.
  - apply H. left. reflexivity.
  - apply IH. intros x Hx. apply H. right. exact Hx.
Qed.


Lemma sel_hand5 n ws p : HandN n ws -> valid_row n p -> Hand5 (sel ws p) /\ incl (sel ws p) ws.
Proof.
  intros (HL & HR & HN) (PL & PN & PR). rewrite <- HL in PR.
  assert (Hincl : incl (sel ws p) ws).
  { intros x Hx. unfold sel in Hx. apply in_map_iff in Hx. destruct Hx as [i [<- Hi]].
    rewrite Forall_forall in PR. apply nthN_In, PR, Hi. }
  split; [|exact Hincl]. repeat split.
  - unfold sel. rewrite map_length. exact PL.
  - apply Forall_forall. intros x Hx. rewrite Forall_forall in HR. apply HR, Hincl, Hx.
  - unfold sel. apply NoDup_map_inj_in; [|exact PN]. intros i j Hi Hj E.
    rewrite Forall_forall in PR. pose proof (PR i Hi) as Li. pose proof (PR j Hj) as Lj.
    unfold nthN in E. apply (proj1 (NoDup_nth ws 0) HN) in E; [lia | exact Li | exact Lj].
Qed.

Definition cands (perms : list (list N)) (ws : list N) : list (N * list N) :=
  map (fun p => (value5 (sel ws p), sel ws p)) perms.

Lemma loop_pure n perms chk ws :
  valid_table n perms -> HandN n ws ->
  fold_left (best_step chk ws) perms (Ok (0, FIVE_DEFAULT)) = Ok (best_of (cands perms ws) (0, FIVE_DEFAULT)).
Proof.
  intros [_ T] H. apply best_fold_pure. unfold cands. apply Forall2_map_r. intros p Hp. cbn [fst snd].
  pose proof H as (HL & HR & HN). pose proof (T p Hp) as (PL & PN & PR).
  split.
  - apply select_map. rewrite HL. exact PR.
  - apply hrv5_ordinal. apply (sel_hand5 n ws p H (T p Hp)).
Qed.

(* the value the table-driven loop computes: the minimum over the rows of the table *)
Definition table_value (perms : list (list N)) (ws : list N) : N :=
  min_list (map (fun p => value5 (sel ws p)) perms).

(* THE RESULT for a well-formed table *)
Lemma best_table n perms chk ws :
  valid_table n perms -> HandN n ws ->
  exists p,
    In p perms /\ hrvh_best chk perms ws = Ok (value5 (sel ws p), sort_desc (sel ws p)) /\
    (forall q, In q perms -> value5 (sel ws p) <= value5 (sel ws q)) /\
    value5 (sel ws p) = table_value perms ws.
Proof.
  intros T H. pose proof H as (HL & HR & HN). pose proof T as [PNE TR].
  unfold hrvh_best. rewrite (loop_pure n perms chk ws T H).
  assert (Hnz : forall x, In x (cands perms ws) -> fst x <> 0).
  { intros x Hx. unfold cands in Hx. apply in_map_iff in Hx. destruct Hx as [p [<- Hp]]. cbn [fst].
    pose proof (value5_range _ (proj1 (sel_hand5 n ws p H (TR p Hp)))). lia. }
  assert (Hne : cands perms ws <> []).
  { unfold cands. destruct perms; [congruence | discriminate]. }
  pose proof (best_of_min (cands perms ws) FIVE_DEFAULT Hne Hnz) as HB. cbv zeta in HB.
  destruct (best_of (cands perms ws) (0, FIVE_DEFAULT)) as [v h]. cbn [fst] in HB. cbn [bind].
  destruct HB as (Hin & _ & Hmin).
  unfold cands in Hin. apply in_map_iff in Hin. destruct Hin as [p [Heq Hp]]. injection Heq as Hv Hh.
  subst h v. exists p.
  assert (Hq : forall q, In q perms -> value5 (sel ws p) <= value5 (sel ws q)).
  { intros q Hq. specialize (Hmin (value5 (sel ws q), sel ws q)). cbn [fst] in Hmin. apply Hmin.
    unfold cands. apply in_map_iff. exists q. split; [reflexivity | exact Hq]. }
  repeat split; try assumption.
  unfold table_value. apply min_list_char.
  - apply (in_map (fun p => value5 (sel ws p))), Hp.
  - intros y Hy. apply in_map_iff in Hy. destruct Hy as [q [<- Hq']]. apply Hq, Hq'.
Qed.

Lemma hrvh_table chk n ws :
  (n = 6 \/ n = 7)%nat -> HandN n ws ->
  exists perms p,
    valid_table n perms /\ In p perms /\
    hrvh chk ws = Ok (value5 (sel ws p), sort_desc (sel ws p)) /\
    (forall q, In q perms -> value5 (sel ws p) <= value5 (sel ws q)) /\
    value5 (sel ws p) = table_value perms ws /\
    (perms = if Nat.eqb n 6 then SIX_PERMUTATIONS else SEVEN_PERMUTATIONS).
Proof.
  intros Hn H. pose proof H as (HL & _). unfold hrvh. rewrite HL. destruct tables_valid as [T6 T7].
  destruct Hn as [->| ->].
  - destruct (best_table 6 SIX_PERMUTATIONS chk ws T6 H) as (p & A & B & C & D).
    exists SIX_PERMUTATIONS, p. split; [exact T6|]. split; [exact A|]. split; [exact B|]. split; [exact C|]. split; [exact D | reflexivity].
  - destruct (best_table 7 SEVEN_PERMUTATIONS chk ws T7 H) as (p & A & B & C & D).
    exists SEVEN_PERMUTATIONS, p. split; [exact T7|]. split; [exact A|]. split; [exact B|]. split; [exact C|]. split; [exact D | reflexivity].
Qed.

(* the value of six / seven distinct real cards through every entry point: a real rank *)
Lemma value_table_ok chk n ws :
  (n = 6 \/ n = 7)%nat -> HandN n ws ->
  let v := table_value (if Nat.eqb n 6 then SIX_PERMUTATIONS else SEVEN_PERMUTATIONS) ws in
  hand_rank_value chk ws = Ok v /\
  rmap (fun x => hr_value (hr_from x)) (hand_rank_value chk ws) = Ok v /\
  rmap fst (hrvh chk ws) = Ok v /\
  hand_rank_value_validated chk ws = Ok v /\
  1 <= v <= 7462.
Proof.
  intros Hn H v. destruct (hrvh_table chk n ws Hn H) as (perms & p & T & Hp & Hr & _ & Hv & ->).
  fold v in Hv. rewrite Hv in Hr.
  assert (E1 : hand_rank_value chk ws = Ok v) by (unfold hand_rank_value, rmap; rewrite Hr; reflexivity).
  pose proof H as (HL & HR & HN).
  assert (R : 1 <= v <= 7462).
  { rewrite <- Hv. apply value5_range. apply (sel_hand5 n ws p H (proj2 T p Hp)). }
  repeat split; try apply R.
  - exact E1.
  - rewrite E1. reflexivity.
  - rewrite Hr. reflexivity.
  - unfold hand_rank_value_validated. rewrite (proj2 (is_valid_spec ws) (conj HR HN)). exact E1.
Qed.

(* C03: the reported hand *)
Lemma witness_ok chk n ws :
  (n = 6 \/ n = 7)%nat -> HandN n ws ->
  exists v h,
    hrvh chk ws = Ok (v, h) /\ hand_rank_value chk ws = Ok v /\
    length h = 5%nat /\ NoDup h /\ incl h ws /\ noninc h /\ Forall RealCard h /\
    hrvh chk h = Ok (v, h) /\ hand_rank_value chk h = Ok v.
Proof.
  intros Hn H. destruct (hrvh_table chk n ws Hn H) as (perms & p & T & Hp & Hr & _ & _ & _).
  destruct (sel_hand5 n ws p H (proj2 T p Hp)) as [H5 Hincl].
  set (h := sel ws p) in *.
  pose proof (sort_desc_perm h) as HP.
  assert (H5' : Hand5 (sort_desc h)).
  { destruct H5 as (A & B & C). repeat split.
    - rewrite sort_desc_length. exact A.
    - eapply Permutation_Forall; [symmetry; exact HP | exact B].
    - eapply Permutation_NoDup; [symmetry; exact HP | exact C]. }
  destruct (value_ok chk (sort_desc h) H5') as (V1 & V2 & _). cbv zeta in V1, V2.
  assert (Eo : ordinal (shape_of (sort_desc h)) = value5 h).
  { symmetry. apply (value5_perm h (sort_desc h) H5). symmetry. exact HP. }
  rewrite Eo in V1, V2.
  exists (value5 h), (sort_desc h). destruct H5' as (A & B & C).
  repeat split; try assumption.
  - unfold hand_rank_value, rmap. rewrite Hr. reflexivity.
  - intros x Hx. apply (proj1 (sort_desc_In x h)) in Hx. apply Hincl, Hx.
  - apply sort_desc_sorted.
Qed.

