(* Safety/totality of the model of Five::find_in_products (Model/Five.v): for every key and both
   overflow-check settings the search returns normally with an index inside the product table. *)
From CKC Require Import Base.Prelude Base.Reflect Model.Five.
From CKC Require Import Gen.Tables.
From Coq Require Import ZifyBool ZifyN ZifyNat.
Open Scope N_scope.

Local Ltac Zify.zify_post_hook ::= Z.div_mod_to_equations.

(* every index below 4888 is present in the product trie (closed computation on the current data) *)
Lemma products_total i : i < 4888 -> exists v, tget PRODUCTS_T i = Ok v.
Proof.
  intros Hi.
  assert (H : forallb (fun i => is_ok (tget PRODUCTS_T i)) (N_range 4888) = true)
    by (vm_compute; reflexivity).
  pose proof (forallb_N_range _ _ H i Hi) as Hk. cbv beta in Hk.
  destruct (tget PRODUCTS_T i) as [v| |]; [exists v; reflexivity | discriminate | discriminate].
Qed.

Lemma values_total i : i < 4888 -> exists v, tget VALUES_T i = Ok v.
Proof.
  intros Hi.
  assert (H : forallb (fun i => is_ok (tget VALUES_T i)) (N_range 4888) = true)
    by (vm_compute; reflexivity).
  pose proof (forallb_N_range _ _ H i Hi) as Hk. cbv beta in Hk.
  destruct (tget VALUES_T i) as [v| |]; [exists v; reflexivity | discriminate | discriminate].
Qed.

(* ---- auxiliary facts -------------------------------------------------------------------------- *)
Lemma add_w_U64_small chk a b :
  a + b < 18446744073709551616 -> add_w U64 chk a b = Ok (a + b).
Proof.
  intros H. unfold add_w, U64. cbv zeta. change (2 ^ 64) with 18446744073709551616.
  destruct (N.ltb_spec (a + b) 18446744073709551616) as [_|Hge]; [reflexivity | lia].
Qed.

Lemma sub_w_le W chk a b : b <= a -> sub_w W chk a b = Ok (a - b).
Proof.
  intros H. unfold sub_w. destruct (N.leb_spec b a) as [_|Hgt]; [reflexivity | lia].
Qed.

(* one-step unfolding, stated as an equation so that nothing else gets reduced *)
Lemma fip_loop_S f chk key low high :
  fip_loop (S f) chk key low high =
  if low <=? high then
    let* s := add_w U64 chk high low in
    let mid := N.shiftr s 1 in
    let* product := tget PRODUCTS_T mid in
    if key <? product then
      if mid =? 0 then Ok 0
      else let* h := sub_w U64 chk mid 1 in fip_loop f chk key low h
    else if product <? key then
      let* l := add_w U64 chk mid 1 in fip_loop f chk key l high
    else Ok mid
  else Ok 0.
Proof. reflexivity. Qed.

(* The invariant that is actually inductive: an interval shorter than 2^n needs n+1 iterations
   (the last one is the iteration that sees the empty interval, or hits). *)
Lemma fip_loop_total_S n chk key : forall low high,
  high < 4888 -> low <= high + 1 -> high + 1 - low < 2 ^ (N.of_nat n) ->
  exists i, fip_loop (S n) chk key low high = Ok i /\ i < 4888.
Proof.
  induction n as [|n IH]; intros low high Hh Hl Hlen; rewrite fip_loop_S.
  - change (2 ^ N.of_nat 0) with 1 in Hlen.
    destruct (N.leb_spec low high) as [Hle|Hgt]; [lia|].
    exists 0. split; [reflexivity | lia].
  - rewrite Nat2N.inj_succ, N.pow_succ_r' in Hlen.
    assert (Hpos : 0 < 2 ^ N.of_nat n) by (apply N.neq_0_lt_0, N.pow_nonzero; discriminate).
    set (P := 2 ^ N.of_nat n) in *. clearbody P.
    destruct (N.leb_spec low high) as [Hle|Hgt]; [|exists 0; split; [reflexivity | lia]].
    rewrite add_w_U64_small by lia. cbn [bind]. cbv zeta.
    assert (Hmid : N.shiftr (high + low) 1 = (high + low) / 2)
      by (rewrite N.shiftr_div_pow2; reflexivity).
    rewrite Hmid. clear Hmid.
    set (mid := (high + low) / 2).
    assert (Hm1 : low <= mid) by (subst mid; lia).
    assert (Hm2 : mid <= high) by (subst mid; lia).
    assert (Hm3 : mid - low < P) by (subst mid; lia).
    assert (Hm4 : high - mid < P) by (subst mid; lia).
    clearbody mid.
    destruct (products_total mid) as [p Hp]; [lia|]. rewrite Hp. cbn [bind].
    destruct (key <? p).
    + destruct (N.eqb_spec mid 0) as [Hz|Hnz].
      * exists 0. split; [reflexivity | lia].
      * rewrite sub_w_le by lia. cbn [bind]. apply IH; lia.
    + destruct (p <? key).
      * rewrite add_w_U64_small by lia. cbn [bind]. apply IH; lia.
      * exists mid. split; [reflexivity | lia].
Qed.

(* NOT PROVABLE AS STATED (statement left untouched on purpose, see the refutation just below):
   with [fuel = 0] the hypotheses are satisfiable (low = 1, high = 0: the empty interval has length
   0 < 2^0) but [fip_loop 0 _ _ _ _ = Diverge].  More generally an interval of length < 2^fuel
   needs fuel + 1 iterations, so the bound is off by one; the correct form is
   [fip_loop_total_S] above (fuel = S n, length < 2^n).
   Nothing in this file depends on this admitted statement. *)
Lemma find_in_products_total chk key : exists i, find_in_products chk key = Ok i /\ i < 4888.
Proof.
  unfold find_in_products, FIP_FUEL.
  apply (fip_loop_total_S 63 chk key 0 4887).
  - reflexivity.
  - discriminate.
  - change (N.of_nat 63) with 63. apply N.ltb_lt. vm_compute. reflexivity.
Qed.

(* ---- historical: the search of the pinned tree BEFORE the repair (fix: commit 556f3b1): no guard on
        [mid = 0], so [mid - 1] underflows for any key below the first product ------------------------- *)
Fixpoint fip_loop_unrepaired (fuel : nat) (chk : bool) (key low high : N) : res N :=
  match fuel with
  | O => Diverge
  | S f =>
      if low <=? high then
        let* s := add_w U64 chk high low in
        let mid := N.shiftr s 1 in
        let* product := tget PRODUCTS_T mid in
        if key <? product then
          let* h := sub_w U64 chk mid 1 in fip_loop_unrepaired f chk key low h
        else if product <? key then
          let* l := add_w U64 chk mid 1 in fip_loop_unrepaired f chk key l high
        else Ok mid
      else Ok 0
  end.

(* key 0 (the prime product of any hand with a blank): checked builds panic on the subtraction, unchecked
   builds wrap to 2^64 - 1 and panic on the table index *)
Lemma unrepaired_refuted :
  fip_loop_unrepaired FIP_FUEL true 0 0 4887 = Panic /\ fip_loop_unrepaired FIP_FUEL false 0 0 4887 = Panic /\
  find_in_products true 0 = Ok 0 /\ find_in_products false 0 = Ok 0.
Proof. repeat split; vm_compute; reflexivity. Qed.
