(* Five distinct real cards always have a valid shape: no rank five times (there are only four
   suits) and a one-suit hand has five different ranks. *)
From Coq Require Import Sorting.Permutation PeanoNat.
From CKC Require Import Base.Prelude Base.Reflect Spec.Layout Spec.Poker.
From CKC Require Import Proofs.CardBase Proofs.BitFacts Proofs.FiveFacts.
Open Scope N_scope.

Lemma layout_inj r s r' s' :
  r < 13 -> s < 4 -> r' < 13 -> s' < 4 -> layout r s = layout r' s' -> r = r' /\ s = s'.
Proof.
  intros Hr Hs Hr' Hs' E.
  destruct (decode_layout r s Hr Hs) as [A B].
  destruct (decode_layout r' s' Hr' Hs') as [A' B'].
  rewrite E in A, B. split; congruence.
Qed.

(* ---- auxiliary list facts -------------------------------------------------------------------- *)
Lemma NoDup_map_inj_in {A B} (f : A -> B) (l : list A) :
  (forall x y, In x l -> In y l -> f x = f y -> x = y) -> NoDup l -> NoDup (map f l).
Proof.
  induction l as [|a l IH]; intros Hinj Hnd; cbn [map]; [constructor|].
  inversion Hnd as [|? ? Hnin Hnd']; subst. constructor.
  - intros Hin. apply in_map_iff in Hin. destruct Hin as [y [Hy Hin]].
    assert (y = a) by (apply Hinj; [right; exact Hin | left; reflexivity | exact Hy]).
    subst. contradiction.
  - apply IH; [|exact Hnd']. intros x y Hx Hy. apply Hinj; right; assumption.
Qed.

Lemma real_card_eq w w' :
  RealCard w -> RealCard w' -> rank_of_word w = rank_of_word w' ->
  suit_of_word w = suit_of_word w' -> w = w'.
Proof.
  intros H H' Er Es.
  pose proof (real_card_fields w H) as F. pose proof (real_card_fields w' H') as F'.
  cbv zeta in F, F'.
  destruct F as (_ & _ & F & _). destruct F' as (_ & _ & F' & _).
  transitivity (layout (rank_of_word w) (suit_of_word w)); [exact F|].
  rewrite Er, Es. symmetry. exact F'.
Qed.

(* distinct real cards have distinct (rank, suit) pairs *)
Lemma NoDup_rank_suit ws :
  Forall RealCard ws -> NoDup ws -> NoDup (map (fun w => (rank_of_word w, suit_of_word w)) ws).
Proof.
  intros Hreal Hnd. apply NoDup_map_inj_in; [|exact Hnd].
  rewrite Forall_forall in Hreal.
  intros x y Hx Hy E. injection E as Er Es.
  apply real_card_eq; auto.
Qed.

Lemma In_RANKS_DESC r : r < 13 -> In r RANKS_DESC.
Proof.
  intros H. apply memN_In. revert r H.
  apply (forallb_N_range (fun r => memN r RANKS_DESC) 13). vm_compute. reflexivity.
Qed.

Lemma In_small4 s : s < 4 -> In s [0; 1; 2; 3].
Proof. intros H. cbn [In]. lia. Qed.

Lemma count_occ_full (l : list N) x :
  count_occ N.eq_dec l x = length l -> forall y, In y l -> y = x.
Proof.
  induction l as [|a l IH]; intros H y Hy; [destruct Hy|].
  destruct (N.eq_dec a x) as [E|E].
  - rewrite (count_occ_cons_eq N.eq_dec l E) in H. cbn [length] in H. injection H as H.
    destruct Hy as [<-|Hy]; [exact E | apply IH; assumption].
  - rewrite (count_occ_cons_neq N.eq_dec l E) in H.
    pose proof (count_occ_bound N.eq_dec x l). cbn [length] in H. lia.
Qed.

Lemma all_same_spec l : all_same l = true -> forall x y, In x l -> In y l -> x = y.
Proof.
  destruct l as [|a l]; intros H x y Hx Hy; [destruct Hx|].
  cbn [all_same] in H. rewrite forallb_forall in H.
  assert (K : forall z, In z (a :: l) -> z = a).
  { intros z [<-|Hz]; [reflexivity|]. apply H in Hz. apply N.eqb_eq in Hz. congruence. }
  rewrite (K x Hx), (K y Hy). reflexivity.
Qed.

Lemma all_distinct_NoDup rs :
  NoDup rs -> length rs = 5%nat -> (forall r, In r rs -> r < 13) -> all_distinct rs = true.
Proof.
  intros Hnd Hlen Hb. unfold all_distinct. apply Nat.eqb_eq. rewrite <- Hlen.
  apply Permutation_length. apply NoDup_Permutation.
  - unfold ranks_with. apply NoDup_filter. apply nodupb_NoDup. vm_compute. reflexivity.
  - exact Hnd.
  - intros x. unfold ranks_with. rewrite filter_In. split.
    + intros [_ H]. apply Nat.eqb_eq in H. unfold cnt in H.
      apply (count_occ_In N.eq_dec). lia.
    + intros H. split; [apply In_RANKS_DESC, Hb, H|]. apply Nat.eqb_eq. unfold cnt.
      apply (proj1 (NoDup_count_occ' N.eq_dec rs) Hnd). exact H.
Qed.

(* the combinatorial core, on (rank, suit) pairs *)
Lemma pairs_valid (ps : list (N * N)) :
  length ps = 5%nat -> NoDup ps -> (forall p, In p ps -> fst p < 13 /\ snd p < 4) ->
  valid_shape (map fst ps, all_same (map snd ps)) = true.
Proof.
  intros Hlen Hnd Hb. unfold valid_shape.
  rewrite !andb_true_iff. repeat split.
  - rewrite map_length, Hlen. reflexivity.
  - apply forallb_forall. intros r Hr. apply in_map_iff in Hr. destruct Hr as [p [<- Hp]].
    apply N.ltb_lt. apply Hb, Hp.
  - apply forallb_forall. intros r _. apply Nat.leb_le.
    pose proof (count_occ_bound N.eq_dec r (map fst ps)) as Hbd. rewrite map_length, Hlen in Hbd.
    unfold cnt.
    destruct (Nat.eq_dec (count_occ N.eq_dec (map fst ps) r) 5) as [E|E]; [exfalso|lia].
    assert (Hall : forall p, In p ps -> fst p = r).
    { intros p Hp. apply (count_occ_full (map fst ps) r).
      - rewrite map_length, Hlen. exact E.
      - apply in_map, Hp. }
    assert (Hnd' : NoDup (map snd ps)).
    { apply NoDup_map_inj_in; [|exact Hnd]. intros [a b] [c d] Hx Hy Hs. cbn [snd] in Hs.
      apply Hall in Hx, Hy. cbn [fst] in *. congruence. }
    assert (Hincl : incl (map snd ps) [0; 1; 2; 3]).
    { intros s Hs. apply in_map_iff in Hs. destruct Hs as [p [<- Hp]].
      destruct (Hb p Hp) as [_ H4]. apply In_small4. exact H4. }
    pose proof (NoDup_incl_length Hnd' Hincl) as HL. rewrite map_length, Hlen in HL.
    cbn [length] in HL. lia.
  - destruct (all_same (map snd ps)) eqn:Eas; [|reflexivity].
    apply all_distinct_NoDup.
    + apply NoDup_map_inj_in; [|exact Hnd]. intros [a b] [c d] Hx Hy Hf. cbn [fst] in Hf.
      assert (b = d).
      { apply (all_same_spec _ Eas).
        - apply in_map_iff. exists (a, b). split; [reflexivity | exact Hx].
        - apply in_map_iff. exists (c, d). split; [reflexivity | exact Hy]. }
      congruence.
    + rewrite map_length. exact Hlen.
    + intros r Hr. apply in_map_iff in Hr. destruct Hr as [p [<- Hp]]. apply Hb, Hp.
Qed.

Lemma shape_valid ws :
  length ws = 5%nat -> Forall RealCard ws -> NoDup ws -> valid_shape (shape_of ws) = true.
Proof.
  intros Hlen Hreal Hnd. unfold shape_of.
  set (f := fun w => (rank_of_word w, suit_of_word w)).
  replace (map rank_of_word ws) with (map fst (map f ws))
    by (rewrite map_map; apply map_ext; reflexivity).
  replace (map suit_of_word ws) with (map snd (map f ws))
    by (rewrite map_map; apply map_ext; reflexivity).
  apply pairs_valid.
  - rewrite map_length. exact Hlen.
  - apply NoDup_rank_suit; assumption.
  - intros p Hp. apply in_map_iff in Hp. destruct Hp as [w [<- Hw]].
    rewrite Forall_forall in Hreal. pose proof (real_card_fields w (Hreal w Hw)) as F.
    cbv zeta in F. destruct F as (F1 & F2 & _). cbn [f fst snd]. split; assumption.
Qed.
