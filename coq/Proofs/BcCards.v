(* Bit-set form of the 52 cards: population-count lemmas, the bit-form deck is 2^51 .. 2^0, the two conversions on
   the 52 cards and on single bits (sweeps of the regenerated graphs). What "every OTHER word / value converts to
   blank" needs is in Proofs/C14.v. *)
From Coq Require Import String.
From CKC Require Import Base.Prelude Base.Reflect Spec.Layout Model.Card Model.Hands Model.Binary.
From CKC Require Import Proofs.CardBase.
From CKC Require Import Gen.Consts Gen.Decks Gen.Scan.
Open Scope N_scope.

(* ---- population count: general facts ------------------------------------------------------ *)
Lemma popcount_pos_nonzero p : popcount_pos p <> 0.
Proof. induction p; cbn [popcount_pos]; lia. Qed.

Lemma popcount_zero_iff b : popcount b = 0 <-> b = 0.
Proof.
  destruct b as [|p]; cbn [popcount]; [tauto|].
  split; [intros H; now apply popcount_pos_nonzero in H | discriminate].
Qed.

Lemma popcount_double b : popcount (2 * b) = popcount b.
Proof. destruct b; reflexivity. Qed.

Lemma popcount_double_succ b : popcount (2 * b + 1) = N.succ (popcount b).
Proof. destruct b; reflexivity. Qed.

Lemma popcount_pow2 k : popcount (2 ^ k) = 1.
Proof.
  induction k as [|k IH] using N.peano_ind; [reflexivity|].
  rewrite N.pow_succ_r', popcount_double. exact IH.
Qed.

Lemma popcount_pos_one p : popcount_pos p = 1 -> Npos p = 2 ^ N.log2 (Npos p).
Proof.
  induction p as [p IH|p IH|]; cbn [popcount_pos]; intros H.
  - exfalso. pose proof (popcount_pos_nonzero p). lia.
  - specialize (IH H). change (Npos p~0) with (2 * Npos p).
    rewrite N.log2_double by lia. rewrite N.pow_succ_r'. now rewrite <- IH.
  - reflexivity.
Qed.

(* a value with exactly one bit set is the power of two of its highest bit *)
Lemma popcount_one_log2 b : popcount b = 1 -> b = 2 ^ N.log2 b.
Proof. destruct b as [|p]; cbn [popcount]; [discriminate | apply popcount_pos_one]. Qed.

Lemma popcount_one_iff b : popcount b = 1 <-> exists k, b = 2 ^ k.
Proof.
  split.
  - intros H. exists (N.log2 b). now apply popcount_one_log2.
  - intros [k ->]. apply popcount_pow2.
Qed.

Lemma is_single_bit_iff b : is_single_bit b = true <-> popcount b = 1.
Proof.
  destruct b as [|p]; unfold is_single_bit; cbn [popcount].
  - split; discriminate.
  - apply N.eqb_eq.
Qed.

Lemma is_single_bit_pow2 b : is_single_bit b = true -> b = 2 ^ N.log2 b.
Proof. intros H. apply popcount_one_log2, is_single_bit_iff, H. Qed.

(* ---- the bit-form deck -------------------------------------------------------------------- *)
Lemma BC_DECK_length : length BC_DECK = 52%nat.
Proof. reflexivity. Qed.

Lemma BC_DECK_pow2 : BC_DECK = map (fun i => 2 ^ (51 - i)) (N_range 52).
Proof. vm_compute. reflexivity. Qed.

Lemma BC_DECK_nth i : i < 52 -> nthN BC_DECK i 0 = 2 ^ (51 - i).
Proof.
  intros Hi. apply N.eqb_eq.
  exact (forallb_N_range (fun i => nthN BC_DECK i 0 =? 2 ^ (51 - i)) 52
           ltac:(vm_compute; reflexivity) i Hi).
Qed.

(* ---- word -> bit: complete graph over all 2^32 words --------------------------------------- *)
Lemma from_ckc_deck i : i < 52 -> from_ckc (nthN SPEC_DECK i 0) = 2 ^ (51 - i).
Proof.
  intros Hi. apply N.eqb_eq.
  exact (forallb_N_range (fun i => from_ckc (nthN SPEC_DECK i 0) =? 2 ^ (51 - i)) 52
           ltac:(vm_compute; reflexivity) i Hi).
Qed.

Lemma SPEC_DECK_nth_real i : i < 52 -> RealCard (nthN SPEC_DECK i 0).
Proof.
  intros Hi. apply RealCard_iff. unfold nthN. apply nth_In. rewrite SPEC_DECK_length. lia.
Qed.

Lemma RealCard_nth w : RealCard w -> exists i, i < 52 /\ w = nthN SPEC_DECK i 0.
Proof.
  intros H. apply RealCard_iff in H. destruct (In_nth _ _ 0 H) as [n [Hn E]].
  rewrite SPEC_DECK_length in Hn. exists (N.of_nat n). split; [lia|].
  unfold nthN. now rewrite Nat2N.id.
Qed.

Lemma SPEC_DECK_nth_inj i j :
  i < 52 -> j < 52 -> nthN SPEC_DECK i 0 = nthN SPEC_DECK j 0 -> i = j.
Proof.
  intros Hi Hj E. unfold nthN in E.
  pose proof (proj1 (NoDup_nth SPEC_DECK 0) SPEC_DECK_NoDup (N.to_nat i) (N.to_nat j)) as H.
  rewrite SPEC_DECK_length in H. specialize (H ltac:(lia) ltac:(lia) E). lia.
Qed.

(* ---- bit -> word --------------------------------------------------------------------------- *)
Lemma from_bc_pow2 k : from_binary_card (2 ^ k) = nthN FROM_BC_SINGLE_BITS k 0.
Proof.
  unfold from_binary_card.
  rewrite (proj2 (is_single_bit_iff _) (popcount_pow2 k)), N.log2_pow2 by lia. reflexivity.
Qed.

Lemma FROM_BC_low k : k < 52 -> nthN FROM_BC_SINGLE_BITS k 0 = nthN SPEC_DECK (51 - k) 0.
Proof.
  intros Hk. apply N.eqb_eq.
  exact (forallb_N_range (fun k => nthN FROM_BC_SINGLE_BITS k 0 =? nthN SPEC_DECK (51 - k) 0) 52
           ltac:(vm_compute; reflexivity) k Hk).
Qed.

Lemma FROM_BC_high k : 52 <= k -> nthN FROM_BC_SINGLE_BITS k 0 = 0.
Proof.
  intros Hk. destruct (N.lt_ge_cases k 64) as [H|H].
  - pose proof (forallb_N_range (fun k => (k <? 52) || (nthN FROM_BC_SINGLE_BITS k 0 =? 0)) 64
                  ltac:(vm_compute; reflexivity) k H) as E.
    cbv beta in E. apply orb_true_iff in E. destruct E as [E|E].
    + apply N.ltb_lt in E. lia.
    + apply N.eqb_eq, E.
  - unfold nthN. apply nth_overflow.
    assert (L : length FROM_BC_SINGLE_BITS = 64%nat) by reflexivity. lia.
Qed.

Lemma from_bc_card_bit k : k < 52 -> from_binary_card (2 ^ k) = nthN SPEC_DECK (51 - k) 0.
Proof. intros Hk. rewrite from_bc_pow2. now apply FROM_BC_low. Qed.

Lemma from_bc_zero : from_binary_card 0 = 0.
Proof. reflexivity. Qed.

