(* C13, the link to ranking: the predicates agree with the category NAME obtained by ranking the same
   hand. This part of C13 depends on the contents of the lookup tables, but only as far as the property
   goes: its own reflection checks, for each of the 7 462 classes, that the NAME of the value the tables give
   is Flush/StraightFlush, Straight/StraightFlush, StraightFlush exactly when the class's category is (so a
   wrong value that stays on the same side of these three tests leaves it standing; that is C01's business). *)
From Coq Require Import String.
From CKC Require Import Base.Prelude Base.Reflect Spec.Layout Spec.Poker.
From CKC Require Import Gen.Enums.
From CKC Require Import Model.Five Model.HandRank.
From Coq Require Import Sorting.Permutation.
From CKC Require Import Base.SortN Proofs.SortFacts Proofs.PokerFacts Proofs.RankedFacts Proofs.ShapeFacts.
From CKC Require Import Proofs.FiveFacts Proofs.HandFacts Proofs.C13.
Open Scope N_scope.

(* the nine categories map to nine different name variants *)
Definition CATEGORY_NAMES : list string :=
  ["HighCard"; "Pair"; "TwoPair"; "ThreeOfAKind"; "Straight"; "Flush"; "FullHouse"; "FourOfAKind";
   "StraightFlush"]%string.
Definition name_of_category (c : N) : N :=
  variant HandRankName_NAMES (nth (N.to_nat c) CATEGORY_NAMES EmptyString).

(* THE REFLECTION: on every class the tables give a value whose category name is the class's category *)
Definition in2 (x a b : N) : bool := (x =? a) || (x =? b).
Definition cat_entry_ok (chk : bool) (p : N * shape) : bool :=
  let '(_, (rs, fl)) := p in
  let c := category (rs, fl) in
  match eval_abs chk rs fl with
  | Ok v =>
      let n := determine_name v in
      Bool.eqb (in2 n NAME_FLUSH NAME_STRAIGHT_FLUSH) (in2 c FLUSH STRAIGHT_FLUSH)
      && Bool.eqb (in2 n NAME_STRAIGHT NAME_STRAIGHT_FLUSH) (in2 c STRAIGHT STRAIGHT_FLUSH)
      && Bool.eqb (n =? NAME_STRAIGHT_FLUSH) (c =? STRAIGHT_FLUSH)
  | _ => false
  end.
Lemma cat_ranked chk : forallb (cat_entry_ok chk) ranked = true.
Proof. destruct chk; vm_cast_no_check (eq_refl true). Qed.

Lemma hrv5_category chk ws :
  Hand5 ws ->
  exists v, hrv5 chk ws = Ok v /\
    let n := determine_name v in let c := category (shape_of ws) in
    in2 n NAME_FLUSH NAME_STRAIGHT_FLUSH = in2 c FLUSH STRAIGHT_FLUSH /\
    in2 n NAME_STRAIGHT NAME_STRAIGHT_FLUSH = in2 c STRAIGHT STRAIGHT_FLUSH /\
    (n =? NAME_STRAIGHT_FLUSH) = (c =? STRAIGHT_FLUSH).
Proof.
  intros (HL & HR & HN).
  rewrite (hrv5_abs chk ws HL HR).
  pose proof (shape_valid ws HL HR HN) as HV. unfold shape_of in *.
  set (rs := map rank_of_word ws) in *. set (fl := all_same (map suit_of_word ws)) in *.
  rewrite (eval_abs_perm chk rs (sort_desc rs) fl) by (apply Permutation_sym, sort_desc_perm).
  rewrite (category_perm rs (sort_desc rs) fl) by (apply Permutation_sym, sort_desc_perm).
  pose proof (canon_in_all_shapes rs fl HV) as Hin. apply in_ranked in Hin.
  pose proof (cat_ranked chk) as HS. rewrite forallb_forall in HS. specialize (HS _ Hin).
  cbn [cat_entry_ok] in HS.
  destruct (eval_abs chk (sort_desc rs) fl) as [v| |]; try discriminate HS.
  cbv zeta in HS. rewrite !andb_true_iff in HS. destruct HS as [[A B] C].
  apply Bool.eqb_prop in A. apply Bool.eqb_prop in B. apply Bool.eqb_prop in C.
  exists v. split; [reflexivity|]. cbv zeta. repeat split; assumption.
Qed.

Lemma in2_iff x a b : in2 x a b = true <-> x = a \/ x = b.
Proof. unfold in2. rewrite orb_true_iff, !N.eqb_eq. tauto. Qed.

Lemma rank_name_ok chk ws :
  Hand5 ws ->
  exists r,
    rmap hr_from (hand_rank_value chk ws) = Ok r /\
    (is_flush ws = true <-> hr_name r = NAME_FLUSH \/ hr_name r = NAME_STRAIGHT_FLUSH) /\
    (is_straight ws = true <-> hr_name r = NAME_STRAIGHT \/ hr_name r = NAME_STRAIGHT_FLUSH) /\
    (is_straight_flush ws = true <-> hr_name r = NAME_STRAIGHT_FLUSH).
Proof.
  intros H. destruct (hrv5_category chk ws H) as (v & E & EA & EB & EC). cbv zeta in EA, EB, EC.
  destruct (category_ok ws H) as (A & B & C). cbv zeta in A, B, C.
  exists (hr_from v). split.
  { unfold hand_rank_value, hrvh. rewrite (proj1 H). fold (hrv5 chk ws). rewrite E. reflexivity. }
  cbn [hr_name hr_from].
  set (n := determine_name v) in *. set (c := category (shape_of ws)) in *.
  assert (F1 : n = NAME_FLUSH \/ n = NAME_STRAIGHT_FLUSH <-> c = FLUSH \/ c = STRAIGHT_FLUSH)
    by (rewrite <- !in2_iff, EA; reflexivity).
  assert (F2 : n = NAME_STRAIGHT \/ n = NAME_STRAIGHT_FLUSH <-> c = STRAIGHT \/ c = STRAIGHT_FLUSH)
    by (rewrite <- !in2_iff, EB; reflexivity).
  assert (F3 : n = NAME_STRAIGHT_FLUSH <-> c = STRAIGHT_FLUSH)
    by (rewrite <- !N.eqb_eq, EC; reflexivity).
  tauto.
Qed.
