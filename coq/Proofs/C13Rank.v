(* C13, the link to ranking: the predicates agree with the category NAME obtained by ranking the same
   hand. This part of C13 depends on the contents of the lookup tables, but only at the level of the
   CATEGORY: its own reflection checks, for each of the 7 462 classes, that the value the tables give lies
   in the value range of the class's category (so a wrong value inside the right category leaves it
   standing; that is C01's business). *)
From Coq Require Import String.
From CKC Require Import Base.Prelude Base.Reflect Spec.Layout Spec.Poker.
From CKC Require Import Gen.Enums.
From CKC Require Import Model.Five Model.HandRank.
From Coq Require Import Sorting.Permutation.
From CKC Require Import Base.SortN Proofs.SortFacts Proofs.PokerFacts Proofs.RankedFacts Proofs.ShapeFacts.
From CKC Require Import Proofs.FiveFacts Proofs.HandFacts Proofs.C13.
Open Scope N_scope.

Definition NAME_FLUSH : N := variant HandRankName_NAMES "Flush".
Definition NAME_STRAIGHT : N := variant HandRankName_NAMES "Straight".
Definition NAME_STRAIGHT_FLUSH : N := variant HandRankName_NAMES "StraightFlush".

(* the nine categories map to nine different name variants *)
Definition CATEGORY_NAMES : list string :=
  ["HighCard"; "Pair"; "TwoPair"; "ThreeOfAKind"; "Straight"; "Flush"; "FullHouse"; "FourOfAKind";
   "StraightFlush"]%string.
Definition name_of_category (c : N) : N :=
  variant HandRankName_NAMES (nth (N.to_nat c) CATEGORY_NAMES EmptyString).

(* THE REFLECTION: on every class the tables give a value whose category name is the class's category *)
Definition cat_entry_ok (chk : bool) (p : N * shape) : bool :=
  let '(_, (rs, fl)) := p in
  match eval_abs chk rs fl with
  | Ok v => determine_name v =? name_of_category (category (rs, fl))
  | _ => false
  end.
Lemma cat_ranked chk : forallb (cat_entry_ok chk) ranked = true.
Proof. destruct chk; vm_cast_no_check (eq_refl true). Qed.

Lemma hrv5_category chk ws :
  Hand5 ws -> exists v, hrv5 chk ws = Ok v /\ determine_name v = name_of_category (category (shape_of ws)).
Proof.
  intros (HL & HR & HN).
  rewrite (hrv5_abs chk ws HL HR).
  pose proof (shape_valid ws HL HR HN) as HV. unfold shape_of in *.
  set (rs := map rank_of_word ws) in *. set (fl := all_same (map suit_of_word ws)) in *.
  rewrite (eval_abs_perm chk rs (sort_desc rs) fl) by (apply Permutation_sym, sort_desc_perm).
  rewrite (category_perm rs (sort_desc rs) fl) by (apply Permutation_sym, sort_desc_perm).
  pose proof (canon_in_all_shapes rs fl HV) as Hin. apply in_ranked in Hin.
  pose proof (cat_ranked chk) as HS. rewrite forallb_forall in HS. specialize (HS _ Hin).
  cbn [cat_entry_ok] in HS.
  destruct (eval_abs chk (sort_desc rs) fl) as [v| |]; try discriminate HS.
  exists v. split; [reflexivity | apply N.eqb_eq, HS].
Qed.

Lemma name_of_category_inj c d : c < 9 -> d < 9 -> name_of_category c = name_of_category d -> c = d.
Proof.
  intros Hc Hd E.
  pose proof (forallb_N_range2
    (fun c d => negb (name_of_category c =? name_of_category d) || (c =? d)) 9 9
    ltac:(vm_compute; reflexivity) c d Hc Hd) as H. cbv beta in H.
  apply orb_true_iff in H. destruct H as [H|H].
  - apply negb_true_iff, N.eqb_neq in H. contradiction.
  - apply N.eqb_eq, H.
Qed.

Lemma category_small h : category h < 9.
Proof.
  unfold category. destruct h as [rs fl].
  repeat match goal with |- (if ?b then _ else _) < 9 => destruct b end; vm_compute; reflexivity.
Qed.

Lemma rank_name_ok chk ws :
  Hand5 ws ->
  exists r,
    rmap hr_from (hand_rank_value chk ws) = Ok r /\
    (is_flush ws = true <-> hr_name r = NAME_FLUSH \/ hr_name r = NAME_STRAIGHT_FLUSH) /\
    (is_straight ws = true <-> hr_name r = NAME_STRAIGHT \/ hr_name r = NAME_STRAIGHT_FLUSH) /\
    (is_straight_flush ws = true <-> hr_name r = NAME_STRAIGHT_FLUSH).
Proof.
  intros H. destruct (hrv5_category chk ws H) as (v & E & EN).
  destruct (category_ok ws H) as (A & B & C). cbv zeta in A, B, C.
  exists (hr_from v). split.
  { unfold hand_rank_value, hrvh. rewrite (proj1 H). fold (hrv5 chk ws). rewrite E. reflexivity. }
  cbn [hr_name hr_from]. rewrite EN.
  pose proof (category_small (shape_of ws)) as HS.
  assert (K : forall c, c < 9 -> (name_of_category (category (shape_of ws)) = name_of_category c <-> category (shape_of ws) = c)).
  { intros c Hc. split; [apply name_of_category_inj; assumption | intros ->; reflexivity]. }
  change NAME_FLUSH with (name_of_category FLUSH).
  change NAME_STRAIGHT with (name_of_category STRAIGHT).
  change NAME_STRAIGHT_FLUSH with (name_of_category STRAIGHT_FLUSH).
  rewrite !K by (vm_compute; reflexivity). tauto.
Qed.
