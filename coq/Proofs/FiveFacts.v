(* The abstraction lemma: on real cards the model of the five-card evaluator factors through the
   five ranks and the "all one suit" bit. *)
From Coq Require Import Sorting.Permutation.
From CKC Require Import Base.Prelude Base.Reflect Base.SortN Spec.Layout Spec.Poker.
From CKC Require Import Model.Card Model.Hands Model.Five Proofs.CardBase Proofs.BitFacts.
From CKC Require Import Gen.Consts Gen.Tables.
Open Scope N_scope.

(* decoding the documented layout: rank number from bits 8-11, suit from the one bit in bits 12-15 *)
Definition rank_of_word (w : N) : N := N.land (N.shiftr w 8) 15.
Definition suit_of_word (w : N) : N := N.log2 (N.land (N.shiftr w 12) 15).
Definition all_same (l : list N) : bool := match l with [] => true | x :: r => forallb (N.eqb x) r end.
Definition shape_of (ws : list N) : shape := (map rank_of_word ws, all_same (map suit_of_word ws)).

Definition card_fieldsb (w : N) : bool :=
  let r := rank_of_word w in let s := suit_of_word w in
  (r <? 13) && (s <? 4) && (w =? layout r s) && (N.shiftr w 16 =? 2 ^ r)
  && (N.land w 61440 =? 2 ^ (12 + s)) && (N.land w 63 =? prime_of r).

Lemma card_fields_sweep : forallb card_fieldsb SPEC_DECK = true.
Proof. vm_compute; reflexivity. Qed.

Lemma real_card_fields w :
  RealCard w ->
  let r := rank_of_word w in let s := suit_of_word w in
  r < 13 /\ s < 4 /\ w = layout r s /\ N.shiftr w 16 = 2 ^ r /\
  N.land w 61440 = 2 ^ (12 + s) /\ N.land w 63 = prime_of r.
Proof.
  intros H. apply RealCard_iff in H.
  pose proof card_fields_sweep as Hall. rewrite forallb_forall in Hall. specialize (Hall _ H).
  unfold card_fieldsb in Hall. cbv zeta in Hall |- *.
  rewrite !andb_true_iff in Hall. rewrite !N.ltb_lt, !N.eqb_eq in Hall.
  destruct Hall as [[[[[H1 H2] H3] H4] H5] H6]. repeat split; assumption.
Qed.

Lemma decode_layout r s : r < 13 -> s < 4 -> rank_of_word (layout r s) = r /\ suit_of_word (layout r s) = s.
Proof.
  intros Hr Hs.
  pose proof (sweep_rs (fun r s => (rank_of_word (layout r s) =? r) && (suit_of_word (layout r s) =? s))
                ltac:(vm_compute; reflexivity) r s Hr Hs) as H.
  cbv beta in H. apply andb_true_iff in H. rewrite !N.eqb_eq in H. exact H.
Qed.

(* the abstract evaluator: what the model computes, as a function of ranks and the flush bit *)
Definition rank_or (rs : list N) : N := fold_left N.lor (map (fun r => 2 ^ r) rs) 0.
Definition prime_prod (rs : list N) : N := fold_left N.mul (map prime_of rs) 1.
Definition not_unique_abs (chk : bool) (key : N) : res N :=
  let* i := find_in_products chk key in
  let* p := tget PRODUCTS_T i in
  if p =? key then tget VALUES_T i else Ok NO_HAND_RANK_VALUE.
Definition eval_abs (chk : bool) (rs : list N) (fl : bool) : res N :=
  let i := rank_or rs in
  if fl then tget FLUSHES_T i
  else let* u := unique5 i in if u =? 0 then not_unique_abs chk (prime_prod rs) else Ok u.

(* the u32 product of at most five 6-bit fields never overflows: 63^5 < 2^32 *)
Lemma multiply_primes_ok chk ws :
  (length ws <= 5)%nat ->
  multiply_primes chk ws = Ok (fold_left N.mul (map get_rank_prime ws) 1).
Proof.
  intros Hlen. unfold multiply_primes.
  assert (Hb : Forall (fun p => p <= 63) (map get_rank_prime ws)).
  { apply Forall_forall. intros p Hp. apply in_map_iff in Hp. destruct Hp as [w [<- _]].
    unfold get_rank_prime. change CN_RANK_PRIME_FILTER with 63. apply land_le_mask. }
  assert (Hl : (length (map get_rank_prime ws) <= 5)%nat) by (rewrite map_length; exact Hlen).
  destruct (map get_rank_prime ws) as [|p ps]; [reflexivity|].
  inversion Hb as [|? ? Hp Hps]; subst.
  rewrite fold_mul_w_ok with (bound := 63).
  - cbn [fold_left]. rewrite N.mul_1_l. reflexivity.
  - exact Hps.
  - cbn [length] in Hl.
    assert (H4 : N.of_nat (length ps) <= 4) by lia.
    assert (Hpow : 63 ^ N.of_nat (length ps) <= 63 ^ 4) by (apply N.pow_le_mono_r; [lia | exact H4]).
    change U32 with 4294967296.
    eapply N.le_lt_trans; [apply N.mul_le_mono; [exact Hp | exact Hpow]|].
    vm_compute. reflexivity.
Qed.

(* the three ingredients on real cards *)
Lemma or_rank_bits_abs ws : Forall RealCard ws -> or_rank_bits ws = rank_or (map rank_of_word ws).
Proof.
  intros H. unfold or_rank_bits, or_bits, rank_or.
  rewrite fold_lor_shiftr, N.shiftr_0_l, map_map. f_equal.
  apply map_ext_in. intros w Hw. rewrite Forall_forall in H.
  pose proof (real_card_fields w (H w Hw)) as F. cbv zeta in F.
  destruct F as (_ & _ & _ & F4 & _). change CN_RANK_FLAG_SHIFT with 16. exact F4.
Qed.

Lemma is_flush_abs ws :
  ws <> [] -> Forall RealCard ws -> is_flush ws = all_same (map suit_of_word ws).
Proof.
  intros Hne H. destruct ws as [|w r]; [congruence|]. clear Hne.
  unfold is_flush. cbn [and_bits map all_same]. change CN_SUIT_FILTER with 61440.
  rewrite fold_land_mask.
  inversion H as [|? ? Hw Hr]; subst.
  pose proof (real_card_fields w Hw) as F. cbv zeta in F.
  destruct F as (_ & _ & _ & _ & F5 & _). rewrite F5.
  assert (E : map (fun x => N.land x 61440) r = map (fun s => 2 ^ (12 + s)) (map suit_of_word r)).
  { rewrite map_map. apply map_ext_in. intros x Hx. rewrite Forall_forall in Hr.
    pose proof (real_card_fields x (Hr x Hx)) as G. cbv zeta in G.
    destruct G as (_ & _ & _ & _ & G5 & _). exact G5. }
  rewrite E, fold_land_onehot.
  destruct (forallb (N.eqb (suit_of_word w)) (map suit_of_word r)).
  - apply negb_true_iff, N.eqb_neq, N.pow_nonzero. discriminate.
  - reflexivity.
Qed.

Lemma primes_abs ws :
  Forall RealCard ws -> fold_left N.mul (map get_rank_prime ws) 1 = prime_prod (map rank_of_word ws).
Proof.
  intros H. unfold prime_prod. rewrite map_map. f_equal.
  apply map_ext_in. intros w Hw. rewrite Forall_forall in H.
  pose proof (real_card_fields w (H w Hw)) as F. cbv zeta in F.
  destruct F as (_ & _ & _ & _ & _ & F6).
  unfold get_rank_prime. change CN_RANK_PRIME_FILTER with 63. exact F6.
Qed.

Lemma hrv5_abs chk ws :
  length ws = 5%nat -> Forall RealCard ws ->
  hrv5 chk ws = eval_abs chk (map rank_of_word ws) (all_same (map suit_of_word ws)).
Proof.
  intros Hlen H.
  assert (Hne : ws <> []) by (intros ->; discriminate).
  unfold hrv5, hrvh5, eval_abs.
  rewrite (or_rank_bits_abs ws H), (is_flush_abs ws Hne H).
  destruct (all_same (map suit_of_word ws)).
  - unfold rmap, bind. destruct (tget FLUSHES_T _); reflexivity.
  - unfold rmap. destruct (unique5 _) as [u| |]; cbn [bind]; try reflexivity.
    destruct (u =? 0); [|reflexivity].
    unfold not_unique, not_unique_abs.
    rewrite multiply_primes_ok by lia. rewrite (primes_abs ws H). cbn [bind].
    destruct (find_in_products chk _) as [i| |]; cbn [bind]; try reflexivity.
    destruct (tget PRODUCTS_T i) as [p| |]; cbn [bind]; try reflexivity.
    destruct (p =? _); [|reflexivity].
    destruct (tget VALUES_T i); reflexivity.
Qed.

(* slot order is irrelevant, for arbitrary words *)
Lemma hrv5_perm chk ws ws' : length ws = 5%nat -> Permutation ws ws' -> hrv5 chk ws = hrv5 chk ws'.
Proof.
  intros Hlen HP.
  assert (Hlen' : length ws' = 5%nat) by (rewrite <- Hlen; symmetry; apply Permutation_length, HP).
  assert (E1 : or_rank_bits ws = or_rank_bits ws').
  { unfold or_rank_bits, or_bits. f_equal. apply fold_lor_perm, HP. }
  assert (E2 : is_flush ws = is_flush ws').
  { unfold is_flush. change (and_bits ws) with (and_all ws). change (and_bits ws') with (and_all ws').
    rewrite (and_all_perm ws ws' HP). reflexivity. }
  assert (E3 : not_unique chk ws = not_unique chk ws').
  { unfold not_unique. rewrite !multiply_primes_ok by lia.
    rewrite (fold_mul_perm _ _ 1 (Permutation_map get_rank_prime HP)). reflexivity. }
  unfold hrv5, hrvh5. rewrite E1, E2, E3.
  match goal with |- rmap fst (bind ?X _) = rmap fst (bind ?X _) => destruct X; reflexivity end.
Qed.

Lemma eval_abs_perm chk rs rs' fl : Permutation rs rs' -> eval_abs chk rs fl = eval_abs chk rs' fl.
Proof.
  intros HP. unfold eval_abs.
  assert (E1 : rank_or rs = rank_or rs').
  { unfold rank_or. apply fold_lor_perm, Permutation_map, HP. }
  assert (E2 : prime_prod rs = prime_prod rs').
  { unfold prime_prod. apply fold_mul_perm, Permutation_map, HP. }
  rewrite E1, E2. reflexivity.
Qed.
