(* C14 — bit-set card form and word form are mutually inverse over the 52 cards.
   Also the general single-bit / population-count lemmas reused by C15 and C16. *)
From Coq Require Import String.
From CKC Require Import Base.Prelude Base.Reflect Spec.Layout Model.Card Model.Hands Model.Binary.
From CKC Require Import Proofs.CardBase.
From CKC Require Export Proofs.BcCards.
From CKC Require Import Gen.Consts Gen.Decks Gen.Scan.
Open Scope N_scope.

Lemma from_ckc_not_real w : ~ RealCard w -> from_ckc w = 0.
Proof.
  intros H. unfold from_ckc. change BC_BLANK with 0. apply assoc_notin.
  rewrite (memN_ext (map fst FROM_CKC_NONBLANK) SPEC_DECK
             ltac:(vm_compute; reflexivity) ltac:(vm_compute; reflexivity) w).
  apply memN_false. intros Hin. apply H, RealCard_iff, Hin.
Qed.

(* every word: either the i-th deck card, sent to bit 51-i, or not a card, sent to the empty set *)
Lemma from_ckc_cases w :
  (exists i, i < 52 /\ w = nthN SPEC_DECK i 0 /\ from_ckc w = 2 ^ (51 - i)) \/
  (~ RealCard w /\ from_ckc w = 0).
Proof.
  destruct (real_cardb w) eqn:E.
  - left. apply real_cardb_spec in E. destruct (RealCard_nth _ E) as [i [Hi ->]].
    exists i. repeat split; [exact Hi | now apply from_ckc_deck].
  - right. assert (H : ~ RealCard w) by (intros H; apply real_cardb_spec in H; congruence).
    split; [exact H | now apply from_ckc_not_real].
Qed.

Lemma from_ckc_nonzero_real w : from_ckc w <> 0 -> RealCard w.
Proof.
  intros H. destruct (from_ckc_cases w) as [(i & Hi & -> & _)|[_ E]];
    [now apply SPEC_DECK_nth_real | contradiction].
Qed.

(* every value (in particular every 64-bit value) that is not one of the 52 card bits is blank *)
Lemma from_bc_default b : (forall i, i < 52 -> b <> 2 ^ i) -> from_binary_card b = 0.
Proof.
  intros H. unfold from_binary_card. change CN_BLANK with 0.
  destruct (is_single_bit b) eqn:E; [|reflexivity].
  apply is_single_bit_pow2 in E. apply FROM_BC_high.
  destruct (N.lt_ge_cases (N.log2 b) 52) as [Hlt|Hge]; [|exact Hge].
  exfalso. exact (H _ Hlt E).
Qed.

Lemma from_bc_nonzero b : from_binary_card b <> 0 -> exists k, k < 52 /\ b = 2 ^ k.
Proof.
  intros H. unfold from_binary_card in H. change CN_BLANK with 0 in H.
  destruct (is_single_bit b) eqn:E; [|congruence].
  apply is_single_bit_pow2 in E. exists (N.log2 b). split; [|exact E].
  destruct (N.lt_ge_cases (N.log2 b) 52) as [Hlt|Hge]; [exact Hlt|].
  now rewrite (FROM_BC_high _ Hge) in H.
Qed.

(* ---- the four statements -------------------------------------------------------------------- *)
Lemma positions_ok :
  length BC_DECK = 52%nat /\
  (forall i, i < 52 -> nthN BC_DECK i 0 = 2 ^ (51 - i)) /\
  POKER_DECK = SPEC_DECK /\
  (forall i, i < 52 -> from_ckc (nthN SPEC_DECK i 0) = nthN BC_DECK i 0) /\
  BC_CARDS = BC_DECK /\
  BC_CARD_NAMES = map (fun '(r, s) => const_name r s) SPEC_DECK_RS /\
  BC_CARD_NAMES = CN_CARD_NAMES /\
  BC_BLANK = 0.
Proof.
  split; [reflexivity|]. split; [exact BC_DECK_nth|]. split; [vm_compute; reflexivity|].
  split; [intros i Hi; now rewrite from_ckc_deck, BC_DECK_nth|].
  repeat split; vm_compute; reflexivity.
Qed.

Lemma roundtrip_ok i :
  i < 52 ->
  from_binary_card (from_ckc (nthN SPEC_DECK i 0)) = nthN SPEC_DECK i 0 /\
  from_ckc (from_binary_card (2 ^ (51 - i))) = 2 ^ (51 - i).
Proof.
  intros Hi. split.
  - rewrite from_ckc_deck by exact Hi. rewrite from_bc_card_bit by lia. f_equal. lia.
  - rewrite from_bc_card_bit by lia. replace (51 - (51 - i)) with i by lia. now apply from_ckc_deck.
Qed.

Lemma roundtrip_word w : RealCard w -> from_binary_card (from_ckc w) = w.
Proof. intros H. destruct (RealCard_nth _ H) as [i [Hi ->]]. now apply roundtrip_ok. Qed.

(* all N (all 2^64 bit-sets): whenever the bit -> word conversion is not blank it is inverted *)
Lemma roundtrip_bits b : from_binary_card b <> 0 -> from_ckc (from_binary_card b) = b.
Proof.
  intros H. destruct (from_bc_nonzero _ H) as [k [Hk ->]].
  replace k with (51 - (51 - k)) by lia. apply roundtrip_ok. lia.
Qed.

Lemma word_default w : ~ RealCard w -> from_ckc w = 0.
Proof. exact (from_ckc_not_real w). Qed.

Lemma bits_default b : (forall i, i < 52 -> b <> 2 ^ i) -> from_binary_card b = 0.
Proof. exact (from_bc_default b). Qed.
