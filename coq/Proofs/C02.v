(* C02 — six- and seven-card ranking is the best five-card sub-hand under the rules of poker:
   the generic table lemmas (Proofs/GenericTable.v) at [val := value5], with complete slot tables. *)
From Coq Require Import Sorting.Permutation.
From CKC Require Import Base.Prelude Base.Reflect Base.Combs Spec.Layout Spec.Poker.
From CKC Require Import Model.Card Model.Hands Model.Five Model.HandRank.
From CKC Require Import Proofs.CombFacts Proofs.FiveFacts Proofs.HandFacts Proofs.C01 Proofs.TableFacts Proofs.TablesComplete.
Open Scope N_scope.

(* the rule-based value of n cards: the strongest (smallest) ordinal among all five-card sub-hands *)
Definition best_value5 (ws : list N) : N := best_value value5 ws.

Lemma value_n_spec chk n ws :
  (n = 6 \/ n = 7)%nat -> HandN n ws ->
  let v := best_value5 ws in
  hand_rank_value chk ws = Ok v /\
  rmap (fun x => hr_value (hr_from x)) (hand_rank_value chk ws) = Ok v /\
  rmap fst (hrvh chk ws) = Ok v /\
  hand_rank_value_validated chk ws = Ok v /\
  1 <= v <= 7462.
Proof.
  intros Hn H v.
  destruct (value_n_ok chk value5 n ws (value5_ranks chk) tables_complete_now ltac:(lia) H) as (A & B & C & D & _).
  destruct (attained_ok value5 n ws ltac:(lia) H) as (s & _ & _ & H5 & E).
  repeat split; try assumption; unfold v, best_value5; rewrite E; apply (value5_range s H5).
Qed.

Lemma lower_spec n ws s :
  HandN n ws -> length s = 5%nat -> NoDup s -> incl s ws -> best_value5 ws <= value5 s.
Proof. apply (lower_ok false value5 n ws s (value5_ranks false)). Qed.

Lemma attained_spec n ws :
  (5 <= n)%nat -> HandN n ws -> exists s, Subseq s ws /\ length s = 5%nat /\ Hand5 s /\ best_value5 ws = value5 s.
Proof. apply (attained_ok value5). Qed.

(* ---- slot order ------------------------------------------------------------------------------ *)
Lemma handN_perm n ws ws' : Permutation ws ws' -> HandN n ws -> HandN n ws'.
Proof.
  intros HP (HL & HR & HN). repeat split.
  - rewrite <- HL. symmetry. apply Permutation_length, HP.
  - eapply Permutation_Forall; eauto.
  - eapply Permutation_NoDup; eauto.
Qed.

Lemma best_value5_perm n ws ws' :
  (5 <= n)%nat -> HandN n ws -> Permutation ws ws' -> best_value5 ws = best_value5 ws'.
Proof.
  intros Hn H HP. pose proof (handN_perm n ws ws' HP H) as H'.
  pose proof H as (HL & _ & HN). pose proof H' as (HL' & _ & HN').
  unfold best_value5. apply N.le_antisymm.
  - apply (monotone_ok false value5 n n ws ws' (value5_ranks false) Hn H HL' HN').
    intros x Hx. apply (Permutation_in x (Permutation_sym HP) Hx).
  - apply (monotone_ok false value5 n n ws' ws (value5_ranks false) Hn H' HL HN).
    intros x Hx. apply (Permutation_in x HP Hx).
Qed.

(* the same cards in any two slot orders: every entry point returns the same value *)
Lemma slot_order_spec chk n ws ws' :
  (n = 6 \/ n = 7)%nat -> HandN n ws -> Permutation ws ws' ->
  hand_rank_value chk ws' = hand_rank_value chk ws /\
  hand_rank_value_validated chk ws' = hand_rank_value_validated chk ws /\
  rmap fst (hrvh chk ws') = rmap fst (hrvh chk ws).
Proof.
  intros Hn H HP. pose proof (handN_perm n ws ws' HP H) as H'.
  destruct (value_n_spec chk n ws Hn H) as (A & _ & B & C & _).
  destruct (value_n_spec chk n ws' Hn H') as (A' & _ & B' & C' & _).
  cbv zeta in *.
  rewrite A, A', B, B', C, C', (best_value5_perm n ws ws' ltac:(lia) H HP). repeat split.
Qed.

(* ---- the reported hand is a best hand by the rules ------------------------------------------------ *)
From CKC Require Import Proofs.FreeFacts Proofs.C03.
Lemma reported_hand_spec chk n ws v h :
  (n = 6 \/ n = 7)%nat -> HandN n ws -> hrvh chk ws = Ok (v, h) ->
  Hand5 h /\ incl h ws /\ v = best_value5 ws /\ value5 h = best_value5 ws /\
  forall s, length s = 5%nat -> NoDup s -> incl s ws -> value5 h <= value5 s.
Proof.
  intros Hn H E.
  destruct (witness_free chk n ws Hn H) as (v' & h' & E' & _ & HL & HN & HI & _ & HR & _ & HV).
  rewrite E in E'. injection E' as <- <-.
  assert (H5 : Hand5 h) by (repeat split; assumption).
  destruct (value_n_spec chk n ws Hn H) as (_ & _ & B & _ & _). cbv zeta in B.
  rewrite E in B. cbn in B. injection B as Bv.
  pose proof (proj1 (value_ok chk h H5)) as V5. cbv zeta in V5. rewrite HV in V5. injection V5 as V5.
  assert (EV : value5 h = best_value5 ws) by (unfold value5; rewrite <- V5; exact Bv).
  repeat split; try assumption.
  intros s Hs Hd Hincl. rewrite EV. apply (lower_spec n ws s H Hs Hd Hincl).
Qed.
