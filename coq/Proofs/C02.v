(* C02 / C09 — six- and seven-card ranking is the best five-card sub-hand; more cards never weaken a
   hand. Built on Proofs/TableFacts.v (the loop over a well-formed table) plus COMPLETENESS of the
   regenerated slot tables. General proofs: no enumeration of hands. *)
From Coq Require Import Sorting.Permutation Sorting.Sorted.
From CKC Require Import Base.Prelude Base.Reflect Base.SortN Base.Combs Spec.Layout Spec.Poker.
From CKC Require Import Model.Card Model.Hands Model.Five Model.HandRank.
From CKC Require Import Proofs.CardFacts Proofs.SortFacts Proofs.CombFacts Proofs.BitFacts Proofs.FiveFacts
  Proofs.PokerFacts Proofs.RankedFacts Proofs.ShapeFacts Proofs.ValidFacts Proofs.C01 Proofs.C18 Proofs.BestFacts
  Proofs.TableFacts.
From CKC Require Import Gen.Consts Gen.Decks.
Open Scope N_scope.

(* a table that lists every 5-of-n slot combination (as a set) *)
Definition complete_table (n : nat) (perms : list (list N)) : Prop :=
  forall r, In r perms <-> In r (combs (N_range (N.of_nat n)) 5).

Lemma sel_in_combs n perms (ws : list N) p :
  complete_table n perms -> length ws = n -> In p perms -> In (sel ws p) (combs ws 5).
Proof.
  intros PC HL Hp. rewrite combs_select. unfold lenN. rewrite HL.
  apply (in_map (map (fun i => nthN ws i 0))). apply PC, Hp.
Qed.

Lemma combs_from_perm n perms (ws : list N) c :
  complete_table n perms -> length ws = n -> In c (combs ws 5) -> exists p, In p perms /\ c = sel ws p.
Proof.
  intros PC HL Hc. rewrite combs_select in Hc. unfold lenN in Hc. rewrite HL in Hc.
  apply in_map_iff in Hc. destruct Hc as [p [<- Hp]]. exists p. split; [apply PC, Hp | reflexivity].
Qed.

(* the current tables list every slot combination (C18, re-proved from the regenerated data) *)
Lemma six_complete : complete_table 6 SIX_PERMUTATIONS.
Proof. destruct slot_tables_ok as (_ & _ & (_ & H & _) & _). exact H. Qed.
Lemma seven_complete : complete_table 7 SEVEN_PERMUTATIONS.
Proof. destruct slot_tables_ok as (_ & _ & _ & _ & (_ & H & _) & _). exact H. Qed.

(* the rule-based value of n cards: the strongest (smallest) ordinal among all five-card sub-hands *)
Definition best_value (ws : list N) : N := min_list (map value5 (combs ws 5)).

(* ---- C02 / C03 for Six and Seven --------------------------------------------------------------- *)
Lemma hrvh_n chk n ws :
  (n = 6 \/ n = 7)%nat -> HandN n ws ->
  exists v h,
    hrvh chk ws = Ok (v, sort_desc h) /\ In h (combs ws 5) /\ v = value5 h /\
    (forall c, In c (combs ws 5) -> v <= value5 c).
Proof.
  intros Hn H. pose proof H as (HL & _).
  destruct (hrvh_table chk n ws Hn H) as (perms & p & T & Hp & Hr & Hmin & _ & Eperms).
  assert (PC : complete_table n perms).
  { rewrite Eperms. destruct Hn as [->| ->]; [exact six_complete | exact seven_complete]. }
  exists (value5 (sel ws p)), (sel ws p). repeat split.
  - exact Hr.
  - eapply sel_in_combs; eauto.
  - intros c Hc. destruct (combs_from_perm n perms ws c PC HL Hc) as [q [Hq ->]]. apply Hmin, Hq.
Qed.

Lemma value_n_ok chk n ws :
  (n = 6 \/ n = 7)%nat -> HandN n ws ->
  let v := best_value ws in
  hand_rank_value chk ws = Ok v /\
  rmap (fun x => hr_value (hr_from x)) (hand_rank_value chk ws) = Ok v /\
  rmap fst (hrvh chk ws) = Ok v /\
  hand_rank_value_validated chk ws = Ok v /\
  1 <= v <= 7462.
Proof.
  intros Hn H v. destruct (hrvh_n chk n ws Hn H) as (v' & h & Hr & Hin & Hv & Hmin).
  assert (E : v' = v).
  { unfold v, best_value. apply min_list_char.
    - rewrite Hv. apply in_map, Hin.
    - intros y Hy. apply in_map_iff in Hy. destruct Hy as [c [<- Hc]]. apply Hmin, Hc. }
  rewrite E in Hr.
  assert (E1 : hand_rank_value chk ws = Ok v) by (unfold hand_rank_value, rmap; rewrite Hr; reflexivity).
  pose proof H as (HL & HR & HN).
  repeat split.
  - exact E1.
  - rewrite E1. reflexivity.
  - rewrite Hr. reflexivity.
  - unfold hand_rank_value_validated. rewrite (proj2 (is_valid_spec ws) (conj HR HN)). exact E1.
  - rewrite <- E, Hv. apply In_combs in Hin. destruct Hin as [Hs Hl].
    apply (value5_range h (sub_hand _ _ _ H Hs Hl)).
  - rewrite <- E, Hv. apply In_combs in Hin. destruct Hin as [Hs Hl].
    apply (value5_range h (sub_hand _ _ _ H Hs Hl)).
Qed.

(* any five distinct cards taken from the hand, in any order, are no stronger than the hand *)
Lemma lower_ok n ws s :
  HandN n ws -> length s = 5%nat -> NoDup s -> incl s ws -> best_value ws <= value5 s.
Proof.
  intros H HL HN Hincl. pose proof H as (_ & HR & HNw).
  destruct (subset_in_combs s ws 5 HN HNw Hincl HL) as [c [Hc HP]].
  assert (HS : Hand5 s).
  { repeat split; [exact HL| |exact HN]. apply Forall_forall. intros x Hx. rewrite Forall_forall in HR.
    apply HR, Hincl, Hx. }
  rewrite (value5_perm s c HS HP). unfold best_value.
  destruct (map value5 (combs ws 5)) as [|x r] eqn:E.
  - apply (in_map value5) in Hc. rewrite E in Hc. destruct Hc.
  - cbn [min_list]. destruct (fold_min_le r x) as [H1 H2].
    apply (in_map value5) in Hc. rewrite E in Hc. destruct Hc as [<-|Hc]; [exact H1 | apply H2, Hc].
Qed.

Lemma attained_ok n ws :
  (5 <= n)%nat -> HandN n ws -> exists s, Subseq s ws /\ length s = 5%nat /\ Hand5 s /\ best_value ws = value5 s.
Proof.
  intros Hn H. pose proof H as (HL & _ & _). unfold best_value.
  assert (Hne : combs ws 5 <> []).
  { intros E. assert (Hin : In (firstn 5 ws) (combs ws 5)).
    { apply In_combs. split; [|rewrite firstn_length; lia].
      rewrite <- (firstn_skipn 5 ws) at 2. clear. generalize (skipn 5 ws). generalize (firstn 5 ws).
      intros a b. induction a as [|x a IH]; cbn [app]; [apply Subseq_nil_l | apply Subseq_take, IH]. }
    rewrite E in Hin. destruct Hin. }
  destruct (combs ws 5) as [|c0 cs] eqn:E; [congruence|]. cbn [map min_list].
  destruct (fold_min_in (map value5 cs) (value5 c0)) as [Hm|Hm].
  - exists c0. assert (Hc : In c0 (combs ws 5)) by (rewrite E; left; reflexivity).
    apply In_combs in Hc. destruct Hc as [Hs Hl]. repeat split; try assumption; try (eapply sub_hand; eauto).
  - apply in_map_iff in Hm. destruct Hm as [c [Hv Hc]]. exists c.
    assert (Hc' : In c (combs ws 5)) by (rewrite E; right; exact Hc).
    apply In_combs in Hc'. destruct Hc' as [Hs Hl]. repeat split; try assumption; try (eapply sub_hand; eauto).
    symmetry. exact Hv.
Qed.

(* ---- C09: more cards never weaken a hand ------------------------------------------------------- *)
Lemma Subseq_trans {A} (a b c : list A) : Subseq a b -> Subseq b c -> Subseq a c.
Proof.
  intros H1 H2. revert a H1. induction H2; intros a H1.
  - exact H1.
  - apply Subseq_skip, IHSubseq, H1.
  - inversion H1; subst.
    + apply Subseq_skip, IHSubseq; assumption.
    + apply Subseq_take, IHSubseq; assumption.
Qed.

Lemma Subseq_refl {A} (l : list A) : Subseq l l.
Proof. induction l as [|a l IH]; [constructor | apply Subseq_take, IH]. Qed.

Lemma Subseq_extend {A} (t l : list A) :
  Subseq t l -> (length t < length l)%nat -> exists s, Subseq t s /\ Subseq s l /\ length s = S (length t).
Proof.
  induction 1 as [|x s l H IH|x s l H IH]; cbn [length]; intros HL.
  - lia.
  - exists (x :: s). repeat split.
    + apply Subseq_skip, Subseq_refl.
    + apply Subseq_take, H.
  - destruct IH as [s' (A1 & B1 & C1)]; [lia|]. exists (x :: s'). repeat split.
    + apply Subseq_take, A1.
    + apply Subseq_take, B1.
    + cbn [length]. lia.
Qed.

Lemma sub_handN n m ws s : HandN n ws -> Subseq s ws -> length s = m -> HandN m s.
Proof.
  intros (HL & HR & HN) HS HC. repeat split; [exact HC| |eapply Subseq_NoDup; eauto].
  apply Forall_forall. intros x Hx. rewrite Forall_forall in HR. apply HR. eapply Subseq_incl; eauto.
Qed.

(* sub-hands given as ANY duplicate-free selection in ANY order *)
Lemma monotone_ok n m ws s :
  (5 <= m)%nat -> HandN n ws -> length s = m -> NoDup s -> incl s ws -> best_value ws <= best_value s.
Proof.
  intros Hm H HL HN Hincl. pose proof H as (_ & HR & _).
  assert (HS : HandN m s).
  { repeat split; try assumption. apply Forall_forall. intros x Hx. rewrite Forall_forall in HR.
    apply HR, Hincl, Hx. }
  destruct (attained_ok m s Hm HS) as (t & Ht & Hl & H5 & ->).
  apply (lower_ok n ws t H Hl (proj2 (proj2 H5))).
  intros x Hx. apply Hincl. eapply Subseq_incl; eauto.
Qed.

Lemma min_of_sub n ws :
  (5 < n)%nat -> HandN n ws ->
  exists s, Subseq s ws /\ length s = pred n /\ best_value s = best_value ws.
Proof.
  intros Hn H. pose proof H as (HL & _).
  destruct (attained_ok n ws ltac:(lia) H) as (t & Ht & Hl & H5 & Hv).
  (* grow t inside ws up to n-1 cards *)
  assert (G : forall k, (5 <= k <= n)%nat -> exists s, Subseq t s /\ Subseq s ws /\ length s = k).
  { induction k as [|k IHk]; intros Hk; [lia|].
    destruct (Nat.eq_dec (S k) 5) as [E|E].
    - exists t. repeat split; [apply Subseq_refl | exact Ht | lia].
    - destruct IHk as [s (A & B & C)]; [lia|].
      destruct (Subseq_extend s ws B ltac:(lia)) as [s' (A' & B' & C')].
      exists s'. repeat split; [eapply Subseq_trans; eauto | exact B' | lia]. }
  destruct (G (pred n) ltac:(lia)) as [s (A & B & C)].
  exists s. repeat split; [exact B | exact C|].
  pose proof (sub_handN n (pred n) ws s H B C) as HS.
  apply N.le_antisymm.
  - rewrite Hv. apply (lower_ok (pred n) s t HS Hl (proj2 (proj2 H5))). eapply Subseq_incl; eauto.
  - apply (monotone_ok n (pred n) ws s ltac:(lia) H C (proj2 (proj2 HS))). eapply Subseq_incl; eauto.
Qed.

Lemma chain_ok : forall chk ws7 s6 s5,
  HandN 7 ws7 -> length s6 = 6%nat -> NoDup s6 -> incl s6 ws7 ->
  length s5 = 5%nat -> NoDup s5 -> incl s5 s6 ->
  exists v7 v6 v5,
    hand_rank_value chk ws7 = Ok v7 /\ hand_rank_value chk s6 = Ok v6 /\ hand_rank_value chk s5 = Ok v5 /\
    v7 <= v6 /\ v6 <= v5.
Proof.
  intros chk ws7 s6 s5 H7 L6 N6 I6 L5 N5 I5.
  assert (H6 : HandN 6 s6).
  { destruct H7 as (_ & R & _). repeat split; try assumption. apply Forall_forall. intros x Hx.
    rewrite Forall_forall in R. apply R, I6, Hx. }
  assert (H5 : Hand5 s5).
  { destruct H6 as (_ & R & _). repeat split; try assumption. apply Forall_forall. intros x Hx.
    rewrite Forall_forall in R. apply R, I5, Hx. }
  exists (best_value ws7), (best_value s6), (value5 s5). repeat split.
  - exact (proj1 (value_n_ok chk 7 ws7 (or_intror eq_refl) H7)).
  - exact (proj1 (value_n_ok chk 6 s6 (or_introl eq_refl) H6)).
  - exact (proj1 (value_ok chk s5 H5)).
  - exact (monotone_ok 7 6 ws7 s6 ltac:(repeat constructor) H7 L6 N6 I6).
  - exact (lower_ok 6 s6 s5 H6 L5 N5 I5).
Qed.
