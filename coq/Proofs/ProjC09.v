(* The `chain7` projection (Model/Proj.v) is constant on seven distinct real cards: by C09's monotonicity and
   "the minimum over the one-card-fewer sub-hands is attained" lemmas. *)
From CKC Require Import Base.Prelude Spec.Layout.
From CKC Require Import Model.Five Model.Proj.
From CKC Require Import Proofs.ProjBase Proofs.CombFacts Proofs.GenericTable Proofs.C09.
Open Scope N_scope.

(* ---- dropping one slot -------------------------------------------------------------------------- *)
Lemma skip_nth_Subseq {A} (l : list A) : forall k, Subseq (skip_nth k l) l.
Proof.
  induction l as [|x r IH]; intros k.
  - destruct k; constructor.
  - destruct k as [|k].
    + apply Subseq_skip, Subseq_refl.
    + apply (Subseq_take x), IH.
Qed.

Lemma skip_nth_length {A} (l : list A) k : (k < length l)%nat -> S (length (skip_nth k l)) = length l.
Proof.
  intros H. unfold skip_nth. rewrite app_length, firstn_length, skipn_length. lia.
Qed.

Lemma Subseq_length_eq {A} (s l : list A) : Subseq s l -> length s = length l -> s = l.
Proof.
  induction 1 as [|x s l HS IH|x s l HS IH]; intros E.
  - reflexivity.
  - apply Subseq_length in HS. cbn [length] in E. lia.
  - cbn [length] in E. rewrite IH by lia. reflexivity.
Qed.

(* a sub-sequence with one element fewer is the list without one of its slots *)
Lemma Subseq_is_skip_nth {A} (s l : list A) :
  Subseq s l -> S (length s) = length l -> exists k, (k < length l)%nat /\ s = skip_nth k l.
Proof.
  induction 1 as [|x s l HS IH|x s l HS IH]; intros E; cbn [length] in E.
  - discriminate E.
  - exists O. split; [cbn [length]; lia|]. apply (Subseq_length_eq s l HS). lia.
  - destruct IH as (k & Hk & ->); [lia|]. exists (S k). split; [cbn [length]; lia | reflexivity].
Qed.

Lemma Forall2_combine {A B C} (R1 : A -> B -> Prop) (R2 : A -> C -> Prop) l : forall bs cs,
  Forall2 R1 l bs -> Forall2 R2 l cs ->
  forall b c, In (b, c) (combine bs cs) -> exists a, In a l /\ R1 a b /\ R2 a c.
Proof.
  induction l as [|a r IH]; intros bs cs H1 H2 b c Hin; inversion H1; inversion H2; subst.
  - destruct Hin.
  - cbn [combine In] in Hin. destruct Hin as [E|Hin].
    + injection E as <- <-. exists a. split; [left; reflexivity | split; assumption].
    + match goal with X : Forall2 R1 r _, Y : Forall2 R2 r _ |- _ => destruct (IH _ _ X Y b c Hin) as (a0 & I & P & Q) end.
      exists a0. split; [right; exact I | split; assumption].
Qed.

Lemma Forall2_In_l {A B} (R : A -> B -> Prop) l bs a : Forall2 R l bs -> In a l -> exists b, In b bs /\ R a b.
Proof.
  induction 1 as [|x y l bs Hxy HF IH]; intros Hin; [destruct Hin|].
  destruct Hin as [<-|Hin].
  - exists y. split; [left; reflexivity | exact Hxy].
  - destruct (IH Hin) as (b & Hb & Rb). exists b. split; [right; exact Hb | exact Rb].
Qed.
Lemma Forall2_In_r' {A B} (R : A -> B -> Prop) l bs b : Forall2 R l bs -> In b bs -> exists a, In a l /\ R a b.
Proof.
  induction 1 as [|x y l bs Hxy HF IH]; intros Hin; [destruct Hin|].
  destruct Hin as [<-|Hin].
  - exists x. split; [left; reflexivity | exact Hxy].
  - destruct (IH Hin) as (a & Ha & Ra). exists a. split; [right; exact Ha | exact Ra].
Qed.

(* ---- one level: n cards against their n sub-hands with one card fewer ------------------------------ *)
Lemma sub_level chk n ws :
  (n = 6 \/ n = 7)%nat -> HandN n ws ->
  exists v vs,
    hand_rank_value chk ws = Ok v /\ sub_vals chk n ws = Ok vs /\
    forallb (fun x => v <=? x) vs = true /\ v = minl vs.
Proof.
  intros Hn H. pose proof H as (HL & HR & HN).
  destruct (min_now chk n ws Hn H) as (s0 & v & HS0 & HL0 & Hv & Hv0).
  assert (HM : (pred n = 5 \/ pred n = 6 \/ pred n = 7)%nat) by (destruct Hn as [->| ->]; cbn [pred]; lia).
  destruct (mapM_Forall2 (hand_rank_value chk) (fun s w => hand_rank_value chk s = Ok w /\ v <= w) (subs1 n ws))
    as (vs & Evs & Fvs).
  { intros s Hs. unfold subs1 in Hs. apply in_map_iff in Hs. destruct Hs as (k & <- & Hk). apply in_seq in Hk.
    pose proof (skip_nth_Subseq ws k) as HS.
    assert (HLs : length (skip_nth k ws) = pred n).
    { pose proof (skip_nth_length ws k ltac:(lia)). lia. }
    destruct (monotone_now chk n (pred n) ws (skip_nth k ws) ltac:(lia) HM H HLs
                (Subseq_NoDup _ _ HS HN) (Subseq_incl _ _ HS)) as (v' & w & Ev' & Ew & Hle).
    exists w. split; [exact Ew|]. split; [exact Ew|]. congruence. }
  exists v, vs. split; [exact Hv|]. split; [exact Evs|]. split.
  - apply forallb_forall. intros w Hw. destruct (Forall2_In_r' _ _ _ w Fvs Hw) as (s & _ & _ & Hle).
    apply N.leb_le, Hle.
  - apply minl_char.
    + destruct (Subseq_is_skip_nth s0 ws HS0 ltac:(destruct Hn as [->| ->]; cbn [pred] in HL0; lia)) as (k & Hk & ->).
      assert (Hin : In (skip_nth k ws) (subs1 n ws)).
      { unfold subs1. apply in_map_iff. exists k. split; [reflexivity|]. apply in_seq. lia. }
      destruct (Forall2_In_l _ _ _ _ Fvs Hin) as (w & Hw & Ew & _). congruence.
    + intros w Hw. destruct (Forall2_In_r' _ _ _ w Fvs Hw) as (s & _ & _ & Hle). exact Hle.
Qed.

Lemma proj_chain7_const chk ws : HandN 7 ws -> proj_chain7 chk ws = Ok [true; true; true; true].
Proof.
  intros H. pose proof H as (HL & HR & HN).
  destruct (sub_level chk 7 ws ltac:(lia) H) as (v7 & v6s & E7 & E6s & Hle7 & Hmin7).
  (* the sixes, with their values *)
  assert (F6 : Forall2 (fun s w => hand_rank_value chk s = Ok w) (subs1 7 ws) v6s).
  { apply mapM_Ok_Forall2. exact E6s. }
  destruct (mapM_Forall2 (sub_vals chk 6)
              (fun s v5s => exists v6, hand_rank_value chk s = Ok v6 /\
                                       forallb (fun x => v6 <=? x) v5s = true /\ v6 = minl v5s) (subs1 7 ws))
    as (v5ss & E5 & F5).
  { intros s Hs. unfold subs1 in Hs. apply in_map_iff in Hs. destruct Hs as (k & <- & Hk). apply in_seq in Hk.
    assert (H6 : HandN 6 (skip_nth k ws)).
    { apply (sub_handN 7 6 ws _ H (skip_nth_Subseq ws k)).
      pose proof (skip_nth_length ws k ltac:(lia)). lia. }
    destruct (sub_level chk 6 _ ltac:(lia) H6) as (v6 & v5s & A & B & C & D).
    exists v5s. split; [exact B|]. exists v6. repeat split; assumption. }
  unfold proj_chain7. rewrite E7, E6s, E5. cbn [bind].
  rewrite Hle7, <- Hmin7, N.eqb_refl.
  assert (A : forallb (fun '(v6, v5s) => forallb (fun v5 => v6 <=? v5) v5s) (combine v6s v5ss) = true).
  { apply forallb_forall. intros [v6 v5s] Hin.
    destruct (Forall2_combine _ _ _ _ _ F6 F5 v6 v5s Hin) as (s & _ & Es & v6' & Es' & Hle & _).
    assert (X : v6' = v6) by congruence. rewrite X in Hle. exact Hle. }
  assert (B : forallb (fun '(v6, v5s) => minl v5s =? v6) (combine v6s v5ss) = true).
  { apply forallb_forall. intros [v6 v5s] Hin.
    destruct (Forall2_combine _ _ _ _ _ F6 F5 v6 v5s Hin) as (s & _ & Es & v6' & Es' & _ & Hmin).
    assert (X : v6' = v6) by congruence. rewrite X in Hmin. apply N.eqb_eq. symmetry. exact Hmin. }
  rewrite A, B. reflexivity.
Qed.
