(* The current slot tables list every 5-of-6 / 5-of-7 slot combination (C18, re-proved from the
   regenerated data on every run). *)
From CKC Require Import Base.Prelude Base.Reflect Base.Combs Proofs.SlotTables Proofs.GenericTable.
From CKC Require Import Gen.Decks.
Open Scope N_scope.

Lemma six_complete : complete_table 6 SIX_PERMUTATIONS.
Proof. destruct slot_tables_ok as (_ & _ & (_ & H & _) & _). exact H. Qed.
Lemma seven_complete : complete_table 7 SEVEN_PERMUTATIONS.
Proof. destruct slot_tables_ok as (_ & _ & _ & _ & (_ & H & _) & _). exact H. Qed.
Lemma tables_complete_now : tables_complete.
Proof. exact (conj six_complete seven_complete). Qed.
