(* C15 — card bit-sets behave as sets: union, subset, count, validity, ordered peel.
   Everything quantified over all bit-sets is proved by testbit reasoning and by induction over the
   deck list (every deck entry is a distinct power of two, C14). *)
From Coq Require Import String.
From CKC Require Import Base.Prelude Base.Reflect Spec.Layout Model.Card Model.Hands Model.Binary Model.Parse.
From CKC Require Import Proofs.CardBase Proofs.C14.
From CKC Require Export Proofs.BcPeel.
From CKC Require Import Gen.Consts Gen.Decks Gen.Scan.
Open Scope N_scope.

Lemma BC_OVERFLOW_shift : BC_OVERFLOW = N.shiftl (N.ones 12) 52.
Proof. reflexivity. Qed.

Lemma testbit_OVERFLOW i : N.testbit BC_OVERFLOW i = (52 <=? i) && (i <? 64).
Proof.
  rewrite BC_OVERFLOW_shift. destruct (52 <=? i) eqn:E.
  - apply N.leb_le in E. rewrite N.shiftl_spec_high by lia. cbn [andb].
    destruct (i <? 64) eqn:E2.
    + apply N.ltb_lt in E2. apply N.ones_spec_low. lia.
    + apply N.ltb_ge in E2. apply N.ones_spec_high. lia.
  - apply N.leb_gt in E. now apply N.shiftl_spec_low.
Qed.

(* ---- from_hand / from_index --------------------------------------------------------------- *)
Lemma fold_lor_from_ckc_testbit ws acc k :
  N.testbit (fold_left (fun a w => N.lor a (from_ckc w)) ws acc) k =
  N.testbit acc k || existsb (fun w => N.testbit (from_ckc w) k) ws.
Proof.
  revert acc. induction ws as [|w ws IH]; intros acc; cbn [fold_left existsb].
  - now rewrite orb_false_r.
  - rewrite IH, N.lor_spec. now rewrite orb_assoc.
Qed.

Lemma from_ckc_testbit w i :
  i < 52 -> (N.testbit (from_ckc w) (51 - i) = true <-> w = nthN SPEC_DECK i 0).
Proof.
  intros Hi. destruct (from_ckc_cases w) as [(j & Hj & -> & E)|[Hn E]]; rewrite E.
  - rewrite N.pow2_bits_eqb, N.eqb_eq. split.
    + intros H. f_equal. lia.
    + intros H. apply SPEC_DECK_nth_inj in H; [lia | exact Hj | exact Hi].
  - rewrite N.bits_0. split; [discriminate|]. intros ->. exfalso. apply Hn.
    now apply SPEC_DECK_nth_real.
Qed.

Lemma from_ckc_lt w : from_ckc w < 2 ^ 52.
Proof.
  destruct (from_ckc_cases w) as [(j & Hj & _ & E)|[_ E]]; rewrite E.
  - apply N.pow_lt_mono_r; lia.
  - reflexivity.
Qed.

Lemma from_hand_testbit ws i :
  i < 52 -> (N.testbit (bc_from_hand ws) (51 - i) = true <-> In (nthN SPEC_DECK i 0) ws).
Proof.
  intros Hi. unfold bc_from_hand. rewrite fold_lor_from_ckc_testbit, N.bits_0. cbn [orb].
  rewrite existsb_exists. split.
  - intros [w [Hin Hb]]. apply (from_ckc_testbit w i Hi) in Hb. now subst.
  - intros Hin. exists (nthN SPEC_DECK i 0). split; [exact Hin|]. now apply from_ckc_testbit.
Qed.

Lemma from_hand_lt ws : bc_from_hand ws < 2 ^ 52.
Proof.
  apply lt_pow2_bits. intros m Hm. unfold bc_from_hand.
  rewrite fold_lor_from_ckc_testbit, N.bits_0. cbn [orb].
  destruct (existsb (fun w => N.testbit (from_ckc w) m) ws) eqn:E; [|reflexivity].
  apply existsb_exists in E. destruct E as [w [_ Hb]].
  rewrite (proj1 (lt_pow2_bits _ _) (from_ckc_lt w) m Hm) in Hb. discriminate.
Qed.

Lemma SPEC_DECK_desc : SPEC_DECK = map (fun k => from_binary_card (2 ^ k)) (desc 52).
Proof. vm_compute. reflexivity. Qed.

(* the members, read back as card words, are exactly the deck cards that occur in the hand, once
   each, in deck order *)
Lemma from_hand_members ws :
  map from_binary_card (members (bc_from_hand ws)) = List.filter (fun c => memN c ws) SPEC_DECK.
Proof.
  rewrite members_desc, map_map, SPEC_DECK_desc, filter_map_comm. f_equal.
  apply filter_ext_in. intros k Hk. apply In_desc in Hk.
  assert (Hk' : k < 52) by lia.
  rewrite (from_bc_card_bit k Hk').
  pose proof (from_hand_testbit ws (51 - k) ltac:(lia)) as H.
  replace (51 - (51 - k)) with k in H by lia.
  destruct (N.testbit (bc_from_hand ws) k) eqn:E1, (memN (nthN SPEC_DECK (51 - k) 0) ws) eqn:E2;
    try reflexivity.
  - apply memN_false in E2. exfalso. apply E2, H. reflexivity.
  - apply memN_In in E2. apply H in E2. discriminate.
Qed.

Lemma from_index_ok s : bc_from_index s = bc_from_hand (map card_from_index (tokens s)).
Proof.
  unfold bc_from_index, bc_from_hand, fold_in. change BC_BLANK with 0.
  rewrite (fold_left_map_comm (fun acc w => N.lor acc (from_ckc w)) card_from_index). reflexivity.
Qed.

Lemma from_index_testbit s i :
  i < 52 ->
  (N.testbit (bc_from_index s) (51 - i) = true <->
   exists t, In t (tokens s) /\ card_from_index t = nthN SPEC_DECK i 0).
Proof.
  intros Hi. rewrite from_index_ok, (from_hand_testbit _ i Hi), in_map_iff.
  split; intros [t [H1 H2]]; exists t; tauto.
Qed.

(* ---- union, subset ------------------------------------------------------------------------- *)
Lemma fold_in_ok b c i : N.testbit (fold_in b c) i = N.testbit b i || N.testbit c i.
Proof. apply N.lor_spec. Qed.

Lemma has_ok b c : has b c = true <-> (forall i, N.testbit c i = true -> N.testbit b i = true).
Proof.
  unfold has. rewrite N.eqb_eq. split.
  - intros H i Hc. rewrite <- H, N.land_spec in Hc. apply andb_true_iff in Hc. tauto.
  - intros H. apply N.bits_inj. intros i. rewrite N.land_spec.
    destruct (N.testbit c i) eqn:E; [|apply andb_false_r]. now rewrite (H i E).
Qed.

(* has on a single card bit is membership *)
Lemma has_card b k : has b (2 ^ k) = N.testbit b k.
Proof. apply land_pow2_testbit. Qed.

(* ---- count --------------------------------------------------------------------------------- *)
Definition nrange (n : nat) : list N := map N.of_nat (seq 0 n).

Lemma nrange_S n : nrange (S n) = 0 :: map N.succ (nrange n).
Proof.
  unfold nrange. cbn [seq map]. f_equal. rewrite <- seq_shift, !map_map.
  apply map_ext. intros a. apply Nat2N.inj_succ.
Qed.

Lemma popcount_step b : popcount b = (if N.testbit b 0 then 1 else 0) + popcount (N.div2 b).
Proof. destruct b as [|[p|p|]]; cbn [N.testbit Pos.testbit N.div2 popcount popcount_pos]; lia. Qed.

Lemma popcount_count n b :
  b < 2 ^ N.of_nat n -> popcount b = N.of_nat (length (List.filter (N.testbit b) (nrange n))).
Proof.
  revert b. induction n as [|n IH]; intros b Hb.
  - change (2 ^ N.of_nat 0) with 1 in Hb. assert (b = 0) by lia. subst b. reflexivity.
  - rewrite nrange_S, popcount_step. cbn [List.filter].
    rewrite filter_map_comm.
    assert (Hd : N.div2 b < 2 ^ N.of_nat n).
    { rewrite Nat2N.inj_succ, N.pow_succ_r' in Hb.
      destruct b as [|[p|p|]]; cbn [N.div2]; lia. }
    rewrite (IH _ Hd).
    rewrite (filter_ext (fun x => N.testbit b (N.succ x)) (N.testbit (N.div2 b)))
      by (intros a; apply N.testbit_succ_r_div2; lia).
    destruct (N.testbit b 0); cbn [length]; rewrite map_length; lia.
Qed.

Lemma popcount_count_N n b :
  b < 2 ^ n -> popcount b = N.of_nat (length (List.filter (N.testbit b) (N_range n))).
Proof.
  intros H. unfold N_range. apply popcount_count. now rewrite N2Nat.id.
Qed.

Lemma popcount_members b : N.of_nat (length (members b)) = popcount (N.land b BC_ALL).
Proof.
  rewrite <- (members_low b), members_desc, map_length.
  change 52%nat with (N.to_nat 52). rewrite <- rev_N_range, filter_rev_length.
  symmetry. apply popcount_count_N. apply lt_pow2_bits. intros m Hm.
  rewrite N.land_spec, testbit_ALL. assert (E : m <? 52 = false) by (apply N.ltb_ge; exact Hm).
  rewrite E. apply andb_false_r.
Qed.

Lemma land_ALL_small b : b < 2 ^ 52 -> N.land b BC_ALL = b.
Proof.
  intros H. apply N.bits_inj. intros m. rewrite N.land_spec, testbit_ALL.
  destruct (m <? 52) eqn:E; [apply andb_true_r|]. apply N.ltb_ge in E.
  rewrite (proj1 (lt_pow2_bits _ _) H m E). reflexivity.
Qed.

Lemma count_ok :
  (forall b, number_of_cards b = N.of_nat (length (List.filter (N.testbit b) (N_range (N.size b))))) /\
  (forall b n, b < 2 ^ n -> number_of_cards b = N.of_nat (length (List.filter (N.testbit b) (N_range n)))) /\
  (forall b, N.of_nat (length (members b)) = number_of_cards (N.land b BC_ALL)) /\
  (forall b, b < 2 ^ 52 -> number_of_cards b = N.of_nat (length (members b))) /\
  (forall b, is_single_card b = true <-> exists i, b = 2 ^ i).
Proof.
  unfold number_of_cards, is_single_card, number_of_cards. repeat split.
  - intros b. apply popcount_count_N, N.size_gt.
  - intros b n. apply popcount_count_N.
  - apply popcount_members.
  - intros b Hb. now rewrite popcount_members, land_ALL_small.
  - rewrite N.eqb_eq. apply popcount_one_iff.
  - rewrite N.eqb_eq. apply popcount_one_iff.
Qed.

(* ---- validity ------------------------------------------------------------------------------ *)
Lemma valid_ok b : b < 2 ^ 64 -> (bc_is_valid b = true <-> b <> 0 /\ b < 2 ^ 52).
Proof.
  intros H64. unfold bc_is_valid, number_of_cards. change BC_BLANK with 0.
  rewrite andb_true_iff, negb_true_iff, N.eqb_neq, N.ltb_lt.
  assert (E : popcount (N.land b BC_OVERFLOW) < 1 <-> b < 2 ^ 52).
  { assert (E1 : popcount (N.land b BC_OVERFLOW) < 1 <-> N.land b BC_OVERFLOW = 0)
      by (rewrite <- popcount_zero_iff; lia).
    rewrite E1, lt_pow2_bits. split.
    - intros H0 m Hm.
      assert (Hb : N.testbit (N.land b BC_OVERFLOW) m = false) by (rewrite H0; apply N.bits_0).
      rewrite N.land_spec, testbit_OVERFLOW in Hb.
      destruct (N.lt_ge_cases m 64) as [Hlt|Hge].
      + assert (E2 : 52 <=? m = true) by (apply N.leb_le; exact Hm).
        assert (E3 : m <? 64 = true) by (apply N.ltb_lt; exact Hlt).
        rewrite E2, E3 in Hb. cbn [andb] in Hb. now rewrite andb_true_r in Hb.
      + exact (proj1 (lt_pow2_bits _ _) H64 m Hge).
    - intros Hhi. apply N.bits_inj. intros m. rewrite N.land_spec, testbit_OVERFLOW, N.bits_0.
      destruct (52 <=? m) eqn:E2; [|apply andb_false_r].
      apply N.leb_le in E2. now rewrite (Hhi m E2). }
  rewrite E. tauto.
Qed.

Lemma ldiff_ALL_overflow b : b < 2 ^ 64 -> N.ldiff b BC_ALL = N.land b BC_OVERFLOW.
Proof.
  intros H. apply N.bits_inj. intros i.
  rewrite N.ldiff_spec, N.land_spec, testbit_ALL, testbit_OVERFLOW.
  destruct (N.lt_ge_cases i 64) as [Hlt|Hge].
  - assert (E : i <? 64 = true) by (apply N.ltb_lt; exact Hlt). rewrite E, andb_true_r.
    f_equal. destruct (i <? 52) eqn:E1, (52 <=? i) eqn:E2; try reflexivity.
    + apply N.ltb_lt in E1. apply N.leb_le in E2. lia.
    + apply N.ltb_ge in E1. apply N.leb_gt in E2. lia.
  - rewrite (proj1 (lt_pow2_bits _ _) H i Hge). reflexivity.
Qed.

Lemma peel_all_ok b :
  let rest := N.ldiff b BC_ALL in
  (forall m, peel_n (length (members b) + m) b = (members b ++ repeat 0 m, rest)) /\
  peel_n (length (members b)) b = (members b, rest) /\
  (forall m, peel_n m rest = (repeat 0 m, rest)) /\
  (forall i, N.testbit rest i = N.testbit b i && (52 <=? i)) /\
  (b < 2 ^ 64 -> rest = N.land b BC_OVERFLOW) /\
  (b < 2 ^ 52 -> rest = 0).
Proof.
  intros rest. split; [|split; [|split; [|split; [|split]]]].
  - intros m. now apply peel_all_gen.
  - pose proof (peel_all_gen (members b) b 0 eq_refl) as H.
    now rewrite Nat.add_0_r, app_nil_r in H.
  - intros m. apply peel_n_empty, members_ldiff_ALL.
  - intros i. unfold rest. rewrite N.ldiff_spec, testbit_ALL. f_equal.
    destruct (i <? 52) eqn:E1, (52 <=? i) eqn:E2; try reflexivity.
    + apply N.ltb_lt in E1. apply N.leb_le in E2. lia.
    + apply N.ltb_ge in E1. apply N.leb_gt in E2. lia.
  - apply ldiff_ALL_overflow.
  - intros H. unfold rest. apply N.bits_inj. intros i. rewrite N.ldiff_spec, testbit_ALL, N.bits_0.
    destruct (i <? 52) eqn:E; [apply andb_false_r|]. apply N.ltb_ge in E.
    now rewrite (proj1 (lt_pow2_bits _ _) H i E).
Qed.

(* ---- the named rank-group constants (ACES .. DEUCES) and ALL ------------------------------------------- *)
Definition BC_GROUPS : list N :=
  [BC_DEUCES; BC_TREYS; BC_FOURS; BC_FIVES; BC_SIXES; BC_SEVENS; BC_EIGHTS; BC_NINES; BC_TENS; BC_JACKS;
   BC_QUEENS; BC_KINGS; BC_ACES].

Lemma rank_groups_ok :
  (forall r, r < 13 ->
     nthN BC_GROUPS r 0 = bc_from_hand [layout r 3; layout r 2; layout r 1; layout r 0]) /\
  fold_left N.lor BC_GROUPS 0 = BC_ALL /\
  (forall r r', r < 13 -> r' < 13 -> r <> r' -> N.land (nthN BC_GROUPS r 0) (nthN BC_GROUPS r' 0) = 0).
Proof.
  split; [|split].
  - intros r Hr.
    pose proof (forallb_N_range (fun r => nthN BC_GROUPS r 0 =? bc_from_hand [layout r 3; layout r 2; layout r 1; layout r 0])
                  13 ltac:(vm_compute; reflexivity) r Hr) as H.
    apply N.eqb_eq in H. exact H.
  - vm_compute. reflexivity.
  - intros r r' Hr Hr' Hne.
    pose proof (forallb_N_range2 (fun r r' => (r =? r') || (N.land (nthN BC_GROUPS r 0) (nthN BC_GROUPS r' 0) =? 0))
                  13 13 ltac:(vm_compute; reflexivity) r r' Hr Hr') as H. cbv beta in H.
    apply orb_true_iff in H. destruct H as [H|H]; [apply N.eqb_eq in H; contradiction | apply N.eqb_eq, H].
Qed.

(* the two masks of the set operations *)
Lemma masks_ok : BC_BLANK = 0 /\ BC_ALL = 2 ^ 52 - 1 /\ BC_OVERFLOW = 2 ^ 64 - 2 ^ 52.
Proof. repeat split; vm_compute; reflexivity. Qed.
