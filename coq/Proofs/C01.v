(* C01 — the five-card value is the hand's poker strength ordinal. *)
From Coq Require Import Sorting.Permutation.
From CKC Require Import Base.Prelude Base.Reflect Base.SortN Spec.Layout Spec.Poker.
From CKC Require Import Model.Card Model.Hands Model.Five Model.HandRank.
From CKC Require Import Proofs.CardBase Proofs.SortFacts Proofs.BitFacts Proofs.FiveFacts Proofs.PokerFacts
  Proofs.RankedFacts Proofs.ShapeFacts Proofs.ValidReal.
From CKC Require Export Proofs.HandFacts.
From CKC Require Import Model.Search.
Open Scope N_scope.

(* ---- THE REFLECTION: on every one of the 7 462 classes, in rank order, the tables give the
        position in the list ranked by the rules of poker ------------------------------------- *)
Lemma eval_ranked chk : forallb (eval_matches chk) (enum_from 0 ranked) = true.
Proof. destruct chk; vm_cast_no_check (eq_refl true). Qed.

Lemma hrv5_ordinal chk ws : Hand5 ws -> hrv5 chk ws = Ok (ordinal (shape_of ws)).
Proof.
  intros (HL & HR & HN).
  rewrite (hrv5_abs chk ws HL HR).
  pose proof (shape_valid ws HL HR HN) as HV. unfold shape_of in *.
  set (rs := map rank_of_word ws) in *. set (fl := all_same (map suit_of_word ws)) in *.
  rewrite (eval_abs_perm chk rs (sort_desc rs) fl) by (apply Permutation_sym, sort_desc_perm).
  pose proof (canon_in_all_shapes rs fl HV) as Hin.
  apply in_ranked in Hin. destruct (in_split _ _ Hin) as (pre & post & Hsplit).
  pose proof (enum_from_split _ _ _ (eval_ranked chk) _ _ _ Hsplit) as HE.
  cbn [eval_matches] in HE.
  destruct (eval_abs chk (sort_desc rs) fl) as [v| |]; try discriminate HE.
  apply N.eqb_eq in HE. rewrite HE. apply f_equal.
  rewrite (ordinal_score (rs, fl) (sort_desc rs, fl))
    by (apply score_perm, Permutation_sym, sort_desc_perm).
  pose proof (ordinal_of_ranked pre _ post Hsplit) as HO. cbn [snd] in HO. rewrite HO. lia.
Qed.

(* every five-card entry point *)
Lemma value_ok chk ws :
  Hand5 ws ->
  let v := ordinal (shape_of ws) in
  hand_rank_value chk ws = Ok v /\ hrvh chk ws = Ok (v, ws) /\
  rmap (fun x => hr_value (hr_from x)) (hand_rank_value chk ws) = Ok v /\
  hand_rank_value_validated chk ws = Ok v /\ evaluate_five_cards chk ws = Ok v /\
  1 <= v <= 7462.
Proof.
  intros H v. pose proof (hrv5_ordinal chk ws H) as HV. fold v in HV.
  destruct H as (HL & HR & HN).
  assert (E1 : hrvh chk ws = hrvh5 chk ws) by (unfold hrvh; now rewrite HL).
  assert (E2 : hrvh5 chk ws = Ok (v, ws)).
  { unfold hrv5, rmap in HV. unfold hrvh5 in *.
    destruct (let i := or_rank_bits ws in
              if is_flush ws then tget FLUSHES_T i
              else bind (unique5 i) (fun u => if u =? 0 then not_unique chk ws else Ok u)) as [x| |];
      cbn [bind] in *; try discriminate HV. cbn [fst] in HV. now injection HV as ->. }
  assert (E3 : hand_rank_value chk ws = Ok v).
  { unfold hand_rank_value, rmap. rewrite E1, E2. reflexivity. }
  assert (E4 : hand_rank_value_validated chk ws = Ok v).
  { unfold hand_rank_value_validated. rewrite (is_valid_real ws HR HN). exact E3. }
  repeat split; try assumption.
  - now rewrite E1.
  - rewrite E3. reflexivity.
  - apply (ordinal_range (shape_of ws)), shape_class. now repeat split.
  - apply (ordinal_range (shape_of ws)), shape_class. now repeat split.
Qed.

(* order isomorphism with the rules of poker *)
Lemma order_ok ws1 ws2 :
  Hand5 ws1 -> Hand5 ws2 ->
  let v1 := ordinal (shape_of ws1) in let v2 := ordinal (shape_of ws2) in
  (v1 = v2 <-> ties (shape_of ws1) (shape_of ws2)) /\
  (v1 < v2 <-> beats (shape_of ws1) (shape_of ws2)).
Proof.
  intros H1 H2 v1 v2. unfold ties, beats.
  pose proof (shape_class _ H1) as C1. pose proof (shape_class _ H2) as C2.
  set (h1 := shape_of ws1) in *. set (h2 := shape_of ws2) in *.
  destruct (N.lt_trichotomy (score h1) (score h2)) as [L|[E|G]].
  - pose proof (ordinal_lt h2 h1 C2 L). subst v1 v2. split; split; intros; lia.
  - pose proof (ordinal_score h1 h2 E). subst v1 v2. split; split; intros; lia.
  - pose proof (ordinal_lt h1 h2 C1 G). subst v1 v2. split; split; intros; lia.
Qed.

(* ---- every value is produced: an explicit witness hand per class ----------------------------- *)
Definition witness_ok (chk : bool) (ip : N * (N * shape)) : bool :=
  let '(i, (_, h)) := ip in
  let ws := witness h in
  Nat.eqb (length ws) 5 && forallb real_cardb ws && nodupb ws
  && match hand_rank_value chk ws with Ok v => v =? i + 1 | _ => false end.

Lemma witness_ranked chk : forallb (witness_ok chk) (enum_from 0 ranked) = true.
Proof. destruct chk; vm_cast_no_check (eq_refl true). Qed.

Lemma onto_ok chk v :
  1 <= v <= 7462 -> exists ws, Hand5 ws /\ hand_rank_value chk ws = Ok v.
Proof.
  intros Hv.
  assert (Hn : (N.to_nat (v - 1) < length ranked)%nat) by (pose proof ranked_length_N; lia).
  destruct (nth_split ranked (0, ([], false)) Hn) as (pre & post & Hs & Hl).
  pose proof (enum_from_split _ _ _ (witness_ranked chk) _ _ _ Hs) as HE.
  destruct (nth (N.to_nat (v - 1)) ranked (0, ([], false))) as [sc h].
  cbn [witness_ok] in HE. exists (witness h).
  repeat (apply andb_true_iff in HE; destruct HE as [HE ?]).
  destruct (hand_rank_value chk (witness h)) as [x| |];
    try match goal with H : false = true |- _ => discriminate H end.
  split.
  - repeat split.
    + now apply Nat.eqb_eq.
    + apply Forall_forall. intros w Hw. apply real_cardb_spec.
      match goal with H : forallb real_cardb _ = true |- _ => rewrite forallb_forall in H; now apply H end.
    + now apply nodupb_NoDup.
  - f_equal. match goal with H : (x =? _) = true |- _ => apply N.eqb_eq in H; rewrite H end.
    rewrite Hl. lia.
Qed.
