(* Ranking through a table of five-slot selections (Six / Seven), GENERIC in the five-card value
   function: [val] is any function such that on five distinct real cards the model's five-card
   evaluation returns [val c] and [val c] is not 0 ([ranks_with]). Two instances are used:
     val := value5        (the rules-of-poker ordinal; needs the full table reflection of C01)  -> C02
     val := model_val chk (whatever the tables say; needs only "non-zero", Proofs/NonZero.v)      -> C04, C09
   No Section/Variable: the hypotheses are explicit arguments. *)
From Coq Require Import Sorting.Permutation Sorting.Sorted.
From CKC Require Import Base.Prelude Base.Reflect Base.SortN Base.Combs Spec.Layout Spec.Poker.
From CKC Require Import Model.Card Model.Hands Model.Five Model.HandRank.
From CKC Require Import Proofs.CardBase Proofs.SortFacts Proofs.CombFacts Proofs.BitFacts Proofs.FiveFacts
  Proofs.ShapeFacts Proofs.ValidReal Proofs.HandFacts Proofs.BestFacts.
From CKC Require Export Proofs.FreeFacts Proofs.TablesValid.
From CKC Require Import Gen.Consts Gen.Decks.
Open Scope N_scope.

Definition ranks_with (chk : bool) (val : list N -> N) : Prop :=
  forall c, Hand5 c -> hrv5 chk c = Ok (val c) /\ val c <> 0.

Lemma val_perm chk val s c : ranks_with chk val -> Hand5 s -> Permutation s c -> val s = val c.
Proof.
  intros HV HS HP.
  assert (HC : Hand5 c).
  { destruct HS as (HL & HR & HN). repeat split.
    - rewrite <- HL. symmetry. apply Permutation_length, HP.
    - eapply Permutation_Forall; eauto.
    - eapply Permutation_NoDup; eauto. }
  destruct (HV s HS) as [E1 _]. destruct (HV c HC) as [E2 _].
  rewrite (hrv5_perm chk s c (proj1 HS) HP) in E1. congruence.
Qed.

Lemma sub_hand n ws c : HandN n ws -> Subseq c ws -> length c = 5%nat -> Hand5 c.
Proof.
  intros (HL & HR & HN) HS HC. repeat split; [exact HC| |eapply Subseq_NoDup; eauto].
  apply Forall_forall. intros x Hx. rewrite Forall_forall in HR. apply HR. eapply Subseq_incl; eauto.
Qed.

(* ---- minimum of a list -------------------------------------------------------------------------- *)
Definition min_list (l : list N) : N := match l with [] => 0 | x :: r => fold_left N.min r x end.

Lemma fold_min_le r : forall x, fold_left N.min r x <= x /\ (forall y, In y r -> fold_left N.min r x <= y).
Proof.
  induction r as [|a r IH]; intros x; cbn [fold_left]; [split; [lia | intros y []]|].
  destruct (IH (N.min x a)) as [H1 H2]. split; [lia|]. intros y [<-|Hy]; [lia | apply H2, Hy].
Qed.
Lemma fold_min_in r : forall x, fold_left N.min r x = x \/ In (fold_left N.min r x) r.
Proof.
  induction r as [|a r IH]; intros x; cbn [fold_left]; [left; reflexivity|].
  destruct (IH (N.min x a)) as [H|H]; [|right; right; exact H].
  destruct (N.min_spec x a) as [[_ E]|[_ E]]; rewrite E in H; [left | right; left]; congruence.
Qed.
Lemma min_list_char l v : In v l -> (forall y, In y l -> v <= y) -> v = min_list l.
Proof.
  intros Hin Hmin. destruct l as [|x r]; [destruct Hin|]. cbn [min_list].
  destruct (fold_min_le r x) as [H1 H2].
  assert (Hle : fold_left N.min r x <= v).
  { destruct Hin as [<-|Hin]; [exact H1 | apply H2, Hin]. }
  assert (Hge : v <= fold_left N.min r x).
  { destruct (fold_min_in r x) as [E|E]; [rewrite E; apply Hmin; left; reflexivity | apply Hmin; right; exact E]. }
  lia.
Qed.

Lemma Forall2_map_r {A B} (R : A -> B -> Prop) (f : A -> B) (l : list A) :
  (forall x, In x l -> R x (f x)) -> Forall2 R l (map f l).
Proof.
  induction l as [|a l IH]; intros H; cbn [map]; constructor.
  - apply H. left. reflexivity.
  - apply IH. intros x Hx. apply H. right. exact Hx.
Qed.


Lemma sel_hand5 n ws p : HandN n ws -> valid_row n p -> Hand5 (sel ws p) /\ incl (sel ws p) ws.
Proof.
  intros H R. destruct (sel_facts n ws p H R) as (A & B & C & D & _). repeat split; assumption.
Qed.

Definition cands (val : list N -> N) (perms : list (list N)) (ws : list N) : list (N * list N) :=
  map (fun p => (val (sel ws p), sel ws p)) perms.

Lemma loop_pure n perms chk val ws :
  ranks_with chk val -> valid_table n perms -> HandN n ws ->
  fold_left (best_step chk ws) perms (Ok (0, FIVE_DEFAULT)) = Ok (best_of (cands val perms ws) (0, FIVE_DEFAULT)).
Proof.
  intros HV [_ T] H. apply best_fold_pure. unfold cands. apply Forall2_map_r. intros p Hp. cbn [fst snd].
  destruct (sel_facts n ws p H (T p Hp)) as (_ & _ & _ & _ & E).
  split; [exact E|]. apply HV. apply (sel_hand5 n ws p H (T p Hp)).
Qed.

(* the value the table-driven loop computes: the minimum over the rows of the table *)
Definition table_value (val : list N -> N) (perms : list (list N)) (ws : list N) : N :=
  min_list (map (fun p => val (sel ws p)) perms).

Lemma best_table n perms chk val ws :
  ranks_with chk val -> valid_table n perms -> HandN n ws ->
  exists p,
    In p perms /\ hrvh_best chk perms ws = Ok (val (sel ws p), sort_desc (sel ws p)) /\
    (forall q, In q perms -> val (sel ws p) <= val (sel ws q)) /\
    val (sel ws p) = table_value val perms ws.
Proof.
  intros HV T H. pose proof T as [PNE TR].
  unfold hrvh_best. rewrite (loop_pure n perms chk val ws HV T H).
  assert (Hnz : forall x, In x (cands val perms ws) -> fst x <> 0).
  { intros x Hx. unfold cands in Hx. apply in_map_iff in Hx. destruct Hx as [p [<- Hp]]. cbn [fst].
    apply HV. apply (sel_hand5 n ws p H (TR p Hp)). }
  assert (Hne : cands val perms ws <> []).
  { unfold cands. destruct perms; [congruence | discriminate]. }
  pose proof (best_of_min (cands val perms ws) FIVE_DEFAULT Hne Hnz) as HB. cbv zeta in HB.
  destruct (best_of (cands val perms ws) (0, FIVE_DEFAULT)) as [v h]. cbn [fst] in HB. cbn [bind].
  destruct HB as (Hin & _ & Hmin).
  unfold cands in Hin. apply in_map_iff in Hin. destruct Hin as [p [Heq Hp]]. injection Heq as Hv Hh.
  subst h v. exists p.
  assert (Hq : forall q, In q perms -> val (sel ws p) <= val (sel ws q)).
  { intros q Hq. specialize (Hmin (val (sel ws q), sel ws q)). cbn [fst] in Hmin. apply Hmin.
    unfold cands. apply in_map_iff. exists q. split; [reflexivity | exact Hq]. }
  split; [exact Hp|]. split; [reflexivity|]. split; [exact Hq|].
  unfold table_value. apply min_list_char.
  - apply (in_map (fun p => val (sel ws p))), Hp.
  - intros y Hy. apply in_map_iff in Hy. destruct Hy as [q [<- Hq']]. apply Hq, Hq'.
Qed.

Definition table_of (n : nat) : list (list N) := if Nat.eqb n 6 then SIX_PERMUTATIONS else SEVEN_PERMUTATIONS.

Lemma hrvh_table chk val n ws :
  ranks_with chk val -> (n = 6 \/ n = 7)%nat -> HandN n ws ->
  exists p,
    valid_table n (table_of n) /\ In p (table_of n) /\
    hrvh chk ws = Ok (val (sel ws p), sort_desc (sel ws p)) /\
    (forall q, In q (table_of n) -> val (sel ws p) <= val (sel ws q)) /\
    val (sel ws p) = table_value val (table_of n) ws.
Proof.
  intros HV Hn H. pose proof H as (HL & _). unfold hrvh. rewrite HL. destruct tables_valid as [T6 T7].
  destruct Hn as [->| ->].
  - destruct (best_table 6 SIX_PERMUTATIONS chk val ws HV T6 H) as (p & A & B & C & D).
    exists p. split; [exact T6|]. split; [exact A|]. split; [exact B|]. split; [exact C | exact D].
  - destruct (best_table 7 SEVEN_PERMUTATIONS chk val ws HV T7 H) as (p & A & B & C & D).
    exists p. split; [exact T7|]. split; [exact A|]. split; [exact B|]. split; [exact C | exact D].
Qed.

(* six / seven distinct real cards through every entry point: the table minimum, never 0 *)
Lemma value_table_ok chk val n ws :
  ranks_with chk val -> (n = 6 \/ n = 7)%nat -> HandN n ws ->
  let v := table_value val (table_of n) ws in
  hand_rank_value chk ws = Ok v /\
  rmap (fun x => hr_value (hr_from x)) (hand_rank_value chk ws) = Ok v /\
  rmap fst (hrvh chk ws) = Ok v /\
  hand_rank_value_validated chk ws = Ok v /\
  v <> 0 /\ exists p, In p (table_of n) /\ valid_row n p /\ v = val (sel ws p).
Proof.
  intros HV Hn H v. destruct (hrvh_table chk val n ws HV Hn H) as (p & T & Hp & Hr & _ & Hv).
  fold v in Hv. rewrite Hv in Hr.
  assert (E1 : hand_rank_value chk ws = Ok v) by (unfold hand_rank_value, rmap; rewrite Hr; reflexivity).
  pose proof H as (HL & HR & HN).
  split; [exact E1|]. split; [rewrite E1; reflexivity|]. split; [rewrite Hr; reflexivity|].
  split; [unfold hand_rank_value_validated; rewrite (is_valid_real ws HR HN); exact E1|].
  split.
  - rewrite <- Hv. apply HV. apply (sel_hand5 n ws p H (proj2 T p Hp)).
  - exists p. split; [exact Hp|]. split; [exact (proj2 T p Hp) | symmetry; exact Hv].
Qed.

(* ================= with COMPLETE tables: the best five-card sub-hand ================================= *)
Definition complete_table (n : nat) (perms : list (list N)) : Prop :=
  forall r, In r perms <-> In r (combs (N_range (N.of_nat n)) 5).

Lemma sel_in_combs n perms (ws : list N) p :
  complete_table n perms -> length ws = n -> In p perms -> In (sel ws p) (combs ws 5).
Proof.
  intros PC HL Hp. rewrite combs_select. unfold lenN. rewrite HL.
  apply (in_map (map (fun i => nthN ws i 0))). apply PC, Hp.
Qed.

Lemma combs_from_perm n perms (ws : list N) c :
  complete_table n perms -> length ws = n -> In c (combs ws 5) -> exists p, In p perms /\ c = sel ws p.
Proof.
  intros PC HL Hc. rewrite combs_select in Hc. unfold lenN in Hc. rewrite HL in Hc.
  apply in_map_iff in Hc. destruct Hc as [p [<- Hp]]. exists p. split; [apply PC, Hp | reflexivity].
Qed.

Definition tables_complete : Prop := complete_table 6 SIX_PERMUTATIONS /\ complete_table 7 SEVEN_PERMUTATIONS.

(* the value of n cards: the smallest [val] among all five-card sub-hands *)
Definition best_value (val : list N -> N) (ws : list N) : N := min_list (map val (combs ws 5)).

Lemma best_value_five val ws : length ws = 5%nat -> best_value val ws = val ws.
Proof.
  intros HL. unfold best_value.
  destruct ws as [|a [|b [|c [|d [|e [|f r]]]]]]; try discriminate HL. reflexivity.
Qed.

Lemma hrvh_n chk val n ws :
  ranks_with chk val -> tables_complete -> (n = 6 \/ n = 7)%nat -> HandN n ws ->
  exists h,
    hrvh chk ws = Ok (val h, sort_desc h) /\ In h (combs ws 5) /\
    (forall c, In c (combs ws 5) -> val h <= val c).
Proof.
  intros HV [C6 C7] Hn H. pose proof H as (HL & _).
  destruct (hrvh_table chk val n ws HV Hn H) as (p & T & Hp & Hr & Hmin & _).
  assert (PC : complete_table n (table_of n)) by (destruct Hn as [->| ->]; assumption).
  exists (sel ws p). repeat split.
  - exact Hr.
  - eapply sel_in_combs; eauto.
  - intros c Hc. destruct (combs_from_perm n _ ws c PC HL Hc) as [q [Hq ->]]. apply Hmin, Hq.
Qed.

Lemma value_n_ok chk val n ws :
  ranks_with chk val -> tables_complete -> (n = 5 \/ n = 6 \/ n = 7)%nat -> HandN n ws ->
  let v := best_value val ws in
  hand_rank_value chk ws = Ok v /\
  rmap (fun x => hr_value (hr_from x)) (hand_rank_value chk ws) = Ok v /\
  rmap fst (hrvh chk ws) = Ok v /\
  hand_rank_value_validated chk ws = Ok v /\
  v <> 0.
Proof.
  intros HV TC Hn H v. pose proof H as (HL & HR & HN).
  assert (Core : rmap fst (hrvh chk ws) = Ok v /\ v <> 0).
  { destruct Hn as [->|Hn].
    - unfold v. rewrite (best_value_five val ws HL). destruct (HV ws H) as [E NZ]. split; [|exact NZ].
      unfold hrvh. rewrite HL. exact E.
    - destruct (hrvh_n chk val n ws HV TC Hn H) as (h & Hr & Hin & Hmin).
      assert (E : val h = v).
      { unfold v, best_value. apply min_list_char.
        - apply in_map, Hin.
        - intros y Hy. apply in_map_iff in Hy. destruct Hy as [c [<- Hc]]. apply Hmin, Hc. }
      rewrite Hr. cbn [rmap bind fst]. rewrite E. split; [reflexivity|].
      rewrite <- E. apply In_combs in Hin. destruct Hin as [Hs Hl]. apply HV. eapply sub_hand; eauto. }
  destruct Core as [E0 NZ].
  assert (E1 : hand_rank_value chk ws = Ok v) by exact E0.
  split; [exact E1|]. split; [rewrite E1; reflexivity|]. split; [exact E0|].
  split; [unfold hand_rank_value_validated; rewrite (is_valid_real ws HR HN); exact E1 | exact NZ].
Qed.

(* any five distinct cards taken from the hand, in any order, are no stronger than the hand *)
Lemma lower_ok chk val n ws s :
  ranks_with chk val -> HandN n ws -> length s = 5%nat -> NoDup s -> incl s ws -> best_value val ws <= val s.
Proof.
  intros HV H HL HN Hincl. pose proof H as (_ & HR & HNw).
  destruct (subset_in_combs s ws 5 HN HNw Hincl HL) as [c [Hc HP]].
  assert (HS : Hand5 s).
  { repeat split; [exact HL| |exact HN]. apply Forall_forall. intros x Hx. rewrite Forall_forall in HR.
    apply HR, Hincl, Hx. }
  rewrite (val_perm chk val s c HV HS HP). unfold best_value.
  destruct (map val (combs ws 5)) as [|x r] eqn:E.
  - apply (in_map val) in Hc. rewrite E in Hc. destruct Hc.
  - cbn [min_list]. destruct (fold_min_le r x) as [H1 H2].
    apply (in_map val) in Hc. rewrite E in Hc. destruct Hc as [<-|Hc]; [exact H1 | apply H2, Hc].
Qed.

Lemma attained_ok val n ws :
  (5 <= n)%nat -> HandN n ws -> exists s, Subseq s ws /\ length s = 5%nat /\ Hand5 s /\ best_value val ws = val s.
Proof.
  intros Hn H. pose proof H as (HL & _ & _). unfold best_value.
  assert (Hne : combs ws 5 <> []).
  { intros E. assert (Hin : In (firstn 5 ws) (combs ws 5)).
    { apply In_combs. split; [|rewrite firstn_length; lia].
      rewrite <- (firstn_skipn 5 ws) at 2. clear. generalize (skipn 5 ws). generalize (firstn 5 ws).
      intros a b. induction a as [|x a IH]; cbn [app]; [apply Subseq_nil_l | apply Subseq_take, IH]. }
    rewrite E in Hin. destruct Hin. }
  destruct (combs ws 5) as [|c0 cs] eqn:E; [congruence|]. cbn [map min_list].
  destruct (fold_min_in (map val cs) (val c0)) as [Hm|Hm].
  - exists c0. assert (Hc : In c0 (combs ws 5)) by (rewrite E; left; reflexivity).
    apply In_combs in Hc. destruct Hc as [Hs Hl]. repeat split; try assumption; try (eapply sub_hand; eauto).
  - apply in_map_iff in Hm. destruct Hm as [c [Hv Hc]]. exists c.
    assert (Hc' : In c (combs ws 5)) by (rewrite E; right; exact Hc).
    apply In_combs in Hc'. destruct Hc' as [Hs Hl]. repeat split; try assumption; try (eapply sub_hand; eauto).
    symmetry. exact Hv.
Qed.

(* ---- C09: more cards never weaken a hand ------------------------------------------------------- *)
Lemma Subseq_trans {A} (a b c : list A) : Subseq a b -> Subseq b c -> Subseq a c.
Proof.
  intros H1 H2. revert a H1. induction H2; intros a H1.
  - exact H1.
  - apply Subseq_skip, IHSubseq, H1.
  - inversion H1; subst.
    + apply Subseq_skip, IHSubseq; assumption.
    + apply Subseq_take, IHSubseq; assumption.
Qed.

Lemma Subseq_refl {A} (l : list A) : Subseq l l.
Proof. induction l as [|a l IH]; [constructor | apply Subseq_take, IH]. Qed.

Lemma Subseq_extend {A} (t l : list A) :
  Subseq t l -> (length t < length l)%nat -> exists s, Subseq t s /\ Subseq s l /\ length s = S (length t).
Proof.
  induction 1 as [|x s l H IH|x s l H IH]; cbn [length]; intros HL.
  - lia.
  - exists (x :: s). repeat split.
    + apply Subseq_skip, Subseq_refl.
    + apply Subseq_take, H.
  - destruct IH as [s' (A1 & B1 & C1)]; [lia|]. exists (x :: s'). repeat split.
    + apply Subseq_take, A1.
    + apply Subseq_take, B1.
    + cbn [length]. lia.
Qed.

Lemma sub_handN n m ws s : HandN n ws -> Subseq s ws -> length s = m -> HandN m s.
Proof.
  intros (HL & HR & HN) HS HC. repeat split; [exact HC| |eapply Subseq_NoDup; eauto].
  apply Forall_forall. intros x Hx. rewrite Forall_forall in HR. apply HR. eapply Subseq_incl; eauto.
Qed.

(* sub-hands given as ANY duplicate-free selection in ANY order *)
Lemma monotone_ok chk val n m ws s :
  ranks_with chk val ->
  (5 <= m)%nat -> HandN n ws -> length s = m -> NoDup s -> incl s ws -> best_value val ws <= best_value val s.
Proof.
  intros HV Hm H HL HN Hincl. pose proof H as (_ & HR & _).
  assert (HS : HandN m s).
  { repeat split; try assumption. apply Forall_forall. intros x Hx. rewrite Forall_forall in HR.
    apply HR, Hincl, Hx. }
  destruct (attained_ok val m s Hm HS) as (t & Ht & Hl & H5 & ->).
  apply (lower_ok chk val n ws t HV H Hl (proj2 (proj2 H5))).
  intros x Hx. apply Hincl. eapply Subseq_incl; eauto.
Qed.

Lemma min_of_sub chk val n ws :
  ranks_with chk val -> (5 < n)%nat -> HandN n ws ->
  exists s, Subseq s ws /\ length s = pred n /\ best_value val s = best_value val ws.
Proof.
  intros HV Hn H. pose proof H as (HL & _).
  destruct (attained_ok val n ws ltac:(lia) H) as (t & Ht & Hl & H5 & Hv).
  (* grow t inside ws up to n-1 cards *)
  assert (G : forall k, (5 <= k <= n)%nat -> exists s, Subseq t s /\ Subseq s ws /\ length s = k).
  { induction k as [|k IHk]; intros Hk; [lia|].
    destruct (Nat.eq_dec (S k) 5) as [E|E].
    - exists t. repeat split; [apply Subseq_refl | exact Ht | lia].
    - destruct IHk as [s (A & B & C)]; [lia|].
      destruct (Subseq_extend s ws B ltac:(lia)) as [s' (A' & B' & C')].
      exists s'. repeat split; [eapply Subseq_trans; eauto | exact B' | lia]. }
  destruct (G (pred n) ltac:(lia)) as [s (A & B & C)].
  exists s. repeat split; [exact B | exact C|].
  pose proof (sub_handN n (pred n) ws s H B C) as HS.
  apply N.le_antisymm.
  - rewrite Hv. apply (lower_ok chk val (pred n) s t HV HS Hl (proj2 (proj2 H5))). eapply Subseq_incl; eauto.
  - apply (monotone_ok chk val n (pred n) ws s HV ltac:(lia) H C (proj2 (proj2 HS))). eapply Subseq_incl; eauto.
Qed.

(* in terms of the ranking functions: seven cards, any six of them, any five of those *)
Lemma chain_ok chk val ws7 s6 s5 :
  ranks_with chk val -> tables_complete ->
  HandN 7 ws7 -> length s6 = 6%nat -> NoDup s6 -> incl s6 ws7 ->
  length s5 = 5%nat -> NoDup s5 -> incl s5 s6 ->
  exists v7 v6 v5,
    hand_rank_value chk ws7 = Ok v7 /\ hand_rank_value chk s6 = Ok v6 /\ hand_rank_value chk s5 = Ok v5 /\
    v7 <= v6 /\ v6 <= v5.
Proof.
  intros HV TC H7 L6 N6 I6 L5 N5 I5.
  assert (H6 : HandN 6 s6).
  { destruct H7 as (_ & R & _). repeat split; try assumption. apply Forall_forall. intros x Hx.
    rewrite Forall_forall in R. apply R, I6, Hx. }
  assert (H5 : HandN 5 s5).
  { destruct H6 as (_ & R & _). repeat split; try assumption. apply Forall_forall. intros x Hx.
    rewrite Forall_forall in R. apply R, I5, Hx. }
  exists (best_value val ws7), (best_value val s6), (best_value val s5). repeat split.
  - exact (proj1 (value_n_ok chk val 7 ws7 HV TC ltac:(auto) H7)).
  - exact (proj1 (value_n_ok chk val 6 s6 HV TC ltac:(auto) H6)).
  - exact (proj1 (value_n_ok chk val 5 s5 HV TC ltac:(auto) H5)).
  - exact (monotone_ok chk val 7 6 ws7 s6 HV ltac:(repeat constructor) H7 L6 N6 I6).
  - exact (monotone_ok chk val 6 5 s6 s5 HV ltac:(repeat constructor) H6 L5 N5 I5).
Qed.

(* the value of n cards is attained by a sub-hand with one card fewer, in terms of the ranking functions *)
Lemma min_attained chk val n ws :
  ranks_with chk val -> tables_complete -> (n = 6 \/ n = 7)%nat -> HandN n ws ->
  exists s v, Subseq s ws /\ length s = pred n /\ hand_rank_value chk ws = Ok v /\ hand_rank_value chk s = Ok v.
Proof.
  intros HV TC Hn H.
  destruct (min_of_sub chk val n ws HV ltac:(lia) H) as (s & A & B & C).
  exists s, (best_value val ws). split; [exact A|]. split; [exact B|]. split.
  - exact (proj1 (value_n_ok chk val n ws HV TC ltac:(lia) H)).
  - rewrite <- C. apply (value_n_ok chk val (pred n) s HV TC ltac:(lia)). exact (sub_handN n (pred n) ws s H A B).
Qed.
