(* C16 — two-card hand from a bit-set: succeeds exactly for two card bits, round-trips.
   General proofs from the peel lemmas of C15 and the conversions of C14. *)
From Coq Require Import String.
From CKC Require Import Base.Prelude Base.Reflect Spec.Layout Model.Card Model.Hands Model.Binary.
From CKC Require Import Proofs.CardBase Proofs.ValidFacts Proofs.BcCards Proofs.BcPeel.
From CKC Require Import Gen.Consts Gen.Decks Gen.Enums.
Open Scope N_scope.

(* ---- exactly two bits ----------------------------------------------------------------------- *)
Lemma popcount_pos_two p : popcount_pos p = 2 -> exists i j, j < i /\ Npos p = 2 ^ i + 2 ^ j.
Proof.
  induction p as [p IH|p IH|]; cbn [popcount_pos]; intros H.
  - assert (H1 : popcount_pos p = 1) by lia. apply popcount_pos_one in H1.
    exists (N.succ (N.log2 (Npos p))), 0. split; [lia|].
    rewrite N.pow_succ_r', <- H1. change (2 ^ 0) with 1. lia.
  - destruct (IH H) as (i & j & Hij & E). exists (N.succ i), (N.succ j). split; [lia|].
    rewrite !N.pow_succ_r'. lia.
  - discriminate.
Qed.

Lemma pow2_add_lor i j : i <> j -> 2 ^ i + 2 ^ j = N.lor (2 ^ i) (2 ^ j).
Proof.
  intros H.
  assert (E : N.land (2 ^ i) (2 ^ j) = 0).
  { apply N.bits_inj. intros m. rewrite N.land_spec, !N.pow2_bits_eqb, N.bits_0.
    destruct (i =? m) eqn:E1, (j =? m) eqn:E2; try reflexivity.
    apply N.eqb_eq in E1, E2. congruence. }
  rewrite (N.add_nocarry_lxor _ _ E). now apply N.lxor_lor.
Qed.

Lemma popcount_pow2_pair i j : j < i -> popcount (2 ^ i + 2 ^ j) = 2.
Proof.
  revert i. induction j as [|j IH] using N.peano_ind; intros i Hij.
  - change (2 ^ 0) with 1. replace i with (N.succ (N.pred i)) by lia.
    rewrite N.pow_succ_r', popcount_double_succ, popcount_pow2. reflexivity.
  - replace i with (N.succ (N.pred i)) by lia. rewrite !N.pow_succ_r', <- N.mul_add_distr_l.
    rewrite popcount_double. apply IH. lia.
Qed.

Lemma popcount_two_iff b : popcount b = 2 <-> exists i j, j < i /\ b = 2 ^ i + 2 ^ j.
Proof.
  split.
  - destruct b as [|p]; cbn [popcount]; [discriminate | apply popcount_pos_two].
  - intros (i & j & Hij & ->). now apply popcount_pow2_pair.
Qed.

Lemma pair_testbit i j m : i <> j -> N.testbit (2 ^ i + 2 ^ j) m = (i =? m) || (j =? m).
Proof. intros H. now rewrite pow2_add_lor, N.lor_spec, !N.pow2_bits_eqb. Qed.

Lemma pair_lt i j : j < i -> (2 ^ i + 2 ^ j < 2 ^ 52 <-> i < 52).
Proof.
  intros Hij. rewrite lt_pow2_bits. split.
  - intros H. destruct (N.lt_ge_cases i 52) as [Hlt|Hge]; [exact Hlt|].
    specialize (H i Hge). rewrite pair_testbit, N.eqb_refl in H by lia. discriminate.
  - intros Hi m Hm. rewrite pair_testbit by lia.
    apply orb_false_iff. split; apply N.eqb_neq; lia.
Qed.

Lemma pair_lxor_hi i j : i <> j -> N.lxor (2 ^ i + 2 ^ j) (2 ^ i) = 2 ^ j.
Proof.
  intros H. apply N.bits_inj. intros m. rewrite N.lxor_spec, pair_testbit, !N.pow2_bits_eqb by exact H.
  destruct (i =? m) eqn:E1, (j =? m) eqn:E2; try reflexivity.
  apply N.eqb_eq in E1, E2. congruence.
Qed.

Lemma pair_lxor_lo i j : i <> j -> N.lxor (2 ^ i + 2 ^ j) (2 ^ j) = 2 ^ i.
Proof. intros H. rewrite N.add_comm. apply pair_lxor_hi. congruence. Qed.

(* ---- members and peels of one- and two-bit sets --------------------------------------------- *)
Lemma members_single_high k : 52 <= k -> members (2 ^ k) = [].
Proof. intros H. apply members_nil_iff. intros m Hm. apply N.pow2_bits_false. lia. Qed.

Lemma members_single_low k : k < 52 -> exists r, members (2 ^ k) = 2 ^ k :: r.
Proof.
  intros Hk. destruct (members (2 ^ k)) as [|d r] eqn:M.
  - pose proof (proj1 (members_nil_iff _) M k Hk) as H. rewrite N.pow2_bits_true in H. discriminate.
  - destruct (members_head _ _ _ M) as (k' & _ & -> & Hb & _).
    rewrite N.pow2_bits_eqb in Hb. apply N.eqb_eq in Hb. subst k'. now exists r.
Qed.

Lemma peel_single_low k : k < 52 -> fst (peel (2 ^ k)) = 2 ^ k.
Proof. intros Hk. destruct (members_single_low k Hk) as [r M]. now rewrite peel_members, M. Qed.

Lemma peel_single_high k : 52 <= k -> peel (2 ^ k) = (0, 2 ^ k).
Proof. intros Hk. now rewrite peel_members, (members_single_high k Hk). Qed.

(* two card bits: the higher bit comes out first *)
Lemma peel_pair_both i j : j < i -> i < 52 -> peel (2 ^ i + 2 ^ j) = (2 ^ i, 2 ^ j).
Proof.
  intros Hij Hi. rewrite peel_members. destruct (members (2 ^ i + 2 ^ j)) as [|d r] eqn:M.
  - pose proof (proj1 (members_nil_iff _) M i Hi) as H.
    rewrite pair_testbit, N.eqb_refl in H by lia. discriminate.
  - destruct (members_head _ _ _ M) as (k & Hk & -> & Hb & Hhi).
    rewrite pair_testbit in Hb by lia. apply orb_true_iff in Hb.
    assert (k = i).
    { destruct Hb as [Hb|Hb]; apply N.eqb_eq in Hb; [now subst|]. subst k.
      specialize (Hhi i ltac:(lia)). rewrite pair_testbit, N.eqb_refl in Hhi by lia. discriminate. }
    subst k. rewrite pair_lxor_hi by lia. reflexivity.
Qed.

(* the higher bit is an overflow bit: only the lower one is a member *)
Lemma peel_pair_low i j : j < 52 -> 52 <= i -> peel (2 ^ i + 2 ^ j) = (2 ^ j, 2 ^ i).
Proof.
  intros Hj Hi. rewrite peel_members. destruct (members (2 ^ i + 2 ^ j)) as [|d r] eqn:M.
  - pose proof (proj1 (members_nil_iff _) M j Hj) as H.
    rewrite pair_testbit, N.eqb_refl, orb_true_r in H by lia. discriminate.
  - destruct (members_head _ _ _ M) as (k & Hk & -> & Hb & _).
    rewrite pair_testbit in Hb by lia. apply orb_true_iff in Hb.
    assert (k = j) by (destruct Hb as [Hb|Hb]; apply N.eqb_eq in Hb; lia).
    subst k. rewrite pair_lxor_lo by lia. reflexivity.
Qed.

Lemma peel_pair_none i j : j < i -> 52 <= j -> peel (2 ^ i + 2 ^ j) = (0, 2 ^ i + 2 ^ j).
Proof.
  intros Hij Hj. rewrite peel_members.
  assert (M : members (2 ^ i + 2 ^ j) = []).
  { apply members_nil_iff. intros m Hm. rewrite pair_testbit by lia.
    apply orb_false_iff. split; apply N.eqb_neq; lia. }
  now rewrite M.
Qed.

(* ---- validity of the peeled pair ------------------------------------------------------------ *)
Lemma not_real_0 : ~ RealCard 0.
Proof. intros H. now apply RealCard_nonzero in H. Qed.

Lemma invalid_second_blank x : is_valid [x; 0] = false.
Proof.
  destruct (is_valid [x; 0]) eqn:E; [|reflexivity].
  apply is_valid_spec in E. destruct E as [F _].
  inversion F as [|? ? _ F']; subst. inversion F' as [|? ? H0 _]; subst.
  exfalso. exact (not_real_0 H0).
Qed.

Lemma valid_deck_pair p q :
  p < 52 -> q < 52 -> p <> q -> is_valid [nthN SPEC_DECK p 0; nthN SPEC_DECK q 0] = true.
Proof.
  intros Hp Hq Hne. apply is_valid_spec. split.
  - repeat constructor; now apply SPEC_DECK_nth_real.
  - constructor; [|constructor; [intros []|constructor]].
    intros [H|[]]. apply SPEC_DECK_nth_inj in H; [congruence | exact Hq | exact Hp].
Qed.

(* ---- the conversion ------------------------------------------------------------------------- *)
Lemma two_not_enough b : popcount b < 2 -> two_try_from_bc b = inr ERR_NOT_ENOUGH.
Proof.
  intros H. unfold two_try_from_bc, number_of_cards.
  assert (E : popcount b <=? 1 = true) by (apply N.leb_le; lia). now rewrite E.
Qed.

Lemma two_too_many b : 2 < popcount b -> two_try_from_bc b = inr ERR_TOO_MANY.
Proof.
  intros H. unfold two_try_from_bc, number_of_cards.
  assert (E1 : popcount b <=? 1 = false) by (apply N.leb_gt; lia).
  assert (E2 : popcount b =? 2 = false) by (apply N.eqb_neq; lia). now rewrite E1, E2.
Qed.

Lemma two_unfold b :
  popcount b = 2 ->
  two_try_from_bc b =
  (let '(c1, b1) := peel b in
   let '(c2, _) := peel b1 in
   let two := [from_binary_card c1; from_binary_card c2] in
   if is_valid two then inl two else inr ERR_INVALID_BINARY).
Proof. intros H. unfold two_try_from_bc, number_of_cards. now rewrite H. Qed.

(* two card bits i > j: the cards of bit i and bit j, in that (deck) order *)
Lemma two_pair_ok i j :
  j < i -> i < 52 ->
  let c1 := nthN SPEC_DECK (51 - i) 0 in
  let c2 := nthN SPEC_DECK (51 - j) 0 in
  two_try_from_bc (2 ^ i + 2 ^ j) = inl [c1; c2] /\
  is_valid [c1; c2] = true /\
  from_ckc c1 = 2 ^ i /\ from_ckc c2 = 2 ^ j /\
  bc_from_hand [c1; c2] = 2 ^ i + 2 ^ j.
Proof.
  intros Hij Hi c1 c2.
  assert (V : is_valid [c1; c2] = true) by (apply valid_deck_pair; lia).
  assert (F1 : from_ckc c1 = 2 ^ i).
  { unfold c1. rewrite from_ckc_deck by lia. f_equal. lia. }
  assert (F2 : from_ckc c2 = 2 ^ j).
  { unfold c2. rewrite from_ckc_deck by lia. f_equal. lia. }
  repeat split; try assumption.
  - rewrite two_unfold by now apply popcount_pow2_pair.
    rewrite (peel_pair_both i j Hij Hi).
    destruct (peel (2 ^ j)) as [c b2] eqn:P.
    assert (Hc : c = 2 ^ j) by (rewrite <- (peel_single_low j ltac:(lia)), P; reflexivity).
    subst c. cbv zeta. rewrite !from_bc_card_bit by lia. fold c1 c2. now rewrite V.
  - unfold bc_from_hand. cbn [fold_left]. rewrite F1, F2, N.lor_0_l. symmetry.
    apply pow2_add_lor. lia.
Qed.

(* two bits, at least one of them above the card bits *)
Lemma two_pair_invalid i j :
  j < i -> 52 <= i -> two_try_from_bc (2 ^ i + 2 ^ j) = inr ERR_INVALID_BINARY.
Proof.
  intros Hij Hi. rewrite two_unfold by now apply popcount_pow2_pair.
  destruct (N.lt_ge_cases j 52) as [Hj|Hj].
  - rewrite (peel_pair_low i j Hj Hi), (peel_single_high i Hi). cbv zeta.
    rewrite from_bc_zero. now rewrite invalid_second_blank.
  - rewrite (peel_pair_none i j Hij Hj), (peel_pair_none i j Hij Hj). cbv zeta.
    rewrite from_bc_zero. now rewrite invalid_second_blank.
Qed.

Lemma two_cards_ok b :
  popcount b = 2 -> b < 2 ^ 52 ->
  exists i j, j < i /\ i < 52 /\ b = 2 ^ i + 2 ^ j /\ members b = [2 ^ i; 2 ^ j] /\
    let c1 := nthN SPEC_DECK (51 - i) 0 in
    let c2 := nthN SPEC_DECK (51 - j) 0 in
    two_try_from_bc b = inl [c1; c2] /\ is_valid [c1; c2] = true /\
    from_ckc c1 = 2 ^ i /\ from_ckc c2 = 2 ^ j /\ bc_from_hand [c1; c2] = b.
Proof.
  intros H2 Hlt. apply popcount_two_iff in H2. destruct H2 as (i & j & Hij & ->).
  apply (pair_lt i j Hij) in Hlt. exists i, j.
  split; [exact Hij|]. split; [exact Hlt|]. split; [reflexivity|].
  split; [|exact (two_pair_ok i j Hij Hlt)].
  (* members *)
  pose proof (peel_pair_both i j Hij Hlt) as P. rewrite peel_members in P.
  destruct (members (2 ^ i + 2 ^ j)) as [|d r] eqn:M.
  - injection P as P _. exfalso. symmetry in P. revert P. apply N.pow_nonzero. lia.
  - injection P as -> P. f_equal. rewrite <- (members_peeled _ _ _ M), P.
    destruct (members_single_low j ltac:(lia)) as [r' M']. rewrite M'. f_equal.
    rewrite <- (members_peeled _ _ _ M'), N.lxor_nilpotent. apply members_nil_iff.
    intros k _. apply N.bits_0.
Qed.

Lemma two_invalid_ok b :
  popcount b = 2 -> ~ b < 2 ^ 52 -> two_try_from_bc b = inr ERR_INVALID_BINARY.
Proof.
  intros H2 Hge. apply popcount_two_iff in H2. destruct H2 as (i & j & Hij & ->).
  apply two_pair_invalid; [exact Hij|].
  destruct (N.lt_ge_cases i 52) as [Hlt|H]; [|exact H].
  exfalso. apply Hge. now apply pair_lt.
Qed.

Lemma errors_distinct :
  ERR_NOT_ENOUGH <> ERR_TOO_MANY /\ ERR_NOT_ENOUGH <> ERR_INVALID_BINARY /\
  ERR_TOO_MANY <> ERR_INVALID_BINARY /\
  nth (N.to_nat ERR_NOT_ENOUGH) HandError_NAMES EmptyString = "NotEnoughCards"%string /\
  nth (N.to_nat ERR_TOO_MANY) HandError_NAMES EmptyString = "TooManyCards"%string /\
  nth (N.to_nat ERR_INVALID_BINARY) HandError_NAMES EmptyString = "InvalidBinaryFormat"%string.
Proof. repeat split; vm_compute; congruence. Qed.

(* succeeds exactly when the set consists of two card bits *)
Lemma two_succeeds_iff b :
  (exists h, two_try_from_bc b = inl h) <-> popcount b = 2 /\ b < 2 ^ 52.
Proof.
  split.
  - intros [h H].
    destruct (N.lt_trichotomy (popcount b) 2) as [Hlt|[Heq|Hgt]].
    + rewrite (two_not_enough _ Hlt) in H. discriminate.
    + split; [exact Heq|]. destruct (N.lt_ge_cases b (2 ^ 52)) as [Hb|Hb]; [exact Hb|].
      rewrite (two_invalid_ok _ Heq) in H by lia. discriminate.
    + rewrite (two_too_many _ Hgt) in H. discriminate.
  - intros [H2 Hlt]. destruct (two_cards_ok b H2 Hlt) as (i & j & _ & _ & _ & _ & H & _).
    eexists. exact H.
Qed.
