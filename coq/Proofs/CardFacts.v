(* All accessors at once (used by C10), and a re-export of the finer-grained fact files. Files that need
   only part of this should import the part, so that an unrelated change does not break them. *)
From Coq Require Import String.
From CKC Require Import Base.Prelude Base.Reflect Spec.Layout Model.Card.
From CKC Require Import Gen.Consts Gen.Enums Gen.Maps Gen.Scan Gen.Decks.
From CKC Require Export Proofs.CardBase Proofs.FilterReal Proofs.FilterExact.
Open Scope N_scope.

(* ---- accessors on the 52 cards ---------------------------------------------------------- *)
Definition acc_ok (r s : N) : bool :=
  let w := layout r s in
  (get_card_rank w =? rank_variant r) && (get_card_suit w =? suit_variant s)
  && (get_rank_prime w =? prime_of r) && (get_rank_bit w =? 2 ^ r) && (get_rank_flag w =? 2 ^ (16 + r))
  && (get_suit_bit w =? 2 ^ s) && (get_suit_flag w =? 2 ^ (12 + s))
  && (get_rank_char w =? nthN RANK_CHARS r 0) && (get_suit_char w =? nthN SUIT_GLYPHS s 0)
  && (get_suit_letter w =? nthN SUIT_LETTERS s 0) && negb (is_blank w)
  && (suit_signature (suit_variant s) =? 2 ^ (12 + s))
  && (get_chen_points_x2 w =? chen_points_x2 r)
  && (rank_discr (rank_variant r) =? r + 2)
  && (w <? 2 ^ 29).

Lemma acc_ok_all r s : r < 13 -> s < 4 -> acc_ok r s = true.
Proof. apply sweep_rs. vm_compute. reflexivity. Qed.
