(* Facts about the rules-of-poker spec (Spec/Poker.v): permutation invariance, completeness of the
   class list, and the ordinal computed through the list of classes ranked by score. *)
From Coq Require Import Sorting.Permutation Sorting.Sorted Sorting.Mergesort Orders.
From CKC Require Import Base.Prelude Base.Reflect Base.SortN Spec.Layout Spec.Poker Proofs.SortFacts.
Open Scope N_scope.

(* ---- permutation invariance (the spec only counts occurrences) ------------------------------ *)
Lemma cnt_perm r rs rs' : Permutation rs rs' -> cnt r rs = cnt r rs'.
Proof.
  intros H. unfold cnt. revert r. apply (Permutation_count_occ N.eq_dec). exact H.
Qed.

Lemma ranks_with_perm c rs rs' : Permutation rs rs' -> ranks_with c rs = ranks_with c rs'.
Proof.
  intros H. unfold ranks_with. apply filter_ext. intros r. rewrite (cnt_perm r _ _ H). reflexivity.
Qed.

Lemma forallb_perm {A} (f : A -> bool) l l' : Permutation l l' -> forallb f l = forallb f l'.
Proof.
  induction 1; cbn [forallb].
  - reflexivity.
  - rewrite IHPermutation. reflexivity.
  - destruct (f x), (f y); reflexivity.
  - congruence.
Qed.

Lemma forallb_ext' {A} (f g : A -> bool) l : (forall a, f a = g a) -> forallb f l = forallb g l.
Proof. intros H. induction l as [|a l IH]; cbn [forallb]; [reflexivity|]. rewrite H, IH. reflexivity. Qed.

Lemma straight_top_perm rs rs' : Permutation rs rs' -> straight_top rs = straight_top rs'.
Proof.
  intros H. unfold straight_top, all_distinct, is_wheel_ranks.
  rewrite !(ranks_with_perm _ _ _ H). reflexivity.
Qed.

Lemma kickers_perm rs rs' fl : Permutation rs rs' -> kickers (rs, fl) = kickers (rs', fl).
Proof.
  intros H. unfold kickers, tiebreak.
  rewrite (straight_top_perm _ _ H), !(ranks_with_perm _ _ _ H). reflexivity.
Qed.

Lemma category_perm rs rs' fl : Permutation rs rs' -> category (rs, fl) = category (rs', fl).
Proof.
  intros H. unfold category, is_straight_ranks, has_mult.
  rewrite (straight_top_perm _ _ H), !(ranks_with_perm _ _ _ H). reflexivity.
Qed.

Lemma score_perm rs rs' fl : Permutation rs rs' -> score (rs, fl) = score (rs', fl).
Proof.
  intros H. unfold score. rewrite (category_perm _ _ fl H), (kickers_perm _ _ fl H). reflexivity.
Qed.

Lemma valid_shape_perm rs rs' fl : Permutation rs rs' -> valid_shape (rs, fl) = valid_shape (rs', fl).
Proof.
  intros H. unfold valid_shape, all_distinct.
  rewrite (Permutation_length H), (forallb_perm _ _ _ H), !(ranks_with_perm _ _ _ H).
  f_equal. f_equal. apply forallb_ext'. intros r. rewrite (cnt_perm r _ _ H). reflexivity.
Qed.

(* ---- completeness of [multisets] -------------------------------------------------------------- *)
Lemma multisets_cons_S x m k :
  multisets (x :: m) (S k) = map (cons x) (multisets (x :: m) k) ++ multisets m (S k).
Proof. reflexivity. Qed.

Lemma multisets_cons_0 x m : multisets (x :: m) 0 = [[]].
Proof. reflexivity. Qed.

Lemma multisets_complete m l :
  StronglySorted (fun a b => b < a) m -> noninc l -> Forall (fun x => In x m) l ->
  In l (multisets m (length l)).
Proof.
  intros Hm. revert l. induction Hm as [|x m' Hm' IH Hx]; intros l Hl Hin.
  - destruct l as [|y l']; [left; reflexivity|]. inversion Hin; subst. contradiction.
  - induction l as [|y l' IHl].
    + left; reflexivity.
    + cbn [length]. rewrite multisets_cons_S. apply in_app_iff.
      inversion Hl as [|? ? Hl' Hy]; subst. inversion Hin as [|? ? Hyin Hin']; subst.
      destruct (N.eq_dec y x) as [->|Hne].
      * left. apply in_map. apply IHl; assumption.
      * right. change (S (length l')) with (length (y :: l')).
        destruct Hyin as [Heq|Hyin]; [congruence|].
        rewrite Forall_forall in Hx. pose proof (Hx _ Hyin) as Hlt. cbv beta in Hlt.
        apply IH; [assumption|].
        constructor; [assumption|].
        rewrite Forall_forall in *. intros z Hz. destruct (Hin' z Hz) as [<-|Hz']; [|assumption].
        specialize (Hy _ Hz). cbv beta in Hy. lia.
Qed.

Lemma RANKS_DESC_sorted : StronglySorted (fun a b => b < a) RANKS_DESC.
Proof. unfold RANKS_DESC. repeat constructor; lia. Qed.

Lemma lt13_In_RANKS_DESC r : r < 13 -> In r RANKS_DESC.
Proof.
  intros H. apply memN_In. revert r H.
  apply (forallb_N_range (fun r => memN r RANKS_DESC) 13). vm_compute. reflexivity.
Qed.

(* every valid shape has its canonical (descending) representative in the class list *)
Lemma canon_in_all_shapes rs fl :
  valid_shape (rs, fl) = true -> In (sort_desc rs, fl) all_shapes.
Proof.
  intros Hv. unfold all_shapes. apply filter_In. split.
  - apply in_prod.
    + unfold valid_shape in Hv. rewrite !andb_true_iff in Hv.
      destruct Hv as [[[Hlen Hlt] _] _].
      apply Nat.eqb_eq in Hlen. rewrite <- Hlen, <- (sort_desc_length rs).
      apply multisets_complete.
      * exact RANKS_DESC_sorted.
      * apply sort_desc_sorted.
      * rewrite Forall_forall. intros x Hx. apply -> sort_desc_In in Hx.
        rewrite forallb_forall in Hlt. specialize (Hlt x Hx). cbv beta in Hlt.
        apply N.ltb_lt in Hlt. apply lt13_In_RANKS_DESC. exact Hlt.
    + destruct fl; cbn; auto.
  - rewrite (valid_shape_perm _ _ fl (sort_desc_perm rs)). exact Hv.
Qed.
