(* The `perm5` projection (Model/Proj.v) is constant on five distinct real cards: every slot order is again five
   distinct real cards, every entry point returns the ordinal (C01's value lemma), and the five-card value does
   not depend on the slot order. *)
From Coq Require Import Sorting.Permutation.
From CKC Require Import Base.Prelude Spec.Layout Spec.Poker.
From CKC Require Import Model.Five Model.HandRank Model.Proj Proofs.FiveFacts Proofs.HandFacts Proofs.C01.
Open Scope N_scope.

(* ---- [perms] lists orders of its argument -------------------------------------------------------- *)
Lemma insert_all_perm {A} (x : A) l : forall q, In q (insert_all x l) -> Permutation q (x :: l).
Proof.
  induction l as [|y r IH]; intros q Hq; cbn [insert_all In] in Hq.
  - destruct Hq as [<-|[]]. apply Permutation_refl.
  - destruct Hq as [<-|Hq]; [apply Permutation_refl|].
    apply in_map_iff in Hq. destruct Hq as (q' & <- & Hq').
    eapply Permutation_trans; [apply perm_skip, IH, Hq' | apply perm_swap].
Qed.

Lemma perms_perm {A} (l : list A) : forall p, In p (perms l) -> Permutation p l.
Proof.
  induction l as [|x r IH]; intros p Hp; cbn [perms] in Hp.
  - destruct Hp as [<-|[]]. constructor.
  - apply in_flat_map in Hp. destruct Hp as (q & Hq & Hp).
    eapply Permutation_trans; [apply (insert_all_perm x q p Hp) | apply perm_skip, IH, Hq].
Qed.

Lemma reorder_perm (ws : list N) p :
  length ws = 5%nat -> In p PERM5_IDX -> Permutation (map (fun i => nth i ws 0) p) ws.
Proof.
  intros HL Hp. apply perms_perm in Hp.
  eapply Permutation_trans; [apply Permutation_map, Hp|].
  destruct ws as [|a [|b [|c [|d [|e [|f r]]]]]]; try discriminate HL. apply Permutation_refl.
Qed.

Lemma hand5_perm ws w : Hand5 ws -> Permutation w ws -> Hand5 w.
Proof.
  intros (HL & HR & HN) HP. repeat split.
  - rewrite (Permutation_length HP). exact HL.
  - eapply Permutation_Forall; [symmetry; exact HP | exact HR].
  - eapply Permutation_NoDup; [symmetry; exact HP | exact HN].
Qed.

Lemma hrv_five chk w : length w = 5%nat -> hand_rank_value chk w = hrv5 chk w.
Proof. intros HL. unfold hand_rank_value, hrvh. rewrite HL. reflexivity. Qed.

(* every entry point, on every slot order, returns the value of the given order *)
Lemma five_same chk ws w v0 :
  Hand5 ws -> Permutation w ws -> hand_rank_value chk ws = Ok v0 ->
  perm5_entry chk v0 w = true.
Proof.
  unfold perm5_entry.
  intros H HP E0. pose proof (hand5_perm ws w H HP) as Hw.
  assert (Ew : hand_rank_value chk w = Ok v0).
  { rewrite (hrv_five chk w (proj1 Hw)), (hrv5_perm chk w ws (proj1 Hw) HP), <- (hrv_five chk ws (proj1 H)). exact E0. }
  pose proof (value_ok chk w Hw) as X. cbv zeta in X. remember (ordinal (shape_of w)) as vw eqn:Evw. clear Evw.
  destruct X as (A & B & _ & D & E & _).
  assert (vw = v0) by congruence. subst vw.
  rewrite A, B, D, E. cbn [rmap bind fst ok_is]. rewrite N.eqb_refl. reflexivity.
Qed.

Lemma proj_perm5_const chk ws : Hand5 ws -> proj_perm5 chk ws = Ok [true; true].
Proof.
  intros H. pose proof (value_ok chk ws H) as X. cbv zeta in X.
  remember (ordinal (shape_of ws)) as v0 eqn:Ev0. clear Ev0. destruct X as (E0 & _ & _ & _ & _ & R1 & R2).
  unfold proj_perm5. rewrite E0.
  assert (S : forallb (fun p => perm5_entry chk v0 (map (fun i => nth i ws 0) p)) PERM5_IDX = true).
  { apply forallb_forall. intros p Hp.
    exact (five_same chk ws _ v0 H (reorder_perm ws p (proj1 H) Hp) E0). }
  rewrite S. apply N.leb_le in R1. apply N.leb_le in R2. rewrite R1, R2. reflexivity.
Qed.
