(* The published slot-index tables list every 2-of-4, 5-of-6 and 5-of-7 slot combination exactly once, each row
   strictly increasing (part of C18; C02 / C09 use the completeness). Kept apart from the preset starting-hand
   tables so that a change to one does not disturb proofs about the other. *)
From CKC Require Import Base.Prelude Base.Reflect Base.Combs Spec.Layout.
From CKC Require Import Gen.Consts Gen.Decks.
Open Scope N_scope.

Definition slots (n : N) : list N := N_range n.
Definition SPEC_2_OF_4 := combs (slots 4) 2.
Definition SPEC_5_OF_6 := combs (slots 6) 5.
Definition SPEC_5_OF_7 := combs (slots 7) 5.

Definition table_ok (t spec : list (list N)) (n : nat) : Prop :=
  NoDup t /\ (forall r, In r t <-> In r spec) /\ length t = n.

Lemma table_okb t spec n : same_rows t spec = true -> length t = n -> table_ok t spec n.
Proof. intros H Hl. destruct (same_rows_spec _ _ H) as [H1 H2]. exact (conj H1 (conj H2 Hl)). Qed.

Lemma slot_tables_ok :
  table_ok OMAHA_PERMUTATIONS SPEC_2_OF_4 6 /\ Forall (fun r => strictly_increasing r = true) OMAHA_PERMUTATIONS /\
  table_ok SIX_PERMUTATIONS SPEC_5_OF_6 6 /\ Forall (fun r => strictly_increasing r = true) SIX_PERMUTATIONS /\
  table_ok SEVEN_PERMUTATIONS SPEC_5_OF_7 21 /\ Forall (fun r => strictly_increasing r = true) SEVEN_PERMUTATIONS.
Proof.
  repeat match goal with |- _ /\ _ => split end;
    try (apply table_okb; vm_compute; reflexivity);
    apply Forall_forall; apply forallb_forall; vm_compute; reflexivity.
Qed.
