(* Construction of a card from a rank variant and a suit variant, over all 14 x 5 pairs (the model's create goes
   through the regenerated filter graph, so this also says the filter passes every constructed card). *)
From Coq Require Import String.
From CKC Require Import Base.Prelude Base.Reflect Spec.Layout Model.Card.
From CKC Require Import Gen.Consts Gen.Enums Gen.Maps Gen.Scan Gen.Decks.
From CKC Require Import Proofs.CardBase.
Open Scope N_scope.

Definition create_spec (ri si : N) : N :=
  match spec_rank_of_variant ri, spec_suit_of_variant si with
  | Some r, Some s => layout r s
  | _, _ => 0
  end.

Lemma create_ok ri si :
  ri < lenN CardRank_NAMES -> si < lenN CardSuit_NAMES ->
  create ri si = create_spec ri si /\ create ri si = nthN (nthN CREATE_GRID ri []) si 0.
Proof.
  intros Hr Hs.
  pose proof (forallb_N_range2
    (fun ri si => (create ri si =? create_spec ri si) && (create ri si =? nthN (nthN CREATE_GRID ri []) si 0))
    (lenN CardRank_NAMES) (lenN CardSuit_NAMES) ltac:(vm_compute; reflexivity) ri si Hr Hs) as H.
  apply andb_true_iff in H. rewrite !N.eqb_eq in H. exact H.
Qed.

(* the enumerations are exactly the 13 ranks / 4 suits plus one blank each *)
Lemma variants_ok :
  lenN CardRank_NAMES = 14 /\ lenN CardSuit_NAMES = 5 /\
  (forall r, r < 13 -> spec_rank_of_variant (rank_variant r) = Some r) /\
  (forall s, s < 4 -> spec_suit_of_variant (suit_variant s) = Some s) /\
  spec_rank_of_variant RANK_BLANK = None /\ spec_suit_of_variant SUIT_BLANK = None /\
  RANK_BLANK < 14 /\ SUIT_BLANK < 5.
Proof.
  repeat split; try (vm_compute; reflexivity).
  - intros r Hr.
    pose proof (forallb_N_range (fun r => match spec_rank_of_variant (rank_variant r) with
                                          | Some x => x =? r | None => false end) 13
                  ltac:(vm_compute; reflexivity) r Hr) as H.
    cbv beta in H. destruct (spec_rank_of_variant (rank_variant r)); [|discriminate].
    apply N.eqb_eq in H. now subst.
  - intros s Hs.
    pose proof (forallb_N_range (fun s => match spec_suit_of_variant (suit_variant s) with
                                          | Some x => x =? s | None => false end) 4
                  ltac:(vm_compute; reflexivity) s Hs) as H.
    cbv beta in H. destruct (spec_suit_of_variant (suit_variant s)); [|discriminate].
    apply N.eqb_eq in H. now subst.
Qed.
