(* Members of a card bit-set in deck order and peeling (first half of C15; C16 builds on it). Depends on the
   bit-form deck and the ALL mask only, not on the OVERFLOW mask nor on the word/bit conversions. *)
From Coq Require Import String.
From CKC Require Import Base.Prelude Base.Reflect Spec.Layout Model.Card Model.Hands Model.Binary Model.Parse.
From CKC Require Import Proofs.CardBase Proofs.BcCards.
From CKC Require Import Gen.Consts Gen.Decks Gen.Scan.
Open Scope N_scope.

(* ---- definitions used by the statements ---------------------------------------------------- *)
(* the members of a set, in deck order *)
Definition members (b : N) : list N := List.filter (fun d => N.land b d =? d) BC_DECK.

(* n successive peels: the returned cards in order, and the final state *)
Fixpoint peel_n (n : nat) (b : N) : list N * N :=
  match n with
  | O => ([], b)
  | S m => let '(c, b1) := peel b in let '(cs, b2) := peel_n m b1 in (c :: cs, b2)
  end.

(* ---- list helpers -------------------------------------------------------------------------- *)
Lemma filter_map_comm {A B} (f : B -> bool) (g : A -> B) l :
  List.filter f (map g l) = map g (List.filter (fun x => f (g x)) l).
Proof.
  induction l as [|a l IH]; cbn [map List.filter]; [reflexivity|].
  destruct (f (g a)); cbn [map]; now rewrite IH.
Qed.

Lemma filter_nil_all {A} (f : A -> bool) l x : List.filter f l = [] -> In x l -> f x = false.
Proof.
  intros H Hin. destruct (f x) eqn:E; [|reflexivity].
  assert (Hx : In x (List.filter f l)) by (apply filter_In; now split). rewrite H in Hx. destruct Hx.
Qed.

Lemma filter_all_nil {A} (f : A -> bool) l : (forall x, In x l -> f x = false) -> List.filter f l = [].
Proof.
  induction l as [|a l IH]; intros H; cbn [List.filter]; [reflexivity|].
  rewrite (H a (or_introl eq_refl)). apply IH. intros x Hx. apply H. now right.
Qed.

Lemma filter_rev_length {A} (f : A -> bool) l : length (List.filter f (rev l)) = length (List.filter f l).
Proof.
  induction l as [|a l IH]; cbn [rev List.filter]; [reflexivity|].
  rewrite filter_app, app_length, IH. cbn [List.filter]. destruct (f a); cbn [length]; lia.
Qed.

(* removing the first element selected by [f] from a duplicate-free list *)
Lemma filter_remove_head {A} (f f' : A -> bool) l k r :
  NoDup l -> List.filter f l = k :: r -> f' k = false -> (forall x, x <> k -> f' x = f x) ->
  List.filter f' l = r.
Proof.
  induction l as [|a l IH]; intros ND H Hk Hag; cbn [List.filter] in *; [discriminate|].
  inversion ND as [|? ? Hnin ND']; subst.
  destruct (f a) eqn:E.
  - injection H as -> <-. rewrite Hk. apply filter_ext_in. intros x Hx. apply Hag.
    intros ->. contradiction.
  - assert (Hfk : f k = true).
    { assert (Hin : In k (List.filter f l)) by (rewrite H; now left). apply filter_In in Hin. tauto. }
    assert (Hak : a <> k) by (intros ->; congruence).
    rewrite (Hag a Hak), E. now apply IH.
Qed.

Lemma fold_left_map_comm {A B C} (f : A -> B -> A) (g : C -> B) l a :
  fold_left (fun acc t => f acc (g t)) l a = fold_left f (map g l) a.
Proof. revert a. induction l as [|x l IH]; intros a; cbn [fold_left map]; [reflexivity | apply IH]. Qed.

(* ---- bit helpers --------------------------------------------------------------------------- *)
Lemma lt_pow2_bits a n : a < 2 ^ n <-> (forall m, n <= m -> N.testbit a m = false).
Proof.
  destruct (N.eq_dec a 0) as [->|Ha].
  - split; [intros _ m _; apply N.bits_0 | intros _; apply N.neq_0_lt_0, N.pow_nonzero; lia].
  - assert (Hp : 0 < a) by lia. split.
    + intros H m Hm. apply N.bits_above_log2. apply (N.log2_lt_pow2 _ _ Hp) in H. lia.
    + intros H. apply N.nle_gt. intros Hle. apply (N.log2_le_pow2 _ _ Hp) in Hle.
      pose proof (N.bit_log2 a Ha) as Hb. rewrite (H _ Hle) in Hb. discriminate.
Qed.

Lemma land_pow2_testbit b k : (N.land b (2 ^ k) =? 2 ^ k) = N.testbit b k.
Proof.
  destruct (N.testbit b k) eqn:E.
  - apply N.eqb_eq, N.bits_inj. intros m. rewrite N.land_spec, N.pow2_bits_eqb.
    destruct (k =? m) eqn:Em; [|apply andb_false_r].
    apply N.eqb_eq in Em. subst m. now rewrite E.
  - apply N.eqb_neq. intros H.
    assert (Hb : N.testbit (N.land b (2 ^ k)) k = N.testbit (2 ^ k) k) by now rewrite H.
    rewrite N.land_spec, E, N.pow2_bits_true in Hb. discriminate.
Qed.

Lemma lxor_clear b k : N.testbit b k = true -> N.lxor b (2 ^ k) = N.ldiff b (2 ^ k).
Proof.
  intros H. apply N.bits_inj. intros m. rewrite N.lxor_spec, N.ldiff_spec, N.pow2_bits_eqb.
  destruct (k =? m) eqn:Em.
  - apply N.eqb_eq in Em. subst m. rewrite H. reflexivity.
  - cbn [negb]. now rewrite xorb_false_r, andb_true_r.
Qed.

Lemma testbit_clear b k i : N.testbit (N.ldiff b (2 ^ k)) i = N.testbit b i && negb (i =? k).
Proof. now rewrite N.ldiff_spec, N.pow2_bits_eqb, N.eqb_sym. Qed.

Lemma BC_ALL_ones : BC_ALL = N.ones 52.
Proof. reflexivity. Qed.

Lemma testbit_ALL i : N.testbit BC_ALL i = (i <? 52).
Proof.
  rewrite BC_ALL_ones. destruct (i <? 52) eqn:E.
  - apply N.ltb_lt in E. now apply N.ones_spec_low.
  - apply N.ltb_ge in E. now apply N.ones_spec_high.
Qed.

(* ---- the positions 51 .. 0 ----------------------------------------------------------------- *)
Fixpoint desc (n : nat) : list N :=
  match n with O => [] | S m => N.of_nat m :: desc m end.

Lemma BC_DECK_desc : BC_DECK = map (N.pow 2) (desc 52).
Proof. vm_compute. reflexivity. Qed.

Lemma In_desc n k : In k (desc n) <-> k < N.of_nat n.
Proof.
  induction n as [|n IH]; cbn [desc In].
  - split; [tauto | lia].
  - rewrite IH. lia.
Qed.

Lemma NoDup_desc n : NoDup (desc n).
Proof.
  induction n as [|n IH]; cbn [desc]; constructor; [|exact IH].
  rewrite In_desc. lia.
Qed.

Lemma desc_rev n : desc n = rev (map N.of_nat (seq 0 n)).
Proof.
  induction n as [|n IH]; [reflexivity|].
  rewrite seq_S, map_app, rev_app_distr. cbn [map rev app Nat.add desc]. now rewrite IH.
Qed.

Lemma rev_N_range n : rev (N_range n) = desc (N.to_nat n).
Proof. unfold N_range. symmetry. apply desc_rev. Qed.

(* the first selected position is the largest one *)
Lemma filter_desc_head n b k r :
  List.filter (N.testbit b) (desc n) = k :: r ->
  k < N.of_nat n /\ N.testbit b k = true /\ (forall j, k < j < N.of_nat n -> N.testbit b j = false).
Proof.
  induction n as [|n IH]; cbn [desc List.filter]; intros H; [discriminate|].
  destruct (N.testbit b (N.of_nat n)) eqn:E.
  - injection H as <- <-. repeat split; [lia | exact E | intros j Hj; lia].
  - destruct (IH H) as (H1 & H2 & H3). repeat split; [lia | exact H2 |].
    intros j Hj. destruct (N.eq_dec j (N.of_nat n)) as [->|Hne]; [exact E | apply H3; lia].
Qed.

(* ---- members ------------------------------------------------------------------------------- *)
Lemma members_desc b : members b = map (N.pow 2) (List.filter (N.testbit b) (desc 52)).
Proof.
  unfold members. rewrite BC_DECK_desc, filter_map_comm. f_equal.
  apply filter_ext. intros k. apply land_pow2_testbit.
Qed.

Lemma In_members b d : In d (members b) <-> exists k, k < 52 /\ d = 2 ^ k /\ N.testbit b k = true.
Proof.
  rewrite members_desc, in_map_iff. split.
  - intros [k [<- Hk]]. apply filter_In in Hk. destruct Hk as [Hk Hb]. apply In_desc in Hk.
    exists k. repeat split; [lia | exact Hb].
  - intros (k & Hk & -> & Hb). exists k. split; [reflexivity|]. apply filter_In. split; [|exact Hb].
    apply In_desc. lia.
Qed.

Lemma members_nil_iff b : members b = [] <-> (forall k, k < 52 -> N.testbit b k = false).
Proof.
  rewrite members_desc. split.
  - intros H k Hk. apply map_eq_nil in H. apply (filter_nil_all _ _ k H). apply In_desc. lia.
  - intros H. rewrite filter_all_nil; [reflexivity|]. intros k Hk. apply H. apply In_desc in Hk. lia.
Qed.

(* the head of the members is the highest card bit present *)
Lemma members_head b d r :
  members b = d :: r ->
  exists k, k < 52 /\ d = 2 ^ k /\ N.testbit b k = true /\ (forall j, k < j < 52 -> N.testbit b j = false).
Proof.
  rewrite members_desc. destruct (List.filter (N.testbit b) (desc 52)) as [|k ks] eqn:F; [discriminate|].
  cbn [map]. intros H. injection H as <- _.
  destruct (filter_desc_head _ _ _ _ F) as (H1 & H2 & H3).
  exists k. repeat split; [lia | exact H2 | intros j Hj; apply H3; lia].
Qed.

Lemma members_peeled b d r : members b = d :: r -> members (N.lxor b d) = r.
Proof.
  rewrite !members_desc. destruct (List.filter (N.testbit b) (desc 52)) as [|k ks] eqn:F; [discriminate|].
  cbn [map]. intros H. injection H as <- <-. f_equal.
  destruct (filter_desc_head _ _ _ _ F) as (_ & Hb & _).
  apply (filter_remove_head (N.testbit b) _ (desc 52) k ks (NoDup_desc 52) F).
  - now rewrite N.lxor_spec, Hb, N.pow2_bits_true.
  - intros x Hx. rewrite N.lxor_spec, N.pow2_bits_false by congruence. apply xorb_false_r.
Qed.

Lemma members_low b : members (N.land b BC_ALL) = members b.
Proof.
  rewrite !members_desc. f_equal. apply filter_ext_in. intros k Hk. apply In_desc in Hk.
  rewrite N.land_spec, testbit_ALL. assert (E : k <? 52 = true) by (apply N.ltb_lt; lia).
  rewrite E. apply andb_true_r.
Qed.

Lemma members_sorted b : exists ks, members b = map (N.pow 2) ks /\ ks = List.filter (N.testbit b) (desc 52).
Proof. eexists. split; [apply members_desc | reflexivity]. Qed.

(* ---- peel ---------------------------------------------------------------------------------- *)
Lemma peel_scan_pow2 ks b :
  peel_scan (map (N.pow 2) ks) b =
  match List.filter (N.testbit b) ks with [] => (0, b) | k :: _ => (2 ^ k, N.lxor b (2 ^ k)) end.
Proof.
  induction ks as [|a ks IH]; cbn [map peel_scan List.filter]; [reflexivity|].
  rewrite land_pow2_testbit. destruct (N.testbit b a); [reflexivity | exact IH].
Qed.

Lemma peel_members b :
  peel b = match members b with [] => (0, b) | d :: _ => (d, N.lxor b d) end.
Proof.
  unfold peel. rewrite BC_DECK_desc, peel_scan_pow2, members_desc.
  destruct (List.filter (N.testbit b) (desc 52)); reflexivity.
Qed.

Lemma peel_ok b :
  match members b with
  | [] => peel b = (0, b)
  | d :: _ =>
      peel b = (d, N.ldiff b d) /\ N.ldiff b d = N.lxor b d /\
      exists k, k < 52 /\ d = 2 ^ k /\ N.testbit b k = true /\
                (forall j, k < j < 52 -> N.testbit b j = false) /\
                (forall i, N.testbit (N.ldiff b d) i = N.testbit b i && negb (i =? k))
  end.
Proof.
  rewrite peel_members. destruct (members b) as [|d r] eqn:M; [reflexivity|].
  destruct (members_head _ _ _ M) as (k & Hk & -> & Hb & Hhi).
  rewrite (lxor_clear _ _ Hb). repeat split.
  exists k. repeat split; try assumption. intros i. apply testbit_clear.
Qed.

Lemma peel_n_empty m b : members b = [] -> peel_n m b = (repeat 0 m, b).
Proof.
  intros H. induction m as [|m IH]; cbn [peel_n repeat]; [reflexivity|].
  now rewrite peel_members, H, IH.
Qed.

Lemma ldiff_ALL_none b : members b = [] -> N.ldiff b BC_ALL = b.
Proof.
  intros H. apply N.bits_inj. intros i. rewrite N.ldiff_spec, testbit_ALL.
  destruct (i <? 52) eqn:E; [|apply andb_true_r].
  apply N.ltb_lt in E. rewrite (proj1 (members_nil_iff b) H i E). reflexivity.
Qed.

Lemma ldiff_ALL_peeled b d r : members b = d :: r -> N.ldiff (N.lxor b d) BC_ALL = N.ldiff b BC_ALL.
Proof.
  intros M. destruct (members_head _ _ _ M) as (k & Hk & -> & _).
  apply N.bits_inj. intros i. rewrite !N.ldiff_spec, N.lxor_spec, testbit_ALL, N.pow2_bits_eqb.
  destruct (k =? i) eqn:E.
  - apply N.eqb_eq in E. subst i. assert (E2 : k <? 52 = true) by (apply N.ltb_lt; exact Hk).
    rewrite E2. cbn [negb]. now rewrite !andb_false_r.
  - now rewrite xorb_false_r.
Qed.

Lemma peel_all_gen l : forall b m,
  members b = l -> peel_n (length l + m) b = (l ++ repeat 0 m, N.ldiff b BC_ALL).
Proof.
  induction l as [|d l IH]; intros b m M; cbn [length app Nat.add].
  - rewrite (peel_n_empty _ _ M). now rewrite (ldiff_ALL_none _ M).
  - cbn [peel_n]. rewrite peel_members, M.
    rewrite (IH (N.lxor b d) m (members_peeled _ _ _ M)).
    now rewrite (ldiff_ALL_peeled _ _ _ M).
Qed.

Lemma members_ldiff_ALL b : members (N.ldiff b BC_ALL) = [].
Proof.
  apply members_nil_iff. intros k Hk. rewrite N.ldiff_spec, testbit_ALL.
  assert (E : k <? 52 = true) by (apply N.ltb_lt; exact Hk). rewrite E. apply andb_false_r.
Qed.

