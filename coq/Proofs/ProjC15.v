(* The `bcsetp` projection (Model/Proj.v) is constant on ALL lists of words: by C15's lemmas on the set built from a
   hand (bits, bound, members), on the count, the membership test, validity, and on peeling to exhaustion. *)
From CKC Require Import Base.Prelude Base.Reflect Spec.Layout.
From CKC Require Import Model.Card Model.Deck Model.Binary Model.Proj.
From CKC Require Import Proofs.CardBase Proofs.BcCards Proofs.C14 Proofs.C15.
Open Scope N_scope.

(* the deck as read through Deck::get is the specification's deck (closed computation over the 52 entries) *)
Lemma DECK52_spec : DECK52 = SPEC_DECK.
Proof. vm_compute. reflexivity. Qed.

Lemma peel_words_peel_n n : forall x,
  peel_words n x = (map from_binary_card (fst (peel_n n x)), snd (peel_n n x)).
Proof.
  induction n as [|n IH]; intros x; cbn [peel_words peel_n]; [reflexivity|].
  destruct (peel x) as [r x1]. rewrite (IH x1). destruct (peel_n n x1) as [cs b2]. reflexivity.
Qed.

Lemma members_nil_zero b : b < 2 ^ 52 -> (members b = [] <-> b = 0).
Proof.
  intros Hb. destruct count_ok as (_ & _ & _ & C & _). specialize (C b Hb). unfold number_of_cards in C.
  rewrite <- (popcount_zero_iff b), C. split.
  - intros ->. reflexivity.
  - intros E. destruct (members b); [reflexivity | discriminate E].
Qed.

Lemma proj_bcsetp_const ws : proj_bcsetp ws = [true; true; true; true; true].
Proof.
  unfold proj_bcsetp. cbv zeta. unfold bcset_members. rewrite DECK52_spec, <- (from_hand_members ws).
  set (bc := bc_from_hand ws). pose proof (from_hand_lt ws) as Hlt. fold bc in Hlt.
  (* count *)
  assert (A : (number_of_cards bc =? lenN (map from_binary_card (members bc))) = true).
  { apply N.eqb_eq. unfold lenN. rewrite map_length. destruct count_ok as (_ & _ & _ & C & _). exact (C bc Hlt). }
  (* membership *)
  assert (B : forallb (fun cd => has bc (from_ckc cd)) (map from_binary_card (members bc)) = true).
  { apply forallb_forall. intros cd Hcd. unfold bc in Hcd. rewrite (from_hand_members ws) in Hcd.
    apply filter_In in Hcd. destruct Hcd as [Hd Hm]. apply memN_In in Hm.
    apply RealCard_iff in Hd. destruct (RealCard_nth cd Hd) as (i & Hi & ->).
    rewrite (from_ckc_deck i Hi), has_card. apply (from_hand_testbit ws i Hi), Hm. }
  (* no overflow bit *)
  assert (C : (N.shiftr bc 52 =? 0) = true).
  { apply N.eqb_eq. rewrite N.shiftr_div_pow2. apply N.div_small, Hlt. }
  (* peel *)
  assert (D : bcset_peel_ok bc (map from_binary_card (members bc)) = true).
  { pose proof (peel_all_ok bc) as P. cbv zeta in P. destruct P as (_ & P1 & P2 & _ & _ & P3).
    specialize (P3 Hlt). rewrite P3 in P1, P2. specialize (P2 1%nat). cbn [peel_n repeat] in P2.
    unfold bcset_peel_ok. rewrite map_length, peel_words_peel_n, P1. cbn [fst snd].
    destruct (peel 0) as [last x']. injection P2 as -> ->.
    rewrite (proj2 (list_eqb_eq _ _) eq_refl). reflexivity. }
  (* validity *)
  assert (E : Bool.eqb (bc_is_valid bc) (negb (is_nil (map from_binary_card (members bc)))) = true).
  { assert (Hv : bc_is_valid bc = true <-> bc <> 0 /\ bc < 2 ^ 52).
    { apply valid_ok. eapply N.lt_trans; [exact Hlt | reflexivity]. }
    pose proof (members_nil_zero bc Hlt) as Hz.
    destruct (members bc) as [|d r] eqn:Em; cbn [map is_nil negb].
    - destruct (bc_is_valid bc); [|reflexivity]. exfalso. apply (proj1 (proj1 Hv eq_refl)), Hz. reflexivity.
    - rewrite (proj2 Hv); [reflexivity|]. split; [|exact Hlt]. intros E0. apply Hz in E0. discriminate E0. }
  rewrite A, B, C, D, E. reflexivity.
Qed.
