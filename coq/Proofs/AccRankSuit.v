(* Rank / suit accessors on the 52 cards (sweeps of the regenerated field graphs). *)
From Coq Require Import String.
From CKC Require Import Base.Prelude Base.Reflect Spec.Layout Model.Card.
From CKC Require Import Gen.Consts Gen.Enums Gen.Maps Gen.Scan Gen.Decks.
From CKC Require Import Proofs.CardBase.
Open Scope N_scope.

Lemma acc_rank_suit r s : r < 13 -> s < 4 -> let w := layout r s in get_card_rank w = rank_variant r /\ get_card_suit w = suit_variant s /\ rank_discr (rank_variant r) = r + 2 /\ suit_signature (suit_variant s) = 2 ^ (12 + s).
Proof.
  intros Hr Hs w. subst w.
  pose proof (sweep_rs (fun r s => let w := layout r s in (get_card_rank w =? rank_variant r) && (get_card_suit w =? suit_variant s) && (rank_discr (rank_variant r) =? r + 2) && (suit_signature (suit_variant s) =? 2 ^ (12 + s))) ltac:(vm_compute; reflexivity) r s Hr Hs) as H.
  cbv zeta in H. rewrite ?andb_true_iff, ?N.eqb_eq, ?negb_true_iff in H. cbv zeta. tauto.
Qed.
