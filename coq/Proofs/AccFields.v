(* Mask-and-shift field accessors on the 52 cards. *)
From Coq Require Import String.
From CKC Require Import Base.Prelude Base.Reflect Spec.Layout Model.Card.
From CKC Require Import Gen.Consts Gen.Enums Gen.Maps Gen.Scan Gen.Decks.
From CKC Require Import Proofs.CardBase.
Open Scope N_scope.

Lemma acc_fields r s : r < 13 -> s < 4 -> let w := layout r s in get_rank_prime w = prime_of r /\ get_rank_bit w = 2 ^ r /\ get_rank_flag w = 2 ^ (16 + r) /\ get_suit_bit w = 2 ^ s /\ get_suit_flag w = 2 ^ (12 + s) /\ is_blank w = false.
Proof.
  intros Hr Hs w. subst w.
  pose proof (sweep_rs (fun r s => let w := layout r s in (get_rank_prime w =? prime_of r) && (get_rank_bit w =? 2 ^ r) && (get_rank_flag w =? 2 ^ (16 + r)) && (get_suit_bit w =? 2 ^ s) && (get_suit_flag w =? 2 ^ (12 + s)) && negb (is_blank w)) ltac:(vm_compute; reflexivity) r s Hr Hs) as H.
  cbv zeta in H. rewrite ?andb_true_iff, ?N.eqb_eq, ?negb_true_iff in H. cbv zeta. tauto.
Qed.
