(* C13 — flush / straight / wheel predicates agree with the hand's actual category. *)
From Coq Require Import Sorting.Permutation.
From CKC Require Import Base.Prelude Base.Reflect Base.SortN Spec.Layout Spec.Poker.
From CKC Require Import Model.Card Model.Hands Model.Five.
From CKC Require Import Proofs.CardBase Proofs.SortFacts Proofs.BitFacts Proofs.FiveFacts Proofs.PokerFacts
  Proofs.RankedFacts Proofs.ShapeFacts Proofs.HandFacts.
From CKC Require Import Gen.Consts.
Open Scope N_scope.

(* the straight test of the code as a function of the OR-ed rank bits *)
Definition straight_bits (b : N) : bool :=
  ((trailing_zeros 32 b + leading_zeros 32 b =? FIVE_STRAIGHT_PADDING) && (popcount b =? 5))
  || (b =? FIVE_WHEEL_OR_BITS).

Lemma is_straight_bits ws : is_straight ws = straight_bits (or_rank_bits ws).
Proof. reflexivity. Qed.

Lemma is_wheel_ranks_perm rs rs' : Permutation rs rs' -> is_wheel_ranks rs = is_wheel_ranks rs'.
Proof. intros H. unfold is_wheel_ranks. now rewrite (ranks_with_perm _ _ _ H). Qed.

Lemma is_straight_ranks_perm rs rs' : Permutation rs rs' -> is_straight_ranks rs = is_straight_ranks rs'.
Proof. intros H. unfold is_straight_ranks. now rewrite (straight_top_perm _ _ H). Qed.

Lemma rank_or_perm rs rs' : Permutation rs rs' -> rank_or rs = rank_or rs'.
Proof. intros H. unfold rank_or. apply fold_lor_perm, Permutation_map, H. Qed.

(* THE REFLECTION: on each of the 6 188 rank multisets the bit tests decide the rules of poker *)
Definition bits_ok (rs : list N) : bool :=
  Bool.eqb (straight_bits (rank_or rs)) (is_straight_ranks rs)
  && Bool.eqb (rank_or rs =? FIVE_WHEEL_OR_BITS) (is_wheel_ranks rs).

Lemma bits_ok_sweep : forallb bits_ok (multisets RANKS_DESC 5) = true.
Proof. vm_cast_no_check (eq_refl true). Qed.

Lemma multisets_count : N.of_nat (length (multisets RANKS_DESC 5)) = 6188.
Proof. vm_compute. reflexivity. Qed.

Lemma bits_ok_all rs :
  length rs = 5%nat -> Forall (fun r => r < 13) rs -> bits_ok rs = true.
Proof.
  intros HL HB.
  pose proof (sort_desc_perm rs) as HP.
  assert (Hin : In (sort_desc rs) (multisets RANKS_DESC 5)).
  { rewrite <- HL, <- (sort_desc_length rs). apply multisets_complete.
    - exact RANKS_DESC_sorted.
    - apply sort_desc_sorted.
    - rewrite Forall_forall in *. intros x Hx. apply lt13_In_RANKS_DESC, HB.
      apply (proj1 (sort_desc_In x rs)), Hx. }
  pose proof bits_ok_sweep as HS. rewrite forallb_forall in HS. specialize (HS _ Hin).
  unfold bits_ok in *.
  rewrite (rank_or_perm _ _ (Permutation_sym HP)).
  rewrite (is_straight_ranks_perm _ _ (Permutation_sym HP)).
  rewrite (is_wheel_ranks_perm _ _ (Permutation_sym HP)). exact HS.
Qed.

Definition Real5 (ws : list N) : Prop := length ws = 5%nat /\ Forall RealCard ws.

Lemma ranks_small ws : Forall RealCard ws -> Forall (fun r => r < 13) (map rank_of_word ws).
Proof.
  intros H. apply Forall_forall. intros r Hr. apply in_map_iff in Hr. destruct Hr as [w [<- Hw]].
  rewrite Forall_forall in H. pose proof (real_card_fields w (H w Hw)) as F. cbv zeta in F. tauto.
Qed.

(* the four predicates, for ANY five real cards in any slot order (repetition allowed) *)
Lemma predicates_ok ws :
  Real5 ws ->
  let rs := map rank_of_word ws in
  let same_suit := all_same (map suit_of_word ws) in
  is_flush ws = same_suit /\
  is_straight ws = is_straight_ranks rs /\
  is_straight_flush ws = is_straight_ranks rs && same_suit /\
  is_wheel ws = is_wheel_ranks rs.
Proof.
  intros [HL HR] rs same_suit.
  assert (Hne : ws <> []) by (intros ->; discriminate).
  pose proof (is_flush_abs ws Hne HR) as HF. fold same_suit in HF.
  pose proof (bits_ok_all rs ltac:(unfold rs; now rewrite map_length) (ranks_small ws HR)) as HB.
  unfold bits_ok in HB. apply andb_true_iff in HB. destruct HB as [H1 H2].
  apply Bool.eqb_prop in H1. apply Bool.eqb_prop in H2.
  pose proof (or_rank_bits_abs ws HR) as HO. fold rs in HO.
  assert (HS : is_straight ws = is_straight_ranks rs) by (rewrite is_straight_bits, HO; exact H1).
  repeat split.
  - exact HF.
  - exact HS.
  - unfold is_straight_flush. now rewrite HS, HF.
  - unfold is_wheel. rewrite HO. exact H2.
Qed.

(* readable meaning of the rank-side specs *)
Lemma is_straight_ranks_meaning rs :
  is_straight_ranks rs = true <->
  all_distinct rs = true /\
  (ranks_with 1 rs = WHEEL \/ hd 0 (ranks_with 1 rs) - last (ranks_with 1 rs) 0 = 4).
Proof.
  unfold is_straight_ranks, straight_top.
  destruct (all_distinct rs); [|split; [discriminate | intros [H _]; discriminate]].
  unfold is_wheel_ranks. destruct (list_eqb (ranks_with 1 rs) WHEEL) eqn:E.
  - apply list_eqb_eq in E. split; auto.
  - destruct (N.eqb_spec (hd 0 (ranks_with 1 rs) - last (ranks_with 1 rs) 0) 4) as [H4|H4].
    + split; auto.
    + split; [discriminate|]. intros [_ [H|H]]; [|contradiction].
      apply list_eqb_eq in H. congruence.
Qed.

(* agreement with the category of the hand (distinct cards) *)
Definition cat_ok (h : shape) : bool :=
  let '(rs, fl) := h in
  let c := category h in
  Bool.eqb fl ((c =? FLUSH) || (c =? STRAIGHT_FLUSH))
  && Bool.eqb (is_straight_ranks rs) ((c =? STRAIGHT) || (c =? STRAIGHT_FLUSH))
  && Bool.eqb (is_straight_ranks rs && fl) (c =? STRAIGHT_FLUSH).

Lemma cat_ok_sweep : forallb cat_ok all_shapes = true.
Proof. vm_cast_no_check (eq_refl true). Qed.

Lemma category_ok ws :
  Hand5 ws ->
  let c := category (shape_of ws) in
  (is_flush ws = true <-> c = FLUSH \/ c = STRAIGHT_FLUSH) /\
  (is_straight ws = true <-> c = STRAIGHT \/ c = STRAIGHT_FLUSH) /\
  (is_straight_flush ws = true <-> c = STRAIGHT_FLUSH).
Proof.
  intros (HL & HR & HN) c.
  destruct (predicates_ok ws (conj HL HR)) as (P1 & P2 & P3 & _).
  pose proof (shape_valid ws HL HR HN) as HV. unfold shape_of in *.
  set (rs := map rank_of_word ws) in *. set (fl := all_same (map suit_of_word ws)) in *.
  pose proof (canon_in_all_shapes rs fl HV) as Hin.
  pose proof cat_ok_sweep as HS. rewrite forallb_forall in HS. specialize (HS _ Hin).
  unfold cat_ok in HS.
  pose proof (sort_desc_perm rs) as HP.
  rewrite (category_perm _ _ fl HP) in HS. rewrite (is_straight_ranks_perm _ _ HP) in HS.
  fold c in HS. rewrite !andb_true_iff in HS. destruct HS as [[H1 H2] H3].
  apply Bool.eqb_prop in H1. apply Bool.eqb_prop in H2. apply Bool.eqb_prop in H3.
  rewrite P3, H3, P2, H2, P1, H1. rewrite !orb_true_iff, !N.eqb_eq. tauto.
Qed.

(* ---- historical: the predicate of the pinned tree BEFORE the repair (fix: commit 85d6770) ------------ *)
Definition is_straight_unrepaired (ws : list N) : bool :=
  let rank_bits := or_rank_bits ws in
  (trailing_zeros 32 rank_bits + leading_zeros 32 rank_bits =? FIVE_STRAIGHT_PADDING)
  || (rank_bits =? FIVE_WHEEL_OR_BITS).

(* As Ks Qs Ts Ah: a pair of aces whose ranks span five places was reported as a straight *)
Lemma unrepaired_refuted :
  let ws := [layout 12 3; layout 11 3; layout 10 3; layout 8 3; layout 12 2] in
  Hand5 ws /\ is_straight_unrepaired ws = true /\ is_straight_ranks (map rank_of_word ws) = false /\
  is_straight ws = false.
Proof.
  cbv zeta. split; [|repeat split; vm_compute; reflexivity].
  repeat split; [| apply nodupb_NoDup; vm_compute; reflexivity].
  apply Forall_forall. intros w Hw. apply real_cardb_spec.
  cbn [In] in Hw. repeat (destruct Hw as [<-|Hw]; [vm_compute; reflexivity|]). contradiction.
Qed.
