(* C09 — more cards never weaken a hand. The generic table lemmas at [val := model_val chk] (whatever
   value the tables give, as long as it is never 0 on five distinct real cards: Proofs/NonZero.v),
   with complete slot tables. Independent of WHICH values the lookup tables hold. *)
From CKC Require Import Base.Prelude Spec.Layout.
From CKC Require Import Model.Card Model.Hands Model.Five.
From CKC Require Import Proofs.CombFacts Proofs.HandFacts Proofs.NonZero Proofs.GenericTable Proofs.TablesComplete.
Open Scope N_scope.

Lemma model_ranks chk : ranks_with chk (model_val chk).
Proof. intros c H. apply hrv5_nonzero, H. Qed.

Lemma chain_now chk ws7 s6 s5 :
  HandN 7 ws7 -> length s6 = 6%nat -> NoDup s6 -> incl s6 ws7 ->
  length s5 = 5%nat -> NoDup s5 -> incl s5 s6 ->
  exists v7 v6 v5,
    hand_rank_value chk ws7 = Ok v7 /\ hand_rank_value chk s6 = Ok v6 /\ hand_rank_value chk s5 = Ok v5 /\
    v7 <= v6 /\ v6 <= v5.
Proof. apply (chain_ok chk (model_val chk) ws7 s6 s5 (model_ranks chk) tables_complete_now). Qed.

(* any m cards (5 <= m <= n <= 7) taken from the hand, in any order, rank no better than the whole hand *)
Lemma monotone_now chk n m ws s :
  (n = 5 \/ n = 6 \/ n = 7)%nat -> (m = 5 \/ m = 6 \/ m = 7)%nat ->
  HandN n ws -> length s = m -> NoDup s -> incl s ws ->
  exists v w, hand_rank_value chk ws = Ok v /\ hand_rank_value chk s = Ok w /\ v <= w.
Proof.
  intros Hn Hm H HL HN HI.
  assert (HS : HandN m s).
  { destruct H as (_ & R & _). repeat split; try assumption. apply Forall_forall. intros x Hx.
    rewrite Forall_forall in R. apply R, HI, Hx. }
  exists (best_value (model_val chk) ws), (best_value (model_val chk) s). repeat split.
  - exact (proj1 (value_n_ok chk _ n ws (model_ranks chk) tables_complete_now Hn H)).
  - exact (proj1 (value_n_ok chk _ m s (model_ranks chk) tables_complete_now Hm HS)).
  - apply (monotone_ok chk _ n m ws s (model_ranks chk) ltac:(lia) H HL HN HI).
Qed.

(* the value of six / seven cards equals the value of one of the sub-hands with one card fewer *)
Lemma min_now chk n ws :
  (n = 6 \/ n = 7)%nat -> HandN n ws ->
  exists s v, Subseq s ws /\ length s = pred n /\ hand_rank_value chk ws = Ok v /\ hand_rank_value chk s = Ok v.
Proof. apply (min_attained chk (model_val chk) n ws (model_ranks chk) tables_complete_now). Qed.
