(* C07 — hand ranks form a lawful total order in which stronger hands are greater.
   [hr_cmp] of Model/HandRank.v is the REPAIRED comparison: two invalid ranks are ordered by value
   (reversed, like valid ones) instead of all comparing Equal. *)
From Coq Require Import String.
From CKC Require Import Base.Prelude Base.Reflect.
From CKC Require Import Gen.Enums Gen.HandRankMaps.
From CKC Require Import Model.HandRank Proofs.C06.
Open Scope N_scope.

(* ---- the integer key -------------------------------------------------------------------------- *)
(* invalid ranks: 65535 - v, in [0, 65535]; valid ranks: 65536 + (65536 - v), above 65536; both
   decreasing in v, as the comparison is *)
Definition key (v : N) : N :=
  if is_invalid (hr_from v) then 65535 - v else 65536 + (65536 - v).

Lemma cmp_key a b :
  a < 65536 -> b < 65536 -> hr_cmp (hr_from a) (hr_from b) = N.compare (key a) (key b).
Proof.
  intros Ha Hb. unfold hr_cmp, key, cmp_N.
  change (hr_value (hr_from a)) with a. change (hr_value (hr_from b)) with b.
  destruct (is_invalid (hr_from a)), (is_invalid (hr_from b)); cbn [andb].
  - destruct (N.compare_spec b a), (N.compare_spec (65535 - a) (65535 - b)); try reflexivity; lia.
  - symmetry. apply N.compare_lt_iff. lia.
  - symmetry. apply N.compare_gt_iff. lia.
  - destruct (N.ltb_spec a b); [symmetry; apply N.compare_gt_iff; lia|].
    destruct (N.ltb_spec b a); [symmetry; apply N.compare_lt_iff; lia|].
    symmetry. apply N.compare_eq_iff. lia.
Qed.

Lemma key_inj a b : a < 65536 -> b < 65536 -> key a = key b -> a = b.
Proof.
  intros Ha Hb. unfold key.
  destruct (is_invalid (hr_from a)), (is_invalid (hr_from b)); lia.
Qed.

Lemma key_ok :
  (forall a b, a < 65536 -> b < 65536 ->
     hr_cmp (hr_from a) (hr_from b) = N.compare (key a) (key b)) /\
  (forall a b, a < 65536 -> b < 65536 -> key a = key b -> a = b) /\
  (forall v, v < 65536 ->
     key v = if (v =? 0) || (7462 <? v) then 65535 - v else 65536 + (65536 - v)).
Proof.
  split; [exact cmp_key|]. split; [exact key_inj|].
  intros v Hv. unfold key.
  pose proof (proj1 (proj2 (proj2 (proj2 (proj2 (proj2 consistent_ok))))) v Hv) as HI.
  destruct (is_invalid (hr_from v)).
  - destruct (proj1 HI eq_refl) as [->|H]; [reflexivity|].
    apply N.ltb_lt in H. rewrite H, orb_true_r. reflexivity.
  - destruct (N.eqb_spec v 0) as [E|E]; [exfalso; assert (false = true) by (apply HI; now left); discriminate|].
    destruct (N.ltb_spec 7462 v) as [L|L]; [exfalso; assert (false = true) by (apply HI; now right); discriminate|].
    reflexivity.
Qed.

(* ---- the laws ----------------------------------------------------------------------------------- *)
Definition R (a b : N) : comparison := hr_cmp (hr_from a) (hr_from b).

Lemma cmp_refl a : a < 65536 -> R a a = Eq.
Proof. intros Ha. unfold R. rewrite cmp_key by assumption. apply N.compare_refl. Qed.

Lemma cmp_antisym a b : a < 65536 -> b < 65536 -> R b a = CompOpp (R a b).
Proof. intros Ha Hb. unfold R. rewrite !cmp_key by assumption. apply N.compare_antisym. Qed.

Lemma cmp_eq_iff a b : a < 65536 -> b < 65536 -> (R a b = Eq <-> a = b).
Proof.
  intros Ha Hb. unfold R. rewrite cmp_key by assumption. rewrite N.compare_eq_iff. split.
  - apply key_inj; assumption.
  - intros ->. reflexivity.
Qed.

Lemma cmp_trans a b c :
  a < 65536 -> b < 65536 -> c < 65536 ->
  (R a b = Lt -> R b c = Lt -> R a c = Lt) /\
  (R a b = Gt -> R b c = Gt -> R a c = Gt) /\
  (R a b = Eq -> R a c = R b c) /\
  (R b c = Eq -> R a c = R a b) /\
  (R a b <> Gt -> R b c <> Gt -> R a c <> Gt) /\
  (R a b <> Lt -> R b c <> Lt -> R a c <> Lt).
Proof.
  intros Ha Hb Hc.
  split; [|split; [|split; [|split; [|split]]]].
  - unfold R. rewrite !cmp_key by assumption. rewrite !N.compare_lt_iff. lia.
  - unfold R. rewrite !cmp_key by assumption. rewrite !N.compare_gt_iff. lia.
  - intros E. apply cmp_eq_iff in E; [|assumption|assumption]. now subst.
  - intros E. apply cmp_eq_iff in E; [|assumption|assumption]. now subst.
  - unfold R. rewrite !cmp_key by assumption. rewrite !N.compare_le_iff. lia.
  - unfold R. rewrite !cmp_key by assumption. rewrite !N.compare_ge_iff. lia.
Qed.

Lemma cmp_total a b :
  a < 65536 -> b < 65536 ->
  (hr_le (hr_from a) (hr_from b) = true \/ hr_le (hr_from b) (hr_from a) = true) /\
  (R a b = Lt /\ R b a = Gt \/ R a b = Eq /\ R b a = Eq /\ a = b \/ R a b = Gt /\ R b a = Lt).
Proof.
  intros Ha Hb. pose proof (cmp_antisym a b Ha Hb) as HA. pose proof (cmp_eq_iff a b Ha Hb) as HE.
  unfold hr_le. fold (R a b). fold (R b a). rewrite HA.
  destruct (R a b); cbn [CompOpp]; split; auto.
  right. left. repeat split. now apply HE.
Qed.

(* equality: compare-equal, ==, structural equality and equality of values coincide *)
Lemma eq_ok a b :
  a < 65536 -> b < 65536 ->
  (R a b = Eq <-> hr_eqb (hr_from a) (hr_from b) = true) /\
  (hr_eqb (hr_from a) (hr_from b) = true <-> hr_from a = hr_from b) /\
  (hr_from a = hr_from b <-> a = b).
Proof.
  intros Ha Hb.
  assert (H3 : hr_from a = hr_from b <-> a = b).
  { split; [intros E; exact (f_equal hr_value E) | intros ->; reflexivity]. }
  split; [|split; [apply hr_eqb_eq | exact H3]].
  rewrite hr_eqb_eq, H3. apply cmp_eq_iff; assumption.
Qed.

(* the four operators are the trait defaults over the comparison *)
Lemma ops_ok x y :
  (hr_lt x y = true <-> hr_cmp x y = Lt) /\ (hr_le x y = true <-> hr_cmp x y <> Gt) /\
  (hr_gt x y = true <-> hr_cmp x y = Gt) /\ (hr_ge x y = true <-> hr_cmp x y <> Lt).
Proof.
  unfold hr_lt, hr_le, hr_gt, hr_ge. destruct (hr_cmp x y); repeat split; congruence.
Qed.

Lemma ops_key a b :
  a < 65536 -> b < 65536 ->
  hr_lt (hr_from a) (hr_from b) = (key a <? key b) /\ hr_le (hr_from a) (hr_from b) = (key a <=? key b) /\
  hr_gt (hr_from a) (hr_from b) = (key b <? key a) /\ hr_ge (hr_from a) (hr_from b) = (key b <=? key a).
Proof.
  intros Ha Hb. unfold hr_lt, hr_le, hr_gt, hr_ge. rewrite (cmp_key a b Ha Hb).
  unfold N.ltb, N.leb. rewrite (N.compare_antisym (key a) (key b)).
  destruct (key a ?= key b); repeat split; reflexivity.
Qed.

(* validity, numerically *)
Lemma invalid_iff v : v < 65536 -> (is_invalid (hr_from v) = true <-> (v = 0 \/ 7462 < v)).
Proof. exact (proj1 (proj2 (proj2 (proj2 (proj2 (proj2 consistent_ok))))) v). Qed.

Lemma valid_false v : 1 <= v -> v <= 7462 -> is_invalid (hr_from v) = false.
Proof.
  intros H1 H2. destruct (is_invalid (hr_from v)) eqn:E; [|reflexivity].
  apply invalid_iff in E; lia.
Qed.

Lemma invalid_true v : v < 65536 -> v = 0 \/ 7462 < v -> is_invalid (hr_from v) = true.
Proof. intros Hv H. apply invalid_iff; assumption. Qed.

Lemma order_ok :
  (* a valid rank with a lower value (a stronger hand) compares greater *)
  (forall a b, 1 <= a -> a < b -> b <= 7462 -> R a b = Gt /\ R b a = Lt) /\
  (* every invalid rank compares below every valid one *)
  (forall a b, a < 65536 -> (a = 0 \/ 7462 < a) -> 1 <= b -> b <= 7462 -> R a b = Lt /\ R b a = Gt) /\
  (* (repair) two invalid ranks are ordered by value, reversed like the valid ones *)
  (forall a b, a < 65536 -> b < 65536 -> (a = 0 \/ 7462 < a) -> (b = 0 \/ 7462 < b) ->
     R a b = N.compare b a).
Proof.
  split; [|split].
  - intros a b H1 H2 H3. unfold R, hr_cmp.
    rewrite (valid_false a), (valid_false b) by lia. cbn [andb].
    change (hr_value (hr_from a)) with a. change (hr_value (hr_from b)) with b.
    rewrite (proj2 (N.ltb_lt a b) H2), (proj2 (N.ltb_ge b a)) by lia. split; reflexivity.
  - intros a b Ha Hi H1 H2. unfold R, hr_cmp.
    rewrite (invalid_true a Ha Hi), (valid_false b H1 H2). split; reflexivity.
  - intros a b Ha Hb HA HB. unfold R, hr_cmp.
    rewrite (invalid_true a Ha HA), (invalid_true b Hb HB). reflexivity.
Qed.

(* ---- the two enumerations ------------------------------------------------------------------------ *)
Definition adj_ok (v : N) : bool :=
  (name_pos (determine_name v) <=? name_pos (determine_name (v + 1)))
  && (class_pos (determine_class v) <=? class_pos (determine_class (v + 1))).

Lemma adj_all : forallb (fun i => adj_ok (i + 1)) (N_range 7461) = true.
Proof. vm_cast_no_check (eq_refl true). Qed.

Lemma adj_step v : 1 <= v -> v < 7462 -> adj_ok v = true.
Proof.
  intros H1 H2. pose proof (forallb_N_range _ _ adj_all (v - 1) ltac:(lia)) as H. cbv beta in H.
  replace (v - 1 + 1) with v in H by lia. exact H.
Qed.

Lemma enums_mono_nat (n : nat) v :
  1 <= v -> v + N.of_nat n <= 7462 ->
  name_pos (determine_name v) <= name_pos (determine_name (v + N.of_nat n)) /\
  class_pos (determine_class v) <= class_pos (determine_class (v + N.of_nat n)).
Proof.
  induction n as [|n IH]; intros H1 H2.
  - rewrite N.add_0_r. split; apply N.le_refl.
  - destruct IH as [I1 I2]; [assumption | lia |].
    pose proof (adj_step (v + N.of_nat n) ltac:(lia) ltac:(lia)) as HA. unfold adj_ok in HA.
    apply andb_true_iff in HA. rewrite !N.leb_le in HA. destruct HA as [A1 A2].
    replace (v + N.of_nat (S n)) with (v + N.of_nat n + 1) by lia. split; lia.
Qed.

Lemma enums_mono v w :
  1 <= v -> v < w -> w <= 7462 ->
  name_pos (determine_name v) <= name_pos (determine_name w) /\
  class_pos (determine_class v) <= class_pos (determine_class w).
Proof.
  intros H1 H2 H3. pose proof (enums_mono_nat (N.to_nat (w - v)) v H1) as H.
  rewrite N2Nat.id in H. replace (v + (w - v)) with w in H by lia. apply H. lia.
Qed.

(* positions: a permutation of 0..n-1, Invalid last *)
Definition pos_ok (pos : N -> N) (n inv : N) : Prop :=
  (forall x, x < n -> pos x < n) /\
  (forall x y, x < n -> y < n -> pos x = pos y -> x = y) /\
  (forall x, x < n -> x <> inv -> pos x < pos inv) /\ inv < n.

Lemma name_pos_ok : pos_ok name_pos (lenN HandRankName_NAMES) NAME_INVALID.
Proof.
  unfold pos_ok. split; [|split; [|split]].
  - intros x Hx. apply N.ltb_lt.
    exact (forallb_N_range (fun x => name_pos x <? lenN HandRankName_NAMES) (lenN HandRankName_NAMES)
             ltac:(vm_compute; reflexivity) x Hx).
  - intros x y Hx Hy E.
    pose proof (forallb_N_range2 (fun x y => (x =? y) || negb (name_pos x =? name_pos y))
                  (lenN HandRankName_NAMES) (lenN HandRankName_NAMES)
                  ltac:(vm_compute; reflexivity) x y Hx Hy) as H. cbv beta in H.
    apply orb_true_iff in H. destruct H as [H|H]; [now apply N.eqb_eq|].
    apply negb_true_iff, N.eqb_neq in H. contradiction.
  - intros x Hx Hne.
    pose proof (forallb_N_range (fun x => (x =? NAME_INVALID) || (name_pos x <? name_pos NAME_INVALID))
                  (lenN HandRankName_NAMES)
                  ltac:(vm_compute; reflexivity) x Hx) as H. cbv beta in H.
    apply orb_true_iff in H. destruct H as [H|H]; [apply N.eqb_eq in H; contradiction|].
    now apply N.ltb_lt.
  - vm_compute. reflexivity.
Qed.

Lemma class_pos_ok : pos_ok class_pos (lenN HandRankClass_NAMES) CLASS_INVALID.
Proof.
  unfold pos_ok. split; [|split; [|split]].
  - intros x Hx. apply N.ltb_lt.
    exact (forallb_N_range (fun x => class_pos x <? lenN HandRankClass_NAMES) (lenN HandRankClass_NAMES)
             ltac:(vm_compute; reflexivity) x Hx).
  - intros x y Hx Hy E.
    pose proof (forallb_N_range2 (fun x y => (x =? y) || negb (class_pos x =? class_pos y))
                  (lenN HandRankClass_NAMES) (lenN HandRankClass_NAMES)
                  ltac:(vm_compute; reflexivity) x y Hx Hy) as H. cbv beta in H.
    apply orb_true_iff in H. destruct H as [H|H]; [now apply N.eqb_eq|].
    apply negb_true_iff, N.eqb_neq in H. contradiction.
  - intros x Hx Hne.
    pose proof (forallb_N_range (fun x => (x =? CLASS_INVALID) || (class_pos x <? class_pos CLASS_INVALID))
                  (lenN HandRankClass_NAMES)
                  ltac:(vm_compute; reflexivity) x Hx) as H. cbv beta in H.
    apply orb_true_iff in H. destruct H as [H|H]; [apply N.eqb_eq in H; contradiction|].
    now apply N.ltb_lt.
  - vm_compute. reflexivity.
Qed.

Lemma enums_ok :
  (forall v w, 1 <= v -> v < w -> w <= 7462 ->
     name_pos (determine_name v) <= name_pos (determine_name w) /\
     class_pos (determine_class v) <= class_pos (determine_class w)) /\
  (forall v w, 1 <= v -> v <= 7462 -> w < 65536 -> (w = 0 \/ 7462 < w) ->
     name_pos (determine_name v) < name_pos (determine_name w) /\
     class_pos (determine_class v) < class_pos (determine_class w)) /\
  pos_ok name_pos (lenN HandRankName_NAMES) NAME_INVALID /\
  pos_ok class_pos (lenN HandRankClass_NAMES) CLASS_INVALID /\
  HandRankName_ORDER_CONSISTENT = 1 /\ HandRankClass_ORDER_CONSISTENT = 1 /\
  lenN HandRankName_ORDER = lenN HandRankName_NAMES /\
  lenN HandRankClass_ORDER = lenN HandRankClass_NAMES.
Proof.
  split; [exact enums_mono|]. split; [|repeat split; try exact name_pos_ok; try exact class_pos_ok;
                                        try apply name_pos_ok; try apply class_pos_ok; reflexivity].
  intros v w H1 H2 Hw HI.
  assert (Hv : v < 65536) by lia.
  destruct (invalid_ok w Hw) as [N1 C1]. destruct (invalid_ok v Hv) as [N2 C2].
  destruct (variants_in_range v Hv) as [V1 V2].
  rewrite (proj2 N1 HI), (proj2 C1 HI).
  destruct name_pos_ok as (_ & _ & PN & _). destruct class_pos_ok as (_ & _ & PC & _).
  split.
  - apply PN.
    + assert (E : lenN HandRankName_NAMES = NAME_INVALID + 1) by (vm_compute; reflexivity). lia.
    + intros E. apply N2 in E. lia.
  - apply PC.
    + assert (E : lenN HandRankClass_NAMES = CLASS_INVALID + 1) by (vm_compute; reflexivity). lia.
    + intros E. apply C2 in E. lia.
Qed.

(* ---- the comparison as it is written in src/hand_rank.rs BEFORE the repair ---------------------- *)
Definition hr_cmp_unrepaired (a b : hand_rank) : comparison :=
  if is_invalid a && is_invalid b then Eq
  else if is_invalid a then Lt
  else if is_invalid b then Gt
  else if hr_value a <? hr_value b then Gt
  else if hr_value b <? hr_value a then Lt
  else Eq.

Lemma unrepaired_refuted :
  hr_cmp_unrepaired (hr_from 0) (hr_from 7463) = Eq /\ hr_eqb (hr_from 0) (hr_from 7463) = false /\
  (forall a b, is_invalid a && is_invalid b = false -> hr_cmp_unrepaired a b = hr_cmp a b).
Proof.
  split; [vm_compute; reflexivity|]. split; [vm_compute; reflexivity|].
  intros a b H. unfold hr_cmp_unrepaired, hr_cmp. rewrite H. reflexivity.
Qed.
