(* Facts about the best-of loop of Six / Seven that do NOT depend on the CONTENTS of the lookup
   tables (only on their lengths, through the totality lemmas of Proofs/Total.v, and on the slot
   tables being well formed):
     - the reported hand is one of the selected candidates and its value is that candidate's value
       (C03: sorted witness re-ranking to the reported value);
     - two hands whose selected candidates rank alike rank alike (C08: suit relabelling).
   A change to a table cell therefore leaves these theorems standing. *)
From Coq Require Import Sorting.Permutation Sorting.Sorted.
From CKC Require Import Base.Prelude Base.Reflect Base.SortN Spec.Layout Spec.Poker.
From CKC Require Import Model.Card Model.Hands Model.Five Model.HandRank.
From CKC Require Import Proofs.CardBase Proofs.SortFacts Proofs.BitFacts Proofs.FiveFacts Proofs.ShapeFacts
  Proofs.BestFacts Proofs.Total.
From CKC Require Import Gen.Consts Gen.Decks.
Open Scope N_scope.

(* n slots holding real cards, no two equal, any order *)
Definition HandN (n : nat) (ws : list N) : Prop := length ws = n /\ Forall RealCard ws /\ NoDup ws.

Lemma handN_b n ws :
  Nat.eqb (length ws) n && forallb real_cardb ws && nodupb ws = true -> HandN n ws.
Proof.
  intros H. rewrite !andb_true_iff in H. destruct H as [[A B] C]. repeat split.
  - apply Nat.eqb_eq, A.
  - apply Forall_forall. intros w Hw. apply real_cardb_spec. rewrite forallb_forall in B. apply B, Hw.
  - apply nodupb_NoDup, C.
Qed.

(* ---- well-formed slot tables ----------------------------------------------------------------------- *)
Definition valid_row (n : nat) (p : list N) : Prop :=
  length p = 5%nat /\ NoDup p /\ Forall (fun i => (N.to_nat i < n)%nat) p.
Definition valid_table (n : nat) (perms : list (list N)) : Prop :=
  perms <> [] /\ forall p, In p perms -> valid_row n p.

Definition valid_rowb (n : nat) (p : list N) : bool :=
  Nat.eqb (length p) 5 && nodupb p && forallb (fun i => (N.to_nat i <? n)%nat) p.
Lemma valid_tableb n perms :
  negb (Nat.eqb (length perms) 0) && forallb (valid_rowb n) perms = true -> valid_table n perms.
Proof.
  intros H. apply andb_true_iff in H. destruct H as [H1 H2]. split.
  - intros ->. discriminate H1.
  - intros p Hp. rewrite forallb_forall in H2. specialize (H2 p Hp). unfold valid_rowb in H2.
    rewrite !andb_true_iff in H2. destruct H2 as [[A B] C]. repeat split.
    + apply Nat.eqb_eq, A.
    + apply nodupb_NoDup, B.
    + apply Forall_forall. intros i Hi. rewrite forallb_forall in C. apply Nat.ltb_lt, C, Hi.
Qed.

Lemma tables_valid : valid_table 6 SIX_PERMUTATIONS /\ valid_table 7 SEVEN_PERMUTATIONS.
Proof. split; apply valid_tableb; vm_compute; reflexivity. Qed.

Definition sel (ws : list N) (p : list N) : list N := map (fun i => nthN ws i 0) p.

Lemma nthN_In (ws : list N) i : (N.to_nat i < length ws)%nat -> In (nthN ws i 0) ws.
Proof. intros H. unfold nthN. apply nth_In, H. Qed.

(* a selected candidate: five distinct real cards drawn from the input *)
Lemma sel_facts n ws p :
  HandN n ws -> valid_row n p ->
  length (sel ws p) = 5%nat /\ Forall RealCard (sel ws p) /\ NoDup (sel ws p) /\ incl (sel ws p) ws /\
  select ws p = Ok (sel ws p).
Proof.
  intros (HL & HR & HN) (PL & PN & PR). rewrite <- HL in PR.
  assert (Hincl : incl (sel ws p) ws).
  { intros x Hx. unfold sel in Hx. apply in_map_iff in Hx. destruct Hx as [i [<- Hi]].
    rewrite Forall_forall in PR. apply nthN_In, PR, Hi. }
  repeat split.
  - unfold sel. rewrite map_length. exact PL.
  - apply Forall_forall. intros x Hx. rewrite Forall_forall in HR. apply HR, Hincl, Hx.
  - unfold sel. apply NoDup_map_inj_in; [|exact PN]. intros i j Hi Hj E.
    rewrite Forall_forall in PR. pose proof (PR i Hi) as Li. pose proof (PR j Hj) as Lj.
    unfold nthN in E. apply (proj1 (NoDup_nth ws 0) HN) in E; [lia | exact Li | exact Lj].
  - exact Hincl.
  - apply select_map. exact PR.
Qed.

(* ---- the pure fold always ends on one of the candidates ----------------------------------------------- *)
Lemma pick_cases acc c : pick acc c = c \/ pick acc c = acc.
Proof.
  destruct acc as [bv bh], c as [v h]. unfold pick.
  destruct ((bv =? 0) || (negb (v =? 0) && (v <? bv))); [left | right]; reflexivity.
Qed.

Lemma best_of_cases cands : forall acc, best_of cands acc = acc \/ In (best_of cands acc) cands.
Proof.
  induction cands as [|c cands IH]; intros acc; [left; reflexivity|].
  unfold best_of. cbn [fold_left]. fold (best_of cands (pick acc c)).
  destruct (IH (pick acc c)) as [E|Hin]; [|right; right; exact Hin].
  rewrite E. destruct (pick_cases acc c) as [-> | ->]; [right; left; reflexivity | left; reflexivity].
Qed.

Lemma best_of_in cands d : cands <> [] -> In (best_of cands (0, d)) cands.
Proof.
  destruct cands as [|c cands]; [congruence|]. intros _.
  unfold best_of. cbn [fold_left]. fold (best_of cands (pick (0, d) c)).
  assert (E : pick (0, d) c = c) by (destruct c; reflexivity). rewrite E.
  destruct (best_of_cases cands c) as [-> | Hin]; [left; reflexivity | right; exact Hin].
Qed.

Lemma Forall2_exists {A B} (R : A -> B -> Prop) (l : list A) :
  (forall a, In a l -> exists b, R a b) -> exists l', Forall2 R l l'.
Proof.
  induction l as [|a l IH]; intros H; [exists []; constructor|].
  destruct (H a (or_introl eq_refl)) as [b Hb].
  destruct IH as [l' Hl']; [intros x Hx; apply H; right; exact Hx|].
  exists (b :: l'). constructor; assumption.
Qed.

Lemma Forall2_In_r {A B} (R : A -> B -> Prop) l l' b :
  Forall2 R l l' -> In b l' -> exists a, In a l /\ R a b.
Proof.
  induction 1 as [|a b' l l' Hab _ IH]; intros Hin; [destruct Hin|].
  destruct Hin as [<-|Hin]; [exists a; split; [left; reflexivity | exact Hab]|].
  destruct (IH Hin) as [a' [Ha' Hr]]. exists a'. split; [right; exact Ha' | exact Hr].
Qed.

Lemma hrvh5_of_hrv5 chk ws v : hrv5 chk ws = Ok v -> hrvh5 chk ws = Ok (v, ws).
Proof.
  unfold hrv5, rmap, hrvh5. intros H.
  match type of H with bind (bind ?X _) _ = _ => destruct X; cbn [bind] in *; try discriminate H end.
  cbn [fst] in H. now injection H as ->.
Qed.

(* ---- C03, free of table contents ------------------------------------------------------------------------ *)
Lemma witness_free chk n ws :
  (n = 6 \/ n = 7)%nat -> HandN n ws ->
  exists v h,
    hrvh chk ws = Ok (v, h) /\ hand_rank_value chk ws = Ok v /\
    length h = 5%nat /\ NoDup h /\ incl h ws /\ noninc h /\ Forall RealCard h /\
    hrvh chk h = Ok (v, h) /\ hand_rank_value chk h = Ok v.
Proof.
  intros Hn H. pose proof H as (HL & HR & HN). destruct tables_valid as [T6 T7].
  set (perms := if Nat.eqb n 6 then SIX_PERMUTATIONS else SEVEN_PERMUTATIONS).
  assert (T : valid_table n perms) by (destruct Hn as [->| ->]; assumption).
  assert (Eh : hrvh chk ws = hrvh_best chk perms ws).
  { unfold hrvh. rewrite HL. destruct Hn as [->| ->]; reflexivity. }
  destruct T as [PNE TR].
  (* every row selects five real cards and ranks normally (C05's totality, no table contents) *)
  destruct (Forall2_exists (fun p c => select ws p = Ok (snd c) /\ hrv5 chk (snd c) = Ok (fst c)) perms) as [cands HC].
  { intros p Hp. destruct (sel_facts n ws p H (TR p Hp)) as (A & B & _ & _ & E).
    assert (HS : Slots 5 (sel ws p)).
    { split; [exact A|]. eapply Forall_impl; [|exact B]. intros x Hx. right. exact Hx. }
    destruct (hrvh5_total chk (sel ws p) HS) as [v Hv].
    exists (v, sel ws p). cbn [fst snd]. split; [exact E|]. unfold hrv5, rmap. rewrite Hv. reflexivity. }
  assert (Hne : cands <> []).
  { intros ->. inversion HC. subst. congruence. }
  pose proof (best_fold_pure chk ws perms cands (0, FIVE_DEFAULT) HC) as HF.
  pose proof (best_of_in cands FIVE_DEFAULT Hne) as Hin.
  destruct (best_of cands (0, FIVE_DEFAULT)) as [v h].
  destruct (Forall2_In_r _ _ _ _ HC Hin) as [p [Hp [Hsel Hval]]]. cbn [fst snd] in Hsel, Hval.
  destruct (sel_facts n ws p H (TR p Hp)) as (A & B & C & D & E).
  assert (Eq : h = sel ws p) by congruence. subst h.
  set (h := sel ws p) in *.
  assert (Er : hrvh chk ws = Ok (v, sort_desc h)).
  { rewrite Eh. unfold hrvh_best. rewrite HF. reflexivity. }
  pose proof (sort_desc_perm h) as HP.
  assert (L' : length (sort_desc h) = 5%nat) by (rewrite sort_desc_length; exact A).
  assert (V' : hrv5 chk (sort_desc h) = Ok v).
  { rewrite <- Hval. apply hrv5_perm; [exact L' | exact HP]. }
  assert (W : hrvh chk (sort_desc h) = Ok (v, sort_desc h)).
  { unfold hrvh. rewrite L'. apply hrvh5_of_hrv5, V'. }
  exists v, (sort_desc h). repeat split.
  - exact Er.
  - unfold hand_rank_value, rmap. rewrite Er. reflexivity.
  - exact L'.
  - eapply Permutation_NoDup; [symmetry; exact HP | exact C].
  - intros x Hx. apply (proj1 (sort_desc_In x h)) in Hx. apply D, Hx.
  - apply sort_desc_sorted.
  - eapply Permutation_Forall; [symmetry; exact HP | exact B].
  - exact W.
  - unfold hand_rank_value, rmap. rewrite W. reflexivity.
Qed.

Lemma five_identity chk ws v h : length ws = 5%nat -> hrvh chk ws = Ok (v, h) -> h = ws.
Proof.
  intros HL H. unfold hrvh in H. rewrite HL in H. unfold hrvh5 in H.
  match type of H with bind ?X _ = _ => destruct X; cbn [bind] in H; try discriminate H end.
  now injection H.
Qed.

Lemma five_returns chk ws : length ws = 5%nat -> Forall RealCard ws -> exists v, hrvh chk ws = Ok (v, ws).
Proof.
  intros HL HR. unfold hrvh. rewrite HL. apply hrvh5_total. split; [exact HL|].
  eapply Forall_impl; [|exact HR]. intros x Hx. right. exact Hx.
Qed.

(* ---- two hands whose candidates rank alike rank alike ---------------------------------------------------- *)
Lemma best_fold_rel chk ws ws' perms :
  (forall p, In p perms ->
     exists h h', select ws p = Ok h /\ select ws' p = Ok h' /\ hrv5 chk h' = hrv5 chk h) ->
  forall acc acc', rmap fst acc' = rmap fst acc ->
  rmap fst (fold_left (best_step chk ws') perms acc') = rmap fst (fold_left (best_step chk ws) perms acc).
Proof.
  induction perms as [|p perms IH]; intros HP acc acc' HA; cbn [fold_left]; [exact HA|].
  apply IH; [intros q Hq; apply HP; right; exact Hq|].
  destruct (HP p (or_introl eq_refl)) as (h & h' & S & S' & E).
  unfold best_step.
  destruct acc as [[bv bh]| |], acc' as [[bv' bh']| |]; cbn [rmap bind fst] in HA; try discriminate HA;
    try reflexivity.
  injection HA as ->. cbn [bind]. rewrite S, S'. cbn [bind]. rewrite E.
  destruct (hrv5 chk h) as [x| |]; cbn [bind]; try reflexivity.
  destruct ((bv =? 0) || (negb (x =? 0) && (x <? bv))); reflexivity.
Qed.

Lemma hrvh_best_value chk perms ws :
  rmap fst (hrvh_best chk perms ws) = rmap fst (fold_left (best_step chk ws) perms (Ok (0, FIVE_DEFAULT))).
Proof.
  unfold hrvh_best. destruct (fold_left (best_step chk ws) perms (Ok (0, FIVE_DEFAULT))) as [[v h]| |]; reflexivity.
Qed.
