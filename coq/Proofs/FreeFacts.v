(* Facts about the best-of loop of Six / Seven that do NOT depend on the CONTENTS of the lookup
   tables (only on their lengths, through the totality lemmas of Proofs/Total.v, and on the slot
   tables being well formed):
     - the reported hand is one of the selected candidates and its value is that candidate's value
       (C03: sorted witness re-ranking to the reported value);
     - two hands whose selected candidates rank alike rank alike (C08: suit relabelling).
   A change to a table cell therefore leaves these theorems standing. *)
From Coq Require Import Sorting.Permutation Sorting.Sorted.
From CKC Require Import Base.Prelude Base.Reflect Base.SortN Spec.Layout Spec.Poker.
From CKC Require Import Model.Card Model.Hands Model.Five Model.HandRank.
From CKC Require Import Proofs.CardBase Proofs.SortFacts Proofs.BitFacts Proofs.FiveFacts Proofs.ShapeFacts
  Proofs.BestFacts Proofs.Total.
From CKC Require Import Gen.Consts Gen.Decks.
Open Scope N_scope.

(* n slots holding real cards, no two equal, any order *)
Definition HandN (n : nat) (ws : list N) : Prop := length ws = n /\ Forall RealCard ws /\ NoDup ws.

Lemma handN_b n ws :
  Nat.eqb (length ws) n && forallb real_cardb ws && nodupb ws = true -> HandN n ws.
Proof.
  intros H. rewrite !andb_true_iff in H. destruct H as [[A B] C]. repeat split.
  - apply Nat.eqb_eq, A.
  - apply Forall_forall. intros w Hw. apply real_cardb_spec. rewrite forallb_forall in B. apply B, Hw.
  - apply nodupb_NoDup, C.
Qed.

(* ---- well-formed slot tables ----------------------------------------------------------------------- *)
Definition valid_row (n : nat) (p : list N) : Prop :=
  length p = 5%nat /\ NoDup p /\ Forall (fun i => (N.to_nat i < n)%nat) p.
Definition valid_table (n : nat) (perms : list (list N)) : Prop :=
  perms <> [] /\ forall p, In p perms -> valid_row n p.

Definition valid_rowb (n : nat) (p : list N) : bool :=
  Nat.eqb (length p) 5 && nodupb p && forallb (fun i => (N.to_nat i <? n)%nat) p.
Lemma valid_tableb n perms :
  negb (Nat.eqb (length perms) 0) && forallb (valid_rowb n) perms = true -> valid_table n perms.
Proof.
  intros H. apply andb_true_iff in H. destruct H as [H1 H2]. split.
  - intros ->. discriminate H1.
  - intros p Hp. rewrite forallb_forall in H2. specialize (H2 p Hp). unfold valid_rowb in H2.
    rewrite !andb_true_iff in H2. destruct H2 as [[A B] C]. repeat split.
    + apply Nat.eqb_eq, A.
    + apply nodupb_NoDup, B.
    + apply Forall_forall. intros i Hi. rewrite forallb_forall in C. apply Nat.ltb_lt, C, Hi.
Qed.



Definition sel (ws : list N) (p : list N) : list N := map (fun i => nthN ws i 0) p.

(* a weaker well-formedness, enough where distinctness of the selected cards does not matter (C08): five
   in-range indices, repetition allowed *)
Definition wf_row (n : nat) (p : list N) : Prop := length p = 5%nat /\ Forall (fun i => (N.to_nat i < n)%nat) p.
Definition wf_table (n : nat) (perms : list (list N)) : Prop := forall p, In p perms -> wf_row n p.
Definition wf_rowb (n : nat) (p : list N) : bool :=
  Nat.eqb (length p) 5 && forallb (fun i => (N.to_nat i <? n)%nat) p.
Lemma wf_tableb n perms : forallb (wf_rowb n) perms = true -> wf_table n perms.
Proof.
  intros H p Hp. rewrite forallb_forall in H. specialize (H p Hp). unfold wf_rowb in H.
  apply andb_true_iff in H. destruct H as [A C]. split; [apply Nat.eqb_eq, A|].
  apply Forall_forall. intros i Hi. rewrite forallb_forall in C. apply Nat.ltb_lt, C, Hi.
Qed.
Lemma tables_wf : wf_table 6 SIX_PERMUTATIONS /\ wf_table 7 SEVEN_PERMUTATIONS.
Proof. split; apply wf_tableb; vm_compute; reflexivity. Qed.

Lemma nthN_In (ws : list N) i : (N.to_nat i < length ws)%nat -> In (nthN ws i 0) ws.
Proof. intros H. unfold nthN. apply nth_In, H. Qed.

(* a selected candidate: five distinct real cards drawn from the input *)
Lemma sel_facts n ws p :
  HandN n ws -> valid_row n p ->
  length (sel ws p) = 5%nat /\ Forall RealCard (sel ws p) /\ NoDup (sel ws p) /\ incl (sel ws p) ws /\
  select ws p = Ok (sel ws p).
Proof.
  intros (HL & HR & HN) (PL & PN & PR). rewrite <- HL in PR.
  assert (Hincl : incl (sel ws p) ws).
  { intros x Hx. unfold sel in Hx. apply in_map_iff in Hx. destruct Hx as [i [<- Hi]].
    rewrite Forall_forall in PR. apply nthN_In, PR, Hi. }
  repeat split.
  - unfold sel. rewrite map_length. exact PL.
  - apply Forall_forall. intros x Hx. rewrite Forall_forall in HR. apply HR, Hincl, Hx.
  - unfold sel. apply NoDup_map_inj_in; [|exact PN]. intros i j Hi Hj E.
    rewrite Forall_forall in PR. pose proof (PR i Hi) as Li. pose proof (PR j Hj) as Lj.
    unfold nthN in E. apply (proj1 (NoDup_nth ws 0) HN) in E; [lia | exact Li | exact Lj].
  - exact Hincl.
  - apply select_map. exact PR.
Qed.

Lemma sel_real n ws p :
  length ws = n -> Forall RealCard ws -> wf_row n p ->
  length (sel ws p) = 5%nat /\ Forall RealCard (sel ws p) /\ select ws p = Ok (sel ws p).
Proof.
  intros HL HR (PL & PR). rewrite <- HL in PR. repeat split.
  - unfold sel. rewrite map_length. exact PL.
  - apply Forall_forall. intros x Hx. unfold sel in Hx. apply in_map_iff in Hx. destruct Hx as [i [<- Hi]].
    rewrite Forall_forall in HR, PR. apply HR, nthN_In, PR, Hi.
  - apply select_map. exact PR.
Qed.

(* ---- the pure fold always ends on one of the candidates ----------------------------------------------- *)
Lemma pick_cases acc c : pick acc c = c \/ pick acc c = acc.
Proof.
  destruct acc as [bv bh], c as [v h]. unfold pick.
  destruct ((bv =? 0) || (negb (v =? 0) && (v <? bv))); [left | right]; reflexivity.
Qed.

Lemma best_of_cases cands : forall acc, best_of cands acc = acc \/ In (best_of cands acc) cands.
Proof.
  induction cands as [|c cands IH]; intros acc; [left; reflexivity|].
  unfold best_of. cbn [fold_left]. fold (best_of cands (pick acc c)).
  destruct (IH (pick acc c)) as [E|Hin]; [|right; right; exact Hin].
  rewrite E. destruct (pick_cases acc c) as [-> | ->]; [right; left; reflexivity | left; reflexivity].
Qed.

Lemma best_of_in cands d : cands <> [] -> In (best_of cands (0, d)) cands.
Proof.
  destruct cands as [|c cands]; [congruence|]. intros _.
  unfold best_of. cbn [fold_left]. fold (best_of cands (pick (0, d) c)).
  assert (E : pick (0, d) c = c) by (destruct c; reflexivity). rewrite E.
  destruct (best_of_cases cands c) as [-> | Hin]; [left; reflexivity | right; exact Hin].
Qed.

Lemma Forall2_exists {A B} (R : A -> B -> Prop) (l : list A) :
  (forall a, In a l -> exists b, R a b) -> exists l', Forall2 R l l'.
Proof.
  induction l as [|a l IH]; intros H; [exists []; constructor|].
  destruct (H a (or_introl eq_refl)) as [b Hb].
  destruct IH as [l' Hl']; [intros x Hx; apply H; right; exact Hx|].
  exists (b :: l'). constructor; assumption.
Qed.

Lemma Forall2_In_r {A B} (R : A -> B -> Prop) l l' b :
  Forall2 R l l' -> In b l' -> exists a, In a l /\ R a b.
Proof.
  induction 1 as [|a b' l l' Hab _ IH]; intros Hin; [destruct Hin|].
  destruct Hin as [<-|Hin]; [exists a; split; [left; reflexivity | exact Hab]|].
  destruct (IH Hin) as [a' [Ha' Hr]]. exists a'. split; [right; exact Ha' | exact Hr].
Qed.

Lemma hrvh5_of_hrv5 chk ws v : hrv5 chk ws = Ok v -> hrvh5 chk ws = Ok (v, ws).
Proof.
  unfold hrv5, rmap, hrvh5. intros H.
  match type of H with bind (bind ?X _) _ = _ => destruct X; cbn [bind] in *; try discriminate H end.
  cbn [fst] in H. now injection H as ->.
Qed.

(* ---- two hands whose candidates rank alike rank alike ---------------------------------------------------- *)
Lemma best_fold_rel chk ws ws' perms :
  (forall p, In p perms ->
     exists h h', select ws p = Ok h /\ select ws' p = Ok h' /\ hrv5 chk h' = hrv5 chk h) ->
  forall acc acc', rmap fst acc' = rmap fst acc ->
  rmap fst (fold_left (best_step chk ws') perms acc') = rmap fst (fold_left (best_step chk ws) perms acc).
Proof.
  induction perms as [|p perms IH]; intros HP acc acc' HA; cbn [fold_left]; [exact HA|].
  apply IH; [intros q Hq; apply HP; right; exact Hq|].
  destruct (HP p (or_introl eq_refl)) as (h & h' & S & S' & E).
  unfold best_step.
  destruct acc as [[bv bh]| |], acc' as [[bv' bh']| |]; cbn [rmap bind fst] in HA; try discriminate HA;
    try reflexivity.
  injection HA as ->. cbn [bind]. rewrite S, S'. cbn [bind]. rewrite E.
  destruct (hrv5 chk h) as [x| |]; cbn [bind]; try reflexivity.
  destruct ((bv =? 0) || (negb (x =? 0) && (x <? bv))); reflexivity.
Qed.

Lemma hrvh_best_value chk perms ws :
  rmap fst (hrvh_best chk perms ws) = rmap fst (fold_left (best_step chk ws) perms (Ok (0, FIVE_DEFAULT))).
Proof.
  unfold hrvh_best. destruct (fold_left (best_step chk ws) perms (Ok (0, FIVE_DEFAULT))) as [[v h]| |]; reflexivity.
Qed.
