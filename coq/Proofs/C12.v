(* C12 — text parsing is total; a token is a card iff it starts with rank+suit symbols.

   Strings are [list N] of Unicode scalar values (the theorems quantify over ALL lists of N, a
   superset).  The symbol tables [rank_sym] / [suit_sym] below are written from the property text
   by explicit code points, never from Gen; the regenerated graphs Gen/Chars.v (every scalar value
   on which the running implementation does NOT answer BLANK) are proved equal to them on all N.
   Everything about strings/tokens is proved by induction; finite tables by reflection. *)
From Coq Require Import String.
From CKC Require Import Base.Prelude Base.Reflect Spec.Layout Model.Card Model.Binary Model.Parse.
From CKC Require Import Proofs.CardBase Proofs.CreateFacts Proofs.C11.
From CKC Require Import Gen.Consts Gen.Chars Gen.Enums.
Open Scope N_scope.

(* ---- Spec: the documented symbol tables ---------------------------------------------------------- *)
Fixpoint lookup (g : list (N * N)) (k : N) : option N :=
  match g with
  | [] => None
  | (k', v) :: r => if k =? k' then Some v else lookup r k
  end.

(* symbol (code point) -> spec rank (deuce = 0 .. ace = 12) *)
Definition RANK_SYMS : list (N * N) :=
  [ (65, 12); (97, 12);            (* A a *)
    (75, 11); (107, 11);           (* K k *)
    (81, 10); (113, 10);           (* Q q *)
    (74, 9);  (106, 9);            (* J j *)
    (84, 8);  (116, 8); (48, 8);   (* T t 0 *)
    (57, 7); (56, 6); (55, 5); (54, 4); (53, 3); (52, 2); (51, 1); (50, 0) ].  (* 9 .. 2 *)
(* symbol -> spec suit (clubs = 0, diamonds = 1, hearts = 2, spades = 3) *)
Definition SUIT_SYMS : list (N * N) :=
  [ (83, 3); (115, 3); (9824, 3); (9828, 3);    (* S s U+2660 U+2664 *)
    (72, 2); (104, 2); (9829, 2); (9825, 2);    (* H h U+2665 U+2661 *)
    (68, 1); (100, 1); (9830, 1); (9826, 1);    (* D d U+2666 U+2662 *)
    (67, 0); (99, 0);  (9827, 0); (9831, 0) ].  (* C c U+2663 U+2667 *)
Definition rank_sym (c : N) : option N := lookup RANK_SYMS c.
Definition suit_sym (c : N) : option N := lookup SUIT_SYMS c.

Lemma lookup_notin g k : memN k (map fst g) = false -> lookup g k = None.
Proof.
  induction g as [|[k' v] g IH]; cbn [map lookup memN existsb fst]; [reflexivity|].
  intros H. apply orb_false_iff in H. destruct H as [H1 H2]. rewrite H1. apply IH, H2.
Qed.

Lemma lookup_In g k v : lookup g k = Some v -> In (k, v) g.
Proof.
  induction g as [|[k' v'] g IH]; cbn [lookup]; [discriminate|].
  destruct (N.eqb_spec k k') as [->|Hne].
  - intros E. injection E as ->. left. reflexivity.
  - intros E. right. apply IH, E.
Qed.

(* ---- C12_symbols: the regenerated graphs are the documented tables, on ALL N --------------------- *)
Definition rank_of_sym (o : option N) : N := match o with Some r => rank_variant r | None => RANK_BLANK end.
Definition suit_of_sym (o : option N) : N := match o with Some s => suit_variant s | None => SUIT_BLANK end.

(* a graph given as an association list agrees with a table on all keys as soon as it agrees on the
   keys of both *)
Lemma graph_eq_table (g t : list (N * N)) (d : N) (f : option N -> N) :
  f None = d ->
  forallb (fun c => assoc g c d =? f (lookup t c)) (map fst g ++ map fst t) = true ->
  forall c, assoc g c d = f (lookup t c).
Proof.
  intros Hd Hall c. rewrite forallb_forall in Hall.
  destruct (memN c (map fst g ++ map fst t)) eqn:E.
  - apply memN_In in E. apply N.eqb_eq. exact (Hall c E).
  - apply memN_false in E.
    assert (E1 : memN c (map fst g) = false)
      by (apply memN_false; intro H; apply E, in_or_app; left; exact H).
    assert (E2 : memN c (map fst t) = false)
      by (apply memN_false; intro H; apply E, in_or_app; right; exact H).
    rewrite (assoc_notin _ _ _ E1), (lookup_notin _ _ E2). symmetry. exact Hd.
Qed.

Lemma rank_symbols c : rank_from_char c = rank_of_sym (rank_sym c).
Proof.
  unfold rank_from_char, rank_sym. apply (graph_eq_table RANK_FROM_CHAR RANK_SYMS RANK_BLANK rank_of_sym).
  - reflexivity.
  - vm_compute. reflexivity.
Qed.

Lemma suit_symbols c : suit_from_char c = suit_of_sym (suit_sym c).
Proof.
  unfold suit_from_char, suit_sym. apply (graph_eq_table SUIT_FROM_CHAR SUIT_SYMS SUIT_BLANK suit_of_sym).
  - reflexivity.
  - vm_compute. reflexivity.
Qed.

Lemma symbols_ok :
  (forall c, rank_from_char c = match rank_sym c with Some r => rank_variant r | None => RANK_BLANK end) /\
  (forall c, suit_from_char c = match suit_sym c with Some s => suit_variant s | None => SUIT_BLANK end).
Proof. split; [exact rank_symbols | exact suit_symbols]. Qed.

(* the tables only name the 13 ranks / 4 suits *)
Lemma rank_sym_bound c r : rank_sym c = Some r -> r < 13.
Proof.
  intros H. apply lookup_In in H.
  assert (Hall : forallb (fun p => snd p <? 13) RANK_SYMS = true) by (vm_compute; reflexivity).
  rewrite forallb_forall in Hall. apply Hall in H. cbn [snd] in H. apply N.ltb_lt, H.
Qed.
Lemma suit_sym_bound c s : suit_sym c = Some s -> s < 4.
Proof.
  intros H. apply lookup_In in H.
  assert (Hall : forallb (fun p => snd p <? 4) SUIT_SYMS = true) by (vm_compute; reflexivity).
  rewrite forallb_forall in Hall. apply Hall in H. cbn [snd] in H. apply N.ltb_lt, H.
Qed.

(* the variants of distinct ranks / suits are distinct and are not BLANK *)
Lemma rank_variant_facts r : r < 13 ->
  rank_variant r < 13 /\ rank_variant r <> RANK_BLANK /\ forall r', r' < 13 -> rank_variant r = rank_variant r' -> r = r'.
Proof.
  intros Hr. destruct variants_ok as (_ & _ & HR & _ & HB & _).
  assert (Hlt : rank_variant r < 13).
  { apply N.ltb_lt. exact (forallb_N_range (fun r => rank_variant r <? 13) 13 ltac:(vm_compute; reflexivity) r Hr). }
  repeat split; [exact Hlt | |].
  - intros E. pose proof (HR r Hr) as H. rewrite E, HB in H. discriminate.
  - intros r' Hr' E. pose proof (HR r Hr) as H. rewrite E, (HR r' Hr') in H. injection H as ->. reflexivity.
Qed.
Lemma suit_variant_facts s : s < 4 ->
  suit_variant s < 4 /\ suit_variant s <> SUIT_BLANK /\ forall s', s' < 4 -> suit_variant s = suit_variant s' -> s = s'.
Proof.
  intros Hs. destruct variants_ok as (_ & _ & _ & HS & _ & HB & _).
  assert (Hlt : suit_variant s < 4).
  { apply N.ltb_lt. exact (forallb_N_range (fun s => suit_variant s <? 4) 4 ltac:(vm_compute; reflexivity) s Hs). }
  repeat split; [exact Hlt | |].
  - intros E. pose proof (HS s Hs) as H. rewrite E, HB in H. discriminate.
  - intros s' Hs' E. pose proof (HS s Hs) as H. rewrite E, (HS s' Hs') in H. injection H as ->. reflexivity.
Qed.

(* the "exactly" form: a character maps to the variant of rank r iff it is one of r's symbols *)
Lemma rank_symbols_iff c :
  (forall r, r < 13 -> (rank_from_char c = rank_variant r <-> rank_sym c = Some r)) /\
  (rank_from_char c = RANK_BLANK <-> rank_sym c = None).
Proof.
  rewrite rank_symbols. destruct (rank_sym c) as [r0|] eqn:E; cbn [rank_of_sym].
  - pose proof (rank_sym_bound _ _ E) as H0. destruct (rank_variant_facts r0 H0) as (_ & Hnb & Hinj).
    split.
    + intros r Hr. split; [intros H; f_equal; now apply Hinj | intros H; injection H as ->; reflexivity].
    + split; [intros H; contradiction | discriminate].
  - split.
    + intros r Hr. destruct (rank_variant_facts r Hr) as (_ & Hnb & _).
      split; [intros H; symmetry in H; contradiction | discriminate].
    + split; reflexivity.
Qed.
Lemma suit_symbols_iff c :
  (forall s, s < 4 -> (suit_from_char c = suit_variant s <-> suit_sym c = Some s)) /\
  (suit_from_char c = SUIT_BLANK <-> suit_sym c = None).
Proof.
  rewrite suit_symbols. destruct (suit_sym c) as [s0|] eqn:E; cbn [suit_of_sym].
  - pose proof (suit_sym_bound _ _ E) as H0. destruct (suit_variant_facts s0 H0) as (_ & Hnb & Hinj).
    split.
    + intros s Hs. split; [intros H; f_equal; now apply Hinj | intros H; injection H as ->; reflexivity].
    + split; [intros H; contradiction | discriminate].
  - split.
    + intros s Hs. destruct (suit_variant_facts s Hs) as (_ & Hnb & _).
      split; [intros H; symmetry in H; contradiction | discriminate].
    + split; reflexivity.
Qed.

(* the tables list exactly the documented symbols: spelled out per rank / suit *)
Definition rank_symbols_of (r : N) : list N := map fst (List.filter (fun p => snd p =? r) RANK_SYMS).
Definition suit_symbols_of (s : N) : list N := map fst (List.filter (fun p => snd p =? s) SUIT_SYMS).
Lemma symbol_lists :
  map rank_symbols_of (N_range 13) =
    [[50]; [51]; [52]; [53]; [54]; [55]; [56]; [57]; [84; 116; 48]; [74; 106]; [81; 113]; [75; 107]; [65; 97]] /\
  map suit_symbols_of (N_range 4) =
    [[67; 99; 9827; 9831]; [68; 100; 9830; 9826]; [72; 104; 9829; 9825]; [83; 115; 9824; 9828]].
Proof. split; vm_compute; reflexivity. Qed.

(* ---- C12_token ------------------------------------------------------------------------------- *)
Definition token_spec (t : list N) : N :=
  match t with
  | c1 :: c2 :: _ =>
      match rank_sym c1, suit_sym c2 with
      | Some r, Some s => layout r s
      | _, _ => 0
      end
  | _ => 0
  end.

Lemma create_of_syms ro so :
  (forall r, ro = Some r -> r < 13) -> (forall s, so = Some s -> s < 4) ->
  create (rank_of_sym ro) (suit_of_sym so) =
  match ro, so with Some r, Some s => layout r s | _, _ => 0 end.
Proof.
  intros Hr Hs. destruct variants_ok as (L14 & L5 & HR & HS & HRB & HSB & HRBlt & HSBlt).
  assert (Hri : rank_of_sym ro < lenN CardRank_NAMES).
  { rewrite L14. destruct ro as [r|]; cbn [rank_of_sym]; [|exact HRBlt].
    destruct (rank_variant_facts r (Hr r eq_refl)) as [H _]. lia. }
  assert (Hsi : suit_of_sym so < lenN CardSuit_NAMES).
  { rewrite L5. destruct so as [s|]; cbn [suit_of_sym]; [|exact HSBlt].
    destruct (suit_variant_facts s (Hs s eq_refl)) as [H _]. lia. }
  destruct (create_ok _ _ Hri Hsi) as [-> _]. unfold create_spec.
  destruct ro as [r|], so as [s|]; cbn [rank_of_sym suit_of_sym].
  - rewrite (HR r (Hr r eq_refl)), (HS s (Hs s eq_refl)). reflexivity.
  - rewrite (HR r (Hr r eq_refl)), HSB. reflexivity.
  - rewrite HRB. reflexivity.
  - rewrite HRB. reflexivity.
Qed.

Lemma create_blank_blank : create RANK_BLANK SUIT_BLANK = 0.
Proof. vm_compute. reflexivity. Qed.

Lemma token_ok t : card_from_index t = token_spec t.
Proof.
  unfold card_from_index, get_rank_and_suit, token_spec.
  destruct t as [|c1 [|c2 rest]]; try exact create_blank_blank.
  rewrite rank_symbols, suit_symbols. apply create_of_syms.
  - intros r. apply rank_sym_bound.
  - intros s. apply suit_sym_bound.
Qed.

(* a token is a real card exactly when it starts with a rank symbol and a suit symbol; then it is
   the card of that rank and suit (the tail is ignored); anything else is blank *)
Lemma token_real t :
  (forall r s, r < 13 -> s < 4 ->
     (card_from_index t = layout r s <->
      exists c1 c2 rest, t = c1 :: c2 :: rest /\ rank_sym c1 = Some r /\ suit_sym c2 = Some s)) /\
  (card_from_index t <> 0 <->
     exists c1 c2 rest r s, t = c1 :: c2 :: rest /\ rank_sym c1 = Some r /\ suit_sym c2 = Some s) /\
  (RealCard (card_from_index t) \/ card_from_index t = 0).
Proof.
  rewrite token_ok. unfold token_spec.
  destruct t as [|c1 [|c2 rest]].
  1,2: (split; [|split]);
       [ intros r s Hr Hs; split;
         [ intros H; symmetry in H; exfalso; exact (layout_nonzero r s Hr Hs H)
         | intros (a & b & q & E & _); discriminate ]
       | split; [intros H; contradiction | intros (a & b & q & r & s & E & _); discriminate]
       | right; reflexivity ].
  destruct (rank_sym c1) as [r0|] eqn:E1, (suit_sym c2) as [s0|] eqn:E2.
  - pose proof (rank_sym_bound _ _ E1) as Hr0. pose proof (suit_sym_bound _ _ E2) as Hs0.
    split; [|split].
    + intros r s Hr Hs. split.
      * intros H. destruct (layout_inj _ _ _ _ Hr0 Hs0 Hr Hs H) as [-> ->].
        exists c1, c2, rest. repeat split; assumption.
      * intros (a & b & q & E & Ha & Hb). injection E as <- <- <-.
        rewrite E1 in Ha. rewrite E2 in Hb. injection Ha as ->. injection Hb as ->. reflexivity.
    + split.
      * intros _. exists c1, c2, rest, r0, s0. repeat split; assumption.
      * intros _. apply layout_nonzero; assumption.
    + left. exists r0, s0. repeat split; assumption.
  - split; [|split].
    + intros r s Hr Hs. split.
      * intros H. symmetry in H. exfalso. exact (layout_nonzero r s Hr Hs H).
      * intros (a & b & q & E & Ha & Hb). injection E as <- <- <-. rewrite E2 in Hb. discriminate.
    + split; [intros H; contradiction|].
      intros (a & b & q & r & s & E & Ha & Hb). injection E as <- <- <-. rewrite E2 in Hb. discriminate.
    + right. reflexivity.
  - split; [|split].
    + intros r s Hr Hs. split.
      * intros H. symmetry in H. exfalso. exact (layout_nonzero r s Hr Hs H).
      * intros (a & b & q & E & Ha & Hb). injection E as <- <- <-. rewrite E1 in Ha. discriminate.
    + split; [intros H; contradiction|].
      intros (a & b & q & r & s & E & Ha & Hb). injection E as <- <- <-. rewrite E1 in Ha. discriminate.
    + right. reflexivity.
  - split; [|split].
    + intros r s Hr Hs. split.
      * intros H. symmetry in H. exfalso. exact (layout_nonzero r s Hr Hs H).
      * intros (a & b & q & E & Ha & Hb). injection E as <- <- <-. rewrite E1 in Ha. discriminate.
    + split; [intros H; contradiction|].
      intros (a & b & q & r & s & E & Ha & Hb). injection E as <- <- <-. rewrite E1 in Ha. discriminate.
    + right. reflexivity.
Qed.

Lemma token_tail_ignored c1 c2 rest : card_from_index (c1 :: c2 :: rest) = card_from_index [c1; c2].
Proof. rewrite !token_ok. reflexivity. Qed.

Lemma token_short t : (length t < 2)%nat -> card_from_index t = 0.
Proof.
  rewrite token_ok. destruct t as [|c1 [|c2 rest]]; cbn [length]; try reflexivity. lia.
Qed.

(* ---- C12_tokens: [tokens] is split_whitespace -------------------------------------------------- *)
Definition nows (c : N) : Prop := is_whitespace c = false.
Definition good_token (t : list N) : Prop := t <> [] /\ Forall nows t.

Lemma rev_nonnil {A} (l : list A) : l <> [] -> rev l <> [].
Proof.
  intros H E. apply H. rewrite <- (rev_involutive l), E. reflexivity.
Qed.

Lemma tokens_aux_good cur s : Forall nows cur -> Forall good_token (tokens_aux cur s).
Proof.
  revert cur. induction s as [|c r IH]; intros cur Hc; cbn [tokens_aux].
  - destruct cur as [|x cur]; constructor; [|constructor].
    split; [apply rev_nonnil; discriminate | apply Forall_rev, Hc].
  - destruct (is_whitespace c) eqn:E.
    + destruct cur as [|x cur]; [apply IH; constructor|].
      constructor; [|apply IH; constructor].
      split; [apply rev_nonnil; discriminate | apply Forall_rev, Hc].
    + apply IH. constructor; [exact E | exact Hc].
Qed.

Lemma tokens_good s : Forall good_token (tokens s).
Proof. apply tokens_aux_good. constructor. Qed.

Definition strip_ws (s : list N) : list N := List.filter (fun c => negb (is_whitespace c)) s.

Lemma tokens_aux_concat cur s : concat (tokens_aux cur s) = rev cur ++ strip_ws s.
Proof.
  revert cur. induction s as [|c r IH]; intros cur; cbn [tokens_aux strip_ws List.filter].
  - destruct cur as [|x cur]; cbn [concat rev app]; [reflexivity|].
    rewrite !app_nil_r. reflexivity.
  - fold (strip_ws r). destruct (is_whitespace c) eqn:E; cbn [negb].
    + destruct cur as [|x cur]; cbn [concat]; rewrite IH; reflexivity.
    + rewrite IH. cbn [rev]. rewrite <- app_assoc. reflexivity.
Qed.

Lemma tokens_concat s : strip_ws s = concat (tokens s).
Proof. unfold tokens. rewrite tokens_aux_concat. reflexivity. Qed.

Lemma tokens_aux_split cur a w b :
  is_whitespace w = true -> tokens_aux cur (a ++ w :: b) = tokens_aux cur a ++ tokens b.
Proof.
  intros Hw. revert cur. induction a as [|c a IH]; intros cur; cbn [app tokens_aux].
  - rewrite Hw. destruct cur; reflexivity.
  - destruct (is_whitespace c).
    + destruct cur; rewrite IH; reflexivity.
    + apply IH.
Qed.

Lemma tokens_split a w b : is_whitespace w = true -> tokens (a ++ [w] ++ b) = tokens a ++ tokens b.
Proof. intros Hw. cbn [app]. apply tokens_aux_split, Hw. Qed.

Lemma tokens_aux_run pre cur s :
  Forall nows pre -> tokens_aux cur (pre ++ s) = tokens_aux (rev pre ++ cur) s.
Proof.
  revert cur. induction pre as [|c p IH]; intros cur H; cbn [app rev]; [reflexivity|].
  inversion H as [|? ? Hc Hp]; subst. cbn [tokens_aux]. rewrite Hc, (IH _ Hp), <- app_assoc. reflexivity.
Qed.

(* a non-empty run of non-whitespace characters is one token; the empty string has none *)
Lemma tokens_run t : good_token t -> tokens t = [t].
Proof.
  intros [Hne Hn]. unfold tokens. rewrite <- (app_nil_r t) at 1. rewrite (tokens_aux_run _ _ _ Hn).
  rewrite app_nil_r. cbn [tokens_aux].
  destruct (rev t) eqn:E; [exfalso; exact (rev_nonnil _ Hne E)|]. rewrite <- E, rev_involutive. reflexivity.
Qed.

Lemma tokens_nil : tokens [] = [].
Proof. reflexivity. Qed.

Lemma tokens_ws_only s : Forall (fun c => is_whitespace c = true) s -> tokens s = [].
Proof.
  unfold tokens. induction 1 as [|c r Hc _ IH]; cbn [tokens_aux]; [reflexivity|]. rewrite Hc. exact IH.
Qed.

Lemma tokens_ok :
  (forall s, Forall (fun t => t <> [] /\ Forall (fun c => is_whitespace c = false) t) (tokens s)) /\
  (forall s, List.filter (fun c => negb (is_whitespace c)) s = concat (tokens s)) /\
  (forall a w b, is_whitespace w = true -> tokens (a ++ [w] ++ b) = tokens a ++ tokens b) /\
  (forall t, t <> [] -> Forall (fun c => is_whitespace c = false) t -> tokens t = [t]) /\
  tokens [] = [].
Proof.
  repeat split.
  - apply tokens_good.
  - apply tokens_concat.
  - apply tokens_split.
  - intros t H1 H2. apply tokens_run. split; assumption.
Qed.

(* the whitespace set regenerated from char::is_whitespace is the Unicode White_Space set *)
Lemma whitespace_set :
  WHITESPACE = [9; 10; 11; 12; 13; 32; 133; 160; 5760] ++ map (fun k => 8192 + k) (N_range 11)
               ++ [8232; 8233; 8239; 8287; 12288].
Proof. vm_compute. reflexivity. Qed.

(* ---- C12_hand -------------------------------------------------------------------------------- *)
Lemma hand_none n s : hand_from_index n s = None <-> (length (tokens s) < n)%nat.
Proof.
  unfold hand_from_index. cbv zeta. destruct (Nat.leb_spec n (length (tokens s))) as [H|H].
  - split; [discriminate | lia].
  - split; [intros _; exact H | reflexivity].
Qed.

Lemma hand_some n s ws :
  hand_from_index n s = Some ws ->
  ws = map card_from_index (firstn n (tokens s)) /\ length ws = n /\ (n <= length (tokens s))%nat.
Proof.
  unfold hand_from_index. cbv zeta. destruct (Nat.leb_spec n (length (tokens s))) as [H|H]; [|discriminate].
  intros E. injection E as <-. repeat split; [|exact H].
  rewrite map_length, firstn_length. lia.
Qed.

Lemma hand_ok n s :
  (hand_from_index n s = None <-> (length (tokens s) < n)%nat) /\
  (forall ws, hand_from_index n s = Some ws ->
     ws = map card_from_index (firstn n (tokens s)) /\ length ws = n).
Proof.
  split; [apply hand_none|]. intros ws H. destruct (hand_some _ _ _ H) as (H1 & H2 & _). now split.
Qed.

(* slot i of a parsed hand is the parse of token i; with exactly n tokens all are used *)
Lemma hand_slots n s ws :
  hand_from_index n s = Some ws ->
  forall i, (i < n)%nat -> nth i ws 0 = card_from_index (nth i (tokens s) []).
Proof.
  intros H i Hi. destruct (hand_some _ _ _ H) as (-> & _ & Hn).
  rewrite <- (firstn_skipn n (tokens s)) at 2.
  rewrite app_nth1 by (rewrite firstn_length; lia).
  assert (E0 : card_from_index [] = 0) by (vm_compute; reflexivity).
  rewrite <- E0 at 1. apply map_nth.
Qed.

Lemma hand_exact n s : length (tokens s) = n -> hand_from_index n s = Some (map card_from_index (tokens s)).
Proof.
  intros H. unfold hand_from_index. cbv zeta. subst n. rewrite Nat.leb_refl, firstn_all. reflexivity.
Qed.

(* ---- C12_roundtrip ------------------------------------------------------------------------------ *)
Lemma roundtrip r s : r < 13 -> s < 4 ->
  let w := layout r s in
  card_from_index [get_rank_char w; get_suit_char w] = w /\
  card_from_index [get_rank_char w; get_suit_letter w] = w.
Proof.
  intros Hr Hs w.
  pose proof (sweep_rs (fun r s => let w := layout r s in
                          (card_from_index [get_rank_char w; get_suit_char w] =? w)
                          && (card_from_index [get_rank_char w; get_suit_letter w] =? w))
                ltac:(vm_compute; reflexivity) r s Hr Hs) as H.
  cbv zeta in H. apply andb_true_iff in H. rewrite !N.eqb_eq in H. exact H.
Qed.

(* ---- C12_total / bc_from_index ---------------------------------------------------------------- *)
(* Totality: [card_from_index : list N -> N], [hand_from_index : nat -> list N -> option (list N)],
   [bc_from_index : list N -> N], [tokens] return plain values, not [res]: the parsing path of the
   model contains no primitive that can panic (no indexing, no slicing, no checked arithmetic), so
   "never panics on any string" holds by typing; the tie to the code is the correspondence check. *)
Lemma bc_from_index_unfold s :
  bc_from_index s = fold_left (fun bc t => N.lor bc (from_ckc (card_from_index t))) (tokens s) 0.
Proof. reflexivity. Qed.

Lemma fold_tokens_map ts acc :
  fold_left (fun bc t => N.lor bc (from_ckc (card_from_index t))) ts acc =
  fold_left N.lor (map (fun t => from_ckc (token_spec t)) ts) acc.
Proof.
  revert acc. induction ts as [|t ts IH]; intros acc; cbn [fold_left map]; [reflexivity|].
  rewrite IH, token_ok. reflexivity.
Qed.

Lemma bc_from_index_map s :
  bc_from_index s = fold_left N.lor (map (fun t => from_ckc (token_spec t)) (tokens s)) 0.
Proof. rewrite bc_from_index_unfold. apply fold_tokens_map. Qed.

Lemma bc_from_index_app a w b :
  is_whitespace w = true -> bc_from_index (a ++ [w] ++ b) = N.lor (bc_from_index a) (bc_from_index b).
Proof.
  intros Hw. rewrite !bc_from_index_unfold, (tokens_split _ _ _ Hw), fold_left_app.
  generalize (fold_left (fun bc t => N.lor bc (from_ckc (card_from_index t))) (tokens a) 0) as x.
  induction (tokens b) as [|t ts IH] using rev_ind; intros x.
  - cbn [fold_left]. rewrite N.lor_0_r. reflexivity.
  - rewrite !fold_left_app. cbn [fold_left]. rewrite IH, N.lor_assoc. reflexivity.
Qed.
