(* The `best` projection (Model/Proj.v) is constant on six / seven distinct real cards: the lowest value among
   the five-card sub-hands, each ranked on its own (C01 through C02_value5_is_rank), is the rule-based best
   value, which every entry point returns (C02_value). *)
From CKC Require Import Base.Prelude Base.Combs Spec.Layout.
From CKC Require Import Model.Five Model.HandRank Model.Proj.
From CKC Require Import Proofs.ProjBase Proofs.CombFacts Proofs.HandFacts Proofs.C01 Proofs.TableFacts Proofs.C02.
Open Scope N_scope.

Lemma best_sub5_value chk n ws : HandN n ws -> best_sub5 chk ws = Ok (best_value5 ws).
Proof.
  intros H.
  assert (H5 : forall c, In c (combs ws 5) -> Hand5 c).
  { intros c Hc. apply In_combs in Hc. destruct Hc as [HS HC]. exact (sub_hand n ws c H HS HC). }
  unfold best_sub5.
  rewrite (fold_best_step5 chk (combs ws 5) (map value5 (combs ws 5)) 0).
  - apply (f_equal Ok). apply fold_stepmin_minl. apply Forall_forall. intros x Hx.
    apply in_map_iff in Hx. destruct Hx as (c & <- & Hc). pose proof (value5_range c (H5 c Hc)). lia.
  - apply Forall2_map_fun. intros c Hc. exact (proj1 (value_ok chk c (H5 c Hc))).
Qed.

Lemma proj_best_const chk n ws :
  (n = 6 \/ n = 7)%nat -> HandN n ws ->
  proj_best chk ws = [Ok true; Ok true; Ok true; Ok true; Ok true].
Proof.
  intros Hn H. pose proof (value_n_spec chk n ws Hn H) as X. cbv zeta in X. destruct X as (A & B & C & D & _).
  unfold proj_best. rewrite (best_sub5_value chk n ws H), B, C, D, A.
  cbn [rmap bind guard1 hr_value hr_from]. rewrite N.eqb_refl. reflexivity.
Qed.
