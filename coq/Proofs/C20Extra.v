(* Extras around C20 that the property itself does not demand (kept out of Props/C20.v so that an unrelated
   accessor or filter change does not disturb the C20 check): the values read from a marked card are the
   documented ones; the card filter rejects every marked word. *)
From Coq Require Import String.
From CKC Require Import Base.Prelude Base.Reflect Spec.Layout Model.Card.
From CKC Require Import Proofs.CardBase Proofs.FilterExact Proofs.AccRankSuit Proofs.AccFields Proofs.AccChars Proofs.C11 Proofs.C20.
From CKC Require Import Gen.Consts.
Open Scope N_scope.

(* the decoded values themselves, composing with C10's accessor facts *)
Lemma card_reads r s m : r < 13 -> s < 4 -> In m MARKS ->
  let w := mark m (layout r s) in
  get_card_rank w = rank_variant r /\ get_card_suit w = suit_variant s /\ get_rank_prime w = prime_of r /\
  get_rank_char w = nthN RANK_CHARS r 0 /\ get_suit_char w = nthN SUIT_GLYPHS s 0 /\
  get_suit_letter w = nthN SUIT_LETTERS s 0.
Proof.
  intros Hr Hs Hm w. subst w.
  destruct (accessors_same m (layout r s) Hm) as (-> & -> & -> & -> & -> & -> & _).
  destruct (acc_rank_suit r s Hr Hs) as (A1 & A2 & _). destruct (acc_fields r s Hr Hs) as (A3 & _).
  destruct (acc_chars r s Hr Hs) as (A4 & A5 & A6). cbv zeta in *. repeat split; assumption.
Qed.

(* a marked word is never accepted as a card by the filter ("stripped for evals") *)
Lemma marked_not_real m w : In m MARKS -> m <> 0 -> w < 2 ^ 29 -> filter (mark m w) = 0.
Proof.
  intros Hm Hne Hw. apply filter_not_real. intros (r & s & Hr & Hs & E).
  pose proof (layout_small r s Hr Hs) as Hl. rewrite <- E in Hl.
  pose proof (order_marked_unmarked m w 0 Hm Hne Hw ltac:(lia)) as _.
  rewrite (mark_add m w Hm Hw) in Hl.
  destruct (marks_facts m Hm) as (_ & _ & _ & _ & _ & _ & [H|H]); [contradiction | lia].
Qed.
