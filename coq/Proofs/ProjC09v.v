(* The `vsame` projection (Model/Proj.v): on five, six or seven distinct real cards the VALIDATED value is the plain
   value, so C09's chain holds for the validated entry points as well. Needs "distinct real cards form a valid hand"
   (Proofs/ValidReal.v: the card filter passes the 52 cards) besides C09's own lemmas. *)
From CKC Require Import Base.Prelude Spec.Layout.
From CKC Require Import Model.Card Model.Hands Model.Five Model.Proj.
From CKC Require Import Proofs.CardBase Proofs.ValidReal Proofs.FreeFacts Proofs.C09.
Open Scope N_scope.

Lemma proj_vsame_const chk n ws :
  (n = 5 \/ n = 6 \/ n = 7)%nat -> HandN n ws -> proj_vsame chk ws = [Ok true].
Proof.
  intros Hn H. pose proof H as (HL & HR & HN).
  destruct (monotone_now chk n n ws ws Hn Hn H HL HN (incl_refl ws)) as (v & w & E & _).
  unfold proj_vsame, hand_rank_value_validated. rewrite (is_valid_real ws HR HN). cbn [negb].
  rewrite E. unfold eqr. rewrite N.eqb_refl. reflexivity.
Qed.
