(* The implementation's card filter passes each of the 52 card words unchanged (a 52-card sweep of the
   regenerated graph). This WEAK fact is all that ranking needs; exactness of the filter ("and nothing
   else passes") is Proofs/FilterExact.v and matters for C04 / C10 / C16 only. *)
From Coq Require Import String.
From CKC Require Import Base.Prelude Base.Reflect Spec.Layout Model.Card.
From CKC Require Import Gen.Consts Gen.Enums Gen.Maps Gen.Scan Gen.Decks.
Open Scope N_scope.

From CKC Require Import Proofs.CardBase.

Lemma filter_real_rs r s : r < 13 -> s < 4 -> filter (layout r s) = layout r s.
Proof.
  intros Hr Hs.
  pose proof (sweep_rs (fun r s => filter (layout r s) =? layout r s) ltac:(vm_compute; reflexivity) r s Hr Hs) as H.
  apply N.eqb_eq in H. exact H.
Qed.

Lemma filter_real w : RealCard w -> filter w = w.
Proof. intros (r & s & Hr & Hs & ->). now apply filter_real_rs. Qed.
