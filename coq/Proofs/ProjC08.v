(* The `shiftinv` projection (Model/Proj.v) is constant on five, six or seven distinct real cards: one, two and
   three suit shifts keep the value (C08's shift lemma), four shifts restore every card (C08's cycle lemma).
   The three VALIDATED fields also need "distinct real cards form a valid hand" (Proofs/ValidReal.v: the card
   filter passes the 52 cards), because the shifted hands go through the validity test again. *)
From CKC Require Import Base.Prelude Base.Reflect Spec.Layout.
From CKC Require Import Model.Card Model.Hands Model.Five Model.Proj.
From CKC Require Import Proofs.ProjBase Proofs.CardBase Proofs.FiveFacts Proofs.ValidReal Proofs.FreeFacts Proofs.C08.
Open Scope N_scope.

Lemma shift_handN n ws : HandN n ws -> HandN n (shift_suit_hand ws).
Proof.
  intros H. rewrite (shift_hand_is_relabel ws (proj1 (proj2 H))).
  exact (relabel_handN next_suit_spec n ws next_suit_bijection H).
Qed.

Lemma validated_real chk n ws : HandN n ws -> hand_rank_value_validated chk ws = hand_rank_value chk ws.
Proof.
  intros (_ & HR & HN). unfold hand_rank_value_validated. rewrite (is_valid_real ws HR HN). reflexivity.
Qed.

Lemma shift_four_hand ws :
  Forall RealCard ws -> shift_suit_hand (shift_suit_hand (shift_suit_hand (shift_suit_hand ws))) = ws.
Proof.
  intros H. unfold shift_suit_hand. rewrite !map_map. rewrite <- (map_id ws) at 2.
  apply map_ext_in. intros w Hw. rewrite Forall_forall in H.
  destruct (H w Hw) as (r & s & Hr & Hs & ->). exact (shift_four r s Hr Hs).
Qed.

Lemma proj_shiftinv_const chk n ws :
  (n = 5 \/ n = 6 \/ n = 7)%nat -> HandN n ws ->
  proj_shiftinv chk ws = [Ok true; Ok true; Ok true; Ok true; Ok true; Ok true; Ok true].
Proof.
  intros Hn H.
  pose proof (shift_handN n _ H) as H1. pose proof (shift_handN n _ H1) as H2. pose proof (shift_handN n _ H2) as H3.
  destruct (shift_value chk n _ Hn H) as (v & E0 & E1).
  destruct (shift_value chk n _ Hn H1) as (v1 & E1' & E2).
  destruct (shift_value chk n _ Hn H2) as (v2 & E2' & E3).
  assert (v1 = v) by congruence. subst v1. assert (v2 = v) by congruence. subst v2.
  unfold proj_shiftinv. cbn [flat_map app].
  rewrite (validated_real chk n _ H), (validated_real chk n _ H1), (validated_real chk n _ H2),
    (validated_real chk n _ H3).
  rewrite E3, E2, E1, E0. unfold eqr. rewrite N.eqb_refl.
  rewrite (shift_four_hand ws (proj1 (proj2 H))), (proj2 (list_eqb_eq ws ws) eq_refl). reflexivity.
Qed.

(* ---- the `relabel` projection ------------------------------------------------------------------------ *)
(* every rearrangement p of the four suits induces a bijection of the suits *)
Definition perm_ok (p : list N) : bool :=
  forallb (fun s => (relabel_suit p s <? 4)
                    && forallb (fun t => negb (relabel_suit p s =? relabel_suit p t) || (s =? t)) (N_range 4)) (N_range 4).
Lemma perms_ok : forallb perm_ok PERM4 = true.
Proof. vm_compute. reflexivity. Qed.

Lemma perm_facts p : In p PERM4 -> suit_bijection (relabel_suit p).
Proof.
  intros Hp. pose proof perms_ok as H. rewrite forallb_forall in H. specialize (H p Hp). unfold perm_ok in H.
  pose proof (forallb_N_range _ _ H) as K. cbv beta in K.
  split.
  - intros s Hs. specialize (K s Hs). rewrite !andb_true_iff in K. apply N.ltb_lt. tauto.
  - intros s t Hs Ht E. specialize (K s Hs). rewrite !andb_true_iff in K. destruct K as [_ K].
    pose proof (forallb_N_range _ _ K t Ht) as K2. cbv beta in K2. rewrite E, N.eqb_refl in K2.
    cbn [negb orb] in K2. apply N.eqb_eq, K2.
Qed.

(* the projection's relabelling is C08's [relabel], by definition of both *)
Lemma relabel_hand_is_relabel p ws : relabel_hand p ws = map (relabel (relabel_suit p)) ws.
Proof. reflexivity. Qed.

Lemma proj_relabel_const chk n ws :
  (n = 5 \/ n = 6 \/ n = 7)%nat -> HandN n ws -> proj_relabel chk ws = Ok [true; true].
Proof.
  intros Hn H. destruct (shift_value chk n ws Hn H) as (v & E0 & _).
  unfold proj_relabel. rewrite (validated_real chk n ws H), E0.
  assert (A : forall p, In p PERM4 -> hand_rank_value chk (relabel_hand p ws) = Ok v /\
                                     hand_rank_value_validated chk (relabel_hand p ws) = Ok v).
  { intros p Hp. rewrite (relabel_hand_is_relabel p ws).
    pose proof (perm_facts p Hp) as Hb.
    rewrite (validated_real chk n _ (relabel_handN _ n ws Hb H)), (relabel_same chk _ n ws Hb Hn H).
    split; exact E0. }
  assert (B1 : forallb (fun p => ok_is (hand_rank_value chk (relabel_hand p ws)) v) PERM4 = true).
  { apply forallb_forall. intros p Hp. rewrite (proj1 (A p Hp)). apply N.eqb_refl. }
  assert (B2 : forallb (fun p => ok_is (hand_rank_value_validated chk (relabel_hand p ws)) v) PERM4 = true).
  { apply forallb_forall. intros p Hp. rewrite (proj2 (A p Hp)). apply N.eqb_refl. }
  rewrite B1, B2. reflexivity.
Qed.
