(* The `rankp` projection (Model/Proj.v) is constant on card-or-blank slots of the three ranking sizes:
   every entry point returns normally (C05's totality lemma). *)
From CKC Require Import Base.Prelude Spec.Layout.
From CKC Require Import Model.Five Model.HandRank Model.Proj Proofs.Total.
Open Scope N_scope.

Lemma proj_rankp_const chk n ws :
  (n = 5 \/ n = 6 \/ n = 7)%nat -> Slots n ws ->
  proj_rankp chk ws = [true; true; true; true; true] ++ (if Nat.eqb n 5 then [true] else []).
Proof.
  intros Hn HS. destruct (rank_total chk n ws Hn HS) as ((v & h & A) & (v1 & B) & (r1 & C) & (v2 & D) & (r2 & E) & F).
  unfold proj_rankp. rewrite C, E, D, B, A. destruct HS as [HL _]. rewrite HL. cbn [is_ok].
  destruct (Nat.eqb_spec n 5) as [E5|_]; [|reflexivity].
  destruct (F E5) as [v3 G]. rewrite G. reflexivity.
Qed.
