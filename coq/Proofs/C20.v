(* C20 — multiples flags leave card fields intact, strip cleanly, and dominate order.

   [mark m w := N.lor w m] for m one of the 8 ORs of CN_PAIR, CN_TRIPS, CN_QUADS ([MARKS]); the
   model functions flag_as_pair / flag_as_trips / flag_as_quads are [mark] with the three
   constants, and any sequence of them is [mark m] for some m in [MARKS] ([flags_seq]).
   Proof structure: finite facts about the 8 mark words and the three accessor masks by reflection
   ([marks_facts]); everything about cards is GENERAL from [w < 2^29] (for the 52 cards:
   Proofs/CardFacts.v [acc_ok]) plus bit lemmas — no sweep over 52 x 8 (x 52 x 8).
   The accessor clause is proved for ALL words w, not only cards: every accessor of the Rust code
   masks with RANK_FLAG_FILTER (bits 16-28), SUIT_FILTER (bits 12-15) or RANK_PRIME_FILTER
   (bits 0-5), none of which overlaps bits 29-31. *)
From CKC Require Import Base.Prelude Base.Reflect Spec.Layout Model.Card Proofs.CardBase Proofs.C11.
From CKC Require Import Gen.Consts.
Open Scope N_scope.

Definition MARKS : list N :=
  [ 0; CN_PAIR; CN_TRIPS; N.lor CN_PAIR CN_TRIPS; CN_QUADS; N.lor CN_PAIR CN_QUADS;
    N.lor CN_TRIPS CN_QUADS; N.lor (N.lor CN_PAIR CN_TRIPS) CN_QUADS ].
Definition mark (m w : N) : N := N.lor w m.

(* the highest mark carried by m: 3 = quads, 2 = trips, 1 = pair, 0 = none *)
Definition mark_level (m : N) : N :=
  if N.testbit m 31 then 3 else if N.testbit m 30 then 2 else if N.testbit m 29 then 1 else 0.

(* ---- the documented constants ------------------------------------------------------------------- *)
Lemma constants_ok :
  CN_PAIR = 2 ^ 29 /\ CN_TRIPS = 2 ^ 30 /\ CN_QUADS = 2 ^ 31 /\ CN_MULTIPLES_FILTER = 2 ^ 29 - 1 /\
  NoDup MARKS /\ length MARKS = 8%nat /\
  mark_level CN_PAIR = 1 /\ mark_level CN_TRIPS = 2 /\ mark_level CN_QUADS = 3.
Proof.
  repeat split; try (vm_compute; reflexivity). apply nodupb_NoDup. vm_compute. reflexivity.
Qed.

Lemma flags_are_marks w :
  flag_as_pair w = mark CN_PAIR w /\ flag_as_trips w = mark CN_TRIPS w /\ flag_as_quads w = mark CN_QUADS w /\
  In CN_PAIR MARKS /\ In CN_TRIPS MARKS /\ In CN_QUADS MARKS /\ mark 0 w = w.
Proof.
  repeat split; try (cbn [MARKS In]; tauto). unfold mark. apply N.lor_0_r.
Qed.

(* ---- finite facts about the 8 mark words ---------------------------------------------------------- *)
Definition mark_okb (m : N) : bool :=
  (m =? N.shiftr m 29 * 2 ^ 29) && (N.shiftr m 29 <? 8) && (m <=? 7 * 2 ^ 29)
  && (N.land m CN_RANK_FLAG_FILTER =? 0) && (N.land m CN_SUIT_FILTER =? 0)
  && (N.land m CN_RANK_PRIME_FILTER =? 0)
  && ((m =? 0) || (2 ^ 29 <=? m)).

Lemma marks_facts m : In m MARKS ->
  m = N.shiftr m 29 * 2 ^ 29 /\ N.shiftr m 29 < 8 /\ m <= 7 * 2 ^ 29 /\
  N.land m CN_RANK_FLAG_FILTER = 0 /\ N.land m CN_SUIT_FILTER = 0 /\ N.land m CN_RANK_PRIME_FILTER = 0 /\
  (m = 0 \/ 2 ^ 29 <= m).
Proof.
  intros H.
  assert (Hall : forallb mark_okb MARKS = true) by (vm_compute; reflexivity).
  rewrite forallb_forall in Hall. specialize (Hall m H). unfold mark_okb in Hall.
  repeat (apply andb_true_iff in Hall; destruct Hall as [Hall ?]).
  rewrite ?N.eqb_eq, ?N.ltb_lt, ?N.leb_le in *.
  repeat split; try assumption.
  match goal with Ho : (_ || _) = true |- _ => apply orb_true_iff in Ho; destruct Ho as [Ho|Ho] end.
  - left. apply N.eqb_eq. assumption.
  - right. apply N.leb_le. assumption.
Qed.

Lemma marks_closed m1 m2 : In m1 MARKS -> In m2 MARKS -> In (N.lor m1 m2) MARKS.
Proof.
  intros H1 H2. apply memN_In.
  assert (Hall : forallb (fun a => forallb (fun b => memN (N.lor a b) MARKS) MARKS) MARKS = true)
    by (vm_compute; reflexivity).
  rewrite forallb_forall in Hall. specialize (Hall m1 H1). cbv beta in Hall.
  rewrite forallb_forall in Hall. exact (Hall m2 H2).
Qed.

Lemma marks_levels m m' : In m MARKS -> In m' MARKS ->
  mark_level m' < mark_level m -> m' + 2 ^ 29 <= m.
Proof.
  intros H H' L.
  assert (Hall : forallb (fun a => forallb (fun b =>
                    negb (mark_level b <? mark_level a) || (b + 2 ^ 29 <=? a)) MARKS) MARKS = true)
    by (vm_compute; reflexivity).
  rewrite forallb_forall in Hall. specialize (Hall m H). cbv beta in Hall.
  rewrite forallb_forall in Hall. specialize (Hall m' H').
  apply N.ltb_lt in L. rewrite L in Hall. cbn [negb orb] in Hall. apply N.leb_le, Hall.
Qed.

Lemma mark_level_zero m : In m MARKS -> (mark_level m = 0 <-> m = 0).
Proof.
  intros H.
  assert (Hall : forallb (fun a => Bool.eqb (mark_level a =? 0) (a =? 0)) MARKS = true)
    by (vm_compute; reflexivity).
  rewrite forallb_forall in Hall. specialize (Hall m H). apply Bool.eqb_prop in Hall.
  rewrite <- !N.eqb_eq, Hall. reflexivity.
Qed.

(* ---- composition: any sequence of flag_as_* calls is one [mark m] -------------------------------- *)
Lemma mark_mark m1 m2 w : mark m1 (mark m2 w) = mark (N.lor m2 m1) w.
Proof. unfold mark. symmetry. apply N.lor_assoc. Qed.

Lemma mark_idem m w : mark m (mark m w) = mark m w.
Proof. rewrite mark_mark, N.lor_diag. reflexivity. Qed.

Lemma mark_comm m1 m2 w : mark m1 (mark m2 w) = mark m2 (mark m1 w).
Proof. rewrite !mark_mark, N.lor_comm. reflexivity. Qed.

Lemma flags_seq (fs : list N) w :
  Forall (fun f => f = CN_PAIR \/ f = CN_TRIPS \/ f = CN_QUADS) fs ->
  exists m, In m MARKS /\ fold_left (fun x f => mark f x) fs w = mark m w.
Proof.
  intros HF.
  assert (G : forall m0, In m0 MARKS ->
              exists m, In m MARKS /\ fold_left (fun x f => mark f x) fs (mark m0 w) = mark m w).
  { induction HF as [|f r Hf _ IH]; intros m0 H0; cbn [fold_left].
    - exists m0. split; [exact H0 | reflexivity].
    - rewrite mark_mark. apply IH. apply marks_closed; [exact H0|].
      destruct (flags_are_marks 0) as (_ & _ & _ & Hp & Ht & Hq & _).
      destruct Hf as [->|[->| ->]]; assumption. }
  destruct (flags_are_marks w) as (_ & _ & _ & _ & _ & _ & E0).
  destruct (G 0 (or_introl eq_refl)) as (m & Hm & E). rewrite E0 in E.
  exists m. split; [exact Hm | exact E].
Qed.

Lemma idempotent w :
  flag_as_pair (flag_as_pair w) = flag_as_pair w /\
  flag_as_trips (flag_as_trips w) = flag_as_trips w /\
  flag_as_quads (flag_as_quads w) = flag_as_quads w /\
  forall m, mark m (mark m w) = mark m w.
Proof.
  repeat split; try apply (mark_idem _ w). intros m. apply mark_idem.
Qed.

(* ---- only bits 29-31 differ ----------------------------------------------------------------------- *)
Lemma land_low_id w : w < 2 ^ 29 -> N.land w (2 ^ 29 - 1) = w.
Proof.
  intros H. replace (2 ^ 29 - 1) with (N.ones 29) by (vm_compute; reflexivity).
  rewrite N.land_ones. apply N.mod_small, H.
Qed.

Lemma mark_land_low m : In m MARKS -> N.land m (2 ^ 29 - 1) = 0.
Proof.
  intros H. destruct (marks_facts m H) as (E & _).
  rewrite E, land_mul_pow2_small; [reflexivity|]. lia.
Qed.

Lemma mark_low_bits m w : In m MARKS -> w < 2 ^ 29 -> N.land (mark m w) (2 ^ 29 - 1) = w.
Proof.
  intros Hm Hw. unfold mark.
  rewrite N.land_lor_distr_l, (land_low_id w Hw), (mark_land_low m Hm). apply N.lor_0_r.
Qed.

Lemma mark_high_bits m w : w < 2 ^ 29 -> N.shiftr (mark m w) 29 = N.shiftr m 29.
Proof.
  intros Hw. unfold mark. rewrite N.shiftr_lor, (N.shiftr_div_pow2 w), (N.div_small _ _ Hw).
  apply N.lor_0_l.
Qed.

Lemma mark_testbit_low m w i : In m MARKS -> i < 29 -> N.testbit (mark m w) i = N.testbit w i.
Proof.
  intros Hm Hi. unfold mark. rewrite N.lor_spec.
  destruct (marks_facts m Hm) as (E & _). rewrite E, (N.mul_pow2_bits_low _ _ _ Hi). apply orb_false_r.
Qed.

Lemma mark_add m w : In m MARKS -> w < 2 ^ 29 -> mark m w = w + m.
Proof.
  intros Hm Hw. unfold mark. apply lor_disjoint_add.
  destruct (marks_facts m Hm) as (E & _). rewrite E, N.land_comm. apply land_mul_pow2_small, Hw.
Qed.

Lemma mark_u32 m w : In m MARKS -> w < 2 ^ 29 -> mark m w < 2 ^ 32.
Proof.
  intros Hm Hw. rewrite (mark_add m w Hm Hw). destruct (marks_facts m Hm) as (_ & _ & Hle & _). lia.
Qed.

(* ---- stripping -------------------------------------------------------------------------------------- *)
Lemma strip_mark m w : In m MARKS -> w < 2 ^ 29 -> strip_multiples_flags (mark m w) = w.
Proof.
  intros Hm Hw. unfold strip_multiples_flags.
  replace CN_MULTIPLES_FILTER with (2 ^ 29 - 1) by (vm_compute; reflexivity).
  rewrite N.land_comm. apply mark_low_bits; assumption.
Qed.

(* for ANY word: stripping forgets the marks *)
Lemma strip_mark_any m w : In m MARKS -> strip_multiples_flags (mark m w) = strip_multiples_flags w.
Proof.
  intros Hm. unfold strip_multiples_flags, mark.
  replace CN_MULTIPLES_FILTER with (2 ^ 29 - 1) by (vm_compute; reflexivity).
  rewrite !(N.land_comm (2 ^ 29 - 1)), N.land_lor_distr_l, (mark_land_low m Hm). apply N.lor_0_r.
Qed.

(* ---- accessors: for ALL words ----------------------------------------------------------------------- *)
Lemma masked_same m w filt : N.land m filt = 0 -> N.land (mark m w) filt = N.land w filt.
Proof. intros H. unfold mark. rewrite N.land_lor_distr_l, H. apply N.lor_0_r. Qed.

Lemma fields_same m w : In m MARKS ->
  get_rank_flag (mark m w) = get_rank_flag w /\
  get_suit_flag (mark m w) = get_suit_flag w /\
  get_rank_prime (mark m w) = get_rank_prime w.
Proof.
  intros Hm. destruct (marks_facts m Hm) as (_ & _ & _ & H1 & H2 & H3 & _).
  unfold get_rank_flag, get_suit_flag, get_rank_prime. repeat split; apply masked_same; assumption.
Qed.

Lemma accessors_same m w : In m MARKS ->
  get_card_rank (mark m w) = get_card_rank w /\
  get_card_suit (mark m w) = get_card_suit w /\
  get_rank_prime (mark m w) = get_rank_prime w /\
  get_rank_char (mark m w) = get_rank_char w /\
  get_suit_char (mark m w) = get_suit_char w /\
  get_suit_letter (mark m w) = get_suit_letter w /\
  get_rank_flag (mark m w) = get_rank_flag w /\
  get_rank_bit (mark m w) = get_rank_bit w /\
  get_suit_flag (mark m w) = get_suit_flag w /\
  get_suit_bit (mark m w) = get_suit_bit w /\
  get_chen_points_x2 (mark m w) = get_chen_points_x2 w /\
  next_suit (mark m w) = next_suit w /\
  shift_suit (mark m w) = shift_suit w.
Proof.
  intros Hm. destruct (fields_same m w Hm) as (H1 & H2 & H3).
  assert (Hrb : get_rank_bit (mark m w) = get_rank_bit w) by (unfold get_rank_bit; now rewrite H1).
  assert (Hsb : get_suit_bit (mark m w) = get_suit_bit w) by (unfold get_suit_bit; now rewrite H2).
  assert (Hcr : get_card_rank (mark m w) = get_card_rank w) by (unfold get_card_rank; now rewrite Hrb).
  assert (Hns : next_suit (mark m w) = next_suit w) by (unfold next_suit; now rewrite Hsb).
  unfold get_card_suit, get_rank_char, get_suit_char, get_suit_letter, get_chen_points_x2, shift_suit.
  rewrite Hrb, Hsb, Hcr, Hns. repeat split; assumption.
Qed.

(* is_blank does NOT mask (it compares the whole word with 0); on cards it reads the same *)
Lemma is_blank_same m w : w <> 0 -> is_blank (mark m w) = is_blank w.
Proof.
  intros Hw. unfold is_blank, mark. replace CN_BLANK with 0 by reflexivity.
  destruct (N.eqb_spec (N.lor w m) 0) as [E|E], (N.eqb_spec w 0) as [E'|E']; try reflexivity; try contradiction.
  apply N.lor_eq_0_l in E. contradiction.
Qed.

(* ---- the 52 cards -------------------------------------------------------------------------------------- *)
(* layout_small : layout r s < 2^29 is in Proofs/CardBase.v *)

Lemma card_bits r s m : r < 13 -> s < 4 -> In m MARKS ->
  let w := layout r s in
  N.land (mark m w) (2 ^ 29 - 1) = w /\ N.shiftr (mark m w) 29 = N.shiftr m 29 /\
  (forall i, i < 29 -> N.testbit (mark m w) i = N.testbit w i) /\
  mark m w = w + m /\ mark m w < 2 ^ 32.
Proof.
  intros Hr Hs Hm w. pose proof (layout_small r s Hr Hs) as Hw. fold w in Hw.
  repeat split.
  - apply mark_low_bits; assumption.
  - apply mark_high_bits; assumption.
  - intros i Hi. apply mark_testbit_low; assumption.
  - apply mark_add; assumption.
  - apply mark_u32; assumption.
Qed.

Lemma card_accessors r s m : r < 13 -> s < 4 -> In m MARKS ->
  let w := layout r s in
  get_card_rank (mark m w) = get_card_rank w /\
  get_card_suit (mark m w) = get_card_suit w /\
  get_rank_prime (mark m w) = get_rank_prime w /\
  get_rank_char (mark m w) = get_rank_char w /\
  get_suit_char (mark m w) = get_suit_char w /\
  get_suit_letter (mark m w) = get_suit_letter w /\
  get_rank_flag (mark m w) = get_rank_flag w /\
  get_rank_bit (mark m w) = get_rank_bit w /\
  get_suit_flag (mark m w) = get_suit_flag w /\
  get_suit_bit (mark m w) = get_suit_bit w /\
  get_chen_points_x2 (mark m w) = get_chen_points_x2 w /\
  next_suit (mark m w) = next_suit w /\
  shift_suit (mark m w) = shift_suit w /\
  is_blank (mark m w) = is_blank w.
Proof.
  intros Hr Hs Hm w.
  destruct (accessors_same m w Hm) as (H1 & H2 & H3 & H4 & H5 & H6 & H7 & H8 & H9 & H10 & H11 & H12 & H13).
  repeat split; try assumption. apply is_blank_same. apply layout_nonzero; assumption.
Qed.



Lemma card_strip r s m : r < 13 -> s < 4 -> In m MARKS ->
  strip_multiples_flags (mark m (layout r s)) = layout r s.
Proof. intros Hr Hs Hm. apply strip_mark; [exact Hm | apply layout_small; assumption]. Qed.

(* ---- order ------------------------------------------------------------------------------------------------ *)
Lemma order_general m m' c c' :
  In m MARKS -> In m' MARKS -> c < 2 ^ 29 -> c' < 2 ^ 29 ->
  mark_level m' < mark_level m -> mark m' c' < mark m c.
Proof.
  intros Hm Hm' Hc Hc' L. rewrite (mark_add m c Hm Hc), (mark_add m' c' Hm' Hc').
  pose proof (marks_levels m m' Hm Hm' L). lia.
Qed.

Lemma order_marked_unmarked m c c' :
  In m MARKS -> m <> 0 -> c < 2 ^ 29 -> c' < 2 ^ 29 -> c' < mark m c.
Proof.
  intros Hm Hne Hc Hc'. rewrite (mark_add m c Hm Hc).
  destruct (marks_facts m Hm) as (_ & _ & _ & _ & _ & _ & [H|H]); [contradiction | lia].
Qed.

Lemma card_order r s r' s' m m' :
  r < 13 -> s < 4 -> r' < 13 -> s' < 4 -> In m MARKS -> In m' MARKS ->
  (m <> 0 -> layout r' s' < mark m (layout r s)) /\
  (mark_level m' < mark_level m -> mark m' (layout r' s') < mark m (layout r s)).
Proof.
  intros Hr Hs Hr' Hs' Hm Hm'.
  pose proof (layout_small r s Hr Hs). pose proof (layout_small r' s' Hr' Hs').
  split; [intros Hne; now apply order_marked_unmarked | intros L; now apply order_general].
Qed.

(* same marks: the order of the cards decides (rank, then suit) *)
Lemma card_order_same_marks r s r' s' m :
  r < 13 -> s < 4 -> r' < 13 -> s' < 4 -> In m MARKS ->
  (mark m (layout r s) < mark m (layout r' s') <-> layout r s < layout r' s').
Proof.
  intros Hr Hs Hr' Hs' Hm.
  rewrite (mark_add m _ Hm (layout_small r s Hr Hs)), (mark_add m _ Hm (layout_small r' s' Hr' Hs')). lia.
Qed.


