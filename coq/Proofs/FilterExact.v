(* The implementation's card filter, EXACTLY: over all 2^32 words (complete regenerated graph) it passes the 52
   layout words and maps every other word to blank. *)
From Coq Require Import String.
From CKC Require Import Base.Prelude Base.Reflect Spec.Layout Model.Card.
From CKC Require Import Gen.Consts Gen.Enums Gen.Maps Gen.Scan Gen.Decks.
Open Scope N_scope.

From CKC Require Import Proofs.CardBase.

Lemma filter_spec w : filter w = if real_cardb w then w else 0.
Proof.
  unfold filter, real_cardb.
  assert (Hg : FILTER_NONBLANK = map (fun c => (c, c)) (map fst FILTER_NONBLANK))
    by (vm_compute; reflexivity).
  rewrite Hg, assoc_diag.
  rewrite (memN_ext (map fst FILTER_NONBLANK) SPEC_DECK
             ltac:(vm_compute; reflexivity) ltac:(vm_compute; reflexivity) w).
  reflexivity.
Qed.

Lemma filter_not_real w : ~ RealCard w -> filter w = 0.
Proof.
  intros H. rewrite filter_spec. destruct (real_cardb w) eqn:E; [|reflexivity].
  apply real_cardb_spec in E. contradiction.
Qed.

Lemma filter_real' w : RealCard w -> filter w = w.
Proof. intros H. rewrite filter_spec. apply real_cardb_spec in H. now rewrite H. Qed.

Lemma filter_zero_iff w : filter w = 0 <-> ~ RealCard w.
Proof.
  split.
  - intros H Hr. rewrite (filter_real' _ Hr) in H. exact (RealCard_nonzero _ Hr H).
  - apply filter_not_real.
Qed.
