(* Validity of hands, the half that ranking needs: distinct real cards form a valid hand. Uses only that the
   implementation's filter passes the 52 cards (Proofs/FilterReal.v), not that it rejects everything else. Also
   the uniqueness tests as written, which are pure logic. *)
From Coq Require Import Sorting.Permutation.
From CKC Require Import Base.Prelude Base.Reflect Base.SortN Spec.Layout.
From CKC Require Import Model.Card Model.Hands Proofs.CardBase Proofs.FilterReal Proofs.SortFacts.
From CKC Require Import Gen.Consts.
Open Scope N_scope.

Lemma contain_blank_spec ws : contain_blank ws = true <-> In 0 ws.
Proof.
  unfold contain_blank. change CN_BLANK with 0. rewrite existsb_exists. split.
  - intros [x [Hx He]]. apply N.eqb_eq in He. now subst.
  - intros H. exists 0. split; [exact H | reflexivity].
Qed.

(* sizes 2..5: the test as written computes the boolean NoDup *)
Lemma are_unique_small_nodupb ws : (2 <= length ws <= 5)%nat -> are_unique ws = nodupb ws.
Proof.
  intros H.
  destruct ws as [|a [|b [|c [|d [|e [|f ws]]]]]]; cbn [length] in H; try lia;
    unfold are_unique; cbn [length].
  - unfold are_unique2, neq. cbn [nodupb memN existsb].
    destruct (a =? b); reflexivity.
  - unfold are_unique3, neq. cbn [nodupb memN existsb].
    destruct (a =? b), (a =? c), (b =? c); reflexivity.
  - unfold are_unique4, neq. cbn [nodupb memN existsb].
    destruct (a =? b), (a =? c), (a =? d), (b =? c), (b =? d), (c =? d); reflexivity.
  - unfold are_unique5. cbn [existsb nth skipn Nat.sub nodupb].
    destruct (memN a [b; c; d; e]), (memN b [c; d; e]), (memN c [d; e]), (memN d [e]);
      reflexivity.
Qed.

(* sizes 2..5: pairwise clauses / windowed contains, for ANY words *)
Lemma are_unique_small ws : (2 <= length ws <= 5)%nat -> (are_unique ws = true <-> NoDup ws).
Proof. intros H. rewrite (are_unique_small_nodupb ws H). apply nodupb_NoDup. Qed.

(* every other size: sort descending and scan from the sentinel u32::MAX *)
Lemma are_unique_big ws :
  (length ws < 2 \/ 6 <= length ws)%nat ->
  (are_unique ws = true <-> NoDup ws /\ Forall (fun x => x < U32MAX) ws).
Proof.
  intros H.
  assert (E : are_unique ws = are_unique_sorted ws).
  { destruct ws as [|a [|b [|c [|d [|e [|f ws]]]]]]; cbn [length] in H; try lia;
      unfold are_unique; cbn [length]; reflexivity. }
  rewrite E. unfold are_unique_sorted. apply strictly_desc_sort_spec.
Qed.

Lemma not_corrupt_real ws : Forall RealCard ws -> is_corrupt ws = false.
Proof.
  unfold is_corrupt. change CN_BLANK with 0. induction 1 as [|c ws Hc _ IH]; cbn [existsb]; [reflexivity|].
  rewrite IH, (filter_real c Hc), orb_false_r. apply N.eqb_neq. apply RealCard_nonzero, Hc.
Qed.

Lemma are_unique_real ws : Forall RealCard ws -> NoDup ws -> are_unique ws = true.
Proof.
  intros HR HN.
  destruct (le_lt_dec 2 (length ws)) as [H2|H2]; [destruct (le_lt_dec (length ws) 5) as [H5|H5]|].
  - apply (are_unique_small ws (conj H2 H5)), HN.
  - apply (are_unique_big ws (or_intror H5)). split; [exact HN|].
    eapply Forall_impl; [|exact HR]. intros x Hx. apply RealCard_small in Hx.
    unfold U32MAX. assert (2 ^ 29 = 536870912) by reflexivity. lia.
  - apply (are_unique_big ws (or_introl H2)). split; [exact HN|].
    eapply Forall_impl; [|exact HR]. intros x Hx. apply RealCard_small in Hx.
    unfold U32MAX. assert (2 ^ 29 = 536870912) by reflexivity. lia.
Qed.

(* distinct real cards form a valid hand *)
Lemma is_valid_real ws : Forall RealCard ws -> NoDup ws -> is_valid ws = true.
Proof. intros HR HN. unfold is_valid. now rewrite (are_unique_real ws HR HN), (not_corrupt_real ws HR). Qed.
