(* List facts about the executable helpers of Model/Proj.v. Depends on Base and Model/Proj.v only
   (no other Proofs file), so every ProjCxx.v can use it without widening its property's dependencies. *)
From Coq Require Import Sorting.Sorted.
From CKC Require Import Base.Prelude Base.Reflect Base.SortN Model.Five Model.Proj.
Open Scope N_scope.

Lemma noninc_descb l : noninc l -> descb l = true.
Proof.
  unfold noninc. induction 1 as [|a l HS IH HF]; [reflexivity|].
  destruct l as [|b r]; [reflexivity|].
  change (descb (a :: b :: r)) with ((b <=? a) && descb (b :: r)). rewrite IH, andb_true_r.
  apply N.leb_le. inversion HF; subst. assumption.
Qed.

(* ---- minimum ------------------------------------------------------------------------------------ *)
Lemma fold_min_le' r : forall x, fold_left N.min r x <= x /\ (forall y, In y r -> fold_left N.min r x <= y).
Proof.
  induction r as [|a r IH]; intros x; cbn [fold_left]; [split; [lia | intros y []]|].
  destruct (IH (N.min x a)) as [H1 H2]. split; [lia|]. intros y [<-|Hy]; [lia | apply H2, Hy].
Qed.
Lemma fold_min_in' r : forall x, fold_left N.min r x = x \/ In (fold_left N.min r x) r.
Proof.
  induction r as [|a r IH]; intros x; cbn [fold_left]; [left; reflexivity|].
  destruct (IH (N.min x a)) as [H|H]; [|right; right; exact H].
  destruct (N.min_spec x a) as [[_ E]|[_ E]]; rewrite E in H; [left | right; left]; congruence.
Qed.
(* a member that is below every member is the minimum *)
Lemma minl_char l v : In v l -> (forall y, In y l -> v <= y) -> v = minl l.
Proof.
  intros Hin Hmin. destruct l as [|x r]; [destruct Hin|]. cbn [minl].
  destruct (fold_min_le' r x) as [H1 H2].
  assert (Hle : fold_left N.min r x <= v).
  { destruct Hin as [<-|Hin]; [exact H1 | apply H2, Hin]. }
  assert (Hge : v <= fold_left N.min r x).
  { destruct (fold_min_in' r x) as [E|E]; [rewrite E; apply Hmin; left; reflexivity | apply Hmin; right; exact E]. }
  lia.
Qed.

(* the "lowest non-zero so far" step of the `best` projection, on plain values *)
Definition stepmin (m x : N) : N := if negb (x =? 0) && ((m =? 0) || (x <? m)) then x else m.

Lemma stepmin_min m x : m <> 0 -> x <> 0 -> stepmin m x = N.min m x.
Proof.
  intros Hm Hx. unfold stepmin.
  destruct (N.eqb_spec x 0); [contradiction|]. destruct (N.eqb_spec m 0); [contradiction|]. cbn [negb andb orb].
  destruct (N.ltb_spec x m); lia.
Qed.
Lemma fold_stepmin_min vs : forall m,
  m <> 0 -> Forall (fun x => x <> 0) vs -> fold_left stepmin vs m = fold_left N.min vs m.
Proof.
  induction vs as [|x r IH]; intros m Hm HF; [reflexivity|]. inversion HF; subst. cbn [fold_left].
  rewrite (stepmin_min m x) by assumption. apply IH; [lia | assumption].
Qed.
Lemma fold_stepmin_minl vs : Forall (fun x => x <> 0) vs -> fold_left stepmin vs 0 = minl vs.
Proof.
  intros HF. destruct vs as [|x r]; [reflexivity|]. inversion HF; subst. cbn [fold_left minl].
  assert (E : stepmin 0 x = x).
  { unfold stepmin. destruct (N.eqb_spec x 0); [contradiction|]. reflexivity. }
  rewrite E. apply fold_stepmin_min; assumption.
Qed.

(* the guarded fold of the `best` projection computes the plain fold when every sub-hand ranks *)
Lemma fold_best_step5 chk fives : forall vs m,
  Forall2 (fun five v => hand_rank_value chk five = Ok v) fives vs ->
  fold_left (best_step5 chk) fives (Ok m) = Ok (fold_left stepmin vs m).
Proof.
  induction fives as [|f r IH]; intros vs m HF; inversion HF; subst; [reflexivity|].
  cbn [fold_left]. unfold best_step5 at 2. cbn [bind].
  match goal with H : hand_rank_value chk f = Ok _ |- _ => rewrite H end. cbn [bind].
  apply IH. assumption.
Qed.

(* ---- mapM --------------------------------------------------------------------------------------- *)
Lemma mapM_Forall2 {A B} (f : A -> res B) (P : A -> B -> Prop) (l : list A) :
  (forall a, In a l -> exists b, f a = Ok b /\ P a b) ->
  exists bs, mapM f l = Ok bs /\ Forall2 P l bs.
Proof.
  induction l as [|a r IH]; intros H.
  - exists []. split; [reflexivity | constructor].
  - destruct (H a (or_introl eq_refl)) as (b & Eb & Pb).
    destruct IH as (bs & Ebs & Pbs); [intros x Hx; apply H; right; exact Hx|].
    exists (b :: bs). split; [|constructor; assumption].
    cbn [mapM]. rewrite Eb. cbn [bind]. rewrite Ebs. reflexivity.
Qed.

Lemma mapM_Ok_Forall2 {A B} (f : A -> res B) (l : list A) : forall bs,
  mapM f l = Ok bs -> Forall2 (fun a b => f a = Ok b) l bs.
Proof.
  induction l as [|a r IH]; intros bs E; cbn [mapM] in E.
  - injection E as <-. constructor.
  - destruct (f a) as [w| |] eqn:Ea; cbn [bind] in E; try discriminate E.
    destruct (mapM f r) as [ws'| |] eqn:Er; cbn [bind] in E; try discriminate E.
    injection E as <-. constructor; [exact Ea | apply IH; reflexivity].
Qed.

Lemma Forall2_map_fun {A B} (R : A -> B -> Prop) (f : A -> B) (l : list A) :
  (forall a, In a l -> R a (f a)) -> Forall2 R l (map f l).
Proof.
  induction l as [|a r IH]; intros H; cbn [map]; constructor.
  - apply H. left. reflexivity.
  - apply IH. intros x Hx. apply H. right. exact Hx.
Qed.
