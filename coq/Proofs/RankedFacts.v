(* The hand classes ranked by score, and the ordinal as a position in that list. *)
From Coq Require Import Sorting.Permutation Sorting.Sorted Sorting.Mergesort Orders.
From CKC Require Import Base.Prelude Base.Reflect Base.SortN Spec.Layout Spec.Poker Proofs.SortFacts.
Open Scope N_scope.

(* ---- the classes ranked by score ---------------------------------------------------------------- *)
Module ScoreOrder <: TotalLeBool.
  Definition t := (N * shape)%type.
  Definition leb (a b : t) := fst b <=? fst a.     (* descending by score *)
  Theorem leb_total : forall a1 a2, leb a1 a2 = true \/ leb a2 a1 = true.
  Proof.
    intros a b. unfold leb. destruct (N.leb_spec (fst b) (fst a)); [left; reflexivity|right].
    apply N.leb_le. lia.
  Qed.
End ScoreOrder.
Module ScoreSort := Sort ScoreOrder.

Definition ranked : list (N * shape) := ScoreSort.sort (map (fun h => (score h, h)) all_shapes).

Fixpoint strict_desc_fst (l : list (N * shape)) : bool :=
  match l with
  | a :: ((b :: _) as r) => (fst b <? fst a) && strict_desc_fst r
  | _ => true
  end.

(* ---- auxiliary list facts ------------------------------------------------------------------------ *)
Lemma strict_desc_sorted l :
  strict_desc_fst l = true -> StronglySorted (fun a b : N * shape => fst b < fst a) l.
Proof.
  intro H. apply Sorted_StronglySorted.
  - intros a b c Hab Hbc. lia.
  - induction l as [|a l IH]; [constructor|].
    destruct l as [|b r].
    + constructor; constructor.
    + change (strict_desc_fst (a :: b :: r))
        with ((fst b <? fst a) && strict_desc_fst (b :: r)) in H.
      apply andb_true_iff in H. destruct H as [H1 H2].
      constructor; [apply IH; exact H2|]. constructor. apply N.ltb_lt; exact H1.
Qed.

Lemma filter_perm_length {A} (p : A -> bool) l l' :
  Permutation l l' -> length (List.filter p l) = length (List.filter p l').
Proof.
  induction 1; cbn [List.filter]; auto.
  - destruct (p x); cbn [length]; congruence.
  - destruct (p x), (p y); reflexivity.
  - congruence.
Qed.

Lemma filter_map_length (f : N -> bool) (l : list shape) :
  length (List.filter (fun p => f (fst p)) (map (fun h => (score h, h)) l))
  = length (List.filter (fun h => f (score h)) l).
Proof.
  induction l as [|a l IH]; cbn [map List.filter fst]; [reflexivity|].
  destruct (f (score a)); cbn [length]; congruence.
Qed.

Lemma SS_app {A} (R : A -> A -> Prop) l1 l2 :
  StronglySorted R (l1 ++ l2) -> forall a b, In a l1 -> In b l2 -> R a b.
Proof.
  induction l1 as [|x l1 IH]; intros H a b Ha Hb; [destruct Ha|].
  cbn [app] in H. inversion H as [|? ? Hs Hf]; subst. destruct Ha as [<-|Ha].
  - rewrite Forall_forall in Hf. apply Hf. apply in_or_app; right; exact Hb.
  - eapply IH; eauto.
Qed.

Lemma filter_all {A} (p : A -> bool) l :
  (forall a, In a l -> p a = true) -> List.filter p l = l.
Proof.
  induction l as [|x l IH]; intro H; cbn [List.filter]; [reflexivity|].
  rewrite (H x (or_introl eq_refl)). f_equal. apply IH. intros a Ha. apply H. right; exact Ha.
Qed.

Lemma filter_none {A} (p : A -> bool) l :
  (forall a, In a l -> p a = false) -> List.filter p l = [].
Proof.
  induction l as [|x l IH]; intro H; cbn [List.filter]; [reflexivity|].
  rewrite (H x (or_introl eq_refl)). apply IH. intros a Ha. apply H. right; exact Ha.
Qed.

Lemma filter_pre pre x post :
  StronglySorted (fun a b : N * shape => fst b < fst a) (pre ++ x :: post) ->
  List.filter (fun p => fst x <? fst p) (pre ++ x :: post) = pre.
Proof.
  intro SS. rewrite filter_app.
  assert (H1 : List.filter (fun p => fst x <? fst p) pre = pre).
  { apply filter_all. intros a Ha. apply N.ltb_lt.
    apply (SS_app _ _ _ SS a x Ha). left; reflexivity. }
  assert (H2 : List.filter (fun p => fst x <? fst p) (x :: post) = []).
  { apply filter_none. intros a [<-|Ha]; [apply N.ltb_irrefl|].
    apply N.ltb_ge. apply N.lt_le_incl.
    change (x :: post) with ([x] ++ post) in SS. rewrite app_assoc in SS.
    apply (SS_app _ _ _ SS x a); [|exact Ha]. apply in_or_app; right; left; reflexivity. }
  rewrite H1, H2. apply app_nil_r.
Qed.

Lemma filter_length_le {A} (p1 p2 : A -> bool) l :
  (forall k, p1 k = true -> p2 k = true) ->
  (length (List.filter p1 l) <= length (List.filter p2 l))%nat.
Proof.
  intro Himp. induction l as [|a l IH]; cbn [List.filter]; [apply le_n|].
  destruct (p1 a) eqn:E1.
  - rewrite (Himp a E1). cbn [length]. lia.
  - destruct (p2 a); cbn [length]; lia.
Qed.

Lemma filter_length_lt {A} (p1 p2 : A -> bool) l c :
  (forall k, p1 k = true -> p2 k = true) -> In c l -> p2 c = true -> p1 c = false ->
  (length (List.filter p1 l) < length (List.filter p2 l))%nat.
Proof.
  intros Himp Hin Hc2 Hc1. induction l as [|a l IH]; [destruct Hin|].
  cbn [List.filter]. destruct Hin as [->|Hin].
  - rewrite Hc1, Hc2. cbn [length]. pose proof (filter_length_le p1 p2 l Himp). lia.
  - specialize (IH Hin). destruct (p1 a) eqn:E1.
    + rewrite (Himp a E1). cbn [length]. lia.
    + destruct (p2 a); cbn [length]; lia.
Qed.

(* ---- the ranked list --------------------------------------------------------------------------- *)
Lemma ranked_perm : Permutation ranked (map (fun h => (score h, h)) all_shapes).
Proof. unfold ranked. apply Permutation_sym. apply ScoreSort.Permuted_sort. Qed.

Lemma ranked_score p : In p ranked -> fst p = score (snd p) /\ In (snd p) all_shapes.
Proof.
  intro H. apply (Permutation_in _ ranked_perm) in H. apply in_map_iff in H.
  destruct H as [h [<- Hin]]. cbn [fst snd]. split; [reflexivity|exact Hin].
Qed.

Lemma in_ranked h : In h all_shapes -> In (score h, h) ranked.
Proof.
  intro H. apply (Permutation_in _ (Permutation_sym ranked_perm)).
  exact (in_map (fun h => (score h, h)) _ _ H).
Qed.

(* closed computation on the spec: 7462 classes, scores strictly decreasing *)
Lemma ranked_strict : strict_desc_fst ranked = true.
Proof. vm_cast_no_check (eq_refl true). Qed.

Lemma ranked_length : length ranked = 7462%nat.
Proof. vm_compute. reflexivity. Qed.

Lemma ranked_length_N : N.of_nat (length ranked) = 7462.
Proof. vm_compute. reflexivity. Qed.

(* the position in the ranked list is the ordinal *)
Lemma ordinal_of_ranked pre x post :
  ranked = pre ++ x :: post -> ordinal (snd x) = 1 + N.of_nat (length pre).
Proof.
  intro E. unfold ordinal. f_equal. f_equal.
  assert (Hx : In x ranked) by (rewrite E; apply in_or_app; right; left; reflexivity).
  destruct (ranked_score _ Hx) as [Hs _].
  rewrite <- Hs.
  rewrite <- (filter_map_length (fun s => fst x <? s) all_shapes).
  rewrite <- (filter_perm_length _ _ _ ranked_perm).
  pose proof (strict_desc_sorted _ ranked_strict) as SS.
  rewrite E in SS. rewrite E. rewrite (filter_pre _ _ _ SS). reflexivity.
Qed.

(* the ordinal depends on the shape only through its score *)
Lemma ordinal_score h1 h2 : score h1 = score h2 -> ordinal h1 = ordinal h2.
Proof. intro E. unfold ordinal. rewrite E. reflexivity. Qed.

(* order isomorphism, for shapes whose class is in the list (up to rank order) *)
Lemma ordinal_lt h1 h2 :
  (exists c, In c all_shapes /\ score c = score h1) ->
  score h2 < score h1 -> ordinal h1 < ordinal h2.
Proof.
  intros [c [Hc Hs]] Hlt. unfold ordinal.
  set (p1 := fun k : shape => score h1 <? score k).
  set (p2 := fun k : shape => score h2 <? score k).
  assert (L : (length (List.filter p1 all_shapes) < length (List.filter p2 all_shapes))%nat).
  { apply (filter_length_lt _ _ _ c); [|exact Hc| |]; unfold p1, p2.
    - intros k Hk. apply N.ltb_lt in Hk. apply N.ltb_lt. lia.
    - apply N.ltb_lt. rewrite Hs. exact Hlt.
    - rewrite Hs. apply N.ltb_irrefl. }
  revert L.
  generalize (length (List.filter p1 all_shapes)).
  generalize (length (List.filter p2 all_shapes)).
  intros n m L. lia.
Qed.

Lemma ordinal_range h :
  (exists c, In c all_shapes /\ score c = score h) -> 1 <= ordinal h <= 7462.
Proof.
  intros [c [Hc Hs]]. rewrite <- (ordinal_score c h Hs).
  split.
  - unfold ordinal.
    generalize (length (List.filter (fun k => score c <? score k) all_shapes)).
    intro n. lia.
  - destruct (in_split _ _ (in_ranked c Hc)) as [pre [post E]].
    pose proof (ordinal_of_ranked _ _ _ E) as H. cbn [snd] in H. rewrite H.
    assert (L : (length pre < length ranked)%nat).
    { rewrite E, app_length. cbn [length]. lia. }
    pose proof ranked_length_N as LN. revert L LN.
    generalize (length ranked). generalize (length pre). intros n m L LN. lia.
Qed.
