(* Facts about the 52 card words that involve ONLY the documented layout (Spec/Layout.v) and the names of
   the enumeration variants: nothing here depends on the implementation's filter, accessors or tables, so
   this file compiles whatever those contain. *)
From Coq Require Import String.
From CKC Require Import Base.Prelude Base.Reflect Spec.Layout Model.Card.
From CKC Require Import Gen.Consts Gen.Enums Gen.Maps Gen.Scan Gen.Decks.
Open Scope N_scope.

(* ---- the spec deck ---------------------------------------------------------------------- *)
Lemma SPEC_DECK_length : length SPEC_DECK = 52%nat.
Proof. reflexivity. Qed.

Lemma SPEC_DECK_NoDup : NoDup SPEC_DECK.
Proof. apply nodupb_NoDup. vm_compute. reflexivity. Qed.

Lemma layout_in_deck r s : r < 13 -> s < 4 -> In (layout r s) SPEC_DECK.
Proof.
  intros Hr Hs. apply memN_In.
  exact (forallb_N_range2 (fun r s => memN (layout r s) SPEC_DECK) 13 4
           ltac:(vm_compute; reflexivity) r s Hr Hs).
Qed.

Lemma SPEC_DECK_RS_bounds r s : In (r, s) SPEC_DECK_RS -> r < 13 /\ s < 4.
Proof.
  intros H.
  assert (Hall : forallb (fun p => (fst p <? 13) && (snd p <? 4)) SPEC_DECK_RS = true)
    by (vm_compute; reflexivity).
  rewrite forallb_forall in Hall. specialize (Hall _ H). cbn [fst snd] in Hall.
  apply andb_true_iff in Hall. rewrite !N.ltb_lt in Hall. exact Hall.
Qed.

Lemma RealCard_iff w : RealCard w <-> In w SPEC_DECK.
Proof.
  split.
  - intros (r & s & Hr & Hs & ->). now apply layout_in_deck.
  - unfold SPEC_DECK. rewrite in_map_iff. intros [[r s] [<- Hin]].
    exists r, s. destruct (SPEC_DECK_RS_bounds _ _ Hin). now repeat split.
Qed.

Lemma real_cardb_spec w : real_cardb w = true <-> RealCard w.
Proof. unfold real_cardb. rewrite memN_In. symmetry. apply RealCard_iff. Qed.

(* lifting a boolean sweep over the 13 x 4 pairs *)
Lemma sweep_rs (P : N -> N -> bool) :
  forallb (fun r => forallb (P r) (N_range 4)) (N_range 13) = true ->
  forall r s, r < 13 -> s < 4 -> P r s = true.
Proof. apply forallb_N_range2. Qed.

Lemma layout_nonzero r s : r < 13 -> s < 4 -> layout r s <> 0.
Proof.
  intros Hr Hs.
  pose proof (sweep_rs (fun r s => negb (layout r s =? 0)) ltac:(vm_compute; reflexivity) r s Hr Hs) as H.
  apply negb_true_iff, N.eqb_neq in H. exact H.
Qed.

Lemma RealCard_nonzero w : RealCard w -> w <> 0.
Proof. intros (r & s & Hr & Hs & ->). now apply layout_nonzero. Qed.

Lemma layout_small r s : r < 13 -> s < 4 -> layout r s < 2 ^ 29.
Proof.
  intros Hr Hs.
  pose proof (sweep_rs (fun r s => layout r s <? 2 ^ 29) ltac:(vm_compute; reflexivity) r s Hr Hs) as H.
  apply N.ltb_lt in H. exact H.
Qed.

Lemma RealCard_small w : RealCard w -> w < 2 ^ 29.
Proof. intros (r & s & Hr & Hs & ->). now apply layout_small. Qed.

(* ---- variants and their spec meaning ---------------------------------------------------- *)
Definition spec_rank_of_variant (ri : N) : option N :=
  index_of_string (nth (N.to_nat ri) CardRank_NAMES EmptyString) RANK_ENUM_NAMES.
Definition spec_suit_of_variant (si : N) : option N :=
  index_of_string (nth (N.to_nat si) CardSuit_NAMES EmptyString) SUIT_NAMES.
Definition rank_variant (r : N) : N := variant CardRank_NAMES (nth (N.to_nat r) RANK_ENUM_NAMES EmptyString).
Definition suit_variant (s : N) : N := variant CardSuit_NAMES (nth (N.to_nat s) SUIT_NAMES EmptyString).

