(* The current slot tables are well formed: non-empty, every row five DISTINCT in-range indices. *)
From Coq Require Import Sorting.Permutation Sorting.Sorted.
From CKC Require Import Base.Prelude Base.Reflect Base.SortN Spec.Layout Spec.Poker.
From CKC Require Import Model.Card Model.Hands Model.Five Model.HandRank.
From CKC Require Import Proofs.CardBase Proofs.SortFacts Proofs.BitFacts Proofs.FiveFacts Proofs.ShapeFacts
  Proofs.BestFacts Proofs.Total Proofs.FreeFacts.
From CKC Require Import Gen.Consts Gen.Decks.
Open Scope N_scope.

Lemma tables_valid : valid_table 6 SIX_PERMUTATIONS /\ valid_table 7 SEVEN_PERMUTATIONS.
Proof. split; apply valid_tableb; vm_compute; reflexivity. Qed.
