(* C16 — Two-card hand from a bit-set: succeeds exactly for two card bits, round-trips.
   Only statements here; proofs are in Proofs/C16.v.  All four theorems hold for every N, hence for
   every 64-bit set; no range hypothesis is needed. *)
From Coq Require Import String.
From CKC Require Import Base.Prelude Spec.Layout Model.Hands Model.Binary Proofs.BcPeel Proofs.C16.
From CKC Require Import Gen.Consts Gen.Enums.
Open Scope N_scope.

(* fewer than two bits (of any kind) *)
Theorem C16_not_enough : forall b, popcount b < 2 -> two_try_from_bc b = inr ERR_NOT_ENOUGH.
Proof. exact two_not_enough. Qed.

(* more than two bits (of any kind) *)
Theorem C16_too_many : forall b, 2 < popcount b -> two_try_from_bc b = inr ERR_TOO_MANY.
Proof. exact two_too_many. Qed.

(* exactly two bits, both card bits: b = 2^i + 2^j with j < i < 52; the result is the card of the
   higher bit then the card of the lower bit, i.e. deck positions 51-i < 51-j (deck order); it is a
   valid hand and converting it back yields b *)
Theorem C16_two_cards : forall b,
  popcount b = 2 -> b < 2 ^ 52 ->
  exists i j, j < i /\ i < 52 /\ b = 2 ^ i + 2 ^ j /\ members b = [2 ^ i; 2 ^ j] /\
    let c1 := nthN SPEC_DECK (51 - i) 0 in
    let c2 := nthN SPEC_DECK (51 - j) 0 in
    two_try_from_bc b = inl [c1; c2] /\ is_valid [c1; c2] = true /\
    from_ckc c1 = 2 ^ i /\ from_ckc c2 = 2 ^ j /\ bc_from_hand [c1; c2] = b.
Proof. exact two_cards_ok. Qed.

(* the same, from the side of the 1 326 bit pairs *)
Theorem C16_pairs : forall i j,
  j < i -> i < 52 ->
  let c1 := nthN SPEC_DECK (51 - i) 0 in
  let c2 := nthN SPEC_DECK (51 - j) 0 in
  two_try_from_bc (2 ^ i + 2 ^ j) = inl [c1; c2] /\
  is_valid [c1; c2] = true /\
  from_ckc c1 = 2 ^ i /\ from_ckc c2 = 2 ^ j /\
  bc_from_hand [c1; c2] = 2 ^ i + 2 ^ j.
Proof. exact two_pair_ok. Qed.

(* exactly two bits, not both card bits *)
Theorem C16_invalid : forall b,
  popcount b = 2 -> ~ b < 2 ^ 52 -> two_try_from_bc b = inr ERR_INVALID_BINARY.
Proof. exact two_invalid_ok. Qed.

Theorem C16_succeeds_iff : forall b,
  (exists h, two_try_from_bc b = inl h) <-> popcount b = 2 /\ b < 2 ^ 52.
Proof. exact two_succeeds_iff. Qed.

(* what "exactly two bits" means *)
Theorem C16_two_bits : forall b, popcount b = 2 <-> exists i j, j < i /\ b = 2 ^ i + 2 ^ j.
Proof. exact popcount_two_iff. Qed.

(* the three error kinds are distinct and are the variants of those names *)
Theorem C16_errors :
  ERR_NOT_ENOUGH <> ERR_TOO_MANY /\ ERR_NOT_ENOUGH <> ERR_INVALID_BINARY /\
  ERR_TOO_MANY <> ERR_INVALID_BINARY /\
  nth (N.to_nat ERR_NOT_ENOUGH) HandError_NAMES EmptyString = "NotEnoughCards"%string /\
  nth (N.to_nat ERR_TOO_MANY) HandError_NAMES EmptyString = "TooManyCards"%string /\
  nth (N.to_nat ERR_INVALID_BINARY) HandError_NAMES EmptyString = "InvalidBinaryFormat"%string.
Proof. exact errors_distinct. Qed.

(* non-vacuity: ace of spades + deuce of clubs; deuce of clubs + overflow bit 60; two overflow bits;
   one bit; three bits *)
Example C16_example :
  popcount (2 ^ 51 + 1) = 2 /\ 2 ^ 51 + 1 < 2 ^ 52 /\
  two_try_from_bc (2 ^ 51 + 1) = inl [268471337; 69634] /\
  bc_from_hand [268471337; 69634] = 2 ^ 51 + 1 /\
  popcount (2 ^ 60 + 1) = 2 /\ ~ 2 ^ 60 + 1 < 2 ^ 52 /\
  two_try_from_bc (2 ^ 60 + 1) = inr ERR_INVALID_BINARY /\
  two_try_from_bc (2 ^ 63 + 2 ^ 52) = inr ERR_INVALID_BINARY /\
  two_try_from_bc (2 ^ 51) = inr ERR_NOT_ENOUGH /\
  two_try_from_bc 7 = inr ERR_TOO_MANY.
Proof. repeat split; try (vm_compute; reflexivity). vm_compute. discriminate. Qed.

Print Assumptions C16_not_enough.
Print Assumptions C16_too_many.
Print Assumptions C16_two_cards.
Print Assumptions C16_pairs.
Print Assumptions C16_invalid.
Print Assumptions C16_succeeds_iff.
Print Assumptions C16_two_bits.
Print Assumptions C16_errors.
