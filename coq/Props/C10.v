(* C10 — Card words follow the documented bit layout; exactly 52 words are cards.
   Only statements here; proofs are in Proofs/C10.v. *)
From Coq Require Import String.
From CKC Require Import Base.Prelude Spec.Layout Model.Card Proofs.CardFacts Proofs.CreateFacts Proofs.C10.
From CKC Require Import Gen.Consts Gen.Enums Gen.Maps Gen.Decks.
Open Scope N_scope.

(* the 52 named constants, in declaration order, are the layout words of the rank and suit in their
   names; BLANK is 0 *)
Theorem C10_constants :
  CN_CARDS = SPEC_DECK /\
  CN_CARD_NAMES = map (fun '(r, s) => const_name r s) SPEC_DECK_RS /\
  CN_BLANK = 0.
Proof. exact constants_ok. Qed.

(* the deck produces the same words *)
Theorem C10_deck : POKER_DECK = SPEC_DECK.
Proof. exact deck_ok. Qed.

(* construction from every rank variant and suit variant (14 x 5) *)
Theorem C10_create : forall ri si,
  ri < lenN CardRank_NAMES -> si < lenN CardSuit_NAMES ->
  create ri si = create_spec ri si /\ create ri si = nthN (nthN CREATE_GRID ri []) si 0.
Proof. exact create_ok. Qed.

Theorem C10_variants :
  lenN CardRank_NAMES = 14 /\ lenN CardSuit_NAMES = 5 /\
  (forall r, r < 13 -> spec_rank_of_variant (rank_variant r) = Some r) /\
  (forall s, s < 4 -> spec_suit_of_variant (suit_variant s) = Some s) /\
  spec_rank_of_variant RANK_BLANK = None /\ spec_suit_of_variant SUIT_BLANK = None /\
  RANK_BLANK < 14 /\ SUIT_BLANK < 5.
Proof. exact variants_ok. Qed.

(* the accessors read the fields back, for all 52 cards *)
Theorem C10_accessors : forall r s,
  r < 13 -> s < 4 ->
  let w := layout r s in
  get_card_rank w = rank_variant r /\ get_card_suit w = suit_variant s /\
  get_rank_prime w = prime_of r /\ get_rank_bit w = 2 ^ r /\ get_rank_flag w = 2 ^ (16 + r) /\
  get_suit_bit w = 2 ^ s /\ get_suit_flag w = 2 ^ (12 + s) /\
  get_rank_char w = nthN RANK_CHARS r 0 /\ get_suit_char w = nthN SUIT_GLYPHS s 0 /\
  get_suit_letter w = nthN SUIT_LETTERS s 0 /\ is_blank w = false /\
  suit_signature (suit_variant s) = 2 ^ (12 + s).
Proof. exact accessors_ok. Qed.

Theorem C10_blank :
  is_blank 0 = true /\ get_card_rank 0 = RANK_BLANK /\ get_card_suit 0 = SUIT_BLANK /\
  get_rank_char 0 = UNDERSCORE /\ get_suit_char 0 = UNDERSCORE /\ get_suit_letter 0 = UNDERSCORE.
Proof. exact blank_ok. Qed.

(* of ALL words (the model's filter is the complete 2^32 graph of the implementation's) the filter
   passes exactly the 52 layout words and maps every other word to blank *)
Theorem C10_filter : forall w, filter w = if real_cardb w then w else 0.
Proof. exact filter_ok. Qed.

Theorem C10_real_card : forall w, real_cardb w = true <-> RealCard w.
Proof. exact real_cardb_spec. Qed.

Theorem C10_fifty_two : length SPEC_DECK = 52%nat /\ NoDup SPEC_DECK.
Proof. exact (conj SPEC_DECK_length SPEC_DECK_NoDup). Qed.

(* non-vacuity: the ace of spades *)
Example C10_example : layout 12 3 = 268471337 /\ RealCard 268471337 /\ filter 268471337 = 268471337 /\ filter 2 = 0.
Proof. repeat split; try (vm_compute; reflexivity). exists 12, 3. repeat split; vm_compute; reflexivity. Qed.

Print Assumptions C10_constants.
Print Assumptions C10_deck.
Print Assumptions C10_create.
Print Assumptions C10_variants.
Print Assumptions C10_accessors.
Print Assumptions C10_blank.
Print Assumptions C10_filter.
Print Assumptions C10_real_card.
Print Assumptions C10_fifty_two.
