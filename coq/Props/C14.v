(* C14 — Bit-set card form and word form are mutually inverse over the 52 cards.
   Only statements here; proofs are in Proofs/C14.v. *)
From Coq Require Import String.
From CKC Require Import Base.Prelude Spec.Layout Model.Binary Proofs.C14.
From CKC Require Import Gen.Consts Gen.Decks.
Open Scope N_scope.

(* bit 51 for the first deck card down to bit 0 for the last; the bit-form deck, the word-form deck
   and the spec deck list the same cards in the same order; the 52 named bit constants, in
   declaration order and under the same names as the word constants, are the deck entries *)
Theorem C14_positions :
  length BC_DECK = 52%nat /\
  (forall i, i < 52 -> nthN BC_DECK i 0 = 2 ^ (51 - i)) /\
  POKER_DECK = SPEC_DECK /\
  (forall i, i < 52 -> from_ckc (nthN SPEC_DECK i 0) = nthN BC_DECK i 0) /\
  BC_CARDS = BC_DECK /\
  BC_CARD_NAMES = map (fun '(r, s) => const_name r s) SPEC_DECK_RS /\
  BC_CARD_NAMES = CN_CARD_NAMES /\
  BC_BLANK = 0.
Proof. exact positions_ok. Qed.

(* both directions, all 52 cards *)
Theorem C14_roundtrip : forall i,
  i < 52 ->
  from_binary_card (from_ckc (nthN SPEC_DECK i 0)) = nthN SPEC_DECK i 0 /\
  from_ckc (from_binary_card (2 ^ (51 - i))) = 2 ^ (51 - i).
Proof. exact roundtrip_ok. Qed.

Theorem C14_roundtrip_word : forall w, RealCard w -> from_binary_card (from_ckc w) = w.
Proof. exact roundtrip_word. Qed.

(* every N, hence every 64-bit value: a non-blank result is always inverted *)
Theorem C14_roundtrip_bits : forall b, from_binary_card b <> 0 -> from_ckc (from_binary_card b) = b.
Proof. exact roundtrip_bits. Qed.

(* ALL words (the model's from_ckc is the complete 2^32 graph of the implementation's) *)
Theorem C14_word_default : forall w, ~ RealCard w -> from_ckc w = 0.
Proof. exact word_default. Qed.

(* every N, in particular every b < 2^64: bits 52..63, the empty set and all multi-bit values *)
Theorem C14_bits_default : forall b, (forall i, i < 52 -> b <> 2 ^ i) -> from_binary_card b = 0.
Proof. exact bits_default. Qed.

(* non-vacuity: ace of spades <-> bit 51, deuce of clubs <-> bit 0; a non-card word; bit 52; a
   two-bit value *)
Example C14_example :
  nthN SPEC_DECK 0 0 = 268471337 /\ from_ckc 268471337 = 2 ^ 51 /\ from_binary_card (2 ^ 51) = 268471337 /\
  nthN SPEC_DECK 51 0 = 69634 /\ from_ckc 69634 = 1 /\ from_binary_card 1 = 69634 /\
  ~ RealCard 268471336 /\ from_ckc 268471336 = 0 /\
  (forall i, i < 52 -> 2 ^ 52 <> 2 ^ i) /\ from_binary_card (2 ^ 52) = 0 /\
  (forall i, i < 52 -> 3 <> 2 ^ i) /\ from_binary_card 3 = 0.
Proof.
  repeat split; try (vm_compute; reflexivity).
  - intros H. apply CardBase.real_cardb_spec in H. vm_compute in H. discriminate.
  - intros i Hi H. apply N.pow_inj_r in H; lia.
  - intros i Hi H. assert (E : popcount 3 = popcount (2 ^ i)) by now rewrite H.
    rewrite popcount_pow2 in E. vm_compute in E. discriminate.
Qed.

Print Assumptions C14_positions.
Print Assumptions C14_roundtrip.
Print Assumptions C14_roundtrip_word.
Print Assumptions C14_roundtrip_bits.
Print Assumptions C14_word_default.
Print Assumptions C14_bits_default.
