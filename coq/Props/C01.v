(* C01 — Five-card rank value is the hand's exact poker strength ordinal.
   Statements only; proofs in Proofs/C01.v.

   [Hand5 ws]        : five slots, every slot one of the 52 real card words, no two equal; ANY order.
   [shape_of ws]     : the five ranks decoded from the documented layout + "all suits equal".
   [ordinal h]       : 1 + the number of poker hand classes that beat h (Spec/Poker.v, literal).
   [chk]             : overflow checks on / off (debug / release profile). *)
From CKC Require Import Base.Prelude Spec.Layout Spec.Poker.
From CKC Require Import Model.Five Model.HandRank Proofs.FiveFacts Proofs.C01.
Open Scope N_scope.

(* all five entry points return the ordinal; the reported hand is the input; the value is in range *)
Theorem C01_value : forall chk ws,
  Hand5 ws ->
  let v := ordinal (shape_of ws) in
  hand_rank_value chk ws = Ok v /\ hrvh chk ws = Ok (v, ws) /\
  rmap (fun x => hr_value (hr_from x)) (hand_rank_value chk ws) = Ok v /\
  hand_rank_value_validated chk ws = Ok v /\ evaluate_five_cards chk ws = Ok v /\
  1 <= v <= 7462.
Proof. exact value_ok. Qed.

(* same value exactly when the hands tie, lower value exactly when the first beats the second *)
Theorem C01_order : forall ws1 ws2,
  Hand5 ws1 -> Hand5 ws2 ->
  let v1 := ordinal (shape_of ws1) in let v2 := ordinal (shape_of ws2) in
  (v1 = v2 <-> ties (shape_of ws1) (shape_of ws2)) /\
  (v1 < v2 <-> beats (shape_of ws1) (shape_of ws2)).
Proof. exact order_ok. Qed.

(* every value 1..7462 is produced by some hand *)
Theorem C01_onto : forall chk v,
  1 <= v <= 7462 -> exists ws, Hand5 ws /\ hand_rank_value chk ws = Ok v.
Proof. exact onto_ok. Qed.

(* non-vacuity and end points: a royal flush is 1; 7-5-4-3-2 unsuited is 7462; the steel wheel is 10 *)
Example C01_royal :
  Hand5 [268471337; 134253349; 67144223; 33589533; 16812055] /\
  hand_rank_value true [268471337; 134253349; 67144223; 33589533; 16812055] = Ok 1.
Proof.
  split; [|vm_compute; reflexivity].
  repeat split; [| apply Base.Reflect.nodupb_NoDup; vm_compute; reflexivity].
  apply Forall_forall. intros w Hw. apply Proofs.CardBase.real_cardb_spec.
  cbn [In] in Hw. repeat (destruct Hw as [<-|Hw]; [vm_compute; reflexivity|]). contradiction.
Qed.
Example C01_worst :
  hand_rank_value false [layout 5 3; layout 3 2; layout 2 1; layout 1 0; layout 0 0] = Ok 7462 /\
  hand_rank_value false [layout 3 1; layout 2 1; layout 1 1; layout 0 1; layout 12 1] = Ok 10.
Proof. split; vm_compute; reflexivity. Qed.

From CKC Require Import Model.Proj Proofs.ProjC01.
(* the `perm5` line of the correspondence check is the constant `1 1` on five distinct real cards: all 120 slot
   orders, through every five-card entry point, give the one in-range value of the given order *)
Theorem C01_projection : forall chk ws, Hand5 ws -> proj_perm5 chk ws = Ok [true; true].
Proof. exact proj_perm5_const. Qed.

Print Assumptions C01_value.
Print Assumptions C01_order.
Print Assumptions C01_onto.
Print Assumptions C01_projection.
