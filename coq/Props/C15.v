(* C15 — Card bit-sets behave as sets: union, subset, count, validity, ordered peel.
   Only statements here; proofs are in Proofs/C15.v.
     members b := the deck entries d (in deck order) with b & d = d
     peel_n n b := the cards returned by n successive peels, and the final state. *)
From Coq Require Import String.
From CKC Require Import Base.Prelude Base.Reflect Spec.Layout Model.Binary Model.Parse Proofs.C15.
From CKC Require Import Gen.Consts Gen.Decks.
Open Scope N_scope.

(* what "member" means: d is a member of b iff d is card bit k < 52 and bit k of b is set *)
Theorem C15_members : forall b d,
  In d (members b) <-> exists k, k < 52 /\ d = 2 ^ k /\ N.testbit b k = true.
Proof. exact In_members. Qed.

(* a set built from a hand: ANY list of words (any length, so sizes 2..7; blanks, repeats and
   non-card words allowed).  Bit 51-i is set iff the i-th deck card occurs in some slot; no other bit
   is set; read back as words the members are the deck cards occurring in the hand, once each, in
   deck order. *)
Theorem C15_from_hand : forall ws,
  (forall i, i < 52 -> (N.testbit (bc_from_hand ws) (51 - i) = true <-> In (nthN SPEC_DECK i 0) ws)) /\
  bc_from_hand ws < 2 ^ 52 /\
  map from_binary_card (members (bc_from_hand ws)) = List.filter (fun c => memN c ws) SPEC_DECK.
Proof. exact (fun ws => conj (from_hand_testbit ws) (conj (from_hand_lt ws) (from_hand_members ws))). Qed.

(* from text: the union over ALL whitespace-separated tokens *)
Theorem C15_from_index : forall s,
  bc_from_index s = bc_from_hand (map card_from_index (tokens s)).
Proof. exact from_index_ok. Qed.

Theorem C15_from_index_members : forall s i,
  i < 52 ->
  (N.testbit (bc_from_index s) (51 - i) = true <->
   exists t, In t (tokens s) /\ card_from_index t = nthN SPEC_DECK i 0).
Proof. exact from_index_testbit. Qed.

(* folding in is union *)
Theorem C15_fold_in : forall b c i, N.testbit (fold_in b c) i = N.testbit b i || N.testbit c i.
Proof. exact fold_in_ok. Qed.

(* the membership test is a subset test (on a single card bit: that bit is set) *)
Theorem C15_has : forall b c,
  has b c = true <-> (forall i, N.testbit c i = true -> N.testbit b i = true).
Proof. exact has_ok. Qed.

Theorem C15_has_card : forall b k, has b (2 ^ k) = N.testbit b k.
Proof. exact has_card. Qed.

(* the count is the number of set bits; below 2^52 it is the number of members; exactly one card *)
Theorem C15_count :
  (forall b, number_of_cards b = N.of_nat (length (List.filter (N.testbit b) (N_range (N.size b))))) /\
  (forall b n, b < 2 ^ n -> number_of_cards b = N.of_nat (length (List.filter (N.testbit b) (N_range n)))) /\
  (forall b, N.of_nat (length (members b)) = number_of_cards (N.land b BC_ALL)) /\
  (forall b, b < 2 ^ 52 -> number_of_cards b = N.of_nat (length (members b))) /\
  (forall b, is_single_card b = true <-> exists i, b = 2 ^ i).
Proof. exact count_ok. Qed.

(* valid exactly when non-empty with no bit above the 52 card bits *)
Theorem C15_valid : forall b, b < 2 ^ 64 -> (bc_is_valid b = true <-> b <> 0 /\ b < 2 ^ 52).
Proof. exact valid_ok. Qed.

(* one peel, every N: returns the first member in deck order (the highest card bit present) and
   clears exactly that bit; with no member it returns blank and leaves the set alone *)
Theorem C15_peel : forall b,
  match members b with
  | [] => peel b = (0, b)
  | d :: _ =>
      peel b = (d, N.ldiff b d) /\ N.ldiff b d = N.lxor b d /\
      exists k, k < 52 /\ d = 2 ^ k /\ N.testbit b k = true /\
                (forall j, k < j < 52 -> N.testbit b j = false) /\
                (forall i, N.testbit (N.ldiff b d) i = N.testbit b i && negb (i =? k))
  end.
Proof. exact peel_ok. Qed.

(* peeling to exhaustion and beyond (induction over the history), every N: the first
   |members b| peels return members b in deck order, every later peel returns blank, and the state
   ends as, and then stays, b with all card bits cleared (= b & OVERFLOW for a 64-bit b, = 0 for a
   b below 2^52) *)
Theorem C15_peel_all : forall b,
  let rest := N.ldiff b BC_ALL in
  (forall m, peel_n (length (members b) + m) b = (members b ++ repeat 0 m, rest)) /\
  peel_n (length (members b)) b = (members b, rest) /\
  (forall m, peel_n m rest = (repeat 0 m, rest)) /\
  (forall i, N.testbit rest i = N.testbit b i && (52 <=? i)) /\
  (b < 2 ^ 64 -> rest = N.land b BC_OVERFLOW) /\
  (b < 2 ^ 52 -> rest = 0).
Proof. exact peel_all_ok. Qed.

(* the masks: ALL = the 52 card bits, OVERFLOW = the 12 bits above them *)
Theorem C15_masks : BC_BLANK = 0 /\ BC_ALL = 2 ^ 52 - 1 /\ BC_OVERFLOW = 2 ^ 64 - 2 ^ 52.
Proof. exact masks_ok. Qed.

(* the named rank groups ACES .. DEUCES are exactly the four cards of their rank, pairwise disjoint, and together ALL *)
Theorem C15_rank_groups :
  (forall r, r < 13 ->
     nthN BC_GROUPS r 0 = bc_from_hand [layout r 3; layout r 2; layout r 1; layout r 0]) /\
  fold_left N.lor BC_GROUPS 0 = BC_ALL /\
  (forall r r', r < 13 -> r' < 13 -> r <> r' -> N.land (nthN BC_GROUPS r 0) (nthN BC_GROUPS r' 0) = 0).
Proof. exact rank_groups_ok. Qed.

(* non-vacuity: ace of spades + deuce of clubs (+ overflow bit 60); a hand with a blank, a repeat
   and a non-card word; the text "AS 2C  xy A<spade>" *)
Example C15_example :
  members (2 ^ 51 + 1 + 2 ^ 60) = [2 ^ 51; 1] /\
  peel_n 4 (2 ^ 51 + 1 + 2 ^ 60) = ([2 ^ 51; 1; 0; 0], 2 ^ 60) /\
  N.ldiff (2 ^ 51 + 1 + 2 ^ 60) BC_ALL = 2 ^ 60 /\
  bc_from_hand [268471337; 0; 268471337; 69634; 5] = 2 ^ 51 + 1 /\
  bc_from_index [65; 83; 32; 50; 67; 32; 32; 120; 121; 32; 65; 9824] = 2 ^ 51 + 1 /\
  2 ^ 51 + 1 < 2 ^ 64 /\ bc_is_valid (2 ^ 51 + 1) = true /\ bc_is_valid (2 ^ 51 + 1 + 2 ^ 60) = false /\
  bc_is_valid (2 ^ 52) = false /\ bc_is_valid 0 = false /\
  number_of_cards (2 ^ 51 + 1 + 2 ^ 60) = 3 /\ has (2 ^ 51 + 1) 1 = true /\ has (2 ^ 51 + 1) 3 = false.
Proof. repeat split; vm_compute; reflexivity. Qed.

From CKC Require Import Model.Proj Proofs.ProjC15.
(* the `bcsetp` line of the correspondence check is the constant `1 1 1 1 1` on ALL lists of words: count = number
   of distinct deck cards among the slots; each of them is a member; no bit above the 52 card bits; peeling lists
   exactly those cards in deck order, then blank with the (empty) set unchanged; valid iff non-empty *)
Theorem C15_projection : forall ws : list N, proj_bcsetp ws = [true; true; true; true; true].
Proof. exact proj_bcsetp_const. Qed.

Print Assumptions C15_members.
Print Assumptions C15_from_hand.
Print Assumptions C15_from_index.
Print Assumptions C15_from_index_members.
Print Assumptions C15_fold_in.
Print Assumptions C15_has.
Print Assumptions C15_has_card.
Print Assumptions C15_count.
Print Assumptions C15_valid.
Print Assumptions C15_peel.
Print Assumptions C15_peel_all.
Print Assumptions C15_rank_groups.
Print Assumptions C15_masks.
Print Assumptions C15_projection.
