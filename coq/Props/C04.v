(* C04 — Validated ranking yields 0 exactly for non-hands, for any 32-bit words.
   Statements only; proofs in Proofs/ValidFacts.v, Proofs/CardFacts.v, Proofs/C04.v.
   Slots hold ARBITRARY words (any N; in particular any u32); no hypothesis on them. *)
From CKC Require Import Base.Prelude Base.SortN Spec.Layout.
From CKC Require Import Model.Card Model.Hands Model.Five Proofs.CardBase Proofs.FilterExact Proofs.ValidFacts Proofs.C04.
Open Scope N_scope.

(* a hand (any size, any words) is valid exactly when every slot is one of the 52 real card words and
   no two slots are equal *)
Theorem C04_is_valid : forall ws, is_valid ws = true <-> Forall RealCard ws /\ NoDup ws.
Proof. exact is_valid_spec. Qed.

(* its ingredients *)
Theorem C04_is_corrupt : forall ws, is_corrupt ws = false <-> Forall RealCard ws.
Proof. exact is_corrupt_spec. Qed.
Theorem C04_contain_blank : forall ws, contain_blank ws = true <-> In 0 ws.
Proof. exact contain_blank_spec. Qed.
(* the pairwise / windowed uniqueness tests of Two..Five decide NoDup for ANY words *)
Theorem C04_are_unique_2_to_5 : forall ws, (2 <= length ws <= 5)%nat -> (are_unique ws = true <-> NoDup ws).
Proof. exact unique_small. Qed.
(* the sort-and-scan test of Six / Seven starts from the sentinel u32::MAX: it decides NoDup for words
   below the sentinel (every card is); a hand holding 0xFFFFFFFF is corrupt anyway *)
Theorem C04_are_unique_6_7 : forall ws,
  (length ws = 6 \/ length ws = 7)%nat ->
  (are_unique ws = true <-> NoDup ws /\ Forall (fun x => x < U32MAX) ws).
Proof. exact unique_big. Qed.

(* the per-slot recogniser, over ALL words (complete 2^32 graph of the implementation) *)
Theorem C04_filter : forall w, filter w = if real_cardb w then w else 0.
Proof. exact filter_spec. Qed.

(* validated ranking of five, six or seven slots never panics, is 0 exactly when the hand is not valid
   and otherwise equals unvalidated ranking (which is then not 0; that it is the RIGHT rank is C01/C02) *)
Theorem C04_validated : forall chk n ws,
  (n = 5 \/ n = 6 \/ n = 7)%nat -> length ws = n ->
  (is_valid ws = false -> hand_rank_value_validated chk ws = Ok 0) /\
  (is_valid ws = true ->
     exists v, hand_rank_value_validated chk ws = Ok v /\ hand_rank_value chk ws = Ok v /\ v <> 0).
Proof. exact validated_ok. Qed.

Theorem C04_zero_iff : forall chk n ws,
  (n = 5 \/ n = 6 \/ n = 7)%nat -> length ws = n ->
  exists v, hand_rank_value_validated chk ws = Ok v /\ (v = 0 <-> is_valid ws = false).
Proof. exact validated_zero_iff. Qed.

(* the free five-card function is the validated ranking *)
Theorem C04_free_function : forall chk ws, evaluate_five_cards chk ws = hand_rank_value_validated chk ws.
Proof. reflexivity. Qed.

Example C04_example :
  is_valid [layout 12 3; layout 12 3] = false /\ is_valid [layout 12 3; 4294967295; layout 0 0; layout 1 1; layout 2 2; layout 3 3] = false /\
  is_valid [layout 12 3; layout 3 3; layout 0 0; layout 1 1; layout 2 2; layout 3 2] = true /\
  hand_rank_value_validated true [layout 12 3; layout 12 3; layout 0 0; layout 1 1; layout 2 2] = Ok 0 /\
  hand_rank_value_validated true [7; 4294967295; 0; 1; 2] = Ok 0.
Proof. repeat split; vm_compute; reflexivity. Qed.

From CKC Require Import Model.Proj Proofs.FreeFacts Proofs.ProjC04.
(* the `vrank` line of the correspondence check, for ANY words in five, six or seven slots, is one of two
   constants chosen by validity alone: `1 0 1 1` (valid) or `0 1 1` (not valid), plus a final `1` for five slots *)
Theorem C04_projection : forall chk n ws,
  (n = 5 \/ n = 6 \/ n = 7)%nat -> length ws = n ->
  proj_vrank chk ws =
    (if is_valid ws then [Ok true; Ok false; Ok true; Ok true] else [Ok false; Ok true; Ok true])
    ++ (if Nat.eqb n 5 then [Ok true] else []).
Proof. exact proj_vrank_const. Qed.
(* in particular on distinct real cards *)
Theorem C04_projection_hand : forall chk n ws,
  (n = 5 \/ n = 6 \/ n = 7)%nat -> HandN n ws ->
  proj_vrank chk ws = [Ok true; Ok false; Ok true; Ok true] ++ (if Nat.eqb n 5 then [Ok true] else []).
Proof. exact proj_vrank_hand. Qed.

Print Assumptions C04_is_valid.
Print Assumptions C04_is_corrupt.
Print Assumptions C04_contain_blank.
Print Assumptions C04_are_unique_2_to_5.
Print Assumptions C04_are_unique_6_7.
Print Assumptions C04_filter.
Print Assumptions C04_validated.
Print Assumptions C04_zero_iff.
Print Assumptions C04_free_function.
Print Assumptions C04_projection.
Print Assumptions C04_projection_hand.
