(* C05 — Ranking never panics on card-or-blank hands; a blank five is Invalid.
   Statements only; proofs in Proofs/FipTotal.v and Proofs/C05.v.

   [res] outcomes: [Ok v] normal return, [Panic] a Rust panic (index out of bounds, overflow check),
   [Diverge] loop fuel exhausted. [chk] = overflow checks on (debug) / off (release): every
   statement is for BOTH build profiles. [Slots n ws]: n slots, each a real card or blank, ANY order,
   ANY repetition. *)
From CKC Require Import Base.Prelude Spec.Layout.
From CKC Require Import Model.Five Model.HandRank Proofs.FipTotal Proofs.C05.
Open Scope N_scope.

(* the public product-search helper returns normally, with an index inside the table, for EVERY key *)
Theorem C05_search_total : forall chk key, exists i, find_in_products chk key = Ok i /\ i < 4888.
Proof. exact find_in_products_total. Qed.

(* every ranking entry point of every ranking hand size returns normally *)
Theorem C05_rank_total : forall chk n ws,
  (n = 5 \/ n = 6 \/ n = 7)%nat -> Slots n ws ->
  (exists v h, hrvh chk ws = Ok (v, h)) /\
  (exists v, hand_rank_value chk ws = Ok v) /\
  (exists r, rmap hr_from (hand_rank_value chk ws) = Ok r) /\
  (exists v, hand_rank_value_validated chk ws = Ok v) /\
  (exists r, rmap hr_from (hand_rank_value_validated chk ws) = Ok r) /\
  (n = 5%nat -> exists v, evaluate_five_cards chk ws = Ok v).
Proof. exact rank_total. Qed.

(* a five-slot hand that contains a blank is never given a real rank *)
Theorem C05_blank_five : forall chk ws,
  Slots 5 ws -> In 0 ws ->
  hand_rank_value chk ws = Ok 0 /\ hrvh chk ws = Ok (0, ws) /\
  hand_rank_value_validated chk ws = Ok 0 /\ evaluate_five_cards chk ws = Ok 0 /\
  hr_name (hr_from 0) = NAME_INVALID /\ hr_class (hr_from 0) = CLASS_INVALID /\
  is_invalid (hr_from 0) = true.
Proof. exact blank_five. Qed.

(* the ingredient behind it, for ANY five words: the product path never panics *)
Theorem C05_product_path_total : forall chk ws, (length ws <= 5)%nat -> exists v, not_unique chk ws = Ok v.
Proof. exact not_unique_total. Qed.

(* historical: the search of the pinned tree before the repair (fix: commit 556f3b1) panicked on key 0 in both
   build profiles *)
Theorem C05_unrepaired_refuted :
  fip_loop_unrepaired FIP_FUEL true 0 0 4887 = Panic /\ fip_loop_unrepaired FIP_FUEL false 0 0 4887 = Panic /\
  find_in_products true 0 = Ok 0 /\ find_in_products false 0 = Ok 0.
Proof. exact unrepaired_refuted. Qed.

(* non-vacuity: the default hands, and a hand of five deuces in two suits (product 32 < PRODUCTS[0]) *)
Example C05_example :
  Slots 5 [0; 0; 0; 0; 0] /\ hand_rank_value true [0; 0; 0; 0; 0] = Ok 0 /\
  hand_rank_value false [0; 0; 0; 0; 0; 0; 0] = Ok 0 /\
  find_in_products true 0 = Ok 0 /\ find_in_products false 32 = Ok 0 /\
  Slots 5 [layout 0 3; layout 0 3; layout 0 3; layout 0 3; layout 0 2] /\
  hand_rank_value true [layout 0 3; layout 0 3; layout 0 3; layout 0 3; layout 0 2] = Ok 0.
Proof.
  repeat match goal with |- _ /\ _ => split end; try (apply slots_b); vm_compute; reflexivity.
Qed.

From CKC Require Import Model.Proj Proofs.Total Proofs.ProjC05.
(* the `rankp` line of the correspondence check is the constant `ok ok ok ok ok` (five slots: one more `ok`) on
   card-or-blank slots: true = the entry point returned normally *)
Theorem C05_projection : forall chk n ws,
  (n = 5 \/ n = 6 \/ n = 7)%nat -> Slots n ws ->
  proj_rankp chk ws = [true; true; true; true; true] ++ (if Nat.eqb n 5 then [true] else []).
Proof. exact proj_rankp_const. Qed.

Print Assumptions C05_search_total.
Print Assumptions C05_rank_total.
Print Assumptions C05_blank_five.
Print Assumptions C05_product_path_total.
Print Assumptions C05_unrepaired_refuted.
Print Assumptions C05_projection.
