(* C12 — Text parsing is total; a token is a card iff it starts with rank+suit symbols.
   Only statements here; proofs are in Proofs/C12.v.

   A string is the [list N] of its Unicode scalar values; every theorem quantifies over ALL lists
   of N (a superset of the strings).  [rank_sym] / [suit_sym] (Proofs/C12.v) are the documented
   symbol tables written from the property text by explicit code points:
     ranks  A a -> 12, K k -> 11, Q q -> 10, J j -> 9, T t 0 -> 8, 9 .. 2 -> 7 .. 0
     suits  S s U+2660 U+2664 -> 3, H h U+2665 U+2661 -> 2, D d U+2666 U+2662 -> 1,
            C c U+2663 U+2667 -> 0
   TOTALITY: the parsing model ([tokens], [card_from_index], [hand_from_index], [bc_from_index])
   returns plain values, not [res]; it contains no panic-capable primitive (no indexing, slicing or
   checked arithmetic), so "never panics on any string" holds by typing of the model and is tied to
   the code by the correspondence check (UTF-8 decoding and split_whitespace are std's). *)
From CKC Require Import Base.Prelude Base.Reflect Spec.Layout Model.Card Model.Binary Model.Parse.
From CKC Require Import Proofs.CardBase Proofs.C12.
From CKC Require Import Gen.Chars.
Open Scope N_scope.

(* the regenerated graphs of CardRank::from_char / CardSuit::from_char (exhaustive over all scalar
   values) are exactly the documented tables; every other character — every other N — is BLANK *)
Theorem C12_symbols :
  (forall c, rank_from_char c = match rank_sym c with Some r => rank_variant r | None => RANK_BLANK end) /\
  (forall c, suit_from_char c = match suit_sym c with Some s => suit_variant s | None => SUIT_BLANK end).
Proof. exact symbols_ok. Qed.

Theorem C12_rank_symbols_iff : forall c,
  (forall r, r < 13 -> (rank_from_char c = rank_variant r <-> rank_sym c = Some r)) /\
  (rank_from_char c = RANK_BLANK <-> rank_sym c = None).
Proof. exact rank_symbols_iff. Qed.

Theorem C12_suit_symbols_iff : forall c,
  (forall s, s < 4 -> (suit_from_char c = suit_variant s <-> suit_sym c = Some s)) /\
  (suit_from_char c = SUIT_BLANK <-> suit_sym c = None).
Proof. exact suit_symbols_iff. Qed.

(* the symbols of each rank (deuce .. ace) and suit (clubs .. spades), spelled out *)
Theorem C12_symbol_lists :
  map rank_symbols_of (N_range 13) =
    [[50]; [51]; [52]; [53]; [54]; [55]; [56]; [57]; [84; 116; 48]; [74; 106]; [81; 113]; [75; 107]; [65; 97]] /\
  map suit_symbols_of (N_range 4) =
    [[67; 99; 9827; 9831]; [68; 100; 9830; 9826]; [72; 104; 9829; 9825]; [83; 115; 9824; 9828]].
Proof. exact symbol_lists. Qed.

(* CKCNumber::from_index on ANY token *)
Theorem C12_token : forall t,
  card_from_index t =
  match t with
  | c1 :: c2 :: _ =>
      match rank_sym c1, suit_sym c2 with
      | Some r, Some s => layout r s
      | _, _ => 0
      end
  | _ => 0
  end.
Proof. exact token_ok. Qed.

(* hence: a real card exactly when the first character is a rank symbol and the second a suit
   symbol, namely the card of that rank and suit; anything else is blank *)
Theorem C12_token_real : forall t,
  (forall r s, r < 13 -> s < 4 ->
     (card_from_index t = layout r s <->
      exists c1 c2 rest, t = c1 :: c2 :: rest /\ rank_sym c1 = Some r /\ suit_sym c2 = Some s)) /\
  (card_from_index t <> 0 <->
     exists c1 c2 rest r s, t = c1 :: c2 :: rest /\ rank_sym c1 = Some r /\ suit_sym c2 = Some s) /\
  (RealCard (card_from_index t) \/ card_from_index t = 0).
Proof. exact token_real. Qed.

Theorem C12_token_tail_ignored : forall c1 c2 rest,
  card_from_index (c1 :: c2 :: rest) = card_from_index [c1; c2].
Proof. exact token_tail_ignored. Qed.

Theorem C12_token_short : forall t, (length t < 2)%nat -> card_from_index t = 0.
Proof. exact token_short. Qed.

(* [tokens] is split_whitespace: tokens are non-empty and whitespace-free; in order they are the
   input with the whitespace removed; a whitespace character separates; a non-empty
   whitespace-free string is one token.  (The last three clauses determine [tokens] completely.) *)
Theorem C12_tokens :
  (forall s, Forall (fun t => t <> [] /\ Forall (fun c => is_whitespace c = false) t) (tokens s)) /\
  (forall s, List.filter (fun c => negb (is_whitespace c)) s = concat (tokens s)) /\
  (forall a w b, is_whitespace w = true -> tokens (a ++ [w] ++ b) = tokens a ++ tokens b) /\
  (forall t, t <> [] -> Forall (fun c => is_whitespace c = false) t -> tokens t = [t]) /\
  tokens [] = [].
Proof. exact tokens_ok. Qed.

(* the regenerated whitespace set (char::is_whitespace over all scalar values) is the Unicode
   White_Space set: U+0009-000D, 0020, 0085, 00A0, 1680, 2000-200A, 2028, 2029, 202F, 205F, 3000 *)
Theorem C12_whitespace :
  WHITESPACE = [9; 10; 11; 12; 13; 32; 133; 160; 5760] ++ map (fun k => 8192 + k) (N_range 11)
               ++ [8232; 8233; 8239; 8287; 12288].
Proof. exact whitespace_set. Qed.

(* hand parsers, every size n (2..7 in the crate): failure exactly when there are fewer than n
   tokens; otherwise the slots are the parses of the first n tokens, in token order *)
Theorem C12_hand : forall n s,
  (hand_from_index n s = None <-> (length (tokens s) < n)%nat) /\
  (forall ws, hand_from_index n s = Some ws ->
     ws = map card_from_index (firstn n (tokens s)) /\ length ws = n).
Proof. exact hand_ok. Qed.

Theorem C12_hand_slots : forall n s ws,
  hand_from_index n s = Some ws ->
  forall i, (i < n)%nat -> nth i ws 0 = card_from_index (nth i (tokens s) []).
Proof. exact hand_slots. Qed.

Theorem C12_hand_exact : forall n s,
  length (tokens s) = n -> hand_from_index n s = Some (map card_from_index (tokens s)).
Proof. exact hand_exact. Qed.

(* rendering any card with its rank character and its suit glyph or suit letter parses back *)
Theorem C12_roundtrip : forall r s, r < 13 -> s < 4 ->
  let w := layout r s in
  card_from_index [get_rank_char w; get_suit_char w] = w /\
  card_from_index [get_rank_char w; get_suit_letter w] = w.
Proof. exact roundtrip. Qed.

(* BinaryCard::from_index folds EVERY token in *)
Theorem C12_bc_from_index : forall s,
  bc_from_index s = fold_left (fun bc t => N.lor bc (from_ckc (card_from_index t))) (tokens s) 0.
Proof. exact bc_from_index_unfold. Qed.

Theorem C12_bc_from_index_app : forall a w b,
  is_whitespace w = true -> bc_from_index (a ++ [w] ++ b) = N.lor (bc_from_index a) (bc_from_index b).
Proof. exact bc_from_index_app. Qed.

(* non-vacuity: "a♠" with a tail, "0h", a one-character token, a near miss; a five-token hand with
   mixed Unicode whitespace (TAB, U+3000) parsed as Two and failing as Seven *)
Example C12_example :
  card_from_index [97; 9824; 120; 121] = layout 12 3 /\ card_from_index [48; 104] = layout 8 2 /\
  card_from_index [65] = 0 /\ card_from_index [65; 49] = 0 /\ card_from_index [49; 83] = 0 /\
  tokens [32; 65; 83; 9; 12288; 75; 9829; 32] = [[65; 83]; [75; 9829]] /\
  hand_from_index 2 [32; 65; 83; 9; 12288; 75; 9829; 32] = Some [layout 12 3; layout 11 2] /\
  hand_from_index 7 [32; 65; 83; 9; 12288; 75; 9829; 32] = None.
Proof. repeat split; vm_compute; reflexivity. Qed.

Print Assumptions C12_symbols.
Print Assumptions C12_rank_symbols_iff.
Print Assumptions C12_suit_symbols_iff.
Print Assumptions C12_symbol_lists.
Print Assumptions C12_token.
Print Assumptions C12_token_real.
Print Assumptions C12_token_tail_ignored.
Print Assumptions C12_token_short.
Print Assumptions C12_tokens.
Print Assumptions C12_whitespace.
Print Assumptions C12_hand.
Print Assumptions C12_hand_slots.
Print Assumptions C12_hand_exact.
Print Assumptions C12_roundtrip.
Print Assumptions C12_bc_from_index.
Print Assumptions C12_bc_from_index_app.
