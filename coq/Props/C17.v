(* C17 — Starting-hand score equals the Chen formula for every two-card hand.
   Statements only; proofs in Proofs/C17.v.

   [layout r s]   : the documented card word of rank r (deuce = 0 .. ace = 12), suit s (Spec/Layout.v).
   [chen_spec]    : Chen's formula written from the property text, in DOUBLED points (Proofs/C17.v,
                    spec section); the result is the final integer score, as Z.
   [chen_gap]     : max 0 (|r1 - r2| - 1).
   [chk]          : overflow checks on / off (debug / release profile) for the u8 subtraction.
   f32 is modelled exactly in doubled integers (every intermediate value is a multiple of 0.5). *)
From CKC Require Import Base.Prelude Spec.Layout.
From CKC Require Import Model.Card Model.Hands Model.Two Proofs.FiveFacts Proofs.C17.
Open Scope N_scope.

(* all 52 x 51 ordered pairs of distinct cards, both build profiles: never a panic, the Chen score *)
Theorem C17_chen : forall chk r1 s1 r2 s2,
  r1 < 13 -> s1 < 4 -> r2 < 13 -> s2 < 4 -> (r1, s1) <> (r2, s2) ->
  chen_formula chk [layout r1 s1; layout r2 s2] = Ok (chen_spec r1 r2 (s1 =? s2)).
Proof. exact chen_ok. Qed.

(* the same on card words, with rank and suit decoded from the documented layout *)
Theorem C17_chen_cards : forall chk w1 w2,
  RealCard w1 -> RealCard w2 -> w1 <> w2 ->
  chen_formula chk [w1; w2]
  = Ok (chen_spec (rank_of_word w1) (rank_of_word w2) (suit_of_word w1 =? suit_of_word w2)).
Proof. exact chen_cards. Qed.

(* the distinctness premise is not needed by the model (a hand of two equal cards scores as a
   suited pair) *)
Theorem C17_chen_any : forall chk r1 s1 r2 s2,
  r1 < 13 -> s1 < 4 -> r2 < 13 -> s2 < 4 ->
  chen_formula chk [layout r1 s1; layout r2 s2] = Ok (chen_spec r1 r2 (s1 =? s2)).
Proof. exact chen_any. Qed.

(* helpers: pair <-> equal ranks; suited <-> equal suits; the gap never panics and is
   max 0 (|r1-r2| - 1); connector <-> gap = 0 (so a pocket pair is a connector, as in the code);
   suited connector <-> suited and gap = 0; the high card is the numerically larger word, which is
   the card of higher rank, suit breaking ties *)
Theorem C17_helpers : forall chk r1 s1 r2 s2,
  r1 < 13 -> s1 < 4 -> r2 < 13 -> s2 < 4 ->
  let ws := [layout r1 s1; layout r2 s2] in
  let gap := chen_gap r1 r2 in
  is_pocket_pair ws = (r1 =? r2) /\
  is_suited ws = (s1 =? s2) /\
  get_gap chk ws = Ok gap /\
  is_connector chk ws = Ok (gap =? 0) /\
  is_suited_connector chk ws = Ok ((s1 =? s2) && (gap =? 0)) /\
  high_card ws = N.max (layout r1 s1) (layout r2 s2) /\
  high_card ws = higher r1 s1 r2 s2 /\
  (layout r1 s1 < layout r2 s2 <-> (r1 < r2 \/ (r1 = r2 /\ s1 < s2))).
Proof. exact helpers_ok. Qed.

Theorem C17_gap : forall r1 r2,
  chen_gap r1 r2 = N.max r1 r2 - N.min r1 r2 - 1 /\
  (chen_gap r1 r2 = 0 <-> (r1 <= r2 + 1 /\ r2 <= r1 + 1)).
Proof. exact chen_gap_spec. Qed.

(* slot order is irrelevant (for ANY two words); shifting the suit of both cards is irrelevant *)
Theorem C17_symmetric :
  (forall chk a b, chen_formula chk [a; b] = chen_formula chk [b; a]) /\
  (forall chk r1 s1 r2 s2, r1 < 13 -> s1 < 4 -> r2 < 13 -> s2 < 4 ->
     chen_formula chk (shift_suit_hand [layout r1 s1; layout r2 s2])
     = chen_formula chk [layout r1 s1; layout r2 s2]) /\
  (forall chk w1 w2, RealCard w1 -> RealCard w2 ->
     chen_formula chk (shift_suit_hand [w1; w2]) = chen_formula chk [w1; w2]).
Proof. exact symmetric_ok. Qed.

Theorem C17_helpers_symmetric : forall chk a b,
  high_card [a; b] = high_card [b; a] /\ is_pocket_pair [a; b] = is_pocket_pair [b; a] /\
  is_suited [a; b] = is_suited [b; a] /\ get_gap chk [a; b] = get_gap chk [b; a] /\
  is_connector chk [a; b] = is_connector chk [b; a] /\
  is_suited_connector chk [a; b] = is_suited_connector chk [b; a].
Proof. exact helpers_swap. Qed.

(* per-card points, doubled: 2..10 -> pip value, J 12, Q 14, K 16, A 20; blank 0 *)
Theorem C17_points :
  (forall r s, r < 13 -> s < 4 -> get_chen_points_x2 (layout r s) = chen_points_x2 r) /\
  get_chen_points_x2 0 = 0 /\
  map chen_points_x2 [0; 1; 2; 3; 4; 5; 6; 7; 8; 9; 10; 11; 12]
  = [2; 3; 4; 5; 6; 7; 8; 9; 10; 12; 14; 16; 20].
Proof. exact points_ok. Qed.

(* non-vacuity: A-K suited scores 12, 7-2 offsuit scores -1, a pair of deuces 5, J-T suited 9
   (6 + 1 bonus + 2 suited), 9-5 offsuit 1 (4.5 - 4 = 0.5, rounded up) *)
Example C17_examples :
  chen_formula true [layout 12 3; layout 11 3] = Ok 12%Z /\ chen_spec 12 11 true = 12%Z /\
  chen_formula false [layout 0 1; layout 5 2] = Ok (-1)%Z /\ chen_spec 0 5 false = (-1)%Z /\
  chen_formula true [layout 0 0; layout 0 3] = Ok 5%Z /\
  chen_formula true [layout 8 2; layout 9 2] = Ok 9%Z /\
  chen_formula false [layout 7 0; layout 3 1] = Ok 1%Z /\
  get_gap true [layout 0 1; layout 5 2] = Ok 4 /\ layout 12 3 = 268471337 /\ (12, 3) <> (11, 3).
Proof. repeat split; try (vm_compute; reflexivity). discriminate. Qed.

Print Assumptions C17_chen.
Print Assumptions C17_chen_cards.
Print Assumptions C17_chen_any.
Print Assumptions C17_helpers.
Print Assumptions C17_gap.
Print Assumptions C17_symmetric.
Print Assumptions C17_helpers_symmetric.
Print Assumptions C17_points.
