(* C08 — Suit shifting is a rank-preserving 4-cycle and never changes a hand's value.
   Statements only; proofs in Proofs/C08.v.
   Suits: clubs = 0, diamonds = 1, hearts = 2, spades = 3; [next_suit_spec]: S -> H -> D -> C -> S. *)
From CKC Require Import Base.Prelude Spec.Layout.
From CKC Require Import Model.Card Model.Hands Model.Five Proofs.FreeFacts Proofs.C08 Model.Shift Proofs.C08Sized.
Open Scope N_scope.

Theorem C08_card : forall r s, r < 13 -> s < 4 -> shift_suit (layout r s) = layout r (next_suit_spec s).
Proof. exact shift_card. Qed.

Theorem C08_cycle : forall r s,
  r < 13 -> s < 4 ->
  shift_suit (shift_suit (shift_suit (shift_suit (layout r s)))) = layout r s /\ shift_suit (layout r s) <> layout r s.
Proof. intros r s Hr Hs. exact (conj (shift_four r s Hr Hs) (shift_not_fixed r s Hr Hs)). Qed.

Theorem C08_blank : shift_suit 0 = 0.
Proof. exact shift_blank. Qed.

(* a hand of ANY size holding ANY words: every slot is shifted *)
Theorem C08_slots : forall ws,
  shift_suit_hand ws = map shift_suit ws /\ length (shift_suit_hand ws) = length ws /\
  forall i, (i < length ws)%nat -> nth i (shift_suit_hand ws) 0 = shift_suit (nth i ws 0).
Proof. exact shift_hand_slots. Qed.

(* the six container implementations, each transcribed as written (Model/Shift.v: one literal of shifted accessors
   per size), are that slot-wise map for every container size, holding ANY words; no other size exists.
   [shift_suit_sized] is what the correspondence check runs against Two .. Seven::shift_suit. *)
Theorem C08_slots_sized : forall ws,
  ((2 <= length ws <= 7)%nat -> shift_suit_sized ws = Ok (shift_suit_hand ws)) /\
  (~ (2 <= length ws <= 7)%nat -> shift_suit_sized ws = Panic).
Proof. intros ws. exact (conj (sized_is_map ws) (sized_panics ws)). Qed.

(* the value of five, six or seven distinct real cards is unchanged by ANY bijection of the suits *)
Theorem C08_relabel_invariant : forall chk f n ws,
  suit_bijection f -> (n = 5 \/ n = 6 \/ n = 7)%nat -> HandN n ws ->
  exists v, hand_rank_value chk ws = Ok v /\ hand_rank_value chk (map (relabel f) ws) = Ok v.
Proof. exact relabel_value. Qed.

(* stronger: the SAME outcome, whatever the lookup tables contain *)
Theorem C08_relabel_same : forall chk f n ws,
  suit_bijection f -> (n = 5 \/ n = 6 \/ n = 7)%nat -> HandN n ws ->
  hand_rank_value chk (map (relabel f) ws) = hand_rank_value chk ws.
Proof. exact relabel_same. Qed.

(* in particular by shifting *)
Theorem C08_shift_invariant : forall chk n ws,
  (n = 5 \/ n = 6 \/ n = 7)%nat -> HandN n ws ->
  exists v, hand_rank_value chk ws = Ok v /\ hand_rank_value chk (shift_suit_hand ws) = Ok v.
Proof. exact shift_value. Qed.

Theorem C08_shift_is_relabel : forall w, RealCard w -> shift_suit w = relabel next_suit_spec w.
Proof. exact shift_is_relabel. Qed.

Example C08_example :
  shift_suit (layout 12 3) = layout 12 2 /\ shift_suit (layout 0 0) = layout 0 3 /\ suit_bijection next_suit_spec /\
  HandN 5 [layout 12 3; layout 11 3; layout 10 3; layout 9 3; layout 8 3] /\
  HandN 7 [layout 0 0; layout 12 3; layout 11 3; layout 1 1; layout 10 3; layout 9 3; layout 8 3].
Proof.
  split; [vm_compute; reflexivity|]. split; [vm_compute; reflexivity|]. split; [apply next_suit_bijection|].
  split; apply handN_b; vm_compute; reflexivity.
Qed.

From CKC Require Import Model.Proj Proofs.ProjC08.
(* the `shiftinv` line of the correspondence check is the constant `1 1 1 1 1 1 1` on five, six or seven distinct
   real cards: plain and validated value unchanged by one, two, three shifts; four shifts restore the hand.
   (The validated fields also use "distinct real cards form a valid hand", Proofs/ValidReal.v.) *)
Theorem C08_projection : forall chk n ws,
  (n = 5 \/ n = 6 \/ n = 7)%nat -> HandN n ws ->
  proj_shiftinv chk ws = [Ok true; Ok true; Ok true; Ok true; Ok true; Ok true; Ok true].
Proof. exact proj_shiftinv_const. Qed.
(* the `relabel` line of the correspondence check is the constant `1 1` on five, six or seven distinct real cards:
   plain and validated value unchanged by all 24 rearrangements of the four suit variants, the cards being rebuilt
   through get_card_rank / get_card_suit / create *)
Theorem C08_projection_relabel : forall chk n ws,
  (n = 5 \/ n = 6 \/ n = 7)%nat -> HandN n ws -> proj_relabel chk ws = Ok [true; true].
Proof. exact proj_relabel_const. Qed.

Print Assumptions C08_card.
Print Assumptions C08_cycle.
Print Assumptions C08_blank.
Print Assumptions C08_slots.
Print Assumptions C08_slots_sized.
Print Assumptions C08_relabel_invariant.
Print Assumptions C08_relabel_same.
Print Assumptions C08_shift_invariant.
Print Assumptions C08_shift_is_relabel.
Print Assumptions C08_projection.
Print Assumptions C08_projection_relabel.
