(* C06 — Hand rank name and class describe exactly the poker class of the value.
   Statements only; proofs in Proofs/C06.v.

   [determine_name v], [determine_class v] : the variant index (declaration order) returned for the
       value v — the complete graphs over all 65 536 values, regenerated from the running code.
   [NAME_INVALID], [CLASS_INVALID]         : the variants whose Debug name is "Invalid".
   [ranked]            : the 7 462 hand classes of Spec/Poker.v sorted by strength (Proofs/RankedFacts.v);
                         position i (from 0) has ordinal i + 1.
   [ordinal h]         : 1 + the number of hand classes that beat h (Spec/Poker.v, literal).
   [category_name h]   : "StraightFlush" .. "HighCard", from the rules (Proofs/C06.v, spec section).
   [class_name_spec h] : the class identifier built from the hand's structure, e.g.
                         plural k ++ "Over" ++ plural p for a full house (Proofs/C06.v, spec section).
   [name_variant_spec h] := variant HandRankName_NAMES (category_name h).
   [name_string n], [class_string c]       : the Debug name of a variant (Gen/Enums.v).
   [describes v h] := determine_name v = name_variant_spec h /\
                      name_string (determine_name v) = category_name h /\
                      class_string (determine_class v) = class_name_spec h. *)
From Coq Require Import String.
From CKC Require Import Base.Prelude Spec.Layout Spec.Poker.
From CKC Require Import Gen.Enums Gen.HandRankMaps.
From CKC Require Import Model.Five Model.HandRank.
From CKC Require Import Proofs.FiveFacts Proofs.RankedFacts Proofs.CombFacts Proofs.HandFacts Proofs.C01 Proofs.TableFacts Proofs.C02 Proofs.C06 Proofs.C06Cards.
Open Scope N_scope.

(* Invalid for both exactly when the value is 0 or above 7462 *)
Theorem C06_invalid : forall v,
  v < 65536 ->
  (determine_name v = NAME_INVALID <-> (v = 0 \/ 7462 < v)) /\
  (determine_class v = CLASS_INVALID <-> (v = 0 \/ 7462 < v)).
Proof. exact invalid_ok. Qed.

(* every one of the 7 462 classes, at its position: category and class text are those of the class *)
Theorem C06_describes : forall i sc h,
  In (i, (sc, h)) (enum_from 0 ranked) ->
  let v := i + 1 in
  v = ordinal h /\ 1 <= v <= 7462 /\ In h all_shapes /\ sc = score h /\
  determine_name v = name_variant_spec h /\
  name_string (determine_name v) = category_name h /\
  class_string (determine_class v) = class_name_spec h.
Proof. exact describes_enum. Qed.

(* the general form: every hand class, at its strength ordinal *)
Theorem C06_describes_class : forall h,
  In h all_shapes ->
  1 <= ordinal h <= 7462 /\
  determine_name (ordinal h) = name_variant_spec h /\
  name_string (determine_name (ordinal h)) = category_name h /\
  class_string (determine_class (ordinal h)) = class_name_spec h.
Proof. exact describes_class. Qed.

(* ... and every value 1..7462 is the ordinal of a class, which its name and class describe *)
Theorem C06_describes_value : forall v,
  1 <= v <= 7462 ->
  exists h, In h all_shapes /\ ordinal h = v /\
    determine_name v = name_variant_spec h /\
    name_string (determine_name v) = category_name h /\
    class_string (determine_class v) = class_name_spec h.
Proof. exact describes_onto. Qed.

(* each of the 309 non-Invalid classes and each of the 9 categories is the image of a non-empty
   contiguous interval of values inside 1..7462; every value is mapped to a variant; and the run
   lists themselves: starts strictly increasing, first run (0, Invalid), last run (7463, Invalid),
   in between a run starting at 1 and every other variant in exactly one run.
   [runs_shape g inv] :=
     strictly_increasing (map fst g) = true /\
     exists mid, g = (0, inv) :: mid ++ [(7463, inv)] /\ option_map fst (hd_error mid) = Some 1 /\
       NoDup (map snd mid) /\ ~ In inv (map snd mid) /\
       (forall c, c < inv -> In c (map snd mid)) /\ lenN mid = inv *)
Theorem C06_ranges :
  (lenN HandRankClass_NAMES = 310 /\ CLASS_INVALID = 309 /\
   lenN HandRankName_NAMES = 10 /\ NAME_INVALID = 9) /\
  (forall c, c < CLASS_INVALID ->
     exists lo hi, 1 <= lo /\ lo <= hi /\ hi <= 7462 /\
       forall v, v < 65536 -> (determine_class v = c <-> lo <= v <= hi)) /\
  (forall n, n < NAME_INVALID ->
     exists lo hi, 1 <= lo /\ lo <= hi /\ hi <= 7462 /\
       forall v, v < 65536 -> (determine_name v = n <-> lo <= v <= hi)) /\
  (forall v, v < 65536 -> determine_name v <= NAME_INVALID /\ determine_class v <= CLASS_INVALID) /\
  runs_shape CLASS_RLE CLASS_INVALID /\ runs_shape NAME_RLE NAME_INVALID.
Proof. exact ranges_ok. Qed.

(* a converted rank always passes its own consistency test; default = from(0) *)
Theorem C06_consistent :
  (forall v, is_a_valid_hand_rank (hr_from v) = true) /\
  (forall h, is_a_valid_hand_rank h = true <-> h = hr_from (hr_value h)) /\
  hr_default = hr_from 0 /\
  (forall v, hr_value (hr_from v) = v) /\
  (forall v, is_invalid (hr_from v) = true <-> determine_name v = NAME_INVALID) /\
  (forall v, v < 65536 -> (is_invalid (hr_from v) = true <-> (v = 0 \/ 7462 < v))) /\
  is_invalid hr_default = true.
Proof. exact consistent_ok. Qed.

(* the rank reported for five distinct real cards (any slot order, both profiles, validated or
   not) carries the hand's strength ordinal, and its category and class describe the actual cards *)
Theorem C06_cards : forall chk ws,
  Hand5 ws ->
  let h := shape_of ws in
  let v := ordinal h in
  rmap hr_from (hand_rank_value chk ws) = Ok (hr_from v) /\
  rmap hr_from (hand_rank_value_validated chk ws) = Ok (hr_from v) /\
  hr_value (hr_from v) = v /\
  hr_name (hr_from v) = name_variant_spec h /\
  name_string (hr_name (hr_from v)) = category_name h /\
  class_string (hr_class (hr_from v)) = class_name_spec h /\
  is_invalid (hr_from v) = false /\ is_a_valid_hand_rank (hr_from v) = true.
Proof. exact cards_ok. Qed.

(* six and seven distinct real cards: the reported rank carries the value of, and describes, the best five cards
   the hand contains (composition with C02) *)
Theorem C06_cards_six_seven : forall chk n ws,
  (n = 6 \/ n = 7)%nat -> HandN n ws ->
  exists s,
    Subseq s ws /\ Hand5 s /\
    let h := shape_of s in
    let v := ordinal h in
    v = best_value5 ws /\
    rmap hr_from (hand_rank_value chk ws) = Ok (hr_from v) /\
    rmap hr_from (hand_rank_value_validated chk ws) = Ok (hr_from v) /\
    name_string (hr_name (hr_from v)) = category_name h /\
    class_string (hr_class (hr_from v)) = class_name_spec h /\
    is_invalid (hr_from v) = false.
Proof. exact cards_n_ok. Qed.

(* the spec text is independent of slot order *)
Theorem C06_spec_perm : forall rs rs' fl,
  Permutation.Permutation rs rs' ->
  category_name (rs, fl) = category_name (rs', fl) /\ class_name_spec (rs, fl) = class_name_spec (rs', fl).
Proof. exact (fun rs rs' fl H => conj (category_name_perm rs rs' fl H) (class_name_spec_perm rs rs' fl H)). Qed.

(* non-vacuity: what the spec says about concrete hands, and what the graphs answer *)
Example C06_examples :
  class_name_spec ([11; 11; 11; 7; 7], false) = "KingsOverNines"%string /\
  category_name ([11; 11; 11; 7; 7], false) = "FullHouse"%string /\
  class_name_spec ([12; 3; 2; 1; 0], true) = "FiveHighStraightFlush"%string /\
  class_name_spec ([12; 11; 10; 9; 8], true) = "RoyalFlush"%string /\
  class_name_spec ([5; 3; 2; 1; 0], false) = "SevenHigh"%string /\
  class_name_spec ([4; 9; 4; 0; 9], false) = "JacksAndSixes"%string /\
  class_string (determine_class 183) = "KingsOverNines"%string /\
  ordinal ([11; 11; 11; 7; 7], false) = 183 /\
  name_string (determine_name 7462) = "HighCard"%string /\
  class_string (determine_class 7463) = "Invalid"%string /\
  determine_name 65535 = NAME_INVALID /\
  (* the hand K K K 9 9 in a scrambled slot order *)
  rmap (fun r => class_string (hr_class r))
       (rmap hr_from (hand_rank_value true [layout 7 0; layout 11 3; layout 11 1; layout 7 3; layout 11 2]))
  = Ok "KingsOverNines"%string.
Proof.
  split; [vm_compute; reflexivity|]. split; [vm_compute; reflexivity|].
  split; [vm_compute; reflexivity|]. split; [vm_compute; reflexivity|].
  split; [vm_compute; reflexivity|]. split; [vm_compute; reflexivity|].
  split; [vm_compute; reflexivity|]. split; [vm_compute; reflexivity|].
  split; [vm_compute; reflexivity|]. split; [vm_compute; reflexivity|].
  split; vm_compute; reflexivity.
Qed.

(* the hypotheses are satisfiable: a hand class, and a hand of five distinct real cards *)
Example C06_example_class : In ([11; 11; 11; 7; 7], false) all_shapes.
Proof.
  unfold all_shapes. apply filter_In. split; [|vm_compute; reflexivity].
  apply in_prod; [|left; reflexivity].
  change 5%nat with (length [11; 11; 11; 7; 7]).
  apply Proofs.PokerFacts.multisets_complete.
  - exact Proofs.PokerFacts.RANKS_DESC_sorted.
  - repeat constructor; lia.
  - repeat (constructor; [apply Proofs.PokerFacts.lt13_In_RANKS_DESC; lia|]). constructor.
Qed.
Example C06_example_hand : Hand5 [layout 7 0; layout 11 3; layout 11 1; layout 7 3; layout 11 2].
Proof.
  split; [reflexivity|]. split.
  - apply Forall_forall. intros w Hw. apply Proofs.CardBase.real_cardb_spec.
    cbn [In] in Hw. repeat (destruct Hw as [<-|Hw]; [vm_compute; reflexivity|]). contradiction.
  - apply Base.Reflect.nodupb_NoDup. vm_compute. reflexivity.
Qed.

From CKC Require Import Model.Proj Proofs.ProjC06.
(* the `hrself` line of the correspondence check is the constant `1 1 1` on five, six or seven distinct real
   cards: the reported record (plain, validated) is the conversion of the reported value; not Invalid; consistent *)
Theorem C06_projection : forall chk n ws,
  (n = 5 \/ n = 6 \/ n = 7)%nat -> HandN n ws -> proj_hrself chk ws = [Ok true; Ok true; Ok true].
Proof. exact proj_hrself_const. Qed.

Print Assumptions C06_invalid.
Print Assumptions C06_describes.
Print Assumptions C06_describes_class.
Print Assumptions C06_describes_value.
Print Assumptions C06_ranges.
Print Assumptions C06_consistent.
Print Assumptions C06_cards.
Print Assumptions C06_spec_perm.
Print Assumptions C06_cards_six_seven.
Print Assumptions C06_projection.
