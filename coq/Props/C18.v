(* C18 — Deck and published combination tables are complete and duplicate-free. *)
From CKC Require Import Base.Prelude Base.Reflect Base.Combs Spec.Layout Model.Deck Proofs.C18 Proofs.SlotOrder.
From CKC Require Import Gen.Consts Gen.Decks.
Open Scope N_scope.

(* the deck is the 52 cards, spades, hearts, diamonds, clubs, each ace down to deuce, once each *)
Theorem C18_deck :
  POKER_DECK = SPEC_DECK /\ length POKER_DECK = 52%nat /\ NoDup POKER_DECK /\ DECK_LEN = 52 /\ DECK_SIZE = 52.
Proof. exact deck_ok. Qed.

(* indexing: every index (a usize, any N) *)
Theorem C18_get : forall i, deck_get i = Ok (nthN POKER_DECK i 0).
Proof. exact get_ok. Qed.
Theorem C18_get_past_end : forall i, 52 <= i -> deck_get i = Ok 0.
Proof. exact get_past_end. Qed.

(* preset tables: exactly the combinations of their description (as duplicate-free sets of rows,
   higher card first), with the stated counts *)
Theorem C18_presets :
  table_ok TWO_AA SPEC_AA 6 /\ table_ok TWO_AK SPEC_AK 16 /\
  table_ok TWO_AKs SPEC_AKs 4 /\ table_ok TWO_AKo SPEC_AKo 12 /\
  table_ok TWO_AQs SPEC_AQs 4 /\ table_ok TWO_AQo SPEC_AQo 12.
Proof. exact presets_ok. Qed.

(* slot-index tables: every k-of-n combination exactly once, each row increasing *)
Theorem C18_slot_tables :
  table_ok OMAHA_PERMUTATIONS SPEC_2_OF_4 6 /\ Forall (fun r => strictly_increasing r = true) OMAHA_PERMUTATIONS /\
  table_ok SIX_PERMUTATIONS SPEC_5_OF_6 6 /\ Forall (fun r => strictly_increasing r = true) SIX_PERMUTATIONS /\
  table_ok SEVEN_PERMUTATIONS SPEC_5_OF_7 21 /\ Forall (fun r => strictly_increasing r = true) SEVEN_PERMUTATIONS.
Proof. exact slot_tables_ok. Qed.

(* "in increasing order" also of the rows: each table is the lexicographic enumeration itself *)
Theorem C18_slot_tables_order :
  OMAHA_PERMUTATIONS = SPEC_2_OF_4 /\ SIX_PERMUTATIONS = SPEC_5_OF_6 /\ SEVEN_PERMUTATIONS = SPEC_5_OF_7 /\
  rows_increasing OMAHA_PERMUTATIONS = true /\ rows_increasing SIX_PERMUTATIONS = true /\
  rows_increasing SEVEN_PERMUTATIONS = true.
Proof. exact slot_tables_lex. Qed.

Example C18_example :
  In [268471337; 134253349] SPEC_AKs /\ In [0; 1; 2; 3; 6] SPEC_5_OF_7 /\ length SPEC_5_OF_7 = 21%nat.
Proof. repeat split; vm_compute; tauto. Qed.

Print Assumptions C18_deck.
Print Assumptions C18_get.
Print Assumptions C18_get_past_end.
Print Assumptions C18_presets.
Print Assumptions C18_slot_tables.
Print Assumptions C18_slot_tables_order.
