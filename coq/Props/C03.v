(* C03 — Reported best hand is a sorted five-card witness drawn from the input.
   Statements only; proofs in Proofs/FreeFacts.v and Proofs/C03.v. They need the slot tables to be well formed (five
   distinct in-range indices per row) and the lookup tables to have their lengths, but NOT the contents of
   the lookup tables nor completeness of the slot tables (those matter for C01 / C02 / C09). *)
From CKC Require Import Base.Prelude Base.SortN Spec.Layout.
From CKC Require Import Model.Five Proofs.FreeFacts Proofs.C03.
Open Scope N_scope.

(* five-card input: whenever ranking returns, the reported hand is the input unchanged (ANY words) *)
Theorem C03_five_identity : forall chk ws v h, length ws = 5%nat -> hrvh chk ws = Ok (v, h) -> h = ws.
Proof. exact five_identity. Qed.
(* ... and on five distinct real cards it does return *)
Theorem C03_five : forall chk ws, length ws = 5%nat -> Forall RealCard ws -> exists v, hrvh chk ws = Ok (v, ws).
Proof. exact five_returns. Qed.

(* six / seven distinct real cards: five distinct cards, all from the input, in non-increasing (hence
   strictly descending) numeric order, whose own ranking gives exactly the reported value *)
Theorem C03_witness : forall chk n ws,
  (n = 6 \/ n = 7)%nat -> HandN n ws ->
  exists v h,
    hrvh chk ws = Ok (v, h) /\ hand_rank_value chk ws = Ok v /\
    length h = 5%nat /\ NoDup h /\ incl h ws /\ noninc h /\ Forall RealCard h /\
    hrvh chk h = Ok (v, h) /\ hand_rank_value chk h = Ok v.
Proof. exact witness_free. Qed.

(* non-vacuity: a seven-card hand meeting the hypotheses (2c As Ks 3d Qs Js Ts, any order) *)
Example C03_example :
  HandN 7 [layout 0 0; layout 12 3; layout 11 3; layout 1 1; layout 10 3; layout 9 3; layout 8 3] /\
  HandN 6 [layout 12 3; layout 12 2; layout 1 1; layout 10 3; layout 9 3; layout 8 0].
Proof. split; apply handN_b; vm_compute; reflexivity. Qed.

From CKC Require Import Model.Proj Proofs.ProjC03.
(* the `wit` line of the correspondence check is the constant `1 1 1 1` on six / seven distinct real cards: the
   reported hand is drawn from the input, duplicate-free, non-increasing and re-ranks to the reported value *)
Theorem C03_projection : forall chk n ws,
  (n = 6 \/ n = 7)%nat -> HandN n ws -> proj_wit chk ws = Ok [true; true; true; true].
Proof. exact proj_wit_const. Qed.

Print Assumptions C03_five_identity.
Print Assumptions C03_five.
Print Assumptions C03_witness.
Print Assumptions C03_projection.
