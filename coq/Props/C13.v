(* C13 — Flush, straight and wheel predicates agree with the hand's actual category.
   Statements only; proofs in Proofs/C13.v.

   [Real5 ws]  : five slots, each one of the 52 real card words, ANY order (repetition allowed:
                 the predicates are right even then); [Hand5 ws] additionally has no two slots equal.
   rank-side specifications (Spec/Poker.v, written from the rules):
     is_straight_ranks rs : the five ranks are distinct and consecutive, the ace may play low;
     is_wheel_ranks rs    : the ranks are exactly A-5-4-3-2. *)
From CKC Require Import Base.Prelude Spec.Layout Spec.Poker.
From CKC Require Import Model.Five Model.HandRank Proofs.FiveFacts Proofs.HandFacts Proofs.C13 Proofs.C13Rank.
Open Scope N_scope.

Theorem C13_predicates : forall ws,
  Real5 ws ->
  let rs := map rank_of_word ws in
  let same_suit := all_same (map suit_of_word ws) in
  is_flush ws = same_suit /\
  is_straight ws = is_straight_ranks rs /\
  is_straight_flush ws = is_straight_ranks rs && same_suit /\
  is_wheel ws = is_wheel_ranks rs.
Proof. exact predicates_ok. Qed.

(* what the rank-side straight test means *)
Theorem C13_straight_meaning : forall rs,
  is_straight_ranks rs = true <->
  all_distinct rs = true /\
  (ranks_with 1 rs = WHEEL \/ hd 0 (ranks_with 1 rs) - last (ranks_with 1 rs) 0 = 4).
Proof. exact is_straight_ranks_meaning. Qed.

(* agreement with the category of the same hand under the rules of poker (C01 + C06 tie the
   category to the value and name returned by ranking) *)
Theorem C13_category : forall ws,
  Hand5 ws ->
  let c := category (shape_of ws) in
  (is_flush ws = true <-> c = FLUSH \/ c = STRAIGHT_FLUSH) /\
  (is_straight ws = true <-> c = STRAIGHT \/ c = STRAIGHT_FLUSH) /\
  (is_straight_flush ws = true <-> c = STRAIGHT_FLUSH).
Proof. exact category_ok. Qed.

(* ... and with the category NAME obtained by ranking the same hand (a category-level reflection of the
   lookup tables: Proofs/C13Rank.v) *)
Theorem C13_rank_name : forall chk ws,
  Hand5 ws ->
  exists r,
    rmap hr_from (hand_rank_value chk ws) = Ok r /\
    (is_flush ws = true <-> hr_name r = NAME_FLUSH \/ hr_name r = NAME_STRAIGHT_FLUSH) /\
    (is_straight ws = true <-> hr_name r = NAME_STRAIGHT \/ hr_name r = NAME_STRAIGHT_FLUSH) /\
    (is_straight_flush ws = true <-> hr_name r = NAME_STRAIGHT_FLUSH).
Proof. exact rank_name_ok. Qed.

(* the deprecated free functions are the methods, for arbitrary words *)
Theorem C13_deprecated : forall ws,
  evaluate_is_flush ws = is_flush ws /\ evaluate_or_rank_bits ws = or_rank_bits ws.
Proof. intros ws. split; reflexivity. Qed.

(* historical: the span-only test of the pinned tree before the repair (fix: commit 85d6770) was refuted by
   As Ks Qs Ts Ah, a pair of aces reported as a straight *)
Theorem C13_unrepaired_refuted :
  let ws := [layout 12 3; layout 11 3; layout 10 3; layout 8 3; layout 12 2] in
  Hand5 ws /\ is_straight_unrepaired ws = true /\ is_straight_ranks (map rank_of_word ws) = false /\
  is_straight ws = false.
Proof. exact unrepaired_refuted. Qed.

(* non-vacuity: 9S 9H 8C 7C 5D is a pair whose ranks span five places: NOT a straight;
   the steel wheel is a wheel, a straight and a flush *)
Example C13_example :
  is_straight [layout 7 3; layout 7 2; layout 6 0; layout 5 0; layout 3 1] = false /\
  is_straight [layout 3 1; layout 2 1; layout 1 1; layout 0 1; layout 12 1] = true /\
  is_wheel [layout 3 1; layout 2 1; layout 1 1; layout 0 1; layout 12 1] = true /\
  is_straight_flush [layout 3 1; layout 2 1; layout 1 1; layout 0 1; layout 12 1] = true.
Proof. repeat split; vm_compute; reflexivity. Qed.

Print Assumptions C13_predicates.
Print Assumptions C13_straight_meaning.
Print Assumptions C13_category.
Print Assumptions C13_rank_name.
Print Assumptions C13_deprecated.
Print Assumptions C13_unrepaired_refuted.
