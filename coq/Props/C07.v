(* C07 — Hand ranks form a lawful total order in which stronger hands are greater.
   Statements only; proofs in Proofs/C07.v.

   [hr_from v]  : HandRank::from(v) (value, name variant, class variant).
   [hr_cmp]     : Ord::cmp for HandRank — the REPAIRED comparison of Model/HandRank.v: two invalid
                  ranks are ordered by value (reversed, like valid ones); invalid below valid;
                  valid ranks in reversed value order.
   [key]        : 65535 - v for an invalid value (0 or above 7462), 65536 + (65536 - v) otherwise.
   [R a b]      : hr_cmp (hr_from a) (hr_from b).
   [name_pos], [class_pos] : position of a variant in the observed derived order of its enumeration
                  (Gen/Enums.v), [*_ORDER_CONSISTENT = 1]: that observation is a total order
                  consistent on all variant pairs.
   All values range over u16 (v < 65536). *)
From CKC Require Import Base.Prelude.
From CKC Require Import Gen.Enums Model.HandRank Proofs.C07.
Open Scope N_scope.

(* comparison = numeric comparison of an injective integer key: this settles reflexivity,
   antisymmetry, transitivity and totality over all pairs and triples at once *)
Theorem C07_key :
  (forall a b, a < 65536 -> b < 65536 ->
     hr_cmp (hr_from a) (hr_from b) = N.compare (key a) (key b)) /\
  (forall a b, a < 65536 -> b < 65536 -> key a = key b -> a = b) /\
  (forall v, v < 65536 ->
     key v = if (v =? 0) || (7462 <? v) then 65535 - v else 65536 + (65536 - v)).
Proof. exact key_ok. Qed.

Theorem C07_reflexive : forall a, a < 65536 -> R a a = Eq.
Proof. exact cmp_refl. Qed.

Theorem C07_antisymmetric : forall a b, a < 65536 -> b < 65536 -> R b a = CompOpp (R a b).
Proof. exact cmp_antisym. Qed.

Theorem C07_transitive : forall a b c,
  a < 65536 -> b < 65536 -> c < 65536 ->
  (R a b = Lt -> R b c = Lt -> R a c = Lt) /\
  (R a b = Gt -> R b c = Gt -> R a c = Gt) /\
  (R a b = Eq -> R a c = R b c) /\
  (R b c = Eq -> R a c = R a b) /\
  (R a b <> Gt -> R b c <> Gt -> R a c <> Gt) /\
  (R a b <> Lt -> R b c <> Lt -> R a c <> Lt).
Proof. exact cmp_trans. Qed.

Theorem C07_total : forall a b,
  a < 65536 -> b < 65536 ->
  (hr_le (hr_from a) (hr_from b) = true \/ hr_le (hr_from b) (hr_from a) = true) /\
  (R a b = Lt /\ R b a = Gt \/ R a b = Eq /\ R b a = Eq /\ a = b \/ R a b = Gt /\ R b a = Lt).
Proof. exact cmp_total. Qed.

(* two ranks compare equal only when they are equal: cmp = Equal <-> == <-> same rank <-> same value *)
Theorem C07_eq : forall a b,
  a < 65536 -> b < 65536 ->
  (R a b = Eq <-> hr_eqb (hr_from a) (hr_from b) = true) /\
  (hr_eqb (hr_from a) (hr_from b) = true <-> hr_from a = hr_from b) /\
  (hr_from a = hr_from b <-> a = b).
Proof. exact eq_ok. Qed.

(* stronger (lower value) valid rank is greater; invalid below valid; two invalid by value *)
Theorem C07_order :
  (forall a b, 1 <= a -> a < b -> b <= 7462 -> R a b = Gt /\ R b a = Lt) /\
  (forall a b, a < 65536 -> (a = 0 \/ 7462 < a) -> 1 <= b -> b <= 7462 -> R a b = Lt /\ R b a = Gt) /\
  (forall a b, a < 65536 -> b < 65536 -> (a = 0 \/ 7462 < a) -> (b = 0 \/ 7462 < b) ->
     R a b = N.compare b a).
Proof. exact order_ok. Qed.

(* < <= > >= agree with the comparison (any two ranks), hence with the key *)
Theorem C07_operators : forall x y,
  (hr_lt x y = true <-> hr_cmp x y = Lt) /\ (hr_le x y = true <-> hr_cmp x y <> Gt) /\
  (hr_gt x y = true <-> hr_cmp x y = Gt) /\ (hr_ge x y = true <-> hr_cmp x y <> Lt).
Proof. exact ops_ok. Qed.

Theorem C07_operators_key : forall a b,
  a < 65536 -> b < 65536 ->
  hr_lt (hr_from a) (hr_from b) = (key a <? key b) /\ hr_le (hr_from a) (hr_from b) = (key a <=? key b) /\
  hr_gt (hr_from a) (hr_from b) = (key b <? key a) /\ hr_ge (hr_from a) (hr_from b) = (key b <=? key a).
Proof. exact ops_key. Qed.

(* the category and class enumerations are ordered strongest-first in step with the value; Invalid
   is last; the positions are a permutation of 0..n-1 and the observed order is a consistent one *)
Theorem C07_enums :
  (forall v w, 1 <= v -> v < w -> w <= 7462 ->
     name_pos (determine_name v) <= name_pos (determine_name w) /\
     class_pos (determine_class v) <= class_pos (determine_class w)) /\
  (forall v w, 1 <= v -> v <= 7462 -> w < 65536 -> (w = 0 \/ 7462 < w) ->
     name_pos (determine_name v) < name_pos (determine_name w) /\
     class_pos (determine_class v) < class_pos (determine_class w)) /\
  (* positions of the 10 category variants: a permutation of 0..9, Invalid last *)
  ((forall x, x < lenN HandRankName_NAMES -> name_pos x < lenN HandRankName_NAMES) /\
   (forall x y, x < lenN HandRankName_NAMES -> y < lenN HandRankName_NAMES ->
      name_pos x = name_pos y -> x = y) /\
   (forall x, x < lenN HandRankName_NAMES -> x <> NAME_INVALID -> name_pos x < name_pos NAME_INVALID) /\
   NAME_INVALID < lenN HandRankName_NAMES) /\
  (* positions of the 310 class variants: a permutation of 0..309, Invalid last *)
  ((forall x, x < lenN HandRankClass_NAMES -> class_pos x < lenN HandRankClass_NAMES) /\
   (forall x y, x < lenN HandRankClass_NAMES -> y < lenN HandRankClass_NAMES ->
      class_pos x = class_pos y -> x = y) /\
   (forall x, x < lenN HandRankClass_NAMES -> x <> CLASS_INVALID -> class_pos x < class_pos CLASS_INVALID) /\
   CLASS_INVALID < lenN HandRankClass_NAMES) /\
  HandRankName_ORDER_CONSISTENT = 1 /\ HandRankClass_ORDER_CONSISTENT = 1 /\
  lenN HandRankName_ORDER = lenN HandRankName_NAMES /\
  lenN HandRankClass_ORDER = lenN HandRankClass_NAMES.
Proof. exact enums_ok. Qed.

(* historical: on the pinned tree BEFORE the repair (fix: commit 262747d; all invalid ranks compared Equal) the
   property failed: that comparison says Equal for two ranks that are not == *)
Theorem C07_unrepaired_refuted :
  hr_cmp_unrepaired (hr_from 0) (hr_from 7463) = Eq /\ hr_eqb (hr_from 0) (hr_from 7463) = false /\
  (forall a b, is_invalid a && is_invalid b = false -> hr_cmp_unrepaired a b = hr_cmp a b).
Proof. exact unrepaired_refuted. Qed.

(* non-vacuity: a royal flush beats a pair-class value, which beats every invalid value; two
   invalid values are distinguished (0 against 7463 was Equal before the repair); the key *)
Example C07_examples :
  R 1 3326 = Gt /\ R 3326 0 = Gt /\ R 0 7463 = Gt /\ R 7463 0 = Lt /\ R 65535 7463 = Lt /\
  R 7462 7463 = Gt /\ hr_eqb (hr_from 0) (hr_from 7463) = false /\
  key 0 = 65535 /\ key 7463 = 58072 /\ key 7462 = 123610 /\ key 1 = 131071 /\
  name_pos (determine_name 1) = 0 /\ class_pos (determine_class 7462) = 308 /\
  class_pos CLASS_INVALID = 309.
Proof. repeat split; vm_compute; reflexivity. Qed.

From CKC Require Import Model.Proj Proofs.ProjC07.
(* the `hrkey` line of the correspondence check is the constant `1 1 1` on all pairs of u16 values: cmp is what
   the property fixes; == agrees with it and with equality of the values; < <= > >= agree with it *)
Theorem C07_projection : forall a b, a < 65536 -> b < 65536 -> proj_hrkey a b = [true; true; true].
Proof. exact proj_hrkey_const. Qed.

Print Assumptions C07_key.
Print Assumptions C07_reflexive.
Print Assumptions C07_antisymmetric.
Print Assumptions C07_transitive.
Print Assumptions C07_total.
Print Assumptions C07_eq.
Print Assumptions C07_order.
Print Assumptions C07_operators.
Print Assumptions C07_operators_key.
Print Assumptions C07_enums.
Print Assumptions C07_unrepaired_refuted.
Print Assumptions C07_projection.
