(* C19 — Hand containers store and return exactly the words put into them.
   Only statements here; proofs are in Proofs/C19.v.

   Model/Container.v: the state of an n-slot container (Two .. Seven, n = 2 .. 7; the theorems hold
   for every n) is the list of its n words in slot order.  Operations: [OpDefault] (Default),
   [OpArr ws] (From<[u32; N]>), [OpNew ws] (slot constructor / composite constructors, arguments
   flattened), [OpSet i w] (set_first .. set_seventh, i = 0 .. n-1).  Readers: accessor j = [nth j],
   to_arr() / iter() = the list.  The containers never look at the stored words, so the words are
   arbitrary N (a superset of u32).
   The reference [array], [array_upd], [array_step], [array_run] (Proofs/C19.v) is a plain array
   nat -> N with functional update, written independently of the container model. *)
From CKC Require Import Base.Prelude Model.Container Model.Five Proofs.C19.
Open Scope N_scope.

(* a setter writes the named slot, leaves every other slot alone, keeps the size *)
Theorem C19_set_nth : forall i w l,
  (i < length l)%nat ->
  nth i (set_nth i w l) 0 = w /\
  (forall j, j <> i -> nth j (set_nth i w l) 0 = nth j l 0) /\
  length (set_nth i w l) = length l.
Proof. exact set_nth_ok. Qed.

Theorem C19_set_nth_closed_form : forall i w l,
  (i < length l)%nat -> set_nth i w l = firstn i l ++ w :: skipn (S i) l.
Proof. exact set_nth_firstn_skipn. Qed.

(* the reference, for the record: one step of the plain array *)
Theorem C19_array_step_def : forall a o k,
  array_step a o k =
  match o with
  | OpDefault => 0
  | OpArr ws => nth k ws 0
  | OpNew ws => nth k ws 0
  | OpSet i w => if Nat.eqb k i then w else a k
  end.
Proof. exact array_step_def. Qed.

(* refinement over whole histories: from any n-slot start, for ANY sequence of well-formed
   constructor and setter calls (constructors carry n words, setter indices < n), the state after
   the i-th call has n slots and equals, at every slot, the plain array that received the same
   calls *)
Theorem C19_refines : forall n st ops,
  length st = n -> Forall (wf_op n) ops ->
  length (run n st ops) = length ops /\ length (array_run (array_of_list st) ops) = length ops /\
  forall i, (i < length ops)%nat ->
    length (nth i (run n st ops) []) = n /\
    forall j, (j < n)%nat ->
      nth j (nth i (run n st ops) []) 0 = nth i (array_run (array_of_list st) ops) (fun _ => 0) j.
Proof. exact refines. Qed.

(* the same as a simulation: corresponding states of the two runs are related pairwise *)
Theorem C19_refines_sim : forall n ops st a,
  represents n st a -> Forall (wf_op n) ops -> Forall2 (represents n) (run n st ops) (array_run a ops).
Proof. exact run_refines. Qed.

(* construct from an array / by the slot constructor, apply any setter history, read back *)
Theorem C19_writes_then_reads : forall (ws : list N) ops,
  Forall (wf_op (length ws)) ops ->
  length (fold_left (step (length ws)) ops ws) = length ws /\
  forall j, (j < length ws)%nat ->
    nth j (fold_left (step (length ws)) ops ws) 0 = fold_left array_step ops (array_of_list ws) j.
Proof. exact writes_then_reads. Qed.

(* constructors store their arguments in order; Default is all blank *)
Theorem C19_construct : forall n st ws,
  step n st (OpArr ws) = ws /\ step n st (OpNew ws) = ws /\
  step n st OpDefault = repeat 0 n /\ length (repeat 0 n) = n /\ (forall j, nth j (repeat 0 n) 0 = 0).
Proof. exact step_construct. Qed.

Theorem C19_six_from_parts : forall one two three,
  length two = 2%nat -> length three = 3%nat ->
  [one] ++ two ++ three =
  [one; nth 0 two 0; nth 1 two 0; nth 0 three 0; nth 1 three 0; nth 2 three 0] /\
  length ([one] ++ two ++ three) = 6%nat.
Proof. exact six_from_parts. Qed.

Theorem C19_seven_from_parts : forall two five,
  length two = 2%nat -> length five = 5%nat ->
  two ++ five =
  [nth 0 two 0; nth 1 two 0; nth 0 five 0; nth 1 five 0; nth 2 five 0; nth 3 five 0; nth 4 five 0] /\
  length (two ++ five) = 7%nat.
Proof. exact seven_from_parts. Qed.

(* slot-index selection (Permutator::five_from_permutation = Model.Five.select), for EVERY index
   tuple of any length: in range => exactly the selected slots in the given order; any index out of
   range => panic (array index out of bounds); it never diverges *)
Theorem C19_select : forall ws perm,
  (Forall (fun i => i < lenN ws) perm -> select ws perm = Ok (map (fun i => nth (N.to_nat i) ws 0) perm)) /\
  (~ Forall (fun i => i < lenN ws) perm -> select ws perm = Panic).
Proof. exact select_ok. Qed.

(* non-vacuity: a Three, history = set_third, from-array, set_first, default, set_second *)
Example C19_example :
  Forall (wf_op 3) [OpSet 2 9; OpArr [4; 5; 6]; OpSet 0 7; OpDefault; OpSet 1 8] /\
  run 3 [1; 2; 3] [OpSet 2 9; OpArr [4; 5; 6]; OpSet 0 7; OpDefault; OpSet 1 8]
    = [[1; 2; 9]; [4; 5; 6]; [7; 5; 6]; [0; 0; 0]; [0; 8; 0]] /\
  map (fun a => map a [0; 1; 2]%nat)
      (array_run (array_of_list [1; 2; 3]) [OpSet 2 9; OpArr [4; 5; 6]; OpSet 0 7; OpDefault; OpSet 1 8])
    = [[1; 2; 9]; [4; 5; 6]; [7; 5; 6]; [0; 0; 0]; [0; 8; 0]] /\
  select [10; 11; 12; 13; 14; 15; 16] [6; 0; 3; 3; 1] = Ok [16; 10; 13; 13; 11] /\
  select [10; 11; 12; 13; 14; 15] [0; 1; 2; 3; 6] = Panic.
Proof.
  split; [repeat constructor|]. repeat split; vm_compute; reflexivity.
Qed.

Print Assumptions C19_set_nth.
Print Assumptions C19_set_nth_closed_form.
Print Assumptions C19_array_step_def.
Print Assumptions C19_refines.
Print Assumptions C19_refines_sim.
Print Assumptions C19_writes_then_reads.
Print Assumptions C19_construct.
Print Assumptions C19_six_from_parts.
Print Assumptions C19_seven_from_parts.
Print Assumptions C19_select.
