(* C02 — Six- and seven-card value is the best five-card hand they contain.
   Statements only; proofs in Proofs/C02.v (general: best-of loop invariant + completeness of the
   regenerated slot tables + permutation invariance of the five-card value; no enumeration of hands).

   [HandN n ws]   : n slots, each one of the 52 real card words, no two equal, ANY slot order.
   [value5 c]     : the rule-based value of five cards = ordinal of their shape (Spec/Poker.v, C01).
   [best_value5 ws]: the minimum of value5 over ALL five-card sub-hands of ws = the value of the best
                    poker hand that can be made from the cards (direct rule-based evaluation). *)
From CKC Require Import Base.Prelude Base.Combs Spec.Layout Spec.Poker.
From CKC Require Import Model.Five Model.HandRank Proofs.FiveFacts Proofs.CombFacts Proofs.HandFacts Proofs.C01 Proofs.TableFacts Proofs.C02.
From Coq Require Import Sorting.Permutation.
Open Scope N_scope.

(* every entry point returns the rule-based value *)
Theorem C02_value : forall chk n ws,
  (n = 6 \/ n = 7)%nat -> HandN n ws ->
  let v := best_value5 ws in
  hand_rank_value chk ws = Ok v /\
  rmap (fun x => hr_value (hr_from x)) (hand_rank_value chk ws) = Ok v /\
  rmap fst (hrvh chk ws) = Ok v /\
  hand_rank_value_validated chk ws = Ok v /\
  1 <= v <= 7462.
Proof. exact value_n_spec. Qed.

(* it is no greater than the value of ANY five distinct cards taken from the hand, in any order *)
Theorem C02_lower : forall n ws s,
  HandN n ws -> length s = 5%nat -> NoDup s -> incl s ws -> best_value5 ws <= value5 s.
Proof. exact lower_spec. Qed.

(* and it is attained by some five-card sub-hand *)
Theorem C02_attained : forall n ws,
  (5 <= n)%nat -> HandN n ws ->
  exists s, Subseq s ws /\ length s = 5%nat /\ Hand5 s /\ best_value5 ws = value5 s.
Proof. exact attained_spec. Qed.

(* the five-card value used above is the one the five-card ranking returns (C01) *)
Theorem C02_value5_is_rank : forall chk c, Hand5 c -> hand_rank_value chk c = Ok (value5 c).
Proof. intros chk c H. exact (proj1 (value_ok chk c H)). Qed.

(* slot order is irrelevant: the same six / seven cards in ANY two slot orders get the same value from every
   entry point, and the rule-based value itself does not depend on the order *)
Theorem C02_slot_order : forall chk n ws ws',
  (n = 6 \/ n = 7)%nat -> HandN n ws -> Permutation ws ws' ->
  hand_rank_value chk ws' = hand_rank_value chk ws /\
  hand_rank_value_validated chk ws' = hand_rank_value_validated chk ws /\
  rmap fst (hrvh chk ws') = rmap fst (hrvh chk ws).
Proof. exact slot_order_spec. Qed.
Theorem C02_best_value_slot_order : forall n ws ws',
  (5 <= n)%nat -> HandN n ws -> Permutation ws ws' -> best_value5 ws = best_value5 ws'.
Proof. exact best_value5_perm. Qed.

(* the five cards REPORTED with the value are a best hand by the rules: five distinct cards of the input whose own
   rule-based value is the value returned, and no five distinct cards of the input (any order) do better *)
Theorem C02_reported_hand : forall chk n ws v h,
  (n = 6 \/ n = 7)%nat -> HandN n ws -> hrvh chk ws = Ok (v, h) ->
  Hand5 h /\ incl h ws /\ v = best_value5 ws /\ value5 h = best_value5 ws /\
  forall s, length s = 5%nat -> NoDup s -> incl s ws -> value5 h <= value5 s.
Proof. exact reported_hand_spec. Qed.

(* non-vacuity: As Ks Qs Js Ts 2c 3d (a seven containing a royal flush) and a six *)
Example C02_example :
  hand_rank_value false [layout 0 0; layout 12 3; layout 11 3; layout 1 1; layout 10 3; layout 9 3; layout 8 3] = Ok 1 /\
  hand_rank_value true [layout 0 0; layout 12 3; layout 12 2; layout 1 1; layout 12 1; layout 9 3] = Ok 1638.
Proof. split; vm_compute; reflexivity. Qed.

From CKC Require Import Model.Proj Proofs.ProjC02.
(* the `best` line of the correspondence check is the constant `1 1 1 1 1` on six / seven distinct real cards:
   every entry point returns the lowest value among the five-slot sub-hands, each ranked on its own as a five *)
Theorem C02_projection : forall chk n ws,
  (n = 6 \/ n = 7)%nat -> HandN n ws ->
  proj_best chk ws = [Ok true; Ok true; Ok true; Ok true; Ok true].
Proof. exact proj_best_const. Qed.

Print Assumptions C02_value.
Print Assumptions C02_lower.
Print Assumptions C02_attained.
Print Assumptions C02_value5_is_rank.
Print Assumptions C02_slot_order.
Print Assumptions C02_reported_hand.
Print Assumptions C02_best_value_slot_order.
Print Assumptions C02_projection.
