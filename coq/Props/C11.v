(* C11 — Numeric card order is rank-then-suit; sorting is a descending rearrangement.
   Only statements here; proofs are in Proofs/C11.v.

   rank r: deuce = 0 .. ace = 12;  suit s: clubs = 0 < diamonds = 1 < hearts = 2 < spades = 3.
   By C10 the 52 card words of the implementation are exactly [layout r s], r < 13, s < 4. *)
From Coq Require Import Sorting.Permutation.
From CKC Require Import Base.Prelude Base.SortN Spec.Layout Model.Hands Proofs.C11.
Open Scope N_scope.

(* comparing two card words as integers compares rank first, then suit
   (general arithmetic proof on the layout, not a sweep) *)
Theorem C11_order : forall r s r' s',
  r < 13 -> s < 4 -> r' < 13 -> s' < 4 ->
  (layout r s < layout r' s' <-> r < r' \/ (r = r' /\ s < s')).
Proof. exact order_ok. Qed.

(* the same as a three-way comparison, and injectivity of the encoding *)
Theorem C11_compare : forall r s r' s',
  r < 13 -> s < 4 -> r' < 13 -> s' < 4 ->
  (layout r s ?= layout r' s') = match r ?= r' with Eq => s ?= s' | c => c end.
Proof. exact compare_ok. Qed.

Theorem C11_injective : forall r s r' s',
  r < 13 -> s < 4 -> r' < 13 -> s' < 4 -> layout r s = layout r' s' -> r = r' /\ s = s'.
Proof. exact layout_inj. Qed.

(* blank (0) is below every card *)
Theorem C11_blank_below : forall r s, r < 13 -> s < 4 -> 0 < layout r s.
Proof. exact blank_below. Qed.

(* sort() and sort_in_place() of every container are the one model function [sort_desc]
   (sort() = copy, then sort_in_place() on the copy), so "the copying and in-place forms agree"
   holds by construction of the model and is tied to the code by the correspondence check.
   For a hand of ANY size holding ANY words the result is the same multiset, non-increasing, and
   sorting is idempotent. *)
Theorem C11_sort : forall ws : list N,
  Permutation (sort_desc ws) ws /\ noninc (sort_desc ws) /\ sort_desc (sort_desc ws) = sort_desc ws.
Proof. exact sort_ok. Qed.

(* the result is determined by that specification alone (independent of the sorting algorithm) *)
Theorem C11_sort_unique : forall ws out : list N,
  Permutation out ws -> noninc out -> out = sort_desc ws.
Proof. exact sort_unique. Qed.

(* non-increasing read on slots, and the size is kept *)
Theorem C11_sort_slots : forall ws : list N,
  length (sort_desc ws) = length ws /\
  forall i j, (i < j)%nat -> (j < length ws)%nat -> nth j (sort_desc ws) 0 <= nth i (sort_desc ws) 0.
Proof. exact sort_slots. Qed.

(* non-vacuity: deuce of spades < trey of clubs (rank first); ace of hearts < ace of spades;
   a sort with duplicates, a blank and a non-card word *)
Example C11_example :
  layout 0 3 < layout 1 0 /\ layout 12 2 < layout 12 3 /\
  sort_desc [69634; 0; 4294967295; 268471337; 69634] = [4294967295; 268471337; 69634; 69634; 0].
Proof. repeat split; vm_compute; reflexivity. Qed.

From CKC Require Import Model.Proj Proofs.ProjC11.
(* the `sortp` line of the correspondence check is the constant `1 1 1 1` on ALL lists of words: non-increasing,
   same multiset as the input, in-place form agrees (one model function), idempotent *)
Theorem C11_projection : forall ws : list N, proj_sortp ws = [true; true; true; true].
Proof. exact proj_sortp_const. Qed.

Print Assumptions C11_order.
Print Assumptions C11_compare.
Print Assumptions C11_injective.
Print Assumptions C11_blank_below.
Print Assumptions C11_sort.
Print Assumptions C11_sort_unique.
Print Assumptions C11_sort_slots.
Print Assumptions C11_projection.
