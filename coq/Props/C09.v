(* C09 — More cards never weaken a hand: seven <= every six-subset <= every five-subset.
   Statements only; proofs in Proofs/GenericTable.v + Proofs/C09.v. Stated on the ranking functions
   themselves; they rest on completeness of the slot tables and on "five distinct real cards never
   rank 0", NOT on which values the lookup tables hold (no reference evaluator is involved). *)
From CKC Require Import Base.Prelude Spec.Layout.
From CKC Require Import Model.Five Proofs.CombFacts Proofs.GenericTable Proofs.C09.
Open Scope N_scope.

(* seven cards, any six of them in any order, any five of those in any order *)
Theorem C09_chain : forall chk ws7 s6 s5,
  HandN 7 ws7 -> length s6 = 6%nat -> NoDup s6 -> incl s6 ws7 ->
  length s5 = 5%nat -> NoDup s5 -> incl s5 s6 ->
  exists v7 v6 v5,
    hand_rank_value chk ws7 = Ok v7 /\ hand_rank_value chk s6 = Ok v6 /\ hand_rank_value chk s5 = Ok v5 /\
    v7 <= v6 /\ v6 <= v5.
Proof. exact chain_now. Qed.

(* any m of the n cards (sizes 5..7), in any order, rank no better than all n *)
Theorem C09_monotone : forall chk n m ws s,
  (n = 5 \/ n = 6 \/ n = 7)%nat -> (m = 5 \/ m = 6 \/ m = 7)%nat ->
  HandN n ws -> length s = m -> NoDup s -> incl s ws ->
  exists v w, hand_rank_value chk ws = Ok v /\ hand_rank_value chk s = Ok w /\ v <= w.
Proof. exact monotone_now. Qed.

(* the seven-card value is the smallest of its seven six-card values, a six-card value the smallest of
   its six five-card values: some sub-hand with one card fewer attains it (and none beats it, above) *)
Theorem C09_min_of_sub : forall chk n ws,
  (n = 6 \/ n = 7)%nat -> HandN n ws ->
  exists s v, Subseq s ws /\ length s = pred n /\ hand_rank_value chk ws = Ok v /\ hand_rank_value chk s = Ok v.
Proof. exact min_now. Qed.

(* non-vacuity: a seven, six of its cards in another order, five of those *)
Example C09_example :
  HandN 7 [layout 0 0; layout 12 3; layout 11 3; layout 1 1; layout 10 3; layout 9 3; layout 8 3] /\
  incl [layout 8 3; layout 12 3; layout 11 3; layout 1 1; layout 10 3; layout 9 3]
       [layout 0 0; layout 12 3; layout 11 3; layout 1 1; layout 10 3; layout 9 3; layout 8 3] /\
  NoDup [layout 8 3; layout 12 3; layout 11 3; layout 1 1; layout 10 3; layout 9 3].
Proof.
  split; [apply handN_b; vm_compute; reflexivity|]. split.
  - intros x Hx. cbn [In] in *. vm_compute in Hx. vm_compute. tauto.
  - apply Base.Reflect.nodupb_NoDup. vm_compute. reflexivity.
Qed.

From CKC Require Import Model.Proj Proofs.ProjC09.
(* the `chain7` line of the correspondence check is the constant `1 1 1 1` on seven distinct real cards:
   v7 <= every v6, v7 = min v6, every v6 <= each of its v5, every v6 = min of its v5 *)
Theorem C09_projection : forall chk ws, HandN 7 ws -> proj_chain7 chk ws = Ok [true; true; true; true].
Proof. exact proj_chain7_const. Qed.

From CKC Require Import Proofs.ProjC09v.
(* the validated entry points return the same values on distinct real cards, so the chain is theirs too *)
Theorem C09_projection_validated : forall chk n ws,
  (n = 5 \/ n = 6 \/ n = 7)%nat -> HandN n ws -> proj_vsame chk ws = [Ok true].
Proof. exact proj_vsame_const. Qed.

Print Assumptions C09_chain.
Print Assumptions C09_monotone.
Print Assumptions C09_min_of_sub.
Print Assumptions C09_projection.
Print Assumptions C09_projection_validated.
