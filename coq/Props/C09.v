(* C09 — More cards never weaken a hand: seven <= every six-subset <= every five-subset.
   Statements only; proofs in Proofs/C02.v (pure logic from C02's lower bound / attainment).
   By C02_value, [best_value] IS what Six / Seven ranking returns, and [value5] what Five returns. *)
From CKC Require Import Base.Prelude Spec.Layout.
From CKC Require Import Model.Five Proofs.CombFacts Proofs.C01 Proofs.TableFacts Proofs.C02.
Open Scope N_scope.

(* any m cards (5 <= m) taken from the hand, in any order, rank no better than the whole hand *)
Theorem C09_monotone : forall n m ws s,
  (5 <= m)%nat -> HandN n ws -> length s = m -> NoDup s -> incl s ws -> best_value ws <= best_value s.
Proof. exact monotone_ok. Qed.

(* with five cards: the sub-hand's own five-card value *)
Theorem C09_monotone5 : forall n ws s,
  HandN n ws -> length s = 5%nat -> NoDup s -> incl s ws -> best_value ws <= value5 s.
Proof. exact lower_ok. Qed.

(* the value equals the smallest value among the sub-hands with one card fewer *)
Theorem C09_min_of_sub : forall n ws,
  (5 < n)%nat -> HandN n ws ->
  exists s, Subseq s ws /\ length s = pred n /\ best_value s = best_value ws.
Proof. exact min_of_sub. Qed.

(* in terms of the ranking functions, for seven cards and any six of them, any five of those *)
Theorem C09_chain : forall chk ws7 s6 s5,
  HandN 7 ws7 -> length s6 = 6%nat -> NoDup s6 -> incl s6 ws7 ->
  length s5 = 5%nat -> NoDup s5 -> incl s5 s6 ->
  exists v7 v6 v5,
    hand_rank_value chk ws7 = Ok v7 /\ hand_rank_value chk s6 = Ok v6 /\ hand_rank_value chk s5 = Ok v5 /\
    v7 <= v6 /\ v6 <= v5.
Proof. exact chain_ok. Qed.

Print Assumptions C09_monotone.
Print Assumptions C09_monotone5.
Print Assumptions C09_min_of_sub.
Print Assumptions C09_chain.
