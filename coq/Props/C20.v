(* C20 — Multiples flags leave card fields intact, strip cleanly, and dominate order.
   Only statements here; proofs are in Proofs/C20.v.

   [MARKS] = the 8 ORs of CN_PAIR = 2^29, CN_TRIPS = 2^30, CN_QUADS = 2^31 (regenerated constants);
   [mark m w := N.lor w m]; flag_as_pair / flag_as_trips / flag_as_quads are [mark] with the three
   constants, and every sequence of them is one [mark m], m in MARKS.
   [mark_level m] = 3 / 2 / 1 / 0 when the highest mark in m is quads / trips / pair / none.
   Cards are [layout r s], r < 13, s < 4 (C10).  The proofs are general from layout r s < 2^29. *)
From CKC Require Import Base.Prelude Spec.Layout Model.Card Proofs.CardBase Proofs.C20.
From CKC Require Import Gen.Consts.
Open Scope N_scope.

Theorem C20_constants :
  CN_PAIR = 2 ^ 29 /\ CN_TRIPS = 2 ^ 30 /\ CN_QUADS = 2 ^ 31 /\ CN_MULTIPLES_FILTER = 2 ^ 29 - 1 /\
  NoDup MARKS /\ length MARKS = 8%nat /\
  mark_level CN_PAIR = 1 /\ mark_level CN_TRIPS = 2 /\ mark_level CN_QUADS = 3.
Proof. exact constants_ok. Qed.

(* the model's marking functions are [mark]; every sequence of marking calls is one of the 8 *)
Theorem C20_flags_are_marks : forall w,
  flag_as_pair w = mark CN_PAIR w /\ flag_as_trips w = mark CN_TRIPS w /\ flag_as_quads w = mark CN_QUADS w /\
  In CN_PAIR MARKS /\ In CN_TRIPS MARKS /\ In CN_QUADS MARKS /\ mark 0 w = w.
Proof. exact flags_are_marks. Qed.

Theorem C20_flags_seq : forall (fs : list N) w,
  Forall (fun f => f = CN_PAIR \/ f = CN_TRIPS \/ f = CN_QUADS) fs ->
  exists m, In m MARKS /\ fold_left (fun x f => mark f x) fs w = mark m w.
Proof. exact flags_seq. Qed.

(* marking sets only the top three bits of the 32-bit word *)
Theorem C20_bits : forall r s m, r < 13 -> s < 4 -> In m MARKS ->
  let w := layout r s in
  N.land (mark m w) (2 ^ 29 - 1) = w /\ N.shiftr (mark m w) 29 = N.shiftr m 29 /\
  (forall i, i < 29 -> N.testbit (mark m w) i = N.testbit w i) /\
  mark m w = w + m /\ mark m w < 2 ^ 32.
Proof. exact card_bits. Qed.

(* rank, suit, prime and characters (and every other accessor) read the same.  All accessors of the
   Rust code mask with RANK_FLAG_FILTER / SUIT_FILTER / RANK_PRIME_FILTER, none of which overlaps
   bits 29-31; is_blank compares the whole word and is included for cards *)
Theorem C20_accessors : forall r s m, r < 13 -> s < 4 -> In m MARKS ->
  let w := layout r s in
  get_card_rank (mark m w) = get_card_rank w /\
  get_card_suit (mark m w) = get_card_suit w /\
  get_rank_prime (mark m w) = get_rank_prime w /\
  get_rank_char (mark m w) = get_rank_char w /\
  get_suit_char (mark m w) = get_suit_char w /\
  get_suit_letter (mark m w) = get_suit_letter w /\
  get_rank_flag (mark m w) = get_rank_flag w /\
  get_rank_bit (mark m w) = get_rank_bit w /\
  get_suit_flag (mark m w) = get_suit_flag w /\
  get_suit_bit (mark m w) = get_suit_bit w /\
  get_chen_points_x2 (mark m w) = get_chen_points_x2 w /\
  next_suit (mark m w) = next_suit w /\
  shift_suit (mark m w) = shift_suit w /\
  is_blank (mark m w) = is_blank w.
Proof. exact card_accessors. Qed.

(* the masked accessors agree on ANY word, not only on cards *)
Theorem C20_accessors_any_word : forall m w, In m MARKS ->
  get_card_rank (mark m w) = get_card_rank w /\
  get_card_suit (mark m w) = get_card_suit w /\
  get_rank_prime (mark m w) = get_rank_prime w /\
  get_rank_char (mark m w) = get_rank_char w /\
  get_suit_char (mark m w) = get_suit_char w /\
  get_suit_letter (mark m w) = get_suit_letter w /\
  get_rank_flag (mark m w) = get_rank_flag w /\
  get_rank_bit (mark m w) = get_rank_bit w /\
  get_suit_flag (mark m w) = get_suit_flag w /\
  get_suit_bit (mark m w) = get_suit_bit w /\
  get_chen_points_x2 (mark m w) = get_chen_points_x2 w /\
  next_suit (mark m w) = next_suit w /\
  shift_suit (mark m w) = shift_suit w.
Proof. exact accessors_same. Qed.

(* marking is idempotent (any word) *)
Theorem C20_idempotent : forall w,
  flag_as_pair (flag_as_pair w) = flag_as_pair w /\
  flag_as_trips (flag_as_trips w) = flag_as_trips w /\
  flag_as_quads (flag_as_quads w) = flag_as_quads w /\
  forall m, mark m (mark m w) = mark m w.
Proof. exact idempotent. Qed.

(* stripping returns the original card for any combination of marks *)
Theorem C20_strip : forall r s m, r < 13 -> s < 4 -> In m MARKS ->
  strip_multiples_flags (mark m (layout r s)) = layout r s.
Proof. exact card_strip. Qed.

(* every marked word is above every unmarked card; a higher top mark wins whatever the cards *)
Theorem C20_order : forall r s r' s' m m',
  r < 13 -> s < 4 -> r' < 13 -> s' < 4 -> In m MARKS -> In m' MARKS ->
  (m <> 0 -> layout r' s' < mark m (layout r s)) /\
  (mark_level m' < mark_level m -> mark m' (layout r' s') < mark m (layout r s)).
Proof. exact card_order. Qed.

Theorem C20_mark_level_zero : forall m, In m MARKS -> (mark_level m = 0 <-> m = 0).
Proof. exact mark_level_zero. Qed.

(* with equal marks the cards' own order (rank, then suit: C11) decides *)
Theorem C20_order_same_marks : forall r s r' s' m,
  r < 13 -> s < 4 -> r' < 13 -> s' < 4 -> In m MARKS ->
  (mark m (layout r s) < mark m (layout r' s') <-> layout r s < layout r' s').
Proof. exact card_order_same_marks. Qed.

(* non-vacuity: the deuce of clubs marked as a pair beats the unmarked ace of spades; trips on the
   deuce beat pair on the ace; quads beat pair+trips; strip and accessors on a fully marked card *)
Example C20_example :
  In (N.lor CN_PAIR CN_TRIPS) MARKS /\
  layout 12 3 < flag_as_pair (layout 0 0) /\
  flag_as_pair (layout 12 3) < flag_as_trips (layout 0 0) /\
  flag_as_trips (flag_as_pair (layout 12 3)) < flag_as_quads (layout 0 0) /\
  flag_as_quads (flag_as_trips (flag_as_pair (layout 12 3))) = 4026567721 /\
  strip_multiples_flags 4026567721 = layout 12 3 /\
  get_rank_char 4026567721 = 65 /\ get_suit_char 4026567721 = 9824 /\ get_rank_prime 4026567721 = 41.
Proof. repeat split; try (vm_compute; reflexivity). cbn [MARKS In]. tauto. Qed.

Print Assumptions C20_constants.
Print Assumptions C20_flags_are_marks.
Print Assumptions C20_flags_seq.
Print Assumptions C20_bits.
Print Assumptions C20_accessors.
Print Assumptions C20_accessors_any_word.
Print Assumptions C20_idempotent.
Print Assumptions C20_strip.
Print Assumptions C20_order.
Print Assumptions C20_mark_level_zero.
Print Assumptions C20_order_same_marks.
