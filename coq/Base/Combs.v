(* k-combinations (sub-sequences of length k) of a list, in lexicographic position order. *)
From CKC Require Import Base.Prelude.

Fixpoint combs {A} (l : list A) (k : nat) : list (list A) :=
  match l with
  | [] => match k with O => [[]] | S _ => [] end
  | x :: r => match k with
              | O => [[]]
              | S k' => map (cons x) (combs r k') ++ combs r k
              end
  end.
