(* Reflection helpers: finite ranges of N, boolean membership, lifting forallb. *)
From CKC Require Import Base.Prelude.
Open Scope N_scope.

Definition N_range (n : N) : list N := map N.of_nat (seq 0 (N.to_nat n)).

Lemma In_N_range k n : In k (N_range n) <-> k < n.
Proof.
  unfold N_range. rewrite in_map_iff. split.
  - intros [x [<- Hx]]. apply in_seq in Hx. lia.
  - intros H. exists (N.to_nat k). split; [apply N2Nat.id|]. apply in_seq. lia.
Qed.

Lemma forallb_N_range (P : N -> bool) n :
  forallb P (N_range n) = true -> forall k, k < n -> P k = true.
Proof. intros H k Hk. rewrite forallb_forall in H. apply H, In_N_range, Hk. Qed.

Lemma forallb_N_range2 (P : N -> N -> bool) n m :
  forallb (fun a => forallb (P a) (N_range m)) (N_range n) = true ->
  forall a b, a < n -> b < m -> P a b = true.
Proof.
  intros H a b Ha Hb. pose proof (forallb_N_range _ _ H a Ha) as H1. cbv beta in H1.
  exact (forallb_N_range _ _ H1 b Hb).
Qed.

Lemma memN_In x l : memN x l = true <-> In x l.
Proof.
  unfold memN. rewrite existsb_exists. split.
  - intros [y [Hy He]]. apply N.eqb_eq in He. subst. exact Hy.
  - intros H. exists x. split; [exact H | apply N.eqb_refl].
Qed.

Lemma memN_false x l : memN x l = false <-> ~ In x l.
Proof. rewrite <- memN_In. destruct (memN x l); split; congruence. Qed.

(* two lists with the same members have the same membership test *)
Lemma memN_ext (a b : list N) :
  forallb (fun x => memN x b) a = true -> forallb (fun x => memN x a) b = true ->
  forall w, memN w a = memN w b.
Proof.
  intros Hab Hba w. rewrite forallb_forall in Hab, Hba.
  destruct (memN w a) eqn:Ea, (memN w b) eqn:Eb; try reflexivity.
  - apply memN_In in Ea. apply Hab in Ea. congruence.
  - apply memN_In in Eb. apply Hba in Eb. congruence.
Qed.

(* graph of the identity on a finite set *)
Lemma assoc_diag (l : list N) w d :
  assoc (map (fun c => (c, c)) l) w d = if memN w l then w else d.
Proof.
  induction l as [|c l IH]; cbn [map assoc memN existsb]; [reflexivity|].
  destruct (w =? c) eqn:E; cbn [orb].
  - apply N.eqb_eq in E. now subst.
  - exact IH.
Qed.

Lemma assoc_notin g w d : memN w (map fst g) = false -> assoc g w d = d.
Proof.
  induction g as [|[k v] g IH]; cbn [map assoc memN existsb fst]; [reflexivity|].
  intros H. apply orb_false_iff in H. destruct H as [H1 H2]. rewrite H1. apply IH, H2.
Qed.

(* boolean NoDup on N lists *)
Fixpoint nodupb (l : list N) : bool :=
  match l with [] => true | x :: r => negb (memN x r) && nodupb r end.
Lemma nodupb_NoDup l : nodupb l = true <-> NoDup l.
Proof.
  induction l as [|x r IH]; cbn [nodupb].
  - split; [constructor | reflexivity].
  - rewrite andb_true_iff, negb_true_iff, memN_false, IH. split.
    + intros [H1 H2]. now constructor.
    + intros H. inversion H; subst. now split.
Qed.

Definition list_eqb (a b : list N) : bool :=
  (length a =? length b)%nat && forallb (fun '(x, y) => x =? y) (combine a b).
Lemma list_eqb_eq a b : list_eqb a b = true <-> a = b.
Proof.
  unfold list_eqb. revert b. induction a as [|x a IH]; intros [|y b]; cbn [length combine forallb];
    try (split; [cbn; discriminate | discriminate]).
  - split; reflexivity.
  - rewrite andb_true_iff in *. cbn [Nat.eqb]. rewrite andb_true_iff, N.eqb_eq.
    specialize (IH b). rewrite andb_true_iff in IH. split.
    + intros [H1 [H2 H3]]. f_equal; [exact H2 | apply IH; now split].
    + intros H. injection H as -> ->. destruct (proj2 IH eq_refl) as [? ?]. now repeat split.
Qed.

(* ---- lists of rows ----------------------------------------------------------------------- *)
Definition mem_row (r : list N) (t : list (list N)) : bool := existsb (list_eqb r) t.
Lemma mem_row_In r t : mem_row r t = true <-> In r t.
Proof.
  unfold mem_row. rewrite existsb_exists. split.
  - intros [y [Hy He]]. apply list_eqb_eq in He. now subst.
  - intros H. exists r. split; [exact H | now apply list_eqb_eq].
Qed.
Definition incl_rows (a b : list (list N)) : bool := forallb (fun r => mem_row r b) a.
Lemma incl_rows_incl a b : incl_rows a b = true <-> incl a b.
Proof.
  unfold incl_rows, incl. rewrite forallb_forall. split; intros H r Hr.
  - apply mem_row_In, H, Hr.
  - apply mem_row_In, H, Hr.
Qed.
Fixpoint nodup_rows (t : list (list N)) : bool :=
  match t with [] => true | r :: q => negb (mem_row r q) && nodup_rows q end.
Lemma nodup_rows_NoDup t : nodup_rows t = true <-> NoDup t.
Proof.
  induction t as [|x r IH]; cbn [nodup_rows].
  - split; [constructor | reflexivity].
  - rewrite andb_true_iff, negb_true_iff, IH. split.
    + intros [H1 H2]. constructor; [|exact H2]. intros Hin. apply mem_row_In in Hin. congruence.
    + intros H. inversion H; subst. split; [|assumption].
      destruct (mem_row x r) eqn:E; [|reflexivity]. apply mem_row_In in E. contradiction.
Qed.
(* same set of rows, no duplicates *)
Definition same_rows (a b : list (list N)) : bool :=
  nodup_rows a && incl_rows a b && incl_rows b a.
Lemma same_rows_spec a b :
  same_rows a b = true -> NoDup a /\ (forall r, In r a <-> In r b).
Proof.
  unfold same_rows. rewrite !andb_true_iff, nodup_rows_NoDup, !incl_rows_incl.
  intros [[H1 H2] H3]. split; [exact H1|]. intros r. split; [apply H2 | apply H3].
Qed.

Fixpoint strictly_increasing (l : list N) : bool :=
  match l with
  | x :: ((y :: _) as r) => (x <? y) && strictly_increasing r
  | _ => true
  end.
