(* Sorting on N: [sort_unstable] is modelled by its specification (the ascending arrangement,
   computed by stdlib merge sort); uniqueness of the sorted arrangement makes the algorithm
   irrelevant. Descending sort = reverse of ascending sort. *)
From Coq Require Import Sorting.Mergesort Sorting.Sorted Sorting.Permutation Orders.
From CKC Require Import Base.Prelude.
Open Scope N_scope.

Module NLeb <: TotalLeBool.
  Definition t := N.
  Definition leb := N.leb.
  Theorem leb_total : forall a1 a2, leb a1 a2 = true \/ leb a2 a1 = true.
  Proof.
    intros a b. unfold leb. destruct (N.leb_spec a b); [left; reflexivity|right]. apply N.leb_le. lia.
  Qed.
End NLeb.
Module NSort := Sort NLeb.

Definition sort_asc (ws : list N) : list N := NSort.sort ws.
Definition sort_desc (ws : list N) : list N := rev (sort_asc ws).

Definition nondec (l : list N) : Prop := StronglySorted N.le l.
Definition noninc (l : list N) : Prop := StronglySorted (fun a b => b <= a) l.

(* scan used by the six/seven-card uniqueness test: every element strictly below its predecessor,
   the first strictly below [last] *)
Fixpoint strictly_desc_from (last : N) (ws : list N) : bool :=
  match ws with
  | [] => true
  | c :: r => if last <=? c then false else strictly_desc_from c r
  end.
