(* Prelude: outcome type with explicit panics, machine-integer helpers, small lookups.
   Stdlib only. No proofs of properties here. *)
From Coq Require Import String.
From Coq Require Export NArith ZArith List Bool Lia.
From Coq Require Import FMapPositive.
Export ListNotations.
Open Scope N_scope.

Arguments N.add : simpl never.
Arguments N.sub : simpl never.
Arguments N.mul : simpl never.
Arguments N.pow : simpl never.
Arguments N.shiftl : simpl never.
Arguments N.shiftr : simpl never.
Arguments N.land : simpl never.
Arguments N.lor : simpl never.
Arguments N.lxor : simpl never.
Arguments N.eqb : simpl never.
Arguments N.ltb : simpl never.
Arguments N.leb : simpl never.
Arguments N.modulo : simpl never.
Arguments N.div : simpl never.

(* ------------------------------------------------------------------------------------------ *)
(* Outcomes. [Panic] is a Rust panic (index out of bounds, checked arithmetic overflow).
   [Diverge] is "explicit fuel exhausted": it stands for a loop that did not terminate within the
   bound; theorems exclude it explicitly. *)
Inductive res (A : Type) : Type :=
| Ok (a : A)
| Panic
| Diverge.
Arguments Ok {A} a.
Arguments Panic {A}.
Arguments Diverge {A}.

Definition bind {A B} (x : res A) (f : A -> res B) : res B :=
  match x with Ok a => f a | Panic => Panic | Diverge => Diverge end.
Notation "'let*' x ':=' e1 'in' e2" := (bind e1 (fun x => e2))
  (at level 200, x pattern, e1 at level 100, e2 at level 200, right associativity).

Definition rmap {A B} (f : A -> B) (x : res A) : res B := let* a := x in Ok (f a).

Fixpoint mapM {A B} (f : A -> res B) (l : list A) : res (list B) :=
  match l with
  | [] => Ok []
  | a :: r => let* b := f a in let* bs := mapM f r in Ok (b :: bs)
  end.

Definition is_ok {A} (x : res A) : bool := match x with Ok _ => true | _ => false end.

(* ------------------------------------------------------------------------------------------ *)
(* Machine integers: values are [N]; ranges are explicit. *)
Definition U8  : N := 2^8.
Definition U16 : N := 2^16.
Definition U32 : N := 2^32.
Definition U64 : N := 2^64.
Definition U32MAX : N := 4294967295.
Definition U64MAX : N := 18446744073709551615.

(* [chk = true]: overflow checks on (debug profile): overflow panics.
   [chk = false]: release profile: wrap modulo 2^w. *)
Definition add_w (W : N) (chk : bool) (a b : N) : res N :=
  let s := a + b in if s <? W then Ok s else if chk then Panic else Ok (s mod W).
Definition sub_w (W : N) (chk : bool) (a b : N) : res N :=
  if b <=? a then Ok (a - b) else if chk then Panic else Ok (W + a - b).
Definition mul_w (W : N) (chk : bool) (a b : N) : res N :=
  let p := a * b in if p <? W then Ok p else if chk then Panic else Ok (p mod W).

(* ------------------------------------------------------------------------------------------ *)
(* Lists indexed by N. *)
Definition nthN {A} (l : list A) (i : N) (d : A) : A := nth (N.to_nat i) l d.
Definition idx {A} (l : list A) (i : N) : res A :=
  match nth_error l (N.to_nat i) with Some a => Ok a | None => Panic end.
Definition lenN {A} (l : list A) : N := N.of_nat (length l).

(* association list with default: the representation of a dumped function graph *)
Fixpoint assoc (g : list (N * N)) (k : N) (d : N) : N :=
  match g with
  | [] => d
  | (k', v) :: r => if k =? k' then v else assoc r k d
  end.

(* run-length encoded graph: list of (start, value), starts ascending; value of the last run
   whose start is <= k *)
Fixpoint rle (g : list (N * N)) (k : N) (d : N) : N :=
  match g with
  | [] => d
  | (s, v) :: r => if s <=? k then rle r k v else d
  end.

Definition memN (x : N) (l : list N) : bool := existsb (N.eqb x) l.

Fixpoint index_of (x : N) (l : list N) : option N :=
  match l with
  | [] => None
  | y :: r => if x =? y then Some 0 else option_map N.succ (index_of x r)
  end.

(* ------------------------------------------------------------------------------------------ *)
(* Big tables: a positive trie built once by computation from the dumped list. *)
Module PM := PositiveMap.
Definition table := PM.t N.
Definition build_table (l : list N) : table :=
  fst (fold_left (fun '(m, i) v => (PM.add (N.succ_pos i) v m, N.succ i)) l (PM.empty N, 0)).
Definition tget (t : table) (i : N) : res N :=
  match PM.find (N.succ_pos i) t with Some v => Ok v | None => Panic end.

(* ------------------------------------------------------------------------------------------ *)
(* Bit counting primitives (models of count_ones / trailing_zeros / leading_zeros). *)
Fixpoint popcount_pos (p : positive) : N :=
  match p with xH => 1 | xO q => popcount_pos q | xI q => N.succ (popcount_pos q) end.
Definition popcount (n : N) : N := match n with N0 => 0 | Npos p => popcount_pos p end.

Fixpoint tz_pos (p : positive) : N :=
  match p with xO q => N.succ (tz_pos q) | _ => 0 end.
(* trailing_zeros of a W-bit integer *)
Definition trailing_zeros (W : N) (n : N) : N := match n with N0 => W | Npos p => tz_pos p end.
(* leading_zeros of a W-bit integer (n < 2^W) *)
Definition leading_zeros (W : N) (n : N) : N := match n with N0 => W | Npos _ => W - N.size n end.

(* ------------------------------------------------------------------------------------------ *)
(* Strings for enum variant names ([String] is deliberately not exported: it shadows [length]) *)
Fixpoint index_of_string (x : string) (l : list string) : option N :=
  match l with
  | [] => None
  | y :: r => if String.eqb x y then Some 0 else option_map N.succ (index_of_string x r)
  end.
Definition variant (names : list string) (x : string) : N :=
  match index_of_string x names with Some i => i | None => lenN names end.
