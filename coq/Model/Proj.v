(* Projections of the correspondence check, as Gallina definitions over the model functions.
   A projection op of the harness (harness/src/run.rs) / of ocaml/modelrun.ml prints a few booleans
   (1/0, or ok/P) computed from the entry points. Here the SAME booleans, in the same order, are model
   functions, so that "the model's output line is a constant on a whole domain" is a Coq theorem
   (Proofs/ProjCxx.v, restated as Cxx_projection in Props/Cxx.v) instead of an informal step.
   Definitions only; this file depends on Base / Gen / Model only (no Proofs), is extracted with the
   rest of the model and run by modelrun.

   Result shapes (printing is done by modelrun):
     [res (list bool)]  the whole op is guarded: Ok l prints the booleans, anything else prints "P";
     [list (res bool)]  every field is guarded on its own: Ok b prints 1/0, Panic prints "P";
     [list bool]        nothing can fail (for rankp: true = "ok", false = "P"). *)
From CKC Require Import Base.Prelude Base.Reflect Base.SortN Base.Combs.
From CKC Require Import Spec.Layout.
From CKC Require Import Model.Card Model.Deck Model.Hands Model.Five Model.HandRank Model.Binary.
Open Scope N_scope.

(* ---- small executable helpers ---------------------------------------------------------------- *)
(* non-increasing, on adjacent slots: h.windows(2).all(|w| w[0] >= w[1]) *)
Fixpoint descb (l : list N) : bool :=
  match l with
  | a :: ((b :: _) as r) => (b <=? a) && descb r
  | _ => true
  end.

(* smallest element (0 for the empty list) *)
Definition minl (l : list N) : N := match l with [] => 0 | x :: r => fold_left N.min r x end.

(* the list without its k-th slot *)
Definition skip_nth {A} (k : nat) (l : list A) : list A := firstn k l ++ skipn (S k) l.
(* the first n one-slot-fewer sub-hands, in slot order of the dropped slot *)
Definition subs1 (n : nat) (ws : list N) : list (list N) := map (fun k => skip_nth k ws) (seq 0 n).

(* Some(a) == r0 under a panic guard: both returned normally and are equal *)
Definition eqr (a b : res N) : res bool :=
  match a, b with Ok x, Ok y => Ok (x =? y) | _, _ => Panic end.
Definition ok_is (r : res N) (v : N) : bool := match r with Ok x => x =? v | _ => false end.
Definition guard1 {A} (f : A -> bool) (r : res A) : res bool :=
  match r with Ok x => Ok (f x) | _ => Panic end.

Definition cmp_eqb (c d : comparison) : bool :=
  match c, d with Eq, Eq | Lt, Lt | Gt, Gt => true | _, _ => false end.

(* same multiset: every word occurs equally often on both sides *)
Fixpoint countN (x : N) (l : list N) : nat :=
  match l with [] => O | y :: r => if x =? y then S (countN x r) else countN x r end.
Definition same_multiset (a b : list N) : bool :=
  forallb (fun x => Nat.eqb (countN x a) (countN x b)) (a ++ b).

(* all orders of a list (insertion at every position) *)
Fixpoint insert_all {A} (x : A) (l : list A) : list (list A) :=
  match l with
  | [] => [[x]]
  | y :: r => (x :: l) :: map (cons y) (insert_all x r)
  end.
Fixpoint perms {A} (l : list A) : list (list A) :=
  match l with
  | [] => [[]]
  | x :: r => flat_map (insert_all x) (perms r)
  end.
Definition PERM5_IDX : list (list nat) := perms [0; 1; 2; 3; 4]%nat.

(* ---- C03 `wit`: is the reported hand a sorted witness? (five slots: is it the input?) ----------- *)
Definition proj_wit (chk : bool) (ws : list N) : res (list bool) :=
  match hrvh chk ws with
  | Ok (value, h) =>
      if Nat.eqb (length ws) 5 then Ok [list_eqb h ws]
      else Ok [forallb (fun x => memN x ws) h; nodupb h; descb h; ok_is (hand_rank_value chk h) value]
  | Panic => Panic
  | Diverge => Diverge
  end.

(* ---- C02 `best`: every entry point = the lowest non-zero value among the five-slot sub-hands ----- *)
Definition best_step5 (chk : bool) (m : res N) (five : list N) : res N :=
  let* m := m in
  let* x := hand_rank_value chk five in
  Ok (if negb (x =? 0) && ((m =? 0) || (x <? m)) then x else m).
Definition best_sub5 (chk : bool) (ws : list N) : res N := fold_left (best_step5 chk) (combs ws 5) (Ok 0).
Definition proj_best (chk : bool) (ws : list N) : list (res bool) :=
  match best_sub5 chk ws with
  | Ok m =>
      let eqm := guard1 (fun x => x =? m) in
      let hrv := hand_rank_value chk ws in
      let vv := hand_rank_value_validated chk ws in
      [eqm hrv; eqm (rmap (fun x => hr_value (hr_from x)) hrv); eqm (rmap fst (hrvh chk ws));
       eqm vv; eqm (rmap (fun x => hr_value (hr_from x)) vv)]
  | _ => [Panic; Panic; Panic; Panic; Panic]
  end.

(* ---- C09 `chain7`: v7 <= all v6, v7 = min v6, v6 <= all v5, v6 = min v5 -------------------------- *)
Definition sub_vals (chk : bool) (n : nat) (ws : list N) : res (list N) :=
  mapM (hand_rank_value chk) (subs1 n ws).
Definition proj_chain7 (chk : bool) (ws : list N) : res (list bool) :=
  match
    (let* v7 := hand_rank_value chk ws in
     let* v6s := sub_vals chk 7 ws in
     let* v5ss := mapM (sub_vals chk 6) (subs1 7 ws) in
     let r := combine v6s v5ss in
     Ok [forallb (fun v6 => v7 <=? v6) v6s;
         v7 =? minl v6s;
         forallb (fun '(v6, v5s) => forallb (fun v5 => v6 <=? v5) v5s) r;
         forallb (fun '(v6, v5s) => minl v5s =? v6) r])
  with
  | Ok l => Ok l
  | _ => Panic
  end.

(* ---- C05 `rankp`: did every ranking entry point return normally? --------------------------------- *)
Definition proj_rankp (chk : bool) (ws : list N) : list bool :=
  let hrv := hand_rank_value chk ws in
  let vv := hand_rank_value_validated chk ws in
  [is_ok hrv; is_ok (rmap hr_from hrv); is_ok (hrvh chk ws); is_ok vv; is_ok (rmap hr_from vv)]
  ++ (if Nat.eqb (length ws) 5 then [is_ok (evaluate_five_cards chk ws)] else []).

(* ---- C08 `shiftinv`: value unchanged by 1, 2, 3 suit shifts (plain and validated); 4 restore ------ *)
Definition proj_shiftinv (chk : bool) (ws : list N) : list (res bool) :=
  let v0 := hand_rank_value chk ws in
  let w0 := hand_rank_value_validated chk ws in
  let h1 := shift_suit_hand ws in
  let h2 := shift_suit_hand h1 in
  let h3 := shift_suit_hand h2 in
  flat_map (fun h => [eqr (hand_rank_value chk h) v0; eqr (hand_rank_value_validated chk h) w0]) [h1; h2; h3]
  ++ [Ok (list_eqb (shift_suit_hand h3) ws)].

(* ---- C07 `hrkey`: cmp is what the property fixes; ==, <, <=, >, >= agree with it ----------------- *)
Definition inval (v : N) : bool := (v =? 0) || (7462 <? v).
Definition hrkey_spec_ok (a b : N) : bool :=
  let x := hr_from a in
  let y := hr_from b in
  let c := hr_cmp x y in
  match inval a, inval b with
  | false, false => cmp_eqb c (N.compare b a)
  | true, false => cmp_eqb c Lt
  | false, true => cmp_eqb c Gt
  | true, true => Bool.eqb (cmp_eqb c Eq) (a =? b) && cmp_eqb (hr_cmp y x) (CompOpp c)
  end.
Definition hrkey_eq_ok (a b : N) : bool :=
  let x := hr_from a in
  let y := hr_from b in
  Bool.eqb (hr_eqb x y) (a =? b) && Bool.eqb (cmp_eqb (hr_cmp x y) Eq) (hr_eqb x y).
Definition hrkey_ops_ok (x y : hand_rank) : bool :=
  let c := hr_cmp x y in
  Bool.eqb (hr_lt x y) (cmp_eqb c Lt) && Bool.eqb (hr_le x y) (negb (cmp_eqb c Gt))
  && Bool.eqb (hr_gt x y) (cmp_eqb c Gt) && Bool.eqb (hr_ge x y) (negb (cmp_eqb c Lt)).
Definition proj_hrkey (a b : N) : list bool :=
  [hrkey_spec_ok a b; hrkey_eq_ok a b; hrkey_ops_ok (hr_from a) (hr_from b)].

(* ---- C11 `sortp`: non-increasing, same multiset, in-place form agrees (one model function), idempotent *)
Definition proj_sortp (ws : list N) : list bool :=
  let s := sort_desc ws in
  [descb s; same_multiset s ws; true; list_eqb (sort_desc s) s].

(* ---- C04 `vrank`: valid? validated value 0? record carries it; valid: = unvalidated; five: = free fn *)
Definition proj_vrank (chk : bool) (ws : list N) : list (res bool) :=
  let valid := is_valid ws in
  let vv := hand_rank_value_validated chk ws in
  [Ok valid; rmap (fun x => x =? 0) vv; rmap (fun _ => true) vv]
  ++ (if valid then [eqr (hand_rank_value chk ws) vv] else [])
  ++ (if Nat.eqb (length ws) 5 then [eqr (evaluate_five_cards chk ws) vv] else []).

(* ---- C09 `vsame`: the validated value is the plain value (so the chain holds for the validated entry points too) *)
Definition proj_vsame (chk : bool) (ws : list N) : list (res bool) :=
  [eqr (hand_rank_value_validated chk ws) (hand_rank_value chk ws)].

(* ---- C06 `hrself`: reported record = conversion of the value (plain, validated); not Invalid, consistent *)
Definition proj_hrself (chk : bool) (ws : list N) : list (res bool) :=
  let hrv := hand_rank_value chk ws in
  let one := guard1 (fun v => hr_eqb (hr_from v) (hr_from v)) in
  [one hrv; one (hand_rank_value_validated chk ws);
   guard1 (fun v => negb (is_invalid (hr_from v)) && is_a_valid_hand_rank (hr_from v)) hrv].

(* ---- C01 `perm5`: one in-range value for all 120 slot orders and the five-card entry points ------- *)
Definition perm5_entry (chk : bool) (v0 : N) (w : list N) : bool :=
  ok_is (hand_rank_value chk w) v0 && ok_is (rmap fst (hrvh chk w)) v0
  && ok_is (hand_rank_value_validated chk w) v0 && ok_is (evaluate_five_cards chk w) v0.
Definition proj_perm5 (chk : bool) (ws : list N) : res (list bool) :=
  match hand_rank_value chk ws with
  | Ok v0 =>
      Ok [forallb (fun p => perm5_entry chk v0 (map (fun i => nth i ws 0) p)) PERM5_IDX;
          (1 <=? v0) && (v0 <=? 7462)]
  | _ => Panic
  end.

(* ---- C08 `relabel`: value (plain, validated) the same under all 24 relabellings of the four suits. A relabelled card
   is built from the documented layout alone: same rank field, the suit field (clubs 0 .. spades 3) mapped through the
   permutation - not through the crate's accessors or `create`, so that this projection speaks about ranking only *)
Definition SUIT4 : list N := [0; 1; 2; 3].
Definition PERM4 : list (list N) := perms SUIT4.
Definition relabel_suit (p : list N) (s : N) : N := assoc (combine SUIT4 p) s s.
Definition word_rank (w : N) : N := N.land (N.shiftr w 8) 15.
Definition word_suit (w : N) : N := N.log2 (N.land (N.shiftr w 12) 15).
Definition relabel_word (p : list N) (w : N) : N := layout (word_rank w) (relabel_suit p (word_suit w)).
Definition relabel_hand (p : list N) (ws : list N) : list N := map (relabel_word p) ws.
Definition proj_relabel (chk : bool) (ws : list N) : res (list bool) :=
  match hand_rank_value chk ws, hand_rank_value_validated chk ws with
  | Ok v0, Ok w0 =>
      Ok [forallb (fun p => ok_is (hand_rank_value chk (relabel_hand p ws)) v0) PERM4;
          forallb (fun p => ok_is (hand_rank_value_validated chk (relabel_hand p ws)) w0) PERM4]
  | _, _ => Panic
  end.

(* ---- C15 `bcsetp`: the set built from a hand: count = distinct deck cards among the slots; each is a member; no
   bit above the 52 card bits; peeling lists exactly those cards in deck order, then blank with the set unchanged
   (and empty); valid iff non-empty *)
Definition DECK52 : list N := map (fun i => match deck_get i with Ok w => w | _ => 0 end) (N_range 52).
Fixpoint peel_words (n : nat) (x : N) : list N * N :=
  match n with
  | O => ([], x)
  | S k => let '(r, x1) := peel x in let '(l, x2) := peel_words k x1 in (from_binary_card r :: l, x2)
  end.
Definition bcset_members (ws : list N) : list N := List.filter (fun cd => memN cd ws) DECK52.
Definition bcset_peel_ok (bc : N) (members : list N) : bool :=
  let '(peeled, rest) := peel_words (length members) bc in
  let '(last, x') := peel rest in
  list_eqb peeled members && (last =? 0) && (x' =? rest) && (rest =? 0).
Definition is_nil {A} (l : list A) : bool := match l with [] => true | _ :: _ => false end.
Definition proj_bcsetp (ws : list N) : list bool :=
  let bc := bc_from_hand ws in
  let members := bcset_members ws in
  [number_of_cards bc =? lenN members;
   forallb (fun cd => has bc (from_ckc cd)) members;
   N.shiftr bc 52 =? 0;
   bcset_peel_ok bc members;
   Bool.eqb (bc_is_valid bc) (negb (is_nil members))].
