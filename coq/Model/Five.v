(* Model of src/cards/five.rs (evaluation core), src/cards/six.rs, src/cards/seven.rs and the
   HandRanker trait (src/cards/mod.rs), plus evaluate::* of src/lib.rs.
   [chk] = overflow checks on (debug profile) / off (release profile). *)
From CKC Require Import Base.Prelude Base.SortN Model.Card Model.Hands.
From CKC Require Import Gen.Consts Gen.Tables Gen.Decks.
Open Scope N_scope.

Definition FLUSHES_T : table := build_table FLUSHES.
Definition UNIQUE_5_T : table := build_table UNIQUE_5.
Definition PRODUCTS_T : table := build_table PRODUCTS.
Definition VALUES_T : table := build_table VALUES.

(* ---- bitwise helpers of Five ---------------------------------------------------------------- *)
Definition and_bits (ws : list N) : N :=
  match ws with [] => 0 | w :: r => fold_left N.land r w end.
Definition or_bits (ws : list N) : N := fold_left N.lor ws 0.
Definition or_rank_bits (ws : list N) : N := N.shiftr (or_bits ws) CN_RANK_FLAG_SHIFT.
Definition is_flush (ws : list N) : bool := negb (N.land (and_bits ws) CN_SUIT_FILTER =? 0).
Definition is_wheel (ws : list N) : bool := or_rank_bits ws =? FIVE_WHEEL_OR_BITS.
Definition is_straight (ws : list N) : bool :=
  let rank_bits := or_rank_bits ws in
  ((trailing_zeros 32 rank_bits + leading_zeros 32 rank_bits =? FIVE_STRAIGHT_PADDING)
   && (popcount rank_bits =? 5))
  || (rank_bits =? FIVE_WHEEL_OR_BITS).
Definition is_straight_flush (ws : list N) : bool := is_straight ws && is_flush ws.

(* deprecated free functions evaluate::is_flush / evaluate::or_rank_bits (src/lib.rs): the same AND
   chain masked with SUIT_FILTER, resp. a delegation to Five::or_rank_bits *)
Definition evaluate_is_flush (ws : list N) : bool := negb (N.land (and_bits ws) CN_SUIT_FILTER =? 0).
Definition evaluate_or_rank_bits (ws : list N) : N := or_rank_bits ws.

(* u32 product of the five prime fields, left to right *)
Definition multiply_primes (chk : bool) (ws : list N) : res N :=
  match map get_rank_prime ws with
  | [] => Ok 1
  | p :: ps => fold_left (fun acc q => let* a := acc in mul_w U32 chk a q) ps (Ok p)
  end.

(* ---- Five::find_in_products: hand-written binary search over usize bounds ------------------ *)
Fixpoint fip_loop (fuel : nat) (chk : bool) (key low high : N) : res N :=
  match fuel with
  | O => Diverge
  | S f =>
      if low <=? high then
        let* s := add_w U64 chk high low in
        let mid := N.shiftr s 1 in
        let* product := tget PRODUCTS_T mid in
        if key <? product then
          if mid =? 0 then Ok 0
          else let* h := sub_w U64 chk mid 1 in fip_loop f chk key low h
        else if product <? key then
          let* l := add_w U64 chk mid 1 in fip_loop f chk key l high
        else Ok mid
      else Ok 0
  end.
Definition FIP_FUEL : nat := 64.
Definition find_in_products (chk : bool) (key : N) : res N := fip_loop FIP_FUEL chk key 0 4887.

(* Five::not_unique / Five::unique *)
Definition not_unique (chk : bool) (ws : list N) : res N :=
  let* key := multiply_primes chk ws in
  let* i := find_in_products chk key in
  let* p := tget PRODUCTS_T i in
  if p =? key then tget VALUES_T i else Ok NO_HAND_RANK_VALUE.
Definition unique5 (index : N) : res N :=
  if FIVE_POSSIBLE_COMBINATIONS <? index then Ok CN_BLANK else tget UNIQUE_5_T index.

(* HandRanker for Five *)
Definition hrvh5 (chk : bool) (ws : list N) : res (N * list N) :=
  let i := or_rank_bits ws in
  let* hrv :=
    if is_flush ws then tget FLUSHES_T i
    else let* u := unique5 i in if u =? 0 then not_unique chk ws else Ok u in
  Ok (hrv, ws).

(* ---- Six / Seven: best of the five-slot selections ----------------------------------------- *)
(* Permutator::five_from_permutation *)
Definition select (ws : list N) (perm : list N) : res (list N) := mapM (idx ws) perm.

Definition hrv5 (chk : bool) (ws : list N) : res N := rmap fst (hrvh5 chk ws).

Definition best_step (chk : bool) (ws : list N) (acc : res (N * list N)) (perm : list N)
  : res (N * list N) :=
  let* (best_hrv, best_hand) := acc in
  let* hand := select ws perm in
  let* hrv := hrv5 chk hand in
  if (best_hrv =? 0) || (negb (hrv =? 0) && (hrv <? best_hrv))
  then Ok (hrv, hand) else Ok (best_hrv, best_hand).

Definition FIVE_DEFAULT : list N := [0; 0; 0; 0; 0].

Definition hrvh_best (chk : bool) (perms : list (list N)) (ws : list N) : res (N * list N) :=
  let* (best_hrv, best_hand) := fold_left (best_step chk ws) perms (Ok (0, FIVE_DEFAULT)) in
  Ok (best_hrv, sort_desc best_hand).

(* hand_rank_value_and_hand for any of the three ranking sizes *)
Definition hrvh (chk : bool) (ws : list N) : res (N * list N) :=
  match length ws with
  | 5%nat => hrvh5 chk ws
  | 6%nat => hrvh_best chk SIX_PERMUTATIONS ws
  | 7%nat => hrvh_best chk SEVEN_PERMUTATIONS ws
  | _ => Panic
  end.
(* trait default hand_rank_value *)
Definition hand_rank_value (chk : bool) (ws : list N) : res N := rmap fst (hrvh chk ws).
(* hand_rank_value_validated *)
Definition hand_rank_value_validated (chk : bool) (ws : list N) : res N :=
  if negb (is_valid ws) then Ok NO_HAND_RANK_VALUE else hand_rank_value chk ws.
(* evaluate::five_cards *)
Definition evaluate_five_cards (chk : bool) (ws : list N) : res N := hand_rank_value_validated chk ws.
