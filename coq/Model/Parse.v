(* Model of src/parse.rs, PokerCard::from_index, the hand parsers (TryFrom<&str> for Two..Seven) and
   BinaryCard::from_index. A string is the list of its Unicode scalar values; UTF-8 decoding and
   [split_whitespace] are the standard library's and are modelled by their specification. *)
From Coq Require Import String.
From CKC Require Import Base.Prelude Model.Card Model.Binary.
From CKC Require Import Gen.Consts Gen.Chars Gen.Enums.
Open Scope N_scope.

Definition is_whitespace (c : N) : bool := memN c WHITESPACE.

(* CardRank::from_char / CardSuit::from_char: complete graphs over all scalar values *)
Definition rank_from_char (c : N) : N := assoc RANK_FROM_CHAR c RANK_BLANK.
Definition suit_from_char (c : N) : N := assoc SUIT_FROM_CHAR c SUIT_BLANK.

(* str::split_whitespace: the maximal runs of non-whitespace characters, in order *)
Fixpoint tokens_aux (cur : list N) (s : list N) : list (list N) :=
  match s with
  | [] => match cur with [] => [] | _ => [rev cur] end
  | c :: r =>
      if is_whitespace c
      then match cur with [] => tokens_aux [] r | _ => rev cur :: tokens_aux [] r end
      else tokens_aux (c :: cur) r
  end.
Definition tokens (s : list N) : list (list N) := tokens_aux [] s.

(* parse::get_rank_and_suit *)
Definition get_rank_and_suit (t : list N) : N * N :=
  match t with
  | c1 :: c2 :: _ => (rank_from_char c1, suit_from_char c2)
  | _ => (RANK_BLANK, SUIT_BLANK)
  end.
(* PokerCard::from_index *)
Definition card_from_index (t : list N) : N :=
  let '(r, s) := get_rank_and_suit t in create r s.

(* <Hand>::from_index for an n-slot hand: one token per slot, None when tokens run out *)
Definition hand_from_index (n : nat) (s : list N) : option (list N) :=
  let ts := tokens s in
  if (n <=? length ts)%nat then Some (map card_from_index (firstn n ts)) else None.

(* BinaryCard::from_index: fold every token in *)
Definition bc_from_index (s : list N) : N :=
  fold_left (fun bc t => fold_in bc (from_ckc (card_from_index t))) (tokens s) BC_BLANK.
