(* Model of src/cards/binary_card.rs (BC64 for u64) and the two conversions of src/lib.rs /
   src/cards/two.rs that use it. *)
From Coq Require Import String.
From CKC Require Import Base.Prelude Model.Card Model.Hands.
From CKC Require Import Gen.Consts Gen.Decks Gen.Scan Gen.Enums.
Open Scope N_scope.

(* BinaryCard::from_ckc — complete graph over all 2^32 words *)
Definition from_ckc (w : N) : N := assoc FROM_CKC_NONBLANK w BC_BLANK.

(* CKCNumber::from_binary_card — a 52-arm match on the card-bit constants; every other value is
   blank. DATA: its value on each of the 64 single bits. LOGIC (tied by correspondence): values that
   are not a single bit fall to the default arm. *)
Definition is_single_bit (b : N) : bool := match b with Npos p => popcount_pos p =? 1 | N0 => false end.
Definition from_binary_card (b : N) : N :=
  if is_single_bit b then nthN FROM_BC_SINGLE_BITS (N.log2 b) CN_BLANK else CN_BLANK.

(* from_two .. from_seven: OR of the per-slot conversions *)
Definition bc_from_hand (ws : list N) : N := fold_left (fun acc w => N.lor acc (from_ckc w)) ws 0.

Definition fold_in (b c : N) : N := N.lor b c.
Definition has (b c : N) : bool := N.land b c =? c.
Definition number_of_cards (b : N) : N := popcount b.
Definition is_single_card (b : N) : bool := number_of_cards b =? 1.
Definition bc_is_valid (b : N) : bool :=
  negb (b =? BC_BLANK) && (number_of_cards (N.land b BC_OVERFLOW) <? 1).

(* peel: scan the bit-form deck from the ace of spades down; clear and return the first member *)
Fixpoint peel_scan (deck : list N) (b : N) : N * N :=
  match deck with
  | [] => (BC_BLANK, b)
  | bc :: r => if N.land b bc =? bc then (bc, N.lxor b bc) else peel_scan r b
  end.
Definition peel (b : N) : N * N := peel_scan BC_DECK b.   (* (returned card, new set) *)

(* TryFrom<BinaryCard> for Two *)
Definition ERR_NOT_ENOUGH : N := variant HandError_NAMES "NotEnoughCards".
Definition ERR_TOO_MANY : N := variant HandError_NAMES "TooManyCards".
Definition ERR_INVALID_BINARY : N := variant HandError_NAMES "InvalidBinaryFormat".
Definition ERR_INVALID_INDEX : N := variant HandError_NAMES "InvalidIndex".

Definition two_try_from_bc (b : N) : list N + N :=
  let n := number_of_cards b in
  if n <=? 1 then inr ERR_NOT_ENOUGH
  else if n =? 2 then
    let '(c1, b1) := peel b in
    let '(c2, _) := peel b1 in
    let two := [from_binary_card c1; from_binary_card c2] in
    if is_valid two then inl two else inr ERR_INVALID_BINARY
  else inr ERR_TOO_MANY.
