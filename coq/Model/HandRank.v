(* Model of src/hand_rank.rs. A HandRank is the triple (value, name variant, class variant). *)
From Coq Require Import String.
From CKC Require Import Base.Prelude.
From CKC Require Import Gen.Enums Gen.HandRankMaps Gen.Consts.
Open Scope N_scope.

Definition NAME_INVALID : N := variant HandRankName_NAMES "Invalid".
Definition CLASS_INVALID : N := variant HandRankClass_NAMES "Invalid".
Definition NAME_FLUSH : N := variant HandRankName_NAMES "Flush".
Definition NAME_STRAIGHT : N := variant HandRankName_NAMES "Straight".
Definition NAME_STRAIGHT_FLUSH : N := variant HandRankName_NAMES "StraightFlush".

(* determine_name / determine_class: complete graphs over the 65 536 values (run-length encoded) *)
Definition determine_name (v : N) : N := rle NAME_RLE v NAME_INVALID.
Definition determine_class (v : N) : N := rle CLASS_RLE v CLASS_INVALID.

Record hand_rank := { hr_value : N; hr_name : N; hr_class : N }.

(* From<HandRankValue> *)
Definition hr_from (v : N) : hand_rank :=
  {| hr_value := v; hr_name := determine_name v; hr_class := determine_class v |}.
Definition hr_default : hand_rank := hr_from 0.

(* derived PartialEq: field-wise *)
Definition hr_eqb (a b : hand_rank) : bool :=
  (hr_value a =? hr_value b) && (hr_name a =? hr_name b) && (hr_class a =? hr_class b).

Definition is_invalid (h : hand_rank) : bool := hr_name h =? NAME_INVALID.
Definition is_a_valid_hand_rank (h : hand_rank) : bool := hr_eqb h (hr_from (hr_value h)).

(* Ord for HandRank, as written *)
Definition cmp_N (a b : N) : comparison := N.compare a b.
Definition hr_cmp (a b : hand_rank) : comparison :=
  if is_invalid a && is_invalid b then cmp_N (hr_value b) (hr_value a)
  else if is_invalid a then Lt
  else if is_invalid b then Gt
  else if hr_value a <? hr_value b then Gt
  else if hr_value b <? hr_value a then Lt
  else Eq.
(* PartialOrd::partial_cmp = Some(cmp); lt/le/gt/ge are the trait defaults over partial_cmp *)
Definition hr_lt a b := match hr_cmp a b with Lt => true | _ => false end.
Definition hr_le a b := match hr_cmp a b with Gt => false | _ => true end.
Definition hr_gt a b := match hr_cmp a b with Gt => true | _ => false end.
Definition hr_ge a b := match hr_cmp a b with Lt => false | _ => true end.

(* derived Ord of the two enumerations: observed order positions *)
Definition name_pos (n : N) : N := nthN HandRankName_ORDER n 0.
Definition class_pos (c : N) : N := nthN HandRankClass_ORDER c 0.
