(* Model of the six `impl Shifty for Two .. Seven` blocks (src/cards/two.rs .. seven.rs), each transcribed as
   written: one container literal whose slots are the shifted accessors, in accessor order. A container of
   another size does not exist (Panic). [Model.Hands.shift_suit_hand] is the slot-wise map the theorems speak
   about; Proofs/C08Sized.v proves that each transcription is that map. *)
From CKC Require Import Base.Prelude Model.Card Model.Hands.
Open Scope N_scope.

(* Two::new(self.first().shift_suit(), self.second().shift_suit()) *)
Definition shift_suit_two (ws : list N) : res (list N) :=
  match ws with [a; b] => Ok [shift_suit a; shift_suit b] | _ => Panic end.
(* Three([first, second, third]) *)
Definition shift_suit_three (ws : list N) : res (list N) :=
  match ws with [a; b; c] => Ok [shift_suit a; shift_suit b; shift_suit c] | _ => Panic end.
Definition shift_suit_four (ws : list N) : res (list N) :=
  match ws with
  | [a; b; c; d] => Ok [shift_suit a; shift_suit b; shift_suit c; shift_suit d]
  | _ => Panic
  end.
Definition shift_suit_five (ws : list N) : res (list N) :=
  match ws with
  | [a; b; c; d; e] => Ok [shift_suit a; shift_suit b; shift_suit c; shift_suit d; shift_suit e]
  | _ => Panic
  end.
Definition shift_suit_six (ws : list N) : res (list N) :=
  match ws with
  | [a; b; c; d; e; f] =>
      Ok [shift_suit a; shift_suit b; shift_suit c; shift_suit d; shift_suit e; shift_suit f]
  | _ => Panic
  end.
Definition shift_suit_seven (ws : list N) : res (list N) :=
  match ws with
  | [a; b; c; d; e; f; g] =>
      Ok [shift_suit a; shift_suit b; shift_suit c; shift_suit d; shift_suit e; shift_suit f; shift_suit g]
  | _ => Panic
  end.

(* Shifty::shift_suit of the container of [length ws] slots *)
Definition shift_suit_sized (ws : list N) : res (list N) :=
  match length ws with
  | 2%nat => shift_suit_two ws
  | 3%nat => shift_suit_three ws
  | 4%nat => shift_suit_four ws
  | 5%nat => shift_suit_five ws
  | 6%nat => shift_suit_six ws
  | 7%nat => shift_suit_seven ws
  | _ => Panic
  end.
