(* Model of the starting-hand helpers of src/cards/two.rs. f32 is modelled exactly in doubled
   integers (every intermediate value is a multiple of 0.5 of small magnitude). *)
From Coq Require Import String.
From CKC Require Import Base.Prelude Base.SortN Model.Card Model.Hands.
From CKC Require Import Gen.Consts Gen.Enums.
Open Scope N_scope.

Definition first (ws : list N) : N := nth 0 ws 0.
Definition second (ws : list N) : N := nth 1 ws 0.

Definition high_card (ws : list N) : N := N.max (first ws) (second ws).
Definition is_pocket_pair (ws : list N) : bool := get_card_rank (first ws) =? get_card_rank (second ws).
Definition is_suited (ws : list N) : bool := get_card_suit (first ws) =? get_card_suit (second ws).

(* get_gap: u8 subtraction of the two rank discriminants of the sorted pair *)
Definition get_gap (chk : bool) (ws : list N) : res N :=
  let s := sort_desc ws in
  let* d := sub_w U8 chk (rank_discr (get_card_rank (first s))) (rank_discr (get_card_rank (second s))) in
  if d <? 1 then Ok 0 else Ok (d - 1).
Definition is_connector (chk : bool) (ws : list N) : res bool := rmap (fun g => g =? 0) (get_gap chk ws).
Definition is_suited_connector (chk : bool) (ws : list N) : res bool :=
  if is_suited ws then is_connector chk ws else Ok false.

(* chen_formula, in doubled points (Z, since the score can go negative) *)
Definition chen_formula (chk : bool) (ws : list N) : res Z :=
  let hc := high_card ws in
  let points := Z.of_N (get_chen_points_x2 hc) in
  let* points :=
    if is_pocket_pair ws then Ok (Z.max (points * 2) 10)
    else
      let* gap := get_gap chk ws in
      let penalty : Z := if gap =? 1 then 2%Z else if gap =? 2 then 4%Z else if gap =? 3 then 8%Z
                         else if gap =? 0 then 0%Z else 10%Z in
      let points := (points - penalty)%Z in
      let top_rank := rank_discr (get_card_rank hc) in
      Ok (if (gap <? 2) && (top_rank <? 12) then (points + 2)%Z else points) in
  let points := if is_suited ws then (points + 4)%Z else points in
  (* ceil of points/2 *)
  Ok ((points + 1) / 2)%Z.
