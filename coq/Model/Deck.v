(* Model of src/deck.rs *)
From CKC Require Import Base.Prelude.
From CKC Require Import Gen.Consts Gen.Decks.
Open Scope N_scope.

(* Deck::get — bounds-checked access (index is a usize) *)
Definition deck_get (i : N) : res N :=
  if i <? DECK_LEN then idx POKER_DECK i else Ok CN_BLANK.
