(* Model of src/lib.rs: card words, filter, create, accessors, flags, suit shifting.
   DATA comes from Gen (regenerated from the running code); LOGIC is transcribed by hand and tied to
   the code by the correspondence check. *)
From Coq Require Import String.
From CKC Require Import Base.Prelude.
From CKC Require Import Gen.Consts Gen.Enums Gen.Maps Gen.Scan.
Open Scope N_scope.

(* enum variants are their index in EnumIter (declaration) order *)
Definition RANK_BLANK : N := variant CardRank_NAMES "BLANK".
Definition SUIT_BLANK : N := variant CardSuit_NAMES "BLANK".

(* CardNumber::filter / PokerCard::filter — the complete graph over all 2^32 words *)
Definition filter (w : N) : N := assoc FILTER_NONBLANK w CN_BLANK.

(* a stable name for the extraction (List.filter may claim the bare name) *)
Definition card_filter (w : N) : N := filter w.

(* CardRank::{bits,prime,shift8}, CardSuit::binary_signature: per-variant data *)
Definition rank_bits (r : N) : N := nthN RANK_BITS r 0.
Definition rank_prime (r : N) : N := nthN RANK_PRIME r 0.
Definition rank_shift8 (r : N) : N := nthN RANK_SHIFT8 r 0.
Definition rank_number (r : N) : N := nthN RANK_NUMBER r 0.
Definition suit_signature (s : N) : N := nthN SUIT_SIGNATURE s 0.
Definition rank_discr (r : N) : N := nthN CardRank_DISCR r 0.

(* PokerCard::create *)
Definition create (r s : N) : N :=
  filter (N.lor (N.lor (N.lor (rank_bits r) (rank_prime r)) (rank_shift8 r)) (suit_signature s)).

(* accessors *)
Definition get_rank_flag (w : N) : N := N.land w CN_RANK_FLAG_FILTER.
Definition get_rank_bit (w : N) : N := N.shiftr (get_rank_flag w) CN_RANK_FLAG_SHIFT.
Definition get_rank_prime (w : N) : N := N.land w CN_RANK_PRIME_FILTER.
Definition get_suit_flag (w : N) : N := N.land w CN_SUIT_FILTER.
Definition get_suit_bit (w : N) : N := N.shiftr (get_suit_flag w) CN_SUIT_SHIFT.
Definition get_card_rank (w : N) : N := assoc F13_get_card_rank (get_rank_bit w) F13_get_card_rank_DEFAULT.
Definition get_rank_char (w : N) : N := assoc F13_get_rank_char (get_rank_bit w) F13_get_rank_char_DEFAULT.
Definition get_chen_points_x2 (w : N) : N :=
  assoc F13_get_chen_points_x2 (get_rank_bit w) F13_get_chen_points_x2_DEFAULT.
Definition get_card_suit (w : N) : N := nthN F4_get_card_suit (get_suit_bit w) SUIT_BLANK.
Definition get_suit_char (w : N) : N := nthN F4_get_suit_char (get_suit_bit w) 95.
Definition get_suit_letter (w : N) : N := nthN F4_get_suit_letter (get_suit_bit w) 95.
Definition next_suit (w : N) : N := nthN F4_next_suit (get_suit_bit w) SUIT_BLANK.
Definition is_blank (w : N) : bool := w =? CN_BLANK.

(* multiples flags *)
Definition flag_as_pair (w : N) : N := N.lor w CN_PAIR.
Definition flag_as_trips (w : N) : N := N.lor w CN_TRIPS.
Definition flag_as_quads (w : N) : N := N.lor w CN_QUADS.
Definition strip_multiples_flags (w : N) : N := N.land CN_MULTIPLES_FILTER w.

(* Shifty for CKCNumber *)
Definition shift_suit (w : N) : N := create (get_card_rank w) (next_suit w).
