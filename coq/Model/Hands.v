(* Model of the HandValidator trait and its per-size implementations (src/cards/mod.rs, two.rs ..
   seven.rs): validity, uniqueness tests as written, sorting, suit shifting of whole hands.
   A hand is the list of its slot words, in slot order. *)
From CKC Require Import Base.Prelude Base.SortN Model.Card.
From CKC Require Import Gen.Consts.
Open Scope N_scope.

(* sort() / sort_in_place(): [sort_desc] of Base/SortN.v (sort_unstable then reverse) *)

(* ---- trait defaults ------------------------------------------------------------------------ *)
Definition contain_blank (ws : list N) : bool := existsb (fun c => c =? CN_BLANK) ws.
Definition is_corrupt (ws : list N) : bool := existsb (fun c => filter c =? CN_BLANK) ws.

(* ---- are_unique, as written for each size --------------------------------------------------- *)
Definition neq (a b : N) : bool := negb (a =? b).

Definition are_unique2 (ws : list N) : bool :=
  match ws with [a; b] => neq a b | _ => false end.
Definition are_unique3 (ws : list N) : bool :=
  match ws with [a; b; c] => neq a b && neq a c && neq b c | _ => false end.
Definition are_unique4 (ws : list N) : bool :=
  match ws with
  | [a; b; c; d] => neq a b && neq a c && neq a d && neq b c && neq b d && neq c d
  | _ => false
  end.
(* Five: !(1..5).any(|i| self.0[i..].contains(&self.0[i - 1])) *)
Definition are_unique5 (ws : list N) : bool :=
  negb (existsb (fun i => memN (nth (i - 1) ws 0) (skipn i ws)) [1; 2; 3; 4]%nat).
(* Six / Seven: sort descending, then scan with last = u32::MAX *)
Definition are_unique_sorted (ws : list N) : bool := strictly_desc_from U32MAX (sort_desc ws).

Definition are_unique (ws : list N) : bool :=
  match length ws with
  | 2%nat => are_unique2 ws
  | 3%nat => are_unique3 ws
  | 4%nat => are_unique4 ws
  | 5%nat => are_unique5 ws
  | _ => are_unique_sorted ws
  end.

Definition is_valid (ws : list N) : bool := are_unique ws && negb (is_corrupt ws).

(* Shifty for Two .. Seven *)
Definition shift_suit_hand (ws : list N) : list N := map shift_suit ws.
