(* Model of the hand containers (Two .. Seven) as state machines over plain lists. *)
From CKC Require Import Base.Prelude.
Open Scope N_scope.

Inductive op :=
| OpDefault               (* Default::default() *)
| OpArr (ws : list N)     (* From<[u32; N]> *)
| OpNew (ws : list N)     (* the slot constructor / composite constructors, arguments flattened *)
| OpSet (i : nat) (w : N) (* set_first .. set_seventh *).

Fixpoint set_nth (i : nat) (w : N) (l : list N) : list N :=
  match l, i with
  | [], _ => []
  | _ :: r, O => w :: r
  | x :: r, S j => x :: set_nth j w r
  end.

Definition step (n : nat) (st : list N) (o : op) : list N :=
  match o with
  | OpDefault => repeat 0 n
  | OpArr ws => ws
  | OpNew ws => ws
  | OpSet i w => set_nth i w st
  end.

(* the states after each operation *)
Fixpoint run (n : nat) (st : list N) (ops : list op) : list (list N) :=
  match ops with
  | [] => []
  | o :: r => let st' := step n st o in st' :: run n st' r
  end.
