(* Model-side search for a failing input (DESIGN section 1.4): executable twins of the reflection
   sweeps, returning the first class on which the current tables disagree with the rules of poker,
   together with a concrete hand of that class. Definitions only (no proofs), so this file compiles and
   extracts whatever the tables contain. *)
From CKC Require Import Base.Prelude Base.Reflect Spec.Layout Spec.Poker.
From CKC Require Import Model.Card Model.Hands Model.Five Proofs.FiveFacts Proofs.RankedFacts.
Open Scope N_scope.

Fixpoint enum_from {A} (n : N) (l : list A) : list (N * A) :=
  match l with [] => [] | x :: r => (n, x) :: enum_from (N.succ n) r end.


(* an explicit hand of five distinct real cards for every class *)
Fixpoint suits_for (prev k : N) (rs : list N) : list N :=
  match rs with
  | [] => []
  | r :: rest => if r =? prev then (k + 1) :: suits_for r (k + 1) rest else 0 :: suits_for r 0 rest
  end.
Definition witness (h : shape) : list N :=
  let '(rs, fl) := h in
  if fl then map (fun r => layout r 0) rs
  else
    let ss := suits_for 13 0 rs in
    let ss' := if all_distinct rs then match ss with _ :: t => 1 :: t | [] => [] end else ss in
    map (fun '(r, s) => layout r s) (combine rs ss').


Definition eval_matches (chk : bool) (ip : N * (N * shape)) : bool :=
  let '(i, (_, (rs, fl))) := ip in
  match eval_abs chk rs fl with Ok v => v =? i + 1 | _ => false end.


(* first class (0-based position i in the ranking by the rules: expected value i + 1) that the tables get wrong.
   (The match is on a variable on purpose: elaborating a match directly on [find .. ranked] makes Coq reduce it.) *)
Definition describe_bad (chk : bool) (o : option (N * (N * shape))) : option (N * list N * res N) :=
  match o with
  | Some (i, (_, (rs, fl))) => Some (i + 1, witness (rs, fl), eval_abs chk rs fl)
  | None => None
  end.
Definition first_bad_class (chk : bool) : option (N * list N * res N) :=
  describe_bad chk (find (fun ip => negb (eval_matches chk ip)) (enum_from 0 ranked)).
