(* Spec: the documented card layout and deck order, written from the property text (C10, C11, C14,
   C18), never from the code.

     +--------+--------+--------+--------+
     |mmmbbbbb|bbbbbbbb|SHDCrrrr|xxpppppp|
     +--------+--------+--------+--------+
   rank r: deuce = 0 .. ace = 12;  suit s: clubs = 0, diamonds = 1, hearts = 2, spades = 3. *)
From Coq Require Import String.
From CKC Require Import Base.Prelude.
Open Scope N_scope.

Definition PRIMES : list N := [2; 3; 5; 7; 11; 13; 17; 19; 23; 29; 31; 37; 41].
Definition prime_of (r : N) : N := nthN PRIMES r 0.

Definition layout (r s : N) : N :=
  N.lor (N.lor (N.lor (N.shiftl 1 (16 + r)) (N.shiftl 1 (12 + s))) (N.shiftl r 8)) (prime_of r).

Definition RANKS_DESC : list N := [12; 11; 10; 9; 8; 7; 6; 5; 4; 3; 2; 1; 0].
Definition SUITS_DESC : list N := [3; 2; 1; 0].

(* deck order: spades, hearts, diamonds, clubs; each ace down to deuce *)
Definition SPEC_DECK_RS : list (N * N) :=
  flat_map (fun s => map (fun r => (r, s)) RANKS_DESC) SUITS_DESC.
Definition SPEC_DECK : list N := map (fun '(r, s) => layout r s) SPEC_DECK_RS.

Definition RealCard (w : N) : Prop := exists r s, r < 13 /\ s < 4 /\ w = layout r s.
Definition real_cardb (w : N) : bool := memN w SPEC_DECK.
Definition CardOrBlank (w : N) : Prop := w = 0 \/ RealCard w.

(* names used by the crate's identifiers, indexed by spec rank / suit *)
Definition RANK_CONST_NAMES : list string :=
  ["DEUCE"; "TREY"; "FOUR"; "FIVE"; "SIX"; "SEVEN"; "EIGHT"; "NINE"; "TEN"; "JACK"; "QUEEN"; "KING"; "ACE"]%string.
Definition RANK_ENUM_NAMES : list string :=
  ["TWO"; "THREE"; "FOUR"; "FIVE"; "SIX"; "SEVEN"; "EIGHT"; "NINE"; "TEN"; "JACK"; "QUEEN"; "KING"; "ACE"]%string.
Definition SUIT_NAMES : list string := ["CLUBS"; "DIAMONDS"; "HEARTS"; "SPADES"]%string.
Definition const_name (r s : N) : string :=
  (nth (N.to_nat r) RANK_CONST_NAMES "" ++ "_" ++ nth (N.to_nat s) SUIT_NAMES "")%string.

(* characters (Unicode scalar values) *)
Definition RANK_CHARS : list N := [50; 51; 52; 53; 54; 55; 56; 57; 84; 74; 81; 75; 65]. (* 2..9 T J Q K A *)
Definition SUIT_GLYPHS : list N := [9827; 9830; 9829; 9824].  (* filled club, diamond, heart, spade *)
Definition SUIT_OUTLINES : list N := [9831; 9826; 9825; 9828]. (* outline club, diamond, heart, spade *)
Definition SUIT_LETTERS : list N := [67; 68; 72; 83].          (* C D H S *)
Definition UNDERSCORE : N := 95.

(* Chen points of a rank, doubled (so that halves are integers) *)
Definition chen_points_x2 (r : N) : N :=
  if r =? 12 then 20 else if r =? 11 then 16 else if r =? 10 then 14 else if r =? 9 then 12
  else r + 2.   (* half the pip value (r+2)/2, doubled *)
