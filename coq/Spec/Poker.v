(* Spec: the rules of poker for five-card hands, written from the property text (C01, C02, C06,
   C13), never from the code.

   A hand's SHAPE is the list of its five ranks (deuce = 0 .. ace = 12, in any order) together with
   one bit: do all five cards share a suit. Everything below depends on the ranks only through how
   often each rank occurs, so it is independent of slot order by construction. *)
From CKC Require Import Base.Prelude Base.Reflect Spec.Layout.
Open Scope N_scope.

Definition shape : Type := (list N * bool)%type.

(* ---- multiplicities ------------------------------------------------------------------------ *)
Definition cnt (r : N) (rs : list N) : nat := count_occ N.eq_dec rs r.
(* the ranks occurring exactly c times, high to low *)
Definition ranks_with (c : nat) (rs : list N) : list N :=
  List.filter (fun r => Nat.eqb (cnt r rs) c) RANKS_DESC.
Definition has_mult (c : nat) (rs : list N) : bool :=
  match ranks_with c rs with [] => false | _ => true end.

(* the distinct ranks in the order in which they break ties: multiplicity first, then rank *)
Definition tiebreak (rs : list N) : list N :=
  ranks_with 4 rs ++ ranks_with 3 rs ++ ranks_with 2 rs ++ ranks_with 1 rs.

(* ---- straights ----------------------------------------------------------------------------- *)
Definition all_distinct (rs : list N) : bool := Nat.eqb (length (ranks_with 1 rs)) 5.
Definition WHEEL : list N := [12; 3; 2; 1; 0].       (* 5-4-3-2-A: the ace plays low *)
Definition is_wheel_ranks (rs : list N) : bool := list_eqb (ranks_with 1 rs) WHEEL.
(* the rank of the top card of the straight (the five for the wheel), if the ranks form one *)
Definition straight_top (rs : list N) : option N :=
  if all_distinct rs then
    if is_wheel_ranks rs then Some 3
    else
      let hi := hd 0 (ranks_with 1 rs) in
      let lo := last (ranks_with 1 rs) 0 in
      if hi - lo =? 4 then Some hi else None
  else None.
Definition is_straight_ranks (rs : list N) : bool :=
  match straight_top rs with Some _ => true | None => false end.

(* ---- categories, strongest = 8 ------------------------------------------------------------- *)
Definition STRAIGHT_FLUSH : N := 8.
Definition FOUR_OF_A_KIND : N := 7.
Definition FULL_HOUSE : N := 6.
Definition FLUSH : N := 5.
Definition STRAIGHT : N := 4.
Definition THREE_OF_A_KIND : N := 3.
Definition TWO_PAIR : N := 2.
Definition PAIR : N := 1.
Definition HIGH_CARD : N := 0.

Definition category (h : shape) : N :=
  let '(rs, fl) := h in
  if fl && is_straight_ranks rs then STRAIGHT_FLUSH
  else if has_mult 4 rs then FOUR_OF_A_KIND
  else if has_mult 3 rs && has_mult 2 rs then FULL_HOUSE
  else if fl then FLUSH
  else if is_straight_ranks rs then STRAIGHT
  else if has_mult 3 rs then THREE_OF_A_KIND
  else if Nat.eqb (length (ranks_with 2 rs)) 2 then TWO_PAIR
  else if has_mult 2 rs then PAIR
  else HIGH_CARD.

(* what is compared within a category: the top card for straights, otherwise the tie-break order *)
Definition kickers (h : shape) : list N :=
  let '(rs, _) := h in
  match straight_top rs with
  | Some top => [top]
  | None => tiebreak rs
  end.

(* strength as one number: category first, then the kickers lexicographically (all hands of one
   category have the same number of kickers, each below 13) *)
Definition score (h : shape) : N :=
  category h * 13 ^ 5 + fold_left (fun a r => a * 13 + r) (kickers h) 0.

Definition beats (h1 h2 : shape) : Prop := score h2 < score h1.
Definition ties (h1 h2 : shape) : Prop := score h1 = score h2.

(* ---- the hand classes ----------------------------------------------------------------------- *)
(* non-increasing k-lists over a descending alphabet: one representative per rank multiset *)
Fixpoint multisets (m : list N) : nat -> list (list N) :=
  match m with
  | [] => fun k => match k with O => [[]] | S _ => [] end
  | x :: m' =>
      fix go (k : nat) : list (list N) :=
        match k with
        | O => [[]]
        | S k' => map (cons x) (go k') ++ multisets m' k
        end
  end.

(* a shape that five distinct cards of a 52-card deck can have: no rank five times, and a
   one-suit hand has five different ranks *)
Definition valid_shape (h : shape) : bool :=
  let '(rs, fl) := h in
  Nat.eqb (length rs) 5 && forallb (fun r => r <? 13) rs
  && forallb (fun r => Nat.leb (cnt r rs) 4) RANKS_DESC
  && (if fl then all_distinct rs else true).

Definition all_shapes : list shape :=
  List.filter valid_shape (list_prod (multisets RANKS_DESC 5) [false; true]).

(* THE ORDINAL: one plus the number of hand classes that beat the hand *)
Definition ordinal (h : shape) : N :=
  1 + N.of_nat (length (List.filter (fun k => score h <? score k) all_shapes)).
