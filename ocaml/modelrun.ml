(* modelrun: the MODEL side of the correspondence check. Reads the same one-operation-per-line
   case files as `ckc-probe run`, evaluates the extracted Coq model (model.ml, produced by
   coq/Extract/Extract.v with ExtrOcamlBasic only) and prints one result line per case in exactly
   the format of harness/src/run.rs.  `--chk 1` = overflow checks on, `--chk 0` = off. *)
open Model

let rec pos_of_int64 (x : int64) : positive =
  if Int64.equal x 1L then XH
  else
    let rest = Int64.shift_right_logical x 1 in
    if Int64.equal (Int64.logand x 1L) 1L then XI (pos_of_int64 rest) else XO (pos_of_int64 rest)

let n_of_int64 x = if Int64.equal x 0L then N0 else Npos (pos_of_int64 x)
let n_of_string s = n_of_int64 (Int64.of_string ("0u" ^ s))

let rec int64_of_pos = function
  | XH -> 1L
  | XO p -> Int64.shift_left (int64_of_pos p) 1
  | XI p -> Int64.logor (Int64.shift_left (int64_of_pos p) 1) 1L

let int64_of_n = function N0 -> 0L | Npos p -> int64_of_pos p
let s_n n = Printf.sprintf "%Lu" (int64_of_n n)
let s_z = function
  | Z0 -> "0"
  | Zpos p -> Printf.sprintf "%Lu" (int64_of_pos p)
  | Zneg p -> Printf.sprintf "-%Lu" (int64_of_pos p)
let s_b b = if b then "1" else "0"
let int_of_n n = Int64.to_int (int64_of_n n)
let rec nat_of_int i = if i = 0 then O else S (nat_of_int (i - 1))

let s_res f = function Ok a -> f a | Panic -> "P" | Diverge -> "DIVERGE"
(* results of the extracted projections (Model/Proj.v): booleans as 1/0; a guarded field / op that did not return is P *)
let s_bools l = String.concat " " (List.map s_b l)
let s_fields l = String.concat " " (List.map (s_res s_b) l)
let s_guarded = function Ok l -> s_bools l | _ -> "P"
let s_words ws = String.concat " " (List.map s_n ws)
let s_cmp = function Lt -> "-1" | Eq -> "0" | Gt -> "1"
let s_hr h = Printf.sprintf "%s %s %s" (s_n h.hr_value) (s_n h.hr_name) (s_n h.hr_class)

let split l = List.filter (fun s -> s <> "") (String.split_on_char ' ' l)
let rec take n l = if n = 0 then [] else match l with [] -> failwith "take" | x :: r -> x :: take (n - 1) r
let rec drop n l = if n = 0 then l else match l with [] -> failwith "drop" | _ :: r -> drop (n - 1) r

let chk = ref false

let read3 st = Printf.sprintf "%s | %s | %s" (s_words st) (s_words st) (s_words st)

let exec toks =
  let op = List.hd toks in
  let args = List.tl toks in
  let nums () = List.map n_of_string args in
  let c = !chk in
  match op with
  | "filter" -> let w = List.hd (nums ()) in Printf.sprintf "%s %s" (s_n (card_filter w)) (s_n (card_filter w))
  | "create" -> (match nums () with [r; s] -> s_n (create r s) | _ -> failwith "create")
  | "acc" ->
      let w = List.hd (nums ()) in
      String.concat " "
        [ s_n (get_card_rank w); s_n (get_card_suit w); s_n (get_rank_prime w); s_n (get_rank_bit w);
          s_n (get_rank_flag w); s_n (get_suit_bit w); s_n (get_suit_flag w); s_n (get_rank_char w);
          s_n (get_suit_char w); s_n (get_suit_letter w); s_b (is_blank w); s_n (get_chen_points_x2 w);
          s_n (next_suit w); s_n w ]
  | "accf" ->
      let w = List.hd (nums ()) in
      String.concat " "
        [ s_n (get_card_rank w); s_n (get_card_suit w); s_n (get_rank_prime w); s_n (get_rank_bit w);
          s_n (get_rank_flag w); s_n (get_suit_bit w); s_n (get_suit_flag w); s_n (get_rank_char w);
          s_n (get_suit_char w); s_n (get_suit_letter w); s_b (is_blank w); s_n w ]
  | "accp" -> s_n (get_chen_points_x2 (List.hd (nums ())))
  | "flags" ->
      let w = List.hd (nums ()) in
      String.concat " "
        [ s_n (flag_as_pair w); s_n (flag_as_trips w); s_n (flag_as_quads w); s_n (strip_multiples_flags w) ]
  | "shift" -> s_n (shift_suit (List.hd (nums ())))
  | "fromckc" -> s_n (from_ckc (List.hd (nums ())))
  | "frombc" -> s_n (from_binary_card (List.hd (nums ())))
  | "deckget" -> s_res s_n (deck_get (List.hd (nums ())))
  | "isvalid" -> s_b (is_valid (List.tl (nums ())))
  | "valid" ->
      let ws = List.tl (nums ()) in
      String.concat " " [ s_b (is_valid ws); s_b (is_corrupt ws); s_b (are_unique ws); s_b (contain_blank ws) ]
  | "rank" ->
      let v = nums () in
      let n = int_of_n (List.hd v) in
      let ws = List.tl v in
      let hrv = hand_rank_value c ws in
      let vh = hrvh c ws in
      let vv = hand_rank_value_validated c ws in
      let base =
        [ s_res s_n hrv;
          s_res (fun x -> s_hr (hr_from x)) hrv;
          s_res (fun (x, h) -> Printf.sprintf "%s %s" (s_n x) (s_words h)) vh;
          s_res s_n vv;
          s_res (fun x -> s_hr (hr_from x)) vv ] in
      String.concat " " (if n = 5 then base @ [ s_res s_n (evaluate_five_cards c ws) ] else base)
  | "hrank" ->
      let ws = List.tl (nums ()) in
      String.concat " "
        [ s_res (fun x -> s_hr (hr_from x)) (hand_rank_value c ws);
          s_res (fun x -> s_hr (hr_from x)) (hand_rank_value_validated c ws) ]
  | "rankv" ->
      let v = nums () in
      let n = int_of_n (List.hd v) in
      let ws = List.tl v in
      let hrv = hand_rank_value c ws in
      let vv = hand_rank_value_validated c ws in
      let base = [ s_res s_n hrv; s_res s_n hrv; s_res (fun (x, _) -> s_n x) (hrvh c ws); s_res s_n vv; s_res s_n vv ] in
      String.concat " " (if n = 5 then base @ [ s_res s_n (evaluate_five_cards c ws) ] else base)
  | "best" ->
      (* C02 projection: every entry point = the lowest non-zero value among the five-slot sub-hands (Model/Proj.v) *)
      s_fields (proj_best c (List.tl (nums ())))
  | "vrank" -> s_fields (proj_vrank c (List.tl (nums ())))
  | "wit" -> s_res s_bools (proj_wit c (List.tl (nums ())))
  | "shiftinv" -> s_fields (proj_shiftinv c (List.tl (nums ())))
  | "perm5" -> s_guarded (proj_perm5 c (nums ()))
  | "hrself" -> s_fields (proj_hrself c (List.tl (nums ())))
  | "vsame" -> s_fields (proj_vsame c (List.tl (nums ())))
  | "relabel" -> s_guarded (proj_relabel c (List.tl (nums ())))
  | "chain7" | "chain7s" -> s_guarded (proj_chain7 c (nums ()))
  | "rankp" ->
      let v = nums () in
      let n = int_of_n (List.hd v) in
      let ws = List.tl v in
      (* "returned normally?" per entry point: the extracted projection; a blank five also shows what it was given *)
      let base = List.map (fun b -> if b then "ok" else "P") (proj_rankp c ws) in
      let base =
        if n = 5 && List.mem N0 ws then
          let hrv = hand_rank_value c ws in
          let vv = hand_rank_value_validated c ws in
          base
          @ [ s_res s_n hrv; s_res (fun x -> s_hr (hr_from x)) hrv; s_res (fun (x, _) -> s_n x) (hrvh c ws); s_res s_n vv;
              s_res (fun x -> s_hr (hr_from x)) vv; s_res s_n (evaluate_five_cards c ws) ]
        else base in
      String.concat " " base
  | "hrankv" ->
      let ws = List.tl (nums ()) in
      String.concat " "
        [ s_res (fun x -> s_hr (hr_from x)) (hand_rank_value_validated c ws);
          s_res (fun x -> s_b (hr_eqb (hr_from x) (hr_from x))) (hand_rank_value c ws) ]
  | "fipp" -> (match find_in_products c (List.hd (nums ())) with Ok _ -> "ok" | Panic -> "P" | Diverge -> "DIVERGE")
  | "fip" -> s_res s_n (find_in_products c (List.hd (nums ())))
  | "pred5" ->
      let ws = nums () in
      String.concat " "
        [ s_b (is_flush ws); s_b (is_straight ws); s_b (is_straight_flush ws); s_b (is_wheel ws);
          s_n (or_rank_bits ws); s_n (and_bits ws); s_n (or_bits ws); s_res s_n (multiply_primes c ws);
          s_b (evaluate_is_flush ws); s_n (evaluate_or_rank_bits ws) ]
  | "pred5p" ->
      let ws = nums () in
      let f = is_flush ws and s = is_straight ws and sf = is_straight_flush ws in
      let name = match hand_rank_value c ws with Ok v -> Some (determine_name v) | _ -> None in
      let is a b = match name with Some n -> Some (n = a || n = b) | None -> None in
      String.concat " "
        [ s_b f; s_b s; s_b sf; s_b (is_wheel ws); s_b (evaluate_is_flush ws = f); s_b (evaluate_or_rank_bits ws = or_rank_bits ws);
          s_b (is nAME_FLUSH nAME_STRAIGHT_FLUSH = Some f); s_b (is nAME_STRAIGHT nAME_STRAIGHT_FLUSH = Some s);
          s_b (is nAME_STRAIGHT_FLUSH nAME_STRAIGHT_FLUSH = Some sf) ]
  | "sort" ->
      let ws = List.tl (nums ()) in
      Printf.sprintf "%s | %s" (s_words (sort_desc ws)) (s_words (sort_desc ws))
  | "shiftn" -> s_res s_words (shift_suit_sized (List.tl (nums ())))
  | "two" ->
      let ws = nums () in
      String.concat " "
        [ s_res s_z (chen_formula c ws); s_res s_n (get_gap c ws); s_n (high_card ws);
          s_res s_b (is_connector c ws); s_b (is_pocket_pair ws); s_b (is_suited ws);
          s_res s_b (is_suited_connector c ws) ]
  | "twotext" -> (
      match hand_from_index (nat_of_int 2) (nums ()) with
      | None -> "Err"
      | Some ws ->
          String.concat " "
            [ s_res s_z (chen_formula c ws); s_res s_n (get_gap c ws); s_n (high_card ws);
              s_res s_b (is_connector c ws); s_b (is_pocket_pair ws); s_b (is_suited ws);
              s_res s_b (is_suited_connector c ws) ])
  | "sortp" -> s_bools (proj_sortp (List.tl (nums ())))
  | "bcsetp" -> s_bools (proj_bcsetp (List.tl (nums ())))
  | "bcfrom" -> s_n (bc_from_hand (List.tl (nums ())))
  | "bcops" -> (
      match nums () with
      | [ x; y ] ->
          String.concat " "
            [ s_n (fold_in x y); s_b (has x y); s_n (number_of_cards x); s_b (is_single_card x);
              s_b (bc_is_valid x); s_n x ]
      | _ -> failwith "bcops")
  | "peel" -> (
      match nums () with
      | [ x; extra ] ->
          let buf = Buffer.create 256 in
          let x = ref x and left = ref (int_of_n extra) and steps = ref 0 and fin = ref false in
          while not !fin do
            let r, x' = peel !x in
            x := x';
            Buffer.add_string buf (Printf.sprintf " %s %s" (s_n r) (s_n !x));
            incr steps;
            if r = N0 then (if !left = 0 then fin := true else decr left);
            if (not !fin) && !steps > 80 then (Buffer.add_string buf " RUNAWAY"; fin := true)
          done;
          String.trim (Buffer.contents buf)
      | _ -> failwith "peel")
  | "twofrombc" -> (
      match two_try_from_bc (List.hd (nums ())) with
      | Inl ws -> Printf.sprintf "Ok %s %s" (s_words ws) (s_n (bc_from_hand ws))
      | Inr e -> Printf.sprintf "Err %s" (s_n e))
  | "hr" ->
      let v = List.hd (nums ()) in
      let h = hr_from v in
      String.concat " "
        [ s_hr h; s_b (is_invalid h); s_b (is_a_valid_hand_rank h); s_n (determine_name v); s_n (determine_class v) ]
  | "hrdefault" ->
      let h = hr_default in
      String.concat " " [ s_hr h; s_b (is_invalid h); s_b (is_a_valid_hand_rank h) ]
  | "hrcmp" -> (
      match nums () with
      | [ a; b ] ->
          let x = hr_from a and y = hr_from b in
          String.concat " "
            [ s_cmp (hr_cmp x y); s_cmp (hr_cmp x y); s_b (hr_eqb x y); s_b (not (hr_eqb x y));
              s_b (hr_lt x y); s_b (hr_le x y); s_b (hr_gt x y); s_b (hr_ge x y) ]
      | _ -> failwith "hrcmp")
  | "hrcmpp" -> (
      match nums () with
      | [ a; b ] ->
          let inval v = v = N0 || Int64.compare (int64_of_n v) 7462L > 0 in
          let x = hr_from a and y = hr_from b in
          let c = hr_cmp x y in
          if inval a && inval b then
            let opp = function Eq -> Eq | Lt -> Gt | Gt -> Lt in
            String.concat " "
              [ "I"; s_b ((c = Eq) = hr_eqb x y); s_b (hr_cmp y x = opp c); "1"; s_b (hr_eqb x y = (a = b)); "1";
                s_b (hr_lt x y = (c = Lt)); s_b (hr_le x y = (c <> Gt)); s_b (hr_gt x y = (c = Gt)); s_b (hr_ge x y = (c <> Lt)) ]
          else
            String.concat " "
              [ s_cmp c; s_cmp c; s_b (hr_eqb x y); s_b (not (hr_eqb x y)); s_b (hr_lt x y); s_b (hr_le x y); s_b (hr_gt x y); s_b (hr_ge x y) ]
      | _ -> failwith "hrcmpp")
  | "hrkey" -> (match nums () with [ a; b ] -> s_bools (proj_hrkey a b) | _ -> failwith "hrkey")
  | "hrtri" -> (
      match nums () with
      | [ a; b; d ] ->
          let x = hr_from a and y = hr_from b and z = hr_from d in
          let le p q = hr_cmp p q <> Gt in
          String.concat " " [ s_b ((not (le x y && le y z)) || le x z); s_b (hr_cmp x y <> Eq || hr_cmp x z = hr_cmp y z) ]
      | _ -> failwith "hrtri")
  | "parsecard" ->
      let s = nums () in
      let r, su = get_rank_and_suit s in
      Printf.sprintf "%s %s %s" (s_n (card_from_index s)) (s_n r) (s_n su)
  | "parsehand" ->
      let v = nums () in
      let n = int_of_n (List.hd v) in
      let s = List.tl v in
      let r = hand_from_index (nat_of_int n) s in
      let first =
        match r with None -> "None" | Some ws -> "Some " ^ s_words ws in
      if n = 5 then first ^ (match r with None -> " | None" | Some ws -> " | Some " ^ s_words ws) else first
  | "bcindex" -> s_n (bc_from_index (nums ()))
  | "render" ->
      let w = List.hd (nums ()) in
      Printf.sprintf "%s %s"
        (s_n (card_from_index [ get_rank_char w; get_suit_char w ]))
        (s_n (card_from_index [ get_rank_char w; get_suit_letter w ]))
  | "hist" ->
      let n = int_of_string (List.hd args) in
      let buf = Buffer.create 256 in
      let st = ref (step (nat_of_int n) [] OpDefault) in
      let rec go toks =
        match toks with
        | [] -> ()
        | "default" :: r -> apply OpDefault; go r
        | ("arr" | "refarr") :: r -> apply (OpArr (List.map n_of_string (take n r))); go (drop n r)
        | "new" :: r -> apply (OpNew (List.map n_of_string (take n r))); go (drop n r)
        | "set" :: i :: w :: r -> apply (OpSet (nat_of_int (int_of_string i), n_of_string w)); go r
        | t :: _ -> failwith ("bad hist token " ^ t)
      and apply o =
        st := step (nat_of_int n) !st o;
        Buffer.add_string buf (Printf.sprintf " ; %s" (read3 !st))
      in
      go (List.tl args);
      String.trim (Buffer.contents buf)
  | "perm" ->
      let v = nums () in
      let n = int_of_n (List.hd v) in
      let ws = take n (List.tl v) in
      let p = take 5 (drop n (List.tl v)) in
      s_res s_words (select ws p)
  | _ -> failwith ("unknown op " ^ op)

(* model-side search (Model/Search.v): first class the current tables get wrong, with a concrete hand *)
let find_mode () =
  List.iter
    (fun c ->
      match first_bad_class c with
      | None -> ()
      | Some ((expected, cards), actual) ->
          Printf.printf "FOUND chk=%d expected=%s actual=%s case=rankv 5 %s\n" (if c then 1 else 0) (s_n expected)
            (s_res s_n actual) (s_words cards))
    [ false; true ]

let () =
  if Array.exists (fun a -> a = "--find") Sys.argv then (find_mode (); exit 0);
  let verbose = Array.exists (fun a -> a = "--verbose") Sys.argv in
  Array.iteri (fun i a -> if a = "--chk" then chk := Sys.argv.(i + 1) = "1") Sys.argv;
  let buf = Buffer.create (1 lsl 20) in
  (try
     while true do
       let l = input_line stdin in
       if String.length l > 0 && l.[0] <> '#' then begin
         let r = exec (split l) in
         if verbose then (Buffer.add_string buf l; Buffer.add_string buf " => ");
         Buffer.add_string buf r;
         Buffer.add_char buf '\n';
         if Buffer.length buf > 1 lsl 20 then (print_string (Buffer.contents buf); Buffer.clear buf)
       end
     done
   with End_of_file -> ());
  print_string (Buffer.contents buf)
