//! Oracles C10-C20: encoding, ordering, parsing, predicates, bit sets, presets, containers, flags.
#![allow(deprecated)]

use crate::oracle::{combos2, cs, fail, fail_at, g, leak, pack, par, prefixes, scalars, show, showd, Ctx, Sub};
use crate::oracle_a::scan_filter;
use crate::refeval::{card_bit, deck_rank, deck_suit, layout, mix, Sm64, DECK, PRIME, RANK_ENUM, SUIT_ENUM};
use ckc_rs::cards::binary_card::{BinaryCard, BC64};
use ckc_rs::cards::five::Five;
use ckc_rs::cards::four::Four;
use ckc_rs::cards::seven::Seven;
use ckc_rs::cards::six::Six;
use ckc_rs::cards::three::Three;
use ckc_rs::cards::two::Two;
use ckc_rs::cards::{HandRanker, HandValidator, Permutator};
use ckc_rs::deck::{Deck, POKER_DECK};
use ckc_rs::hand_rank::HandRankName;
use ckc_rs::{evaluate, parse, CKCNumber, CardNumber, CardRank, CardSuit, HandError, PokerCard, Shifty};
use std::hint::black_box;
use strum::IntoEnumIterator;

fn arr<const N: usize>(w: &[u32]) -> [u32; N] {
    <[u32; N]>::try_from(&w[..N]).unwrap()
}
macro_rules! hand_n {
    ($n:expr, $w:expr, $h:ident => $body:expr) => {
        match $n {
            2 => { let $h = Two::from(arr::<2>($w)); $body },
            3 => { let $h = Three::from(arr::<3>($w)); $body },
            4 => { let $h = Four::from(arr::<4>($w)); $body },
            5 => { let $h = Five::from(arr::<5>($w)); $body },
            6 => { let $h = Six::from(arr::<6>($w)); $body },
            7 => { let $h = Seven::from(arr::<7>($w)); $body },
            _ => unreachable!(),
        }
    };
}

/// The 52 named constants of a type, as (name, value as u64), in the order they are listed here.
macro_rules! named_cards {
    ($ty:ty) => { named_cards!(@ $ty, ACE_SPADES, KING_SPADES, QUEEN_SPADES, JACK_SPADES, TEN_SPADES, NINE_SPADES, EIGHT_SPADES,
        SEVEN_SPADES, SIX_SPADES, FIVE_SPADES, FOUR_SPADES, TREY_SPADES, DEUCE_SPADES, ACE_HEARTS, KING_HEARTS,
        QUEEN_HEARTS, JACK_HEARTS, TEN_HEARTS, NINE_HEARTS, EIGHT_HEARTS, SEVEN_HEARTS, SIX_HEARTS, FIVE_HEARTS,
        FOUR_HEARTS, TREY_HEARTS, DEUCE_HEARTS, ACE_DIAMONDS, KING_DIAMONDS, QUEEN_DIAMONDS, JACK_DIAMONDS,
        TEN_DIAMONDS, NINE_DIAMONDS, EIGHT_DIAMONDS, SEVEN_DIAMONDS, SIX_DIAMONDS, FIVE_DIAMONDS, FOUR_DIAMONDS,
        TREY_DIAMONDS, DEUCE_DIAMONDS, ACE_CLUBS, KING_CLUBS, QUEEN_CLUBS, JACK_CLUBS, TEN_CLUBS, NINE_CLUBS,
        EIGHT_CLUBS, SEVEN_CLUBS, SIX_CLUBS, FIVE_CLUBS, FOUR_CLUBS, TREY_CLUBS, DEUCE_CLUBS) };
    (@ $ty:ty, $($n:ident),*) => { [$((stringify!($n), <$ty>::$n as u64)),*] };
}
/// (rank, suit) spelled by a constant's name.
fn name_rs(name: &str) -> (u32, u32) {
    let (r, s) = name.split_once('_').unwrap();
    let r = ["DEUCE", "TREY", "FOUR", "FIVE", "SIX", "SEVEN", "EIGHT", "NINE", "TEN", "JACK", "QUEEN", "KING", "ACE"]
        .iter()
        .position(|x| *x == r)
        .unwrap();
    let s = SUIT_ENUM.iter().position(|x| *x == s).unwrap();
    (r as u32, s as u32)
}
#[inline]
fn at(item: usize, k: u64) -> u64 {
    ((item as u64) << 36) | k
}
const RANK_CHARS: [char; 13] = ['2', '3', '4', '5', '6', '7', '8', '9', 'T', 'J', 'Q', 'K', 'A'];
const SUIT_CHARS: [char; 4] = ['♣', '♦', '♥', '♠'];
const SUIT_LETTERS: [char; 4] = ['C', 'D', 'H', 'S'];

// ---- C10 --------------------------------------------------------------------------------------
pub fn c10(c: &Ctx) {
    let s = c.sub("constants, create and deck follow the layout");
    for (name, v) in named_cards!(CardNumber) {
        let (r, su) = name_rs(name);
        if v != u64::from(layout(r, su)) {
            fail!(s, format!("CardNumber::{name}"), "named constant", layout(r, su), v);
        }
    }
    if CardNumber::BLANK != 0 {
        fail!(s, "CardNumber::BLANK", "blank constant", 0, CardNumber::BLANK);
    }
    for (ri, r) in CardRank::iter().enumerate() {
        for (si, su) in CardSuit::iter().enumerate() {
            let rn = RANK_ENUM.iter().position(|x| *x == format!("{r:?}"));
            let sn = SUIT_ENUM.iter().position(|x| *x == format!("{su:?}"));
            let exp = match (rn, sn) {
                (Some(a), Some(b)) => layout(a as u32, b as u32),
                _ => 0,
            };
            let got = g(|| <CKCNumber as PokerCard>::create(r, su));
            if got != Some(exp) {
                fail!(s, format!("create {ri} {si}"), format!("create({r:?}, {su:?})"), exp, show(got));
            }
        }
    }
    if POKER_DECK.arr() != DECK {
        fail!(s, "POKER_DECK", "deck words in deck order", cs("", &DECK), cs("", &POKER_DECK.arr()));
    }
    for (si, su) in CardSuit::iter().enumerate() {
        if let Some(b) = SUIT_ENUM.iter().position(|x| *x == format!("{su:?}")) {
            if su.binary_signature() != 1 << (12 + b) {
                fail!(s, format!("CardSuit #{si} {su:?}"), "binary_signature()", 1 << (12 + b), su.binary_signature());
            }
        }
    }
    let sa = c.sub("accessors read the layout fields back");
    for i in 0..52 {
        let (r, su) = (deck_rank(i), deck_suit(i));
        let w = layout(r, su);
        let case = format!("acc {w}");
        let checks: [(&str, String, String); 11] = [
            ("get_card_rank", RANK_ENUM[r as usize].to_string(), format!("{:?}", w.get_card_rank())),
            ("get_card_suit", SUIT_ENUM[su as usize].to_string(), format!("{:?}", w.get_card_suit())),
            ("get_rank_prime", PRIME[r as usize].to_string(), w.get_rank_prime().to_string()),
            ("get_rank_bit", (1u32 << r).to_string(), w.get_rank_bit().to_string()),
            ("get_rank_flag", (1u32 << (16 + r)).to_string(), w.get_rank_flag().to_string()),
            ("get_suit_bit", (1u32 << su).to_string(), w.get_suit_bit().to_string()),
            ("get_suit_flag", (1u32 << (12 + su)).to_string(), w.get_suit_flag().to_string()),
            ("get_rank_char", RANK_CHARS[r as usize].to_string(), w.get_rank_char().to_string()),
            ("get_suit_char", SUIT_CHARS[su as usize].to_string(), w.get_suit_char().to_string()),
            ("get_suit_letter", SUIT_LETTERS[su as usize].to_string(), w.get_suit_letter().to_string()),
            ("is_blank", "false".to_string(), w.is_blank().to_string()),
        ];
        for (what, e, a) in checks {
            if e != a {
                fail!(sa, case, what, e, a);
            }
        }
    }
    c.flush("constants, create, deck, accessors");
    scan_filter(c, c.sub("card filter passes exactly the 52 card words"));
}

// ---- C11 --------------------------------------------------------------------------------------
pub fn c11(c: &Ctx) {
    let s = c.sub("integer order of card words is (rank, suit) order, blank lowest");
    let d = POKER_DECK.arr();
    for i in 0..52 {
        if d[i] <= CardNumber::BLANK {
            fail!(s, format!("cmp {} {}", d[i], CardNumber::BLANK), "blank below every card", "Greater", format!("{:?}", d[i].cmp(&0)));
        }
        for j in 0..52 {
            let exp = (deck_rank(i), deck_suit(i)).cmp(&(deck_rank(j), deck_suit(j)));
            if d[i].cmp(&d[j]) != exp {
                fail!(s, format!("cmp {} {}", d[i], d[j]), format!("deck cards #{i} and #{j}"), format!("{exp:?}"), format!("{:?}", d[i].cmp(&d[j])));
            }
        }
    }
    let ss = c.sub("sort is a descending rearrangement; idempotent; in-place form agrees");
    let check = |w: &[u32]| {
        let n = w.len();
        let mut exp = w.to_vec();
        exp.sort_unstable_by(|a, b| b.cmp(a));
        let (s1, s2, s3): (Vec<u32>, Vec<u32>, Vec<u32>) = hand_n!(n, w, h => {
            let a = h.sort();
            let mut b = h;
            b.sort_in_place();
            (a.to_arr().to_vec(), a.sort().to_arr().to_vec(), b.to_arr().to_vec())
        });
        let case = cs(&format!("sort {n}"), w);
        if s1 != exp {
            fail!(ss, case, "sort()", cs("", &exp), cs("", &s1));
        }
        if s2 != s1 {
            fail!(ss, case, "sort() of a sorted hand", cs("", &s1), cs("", &s2));
        }
        if s3 != s1 {
            fail!(ss, case, "sort_in_place()", cs("", &s1), cs("", &s3));
        }
    };
    let mut rng = c.rng(11);
    let alpha = [0u32, 1, layout(0, 0), layout(12, 3), layout(12, 2), layout(12, 3) | (1 << 29), u32::MAX];
    for n in 2..=7usize {
        // all multisets of the alphabet: ascending, descending and three seeded arrangements
        let mut ix = vec![0usize; n];
        loop {
            let mut w: Vec<u32> = ix.iter().map(|i| alpha[*i]).collect();
            check(&w);
            w.reverse();
            check(&w);
            for _ in 0..3 {
                rng.shuffle(&mut w);
                check(&w);
            }
            // next non-decreasing index tuple
            let mut p = n;
            while p > 0 && ix[p - 1] == alpha.len() - 1 {
                p -= 1;
            }
            if p == 0 {
                break;
            }
            let v = ix[p - 1] + 1;
            for x in &mut ix[p - 1..] {
                *x = v;
            }
        }
        for _ in 0..c.pick(100_000, 1_000_000) {
            let mode = rng.below(4);
            let w: Vec<u32> = (0..n)
                .map(|_| match mode {
                    0 => rng.next() as u32,
                    1 => rng.below(4) as u32,
                    2 => rng.pick(&DECK),
                    _ => if rng.chance(50) { rng.pick(&DECK) } else { (rng.next() as u32) >> rng.below(32) },
                })
                .collect();
            check(&w);
        }
    }
    c.flush("card order and sorting");
}

// ---- C13 --------------------------------------------------------------------------------------
pub fn c13(c: &Ctx) {
    let sp = c.sub("flush/straight/wheel predicates match the rules");
    let sn = c.sub("predicates agree with the category of hand_rank()");
    let sd = c.sub("deprecated evaluate:: helpers agree with the methods");
    let pre = prefixes();
    par(pre.len(), |it| {
        if !(sp.want(at(it, 0)) || sn.want(at(it, 0)) || sd.want(at(it, 0))) {
            return;
        }
        let mut k = 0u64;
        combos2(5, pre[it].0, pre[it].1, |ix| {
            let flush = ix.iter().all(|i| deck_suit(*i) == deck_suit(ix[0]));
            let mut rk: Vec<u32> = ix.iter().map(|i| deck_rank(*i)).collect();
            rk.sort_unstable();
            let distinct = rk.windows(2).all(|p| p[0] < p[1]);
            let wheel = rk == [0, 1, 2, 3, 12];
            let straight = distinct && (rk[4] - rk[0] == 4 || wheel);
            let mut w: [u32; 5] = [0; 5];
            for i in 0..5 {
                w[i] = DECK[ix[i]];
            }
            for o in 0..2 {
                if o > 0 {
                    Sm64::new(mix(c.seed, pack(ix))).shuffle(&mut w);
                }
                let h = Five::from(w);
                let case = cs("pred5", &w);
                let got = [g(|| h.is_flush()), g(|| h.is_straight()), g(|| h.is_straight_flush()), g(|| h.is_wheel())];
                let exp = [flush, straight, flush && straight, wheel];
                for (i, what) in ["is_flush()", "is_straight()", "is_straight_flush()", "is_wheel()"].iter().enumerate() {
                    if got[i] != Some(exp[i]) {
                        fail_at!(sp, at(it, k + i as u64), case, *what, exp[i], show(got[i]));
                    }
                }
                if let Some(name) = g(|| h.hand_rank().name) {
                    let by_name = [
                        name == HandRankName::StraightFlush || name == HandRankName::Flush,
                        name == HandRankName::StraightFlush || name == HandRankName::Straight,
                        name == HandRankName::StraightFlush,
                    ];
                    for i in 0..3 {
                        if got[i].is_some() && got[i] != Some(by_name[i]) {
                            fail_at!(sn, at(it, k + i as u64), case, format!("{} vs category {name:?}", ["is_flush()", "is_straight()", "is_straight_flush()"][i]), by_name[i], show(got[i]));
                        }
                    }
                }
                let ef = g(|| evaluate::is_flush(w));
                if ef != got[0] {
                    fail_at!(sd, at(it, k), case, "evaluate::is_flush vs Five::is_flush", show(got[0]), show(ef));
                }
                let (eo, mo) = (g(|| evaluate::or_rank_bits(w)), g(|| h.or_rank_bits() as usize));
                if eo != mo {
                    fail_at!(sd, at(it, k + 1), case, "evaluate::or_rank_bits vs Five::or_rank_bits", show(mo), show(eo));
                }
                k += 4;
            }
        });
    });
    c.flush("all fives, two slot orders");
}

// ---- C12 --------------------------------------------------------------------------------------
fn ref_rank(ch: char) -> Option<u32> {
    Some(match ch {
        'A' | 'a' => 12,
        'K' | 'k' => 11,
        'Q' | 'q' => 10,
        'J' | 'j' => 9,
        'T' | 't' | '0' => 8,
        '2'..='9' => ch as u32 - '2' as u32,
        _ => return None,
    })
}
fn ref_suit(ch: char) -> Option<u32> {
    Some(match ch {
        'S' | 's' | '♠' | '♤' => 3,
        'H' | 'h' | '♥' | '♡' => 2,
        'D' | 'd' | '♦' | '♢' => 1,
        'C' | 'c' | '♣' | '♧' => 0,
        _ => return None,
    })
}
/// A token is a card iff its first two chars are a rank symbol and a suit symbol.
pub fn ref_from_index(tok: &str) -> u32 {
    let mut it = tok.chars();
    match (it.next().and_then(ref_rank), it.next().and_then(ref_suit)) {
        (Some(r), Some(s)) => layout(r, s),
        _ => 0,
    }
}
const RANK_SYMS: &str = "AKQJT098765432akqjt";
const SUIT_SYMS: &str = "SHDCshdc♠♥♦♣♤♡♢♧";

fn try_hand(n: usize, s: &'static str) -> Option<Result<Vec<u32>, HandError>> {
    match n {
        2 => g(|| Two::try_from(s).map(|h| h.to_arr().to_vec())),
        3 => g(|| Three::try_from(s).map(|h| h.to_arr().to_vec())),
        4 => g(|| Four::try_from(s).map(|h| h.to_arr().to_vec())),
        5 => g(|| Five::try_from(s).map(|h| h.to_arr().to_vec())),
        6 => g(|| Six::try_from(s).map(|h| h.to_arr().to_vec())),
        7 => g(|| Seven::try_from(s).map(|h| h.to_arr().to_vec())),
        _ => unreachable!(),
    }
}

/// Hand text checks shared with C15 (BinaryCard::from_index).
fn c12_text(text: &str, n: usize, sh: Option<&Sub>, sb: &Sub) {
    let toks: Vec<&str> = text.split_whitespace().collect();
    let exp: Result<Vec<u32>, HandError> =
        if toks.len() < n { Err(HandError::InvalidIndex) } else { Ok(toks[..n].iter().map(|t| ref_from_index(t)).collect()) };
    if let Some(sh) = sh {
        let st = leak(text.to_string());
        let got = try_hand(n, st);
        if got.as_ref() != Some(&exp) {
            fail!(sh, scalars(&format!("parsehand {n}"), text), format!("TryFrom<&str> for {n} slots on {text:?}"), format!("{exp:?}"), showd(got));
        }
        if n == 5 {
            let p = g(|| parse::five_from_index(st).map(|a| a.to_vec()));
            if p != Some(exp.ok()) {
                fail!(sh, scalars("parsehand 5", text), format!("parse::five_from_index on {text:?}"), "agrees with Five::try_from", showd(p));
            }
        }
    }
    let eb = toks.iter().fold(0u64, |a, t| a | card_bit(ref_from_index(t)));
    let gb = g(|| <BinaryCard as BC64>::from_index(text));
    if gb != Some(eb) {
        fail!(sb, scalars("bcindex", text), format!("BinaryCard::from_index on {text:?}"), eb, show(gb));
    }
}

/// Seeded hand texts: token lists with unicode whitespace, and arbitrary scalar strings.
fn gen_text(rng: &mut Sm64, ws: &[char], syms: &[char]) -> String {
    let mut t = String::new();
    let sep = |rng: &mut Sm64, t: &mut String, min: u64| {
        for _ in 0..min + rng.below(3) {
            t.push(rng.pick(ws));
        }
    };
    if rng.chance(25) {
        // arbitrary scalars, whitespace-dense
        for _ in 0..rng.below(24) {
            let x = rng.below(10);
            t.push(if x < 3 {
                rng.pick(ws)
            } else if x < 8 {
                rng.pick(syms)
            } else {
                char::from_u32(rng.below(0x11_0000) as u32).unwrap_or('\u{FFFD}')
            });
        }
        return t;
    }
    if rng.chance(40) {
        sep(rng, &mut t, 0);
    }
    let ntok = rng.below(10);
    for i in 0..ntok {
        if i > 0 {
            sep(rng, &mut t, 1);
        }
        let x = rng.below(100);
        if x < 60 {
            t.push(rng.pick(&syms[..19]));
            t.push(rng.pick(&syms[19..35]));
        } else if x < 75 {
            t.push(rng.pick(&syms[..19]));
            t.push(rng.pick(&syms[19..35]));
            for _ in 0..1 + rng.below(3) {
                t.push(rng.pick(syms));
            }
        } else {
            for _ in 0..1 + rng.below(3) {
                t.push(rng.pick(syms));
            }
        }
    }
    if rng.chance(40) {
        sep(rng, &mut t, 0);
    }
    t
}
fn text_alphabets() -> (Vec<char>, Vec<char>) {
    let ws: Vec<char> = (0..=0x10FFFFu32).filter_map(char::from_u32).filter(|c| c.is_whitespace()).collect();
    // rank symbols (19), suit symbols (16), then junk that is not whitespace
    let mut syms: Vec<char> = RANK_SYMS.chars().chain(SUIT_SYMS.chars()).collect();
    assert_eq!(syms.len(), 35);
    syms.extend("1XxZ-_,.:;/|é你😀Ａ１\u{0}\u{10FFFF}\u{FE0F}\u{200B}\u{2660}".chars().filter(|c| !c.is_whitespace()));
    (ws, syms)
}

pub fn c12(c: &Ctx) {
    let sc = c.sub("rank/suit symbols: from_char accepts exactly the documented characters");
    for ch in (0..=0x10FFFFu32).filter_map(char::from_u32) {
        let er = ref_rank(ch).map_or("BLANK", |r| RANK_ENUM[r as usize]);
        let es = ref_suit(ch).map_or("BLANK", |s| SUIT_ENUM[s as usize]);
        let (gr, gs) = (g(|| CardRank::from_char(ch)), g(|| CardSuit::from_char(ch)));
        if showd(gr) != er {
            fail!(sc, format!("CardRank::from_char U+{:04X}", ch as u32), "rank symbol", er, showd(gr));
        }
        if showd(gs) != es {
            fail!(sc, format!("CardSuit::from_char U+{:04X}", ch as u32), "suit symbol", es, showd(gs));
        }
    }
    let st = c.sub("card token parsing is total and exact");
    let (ws, syms) = text_alphabets();
    let mut lead: Vec<char> = syms.clone();
    lead.extend([' ', '\t', '\n', '\u{A0}', '\u{3000}']);
    let tails = ["", "x", "♠", "s", "AsKs 2c♥ and a long tail \u{10FFFF}\u{0}"];
    let token = |t: &str| {
        let got = g(|| <CKCNumber as PokerCard>::from_index(t));
        let exp = ref_from_index(t);
        if got != Some(exp) {
            fail!(st, scalars("parsecard", t), format!("from_index({t:?})"), exp, show(got));
        }
    };
    token("");
    for &a in &lead {
        token(&a.to_string());
        for &b in &lead {
            for tail in tails {
                token(&format!("{a}{b}{tail}"));
            }
        }
    }
    let mut rng = c.rng(12);
    for _ in 0..c.pick(200_000, 2_000_000) {
        let t: String = (0..rng.below(5))
            .map(|_| if rng.chance(80) { rng.pick(&lead) } else { char::from_u32(rng.below(0x11_0000) as u32).unwrap_or('A') })
            .collect();
        token(&t);
    }
    let sr = c.sub("a rendered card parses back to itself");
    for &w in &DECK {
        for (what, txt) in [
            ("[rank char, suit char]", [w.get_rank_char(), w.get_suit_char()].iter().collect::<String>()),
            ("[rank char, suit letter]", [w.get_rank_char(), w.get_suit_letter()].iter().collect::<String>()),
        ] {
            let got = g(|| <CKCNumber as PokerCard>::from_index(&txt));
            if got != Some(w) {
                fail!(sr, format!("render {w}"), format!("{what} = {txt:?}"), w, show(got));
            }
        }
    }
    c.flush("symbols, tokens, rendering");
    let sh = c.sub("hand text: fails iff fewer tokens than slots, else the first n tokens in order");
    let sb = c.sub("BinaryCard::from_index folds in every token");
    for fixed in ["", " ", "As", "As Ks", "As Ks Qs Js Ts", "As Ks Qs Js Ts 9s 8s 7s", "AsKs QsJs", "xx yy zz", "A♠\u{3000}K♥\u{A0}Q♦\tJ♣\n0c"] {
        for n in 2..=7 {
            c12_text(fixed, n, Some(sh), sb);
        }
    }
    for _ in 0..c.pick(30_000, 100_000) {
        let t = gen_text(&mut rng, &ws, &syms);
        for n in 2..=7 {
            c12_text(&t, n, Some(sh), sb);
        }
    }
    c.flush("hand texts");
}

// ---- C14 --------------------------------------------------------------------------------------
/// from_binary_card by the rules: exactly one bit, below bit 52 -> that deck card; else blank.
fn ref_from_bc(x: u64) -> u32 {
    if x.count_ones() == 1 && x.trailing_zeros() < 52 {
        DECK[51 - x.trailing_zeros() as usize]
    } else {
        0
    }
}
pub fn c14(c: &Ctx) {
    let s = c.sub("card <-> single bit correspondence (deck index i <-> bit 51-i)");
    let named = named_cards!(BinaryCard);
    for i in 0..52 {
        let bit = 1u64 << (51 - i);
        let got = <BinaryCard as BC64>::from_ckc(DECK[i]);
        if got != bit {
            fail!(s, format!("fromckc {}", DECK[i]), "from_ckc(card)", bit, got);
        }
        if <BinaryCard as BC64>::DECK[i] != bit {
            fail!(s, format!("BC64::DECK[{i}]"), "binary deck entry", bit, <BinaryCard as BC64>::DECK[i]);
        }
        let (r, su) = name_rs(named[i].0);
        let eb = card_bit(layout(r, su));
        if named[i].1 != eb {
            fail!(s, format!("BinaryCard::{}", named[i].0), "named constant", eb, named[i].1);
        }
        let back = <CKCNumber as PokerCard>::from_binary_card(bit);
        if back != DECK[i] {
            fail!(s, format!("frombc {bit}"), "from_binary_card(single card bit)", DECK[i], back);
        }
    }
    let sf = c.sub("from_ckc of every non-card word is empty");
    par(4096, |it| {
        let lo = (it as u64) << 20;
        if !sf.want(lo) {
            return;
        }
        for w in lo..lo + (1 << 20) {
            let w = w as u32;
            let got = <BinaryCard as BC64>::from_ckc(black_box(w));
            if got != card_bit(w) {
                fail_at!(sf, u64::from(w), format!("fromckc {w}"), "from_ckc", card_bit(w), got);
            }
        }
    });
    c.flush("cards, constants, from_ckc over all 2^32 words");
    let sb = c.sub("from_binary_card of anything but one card bit is blank");
    let one = |x: u64, ord: u64| {
        let got = <CKCNumber as PokerCard>::from_binary_card(black_box(x));
        if got != ref_from_bc(x) {
            fail_at!(sb, ord, format!("frombc {x}"), "from_binary_card", ref_from_bc(x), got);
        }
    };
    one(0, 0);
    one(u64::MAX, 1);
    for i in 0..64 {
        for j in 0..64 {
            one((1 << i) | (1 << j), 2 + i * 64 + j);
        }
    }
    let chunks = c.pick(100, 10_000) as usize;
    par(chunks, |it| {
        if !sb.want(at(it + 1, 0)) {
            return;
        }
        let mut rng = Sm64::new(mix(c.seed, 1400 + it as u64));
        for k in 0..10_000u64 {
            let x = match k & 3 {
                0 => rng.next(),
                1 => rng.next() & rng.next() & rng.next(),
                2 => (1 << rng.below(64)) | (1 << rng.below(64)) | (1 << rng.below(64)),
                _ => rng.next() >> rng.below(64),
            };
            one(x, at(it + 1, k));
        }
    });
    c.flush("from_binary_card: one/two-bit values and seeded u64");
}

// ---- C15 --------------------------------------------------------------------------------------
/// peel by the rules: (returned, remaining)
fn ref_peel(x: u64) -> (u64, u64) {
    let cards = x & ((1 << 52) - 1);
    if cards == 0 {
        (0, x)
    } else {
        let top = 1u64 << (63 - cards.leading_zeros());
        (top, x & !top)
    }
}
pub fn c15(c: &Ctx) {
    let sf = c.sub("from_two..from_seven collect exactly the real cards among the slots");
    let mut rng = c.rng(15);
    for n in 2..=7usize {
        for t in 0..c.pick(100_000, 1_000_000) {
            let blank = [0, 10, 40][rng.below(3) as usize];
            let pool = [52u64, 8, 3][rng.below(3) as usize];
            let off = rng.below(52);
            let mut w = [0u32; 7];
            if t > 0 {
                for x in &mut w[..n] {
                    *x = if rng.chance(blank) { 0 } else { DECK[((off + rng.below(pool)) % 52) as usize] };
                }
            }
            let exp = w[..n].iter().fold(0u64, |a, x| a | card_bit(*x));
            let got = match n {
                2 => BinaryCard::from_two(Two::from(arr::<2>(&w))),
                3 => BinaryCard::from_three(Three::from(arr::<3>(&w))),
                4 => BinaryCard::from_four(Four::from(arr::<4>(&w))),
                5 => BinaryCard::from_five(Five::from(arr::<5>(&w))),
                6 => BinaryCard::from_six(Six::from(arr::<6>(&w))),
                _ => BinaryCard::from_seven(Seven::from(arr::<7>(&w))),
            };
            if got != exp {
                fail!(sf, cs(&format!("bcfrom {n}"), &w[..n]), "bit set of the hand", exp, got);
            }
        }
    }
    // from_index = union over all tokens (same text generator as C12)
    let sb = c.sub("BinaryCard::from_index folds in every token");
    let (ws, syms) = text_alphabets();
    for _ in 0..c.pick(20_000, 100_000) {
        let t = gen_text(&mut rng, &ws, &syms);
        c12_text(&t, 5, None, sb);
    }
    c.flush("from_two..from_seven, from_index");
    // structured and seeded sets
    const ALL: u64 = (1 << 52) - 1;
    let mut sets: Vec<u64> = vec![0, ALL, u64::MAX, !ALL, 1 << 52, 1 << 63, ALL | (1 << 52)];
    for i in 0..64 {
        sets.push(1 << i);
        sets.push(ALL & !(1 << (i % 52)));
        sets.push((1u64 << i) | (1 << 60));
    }
    for r in 0..13u32 {
        let grp = (0..4).fold(0u64, |a, s| a | card_bit(layout(r, s)));
        sets.extend([grp, grp | (1 << 55), ALL & !grp]);
    }
    for s in 0..4u32 {
        let grp = (0..13).fold(0u64, |a, r| a | card_bit(layout(r, s)));
        sets.extend([grp, grp | (0xFFF << 52), ALL & !grp]);
    }
    for _ in 0..c.pick(100_000, 1_000_000) {
        let x = match rng.below(5) {
            0 => rng.next(),
            1 => rng.next() & rng.next(),
            2 => rng.next() & rng.next() & rng.next() & rng.next(),
            3 => rng.next() | rng.next(),
            _ => rng.next() & ALL,
        };
        sets.push(x);
    }
    let so = c.sub("set operations: fold_in, has, number_of_cards, is_single_card, is_valid");
    let sp = c.sub("peel removes and returns the highest card bit, then blank forever");
    for (i, &x) in sets.iter().enumerate() {
        let y = sets[(i * 7 + 3) % sets.len()];
        for cc in [y, x & y, x, 0, 1 << (i % 64)] {
            let case = format!("bcops {x} {cc}");
            if x.fold_in(cc) != x | cc {
                fail!(so, case, "fold_in", x | cc, x.fold_in(cc));
            }
            if x.has(cc) != (x & cc == cc) {
                fail!(so, case, "has", x & cc == cc, x.has(cc));
            }
        }
        let case = format!("bcops {x} 0");
        if x.number_of_cards() != x.count_ones() {
            fail!(so, case, "number_of_cards", x.count_ones(), x.number_of_cards());
        }
        if x.is_single_card() != (x.count_ones() == 1) {
            fail!(so, case, "is_single_card", x.count_ones() == 1, x.is_single_card());
        }
        let ev = x != 0 && x >> 52 == 0;
        if BC64::is_valid(&x) != ev {
            fail!(so, case, "is_valid", ev, BC64::is_valid(&x));
        }
        // peel until blank, then three more times
        let (mut cur, mut model, mut extra) = (x, x, 0);
        for step in 0..60 {
            let (er, es) = ref_peel(model);
            let gr = g(|| {
                let r = cur.peel();
                (r, cur)
            });
            if gr != Some((er, es)) {
                fail!(sp, format!("peel {x} 3"), format!("peel #{step} (returned, remaining)"), format!("{er} {es}"), gr.map_or("panic".to_string(), |p| format!("{} {}", p.0, p.1)));
                break;
            }
            model = es;
            if er == 0 {
                extra += 1;
                if extra > 3 {
                    break;
                }
            }
        }
    }
    c.flush("set operations and peeling");
}

// ---- C16 --------------------------------------------------------------------------------------
pub fn c16(c: &Ctx) {
    let s = c.sub("Two::try_from(u64)");
    let check = |x: u64| {
        let exp: Result<[u32; 2], HandError> = match x.count_ones() {
            0 | 1 => Err(HandError::NotEnoughCards),
            2 if x >> 52 == 0 => Ok([DECK[(x.leading_zeros() - 12) as usize], DECK[51 - x.trailing_zeros() as usize]]),
            2 => Err(HandError::InvalidBinaryFormat),
            _ => Err(HandError::TooManyCards),
        };
        let got = g(|| Two::try_from(x).map(|t| (t.to_arr(), BinaryCard::from_two(t))));
        let ok = match (&got, &exp) {
            (Some(Ok((a, back))), Ok(e)) => a == e && *back == x,
            (Some(Err(a)), Err(e)) => a == e,
            _ => false,
        };
        if !ok {
            fail!(s, format!("twofrombc {x}"), "result (cards, from_two(cards))", format!("{:?}", exp.map(|e| (e, x))), showd(got));
        }
    };
    check(0);
    for i in 0..64 {
        for j in 0..64 {
            check((1 << i) | (1 << j));
        }
    }
    let mut rng = c.rng(16);
    for pc in 0..=64u64 {
        for _ in 0..c.pick(200, 20_000) {
            let mut bits: Vec<u32> = (0..64).collect();
            rng.shuffle(&mut bits);
            // sometimes confine the bits to the card range
            if rng.chance(50) && pc <= 52 {
                bits.retain(|b| *b < 52);
            }
            check(bits[..pc as usize].iter().fold(0u64, |a, b| a | (1 << b)));
        }
    }
    c.flush("one/two-bit values and seeded values of every popcount");
}

// ---- C17 --------------------------------------------------------------------------------------
/// Chen points of one card, doubled.
fn chen2_card(r: u32) -> i32 {
    match r {
        12 => 20,
        11 => 16,
        10 => 14,
        9 => 12,
        _ => r as i32 + 2, // half the pip value, doubled
    }
}
/// Bill Chen's formula in doubled integers, rounded half-up at the end.
fn ref_chen(r1: u32, s1: u32, r2: u32, s2: u32) -> i32 {
    let hi = r1.max(r2);
    let mut p2 = chen2_card(hi);
    if r1 == r2 {
        p2 = (2 * p2).max(10);
    } else {
        let gap = r1.abs_diff(r2) - 1;
        p2 -= 2 * [0, 1, 2, 4, 5][gap.min(4) as usize];
        if gap < 2 && hi < 10 {
            p2 += 2;
        }
    }
    if s1 == s2 {
        p2 += 4;
    }
    (p2 + 1).div_euclid(2)
}
pub fn c17(c: &Ctx) {
    let sc = c.sub("get_chen_points per card");
    for &w in &DECK {
        let r = (w >> 8) & 15;
        let got = g(|| (w.get_chen_points() * 2.0) as i32);
        if got != Some(chen2_card(r)) {
            fail!(sc, format!("acc {w}"), "2 * get_chen_points()", chen2_card(r), show(got));
        }
    }
    let s = c.sub("Two::chen_formula is Bill Chen's formula");
    let sh = c.sub("Two helpers (pair, suited, gap, connector, high card)");
    let si = c.sub("Chen score invariant under slot swap and suit shift");
    for i in 0..52 {
        for j in 0..52 {
            if i == j {
                continue;
            }
            let (r1, s1, r2, s2) = (deck_rank(i), deck_suit(i), deck_rank(j), deck_suit(j));
            let (a, b) = (layout(r1, s1), layout(r2, s2));
            let t = Two::from([a, b]);
            let case = format!("two {a} {b}");
            let exp = ref_chen(r1, s1, r2, s2);
            let got = g(|| i32::from(t.chen_formula()));
            if got != Some(exp) {
                fail!(s, case, "chen_formula()", exp, show(got));
            }
            let gap = r1.abs_diff(r2).saturating_sub(1);
            let helpers: [(&str, String, String); 6] = [
                ("is_pocket_pair()", (r1 == r2).to_string(), show(g(|| t.is_pocket_pair()))),
                ("is_suited()", (s1 == s2).to_string(), show(g(|| t.is_suited()))),
                ("get_gap()", gap.to_string(), show(g(|| t.get_gap()))),
                ("is_connector()", (gap == 0).to_string(), show(g(|| t.is_connector()))),
                ("is_suited_connector()", (gap == 0 && s1 == s2).to_string(), show(g(|| t.is_suited_connector()))),
                ("high_card()", a.max(b).to_string(), show(g(|| t.high_card()))),
            ];
            for (what, e, x) in helpers {
                if e != x {
                    fail!(sh, case, what, e, x);
                }
            }
            let sw = g(|| i32::from(Two::from([b, a]).chen_formula()));
            if sw != got {
                fail!(si, format!("{case} ; two {b} {a}"), "slot swap", show(got), show(sw));
            }
            let shd = t.shift_suit();
            let sv = g(|| i32::from(shd.chen_formula()));
            if sv != got {
                fail!(si, format!("{case} ; {}", cs("two", &shd.to_arr())), "shift_suit()", show(got), show(sv));
            }
        }
    }
    c.flush("all 52x51 ordered pairs");
}

// ---- C18 --------------------------------------------------------------------------------------
fn c18_preset(s: &Sub, name: &str, rows: &[Two], hi: u32, lo: u32, suited: Option<bool>) {
    let mut exp: Vec<(u32, u32)> = Vec::new();
    for sa in 0..4 {
        for sb in 0..4 {
            let (a, b) = (layout(hi, sa), layout(lo, sb));
            if a > b && suited.is_none_or(|x| x == (sa == sb)) {
                exp.push((a, b));
            }
        }
    }
    exp.sort_unstable();
    let got: Vec<(u32, u32)> = rows.iter().map(|t| (t.first(), t.second())).collect();
    let mut sorted = got.clone();
    sorted.sort_unstable();
    if sorted != exp {
        fail!(s, format!("Two::{name}"), "rows as a duplicate-free set, higher card first", format!("{exp:?}"), format!("{got:?}"));
    }
}
fn c18_table<const K: usize>(s: &Sub, name: &str, rows: &[[u8; K]], n: u8) {
    // every K-of-n slot combination exactly once, each row strictly increasing
    let mut exp: Vec<Vec<u8>> = Vec::new();
    for mask in 0u32..(1 << n) {
        if mask.count_ones() as usize == K {
            exp.push((0..n).filter(|i| mask >> i & 1 == 1).collect());
        }
    }
    exp.sort();
    let got: Vec<Vec<u8>> = rows.iter().map(|r| r.to_vec()).collect();
    for r in &got {
        if !r.windows(2).all(|p| p[0] < p[1]) || r.iter().any(|x| *x >= n) {
            fail!(s, name, "row strictly increasing and in range", "increasing", format!("{r:?}"));
        }
    }
    let mut sorted = got.clone();
    sorted.sort();
    if sorted != exp {
        fail!(s, name, format!("every {K}-of-{n} slot combination exactly once"), format!("{exp:?}"), format!("{got:?}"));
    }
}
pub fn c18(c: &Ctx) {
    let s = c.sub("deck lists the 52 cards once each in deck order; Deck::get");
    let d = POKER_DECK.arr();
    if d != DECK {
        fail!(s, "POKER_DECK", "deck words", cs("", &DECK), cs("", &d));
    }
    let mut idx: Vec<usize> = (0..60).collect();
    idx.extend([(1 << 32) - 1, 1 << 32, (1 << 32) + 1, 1 << 63, usize::MAX, usize::MAX - 1, (1 << 32) + 5, (1 << 8) + 3, (1 << 16) + 3]);
    let mut rng = c.rng(18);
    for _ in 0..c.pick(100_000, 1_000_000) {
        idx.push((rng.next() >> rng.below(64)) as usize);
    }
    for i in idx {
        let exp = if i < 52 { DECK[i] } else { 0 };
        let got = g(|| Deck::get(black_box(i)));
        if got != Some(exp) {
            fail!(s, format!("deckget {i}"), "Deck::get", exp, show(got));
        }
    }
    let sp = c.sub("preset starting hands");
    c18_preset(sp, "AA", &Two::AA, 12, 12, None);
    c18_preset(sp, "AK", &Two::AK, 12, 11, None);
    c18_preset(sp, "AKs", &Two::AKs, 12, 11, Some(true));
    c18_preset(sp, "AKo", &Two::AKo, 12, 11, Some(false));
    c18_preset(sp, "AQs", &Two::AQs, 12, 10, Some(true));
    c18_preset(sp, "AQo", &Two::AQo, 12, 10, Some(false));
    let st = c.sub("slot combination tables");
    c18_table(st, "Four::OMAHA_PERMUTATIONS", &Four::OMAHA_PERMUTATIONS, 4);
    c18_table(st, "Six::FIVE_CARD_PERMUTATIONS", &Six::FIVE_CARD_PERMUTATIONS, 6);
    c18_table(st, "Seven::FIVE_CARD_PERMUTATIONS", &Seven::FIVE_CARD_PERMUTATIONS, 7);
    c.flush("deck, presets, tables");
}

// ---- C19 --------------------------------------------------------------------------------------
/// One container type: constructors, read-back three ways, setters, seeded histories.
/// `$extra` are further constructors from an array `$a` (history tokens "new", "refarr").
macro_rules! container {
    ($fname:ident, $T:ty, $n:expr, [$($acc:ident),*], [$($set:ident),*], |$a:ident| [$($extra:expr),*]) => {
        fn $fname(c: &Ctx, sub: &Sub) {
            const N: usize = $n;
            // to_arr, accessors, iter (with its length)
            let read = |h: &$T| -> ([u32; N], [u32; N], Vec<u32>) { (h.to_arr(), [$(h.$acc()),*], h.iter().copied().collect()) };
            let agree = |h: &$T, m: &[u32; N]| -> Option<String> {
                let (a, b, it) = read(h);
                if a == *m && b == *m && it == m.to_vec() { None } else { Some(format!("to_arr{} | accessors{} | iter{}", cs("", &a), cs("", &b), cs("", &it))) }
            };
            let setters: [fn(&mut $T, u32); N] = [$(<$T>::$set),*];
            let mut rng = c.rng(1900 + N as u64);
            for t in 0..c.pick(20_000, 200_000) {
                let mut m = [0u32; N];
                for (i, x) in m.iter_mut().enumerate() {
                    *x = match t % 4 { 0 => 0xA000_0001 + i as u32, 1 => rng.next() as u32, 2 => rng.pick(&DECK), _ => rng.below(3) as u32 };
                }
                #[allow(unused_variables)]
                let $a = m;
                let extra: Vec<$T> = vec![$($extra),*];
                let kind = rng.below(2 + extra.len() as u64) as usize;
                let (mut h, mut hist) = match kind {
                    0 => (<$T>::from(m), cs("arr", &m)),
                    1 => { m = [0; N]; (<$T>::default(), "default".to_string()) },
                    k => (extra[k - 2], cs(["new", "refarr"][k - 2], &m)),
                };
                let mut steps = 0;
                loop {
                    if let Some(got) = agree(&h, &m) {
                        fail!(sub, format!("hist {N} {hist}"), "contents read back after the last step", cs("", &m), got);
                        break;
                    }
                    if steps == 12 { break; }
                    steps += 1;
                    // a setter changes the named slot only (the model changes only that slot)
                    let (slot, w) = (rng.below(N as u64) as usize, if rng.chance(50) { rng.next() as u32 } else { rng.pick(&DECK) });
                    setters[slot](&mut h, w);
                    m[slot] = w;
                    hist.push_str(&format!(" set {slot} {w}"));
                }
            }
        }
    };
}
container!(c19_two, Two, 2, [first, second], [set_first, set_second], |a| [Two::new(a[0], a[1]), Two::from(&a)]);
container!(c19_three, Three, 3, [first, second, third], [set_first, set_second, set_third], |a| [Three(a)]);
container!(c19_four, Four, 4, [first, second, third, forth], [set_first, set_second, set_third, set_forth], |a| []);
container!(c19_five, Five, 5, [first, second, third, forth, fifth], [set_first, set_second, set_third, set_forth, set_fifth], |a| [Five::new(a[0], a[1], a[2], a[3], a[4])]);
container!(c19_six, Six, 6, [first, second, third, forth, fifth, sixth], [set_first, set_second, set_third, set_forth, set_fifth, set_sixth],
    |a| [Six::from_1_and_2_and_3(a[0], Two::from([a[1], a[2]]), Three::from([a[3], a[4], a[5]]))]);
container!(c19_seven, Seven, 7, [first, second, third, forth, fifth, sixth, seventh], [set_first, set_second, set_third, set_forth, set_fifth, set_sixth, set_seventh],
    |a| [Seven::new(Two::from([a[0], a[1]]), Five::from([a[2], a[3], a[4], a[5], a[6]]))]);

pub fn c19(c: &Ctx) {
    let s = c.sub("containers return the given words in the given slots");
    c19_two(c, s);
    c19_three(c, s);
    c19_four(c, s);
    c19_five(c, s);
    c19_six(c, s);
    c19_seven(c, s);
    c.flush("constructors, accessors, setters, histories");
    let sp = c.sub("five_from_permutation picks the indexed slots");
    let mut rng = c.rng(19);
    for n in [6usize, 7] {
        let mut w = [0u32; 7];
        for (i, x) in w.iter_mut().enumerate() {
            *x = 0xB000_0000 + ((rng.next() as u32 & 0xFFFF) << 4) + i as u32;
        }
        for code in 0..n.pow(5) {
            let p: [u8; 5] = std::array::from_fn(|i| (code / n.pow(i as u32) % n) as u8);
            let exp = p.map(|i| w[i as usize]);
            let got = if n == 6 { g(|| Six::from(arr::<6>(&w)).five_from_permutation(p).to_arr()) } else { g(|| Seven::from(w).five_from_permutation(p).to_arr()) };
            if got != Some(exp) {
                fail!(sp, format!("{} {}", cs(&format!("perm {n}"), &w[..n]), cs("", &p).trim_start()), "selected slots", cs("", &exp), got.map_or("panic".to_string(), |a| cs("", &a)));
            }
        }
    }
    c.flush("all 6^5 and 7^5 index tuples");
}

// ---- C20 --------------------------------------------------------------------------------------
pub fn c20(c: &Ctx) {
    let s = c.sub("multiples flags touch only bits 29..31 and are transparent to the accessors");
    let so = c.sub("flagged words sort above unflagged cards, quads > trips > pair");
    let mark = |w: u32, combo: u32| -> u32 {
        let mut m = w;
        if combo & 1 != 0 { m = m.flag_as_pair(); }
        if combo & 2 != 0 { m = m.flag_as_trips(); }
        if combo & 4 != 0 { m = m.flag_as_quads(); }
        m
    };
    for &w in &DECK {
        let singles = [("flag_as_pair()", w.flag_as_pair(), 1u32 << 29), ("flag_as_trips()", w.flag_as_trips(), 1 << 30), ("flag_as_quads()", w.flag_as_quads(), 1 << 31)];
        for (what, got, bit) in singles {
            if got != w | bit {
                fail!(s, format!("flags {w}"), what, w | bit, got);
            }
        }
        for combo in 0..8u32 {
            let m = mark(w, combo);
            let case = format!("flags {w} ; acc {m}");
            if m != w | (combo << 29) {
                fail!(s, case, format!("flags {combo:03b} (quads,trips,pair) applied"), w | (combo << 29), m);
            }
            if mark(m, combo) != m {
                fail!(s, case, "marking is idempotent", m, mark(m, combo));
            }
            if m.strip_multiples_flags() != w {
                fail!(s, case, "strip_multiples_flags()", w, m.strip_multiples_flags());
            }
            let acc = |x: u32| {
                format!("{:?} {:?} {} {} {} {} {} {} {} {}", x.get_card_rank(), x.get_card_suit(), x.get_rank_prime(), x.get_rank_bit(), x.get_rank_flag(),
                    x.get_suit_bit(), x.get_suit_flag(), x.get_rank_char(), x.get_suit_char(), x.get_suit_letter())
            };
            if acc(m) != acc(w) {
                fail!(s, case, "rank/suit/prime/bit/char accessors equal those of the unmarked card", acc(w), acc(m));
            }
        }
    }
    let level = |combo: u32| 32 - combo.leading_zeros(); // 0 none, 1 pair, 2 trips, 3 quads highest
    for &a in &DECK {
        for &b in &DECK {
            for ca in 1..8u32 {
                let ma = mark(a, ca);
                if ma <= b {
                    fail!(so, format!("flags {a} ; cmp {ma} {b}"), "marked word > unmarked card", "Greater", format!("{:?}", ma.cmp(&b)));
                }
                for cb in 1..8u32 {
                    let mb = mark(b, cb);
                    if level(ca) > level(cb) && ma <= mb {
                        fail!(so, format!("flags {a} ; flags {b} ; cmp {ma} {mb}"), format!("highest mark level {} vs {}", level(ca), level(cb)), "Greater", format!("{:?}", ma.cmp(&mb)));
                    }
                }
            }
        }
    }
    c.flush("52 cards x 8 flag combinations");
}
