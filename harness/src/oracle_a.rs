//! Oracles C01-C09: the evaluator properties.
#![allow(deprecated)]

use crate::oracle::{combos2, cs, fail, fail_at, g, pack, par, prefixes, show, showd, Ctx, Sub};
use crate::refeval::{card_index, class_name, colex5, is_card, layout, mix, Ref, Sm64, CAT_NAME, DECK, PRIME};
use ckc_rs::cards::five::Five;
use ckc_rs::cards::four::Four;
use ckc_rs::cards::seven::Seven;
use ckc_rs::cards::six::Six;
use ckc_rs::cards::three::Three;
use ckc_rs::cards::two::Two;
use ckc_rs::cards::{HandRanker, HandValidator};
use ckc_rs::hand_rank::{HandRank, HandRankClass, HandRankName};
use ckc_rs::{evaluate, CKCNumber, CardNumber, PokerCard, Shifty};
use std::cmp::Ordering;
use std::hint::black_box;
use strum::IntoEnumIterator;

pub const EP: [&str; 6] = [
    "hand_rank_value()",
    "hand_rank().value",
    "hand_rank_value_and_hand().0",
    "hand_rank_value_validated()",
    "hand_rank_validated().value",
    "evaluate::five_cards",
];

fn arr<const N: usize>(w: &[u32]) -> [u32; N] {
    <[u32; N]>::try_from(&w[..N]).unwrap()
}
/// Bind `$h` to the container of `$n` slots holding `$w[..$n]`.
macro_rules! hand_n {
    ($n:expr, $w:expr, $h:ident => $body:expr) => {
        match $n {
            2 => { let $h = Two::from(arr::<2>($w)); $body },
            3 => { let $h = Three::from(arr::<3>($w)); $body },
            4 => { let $h = Four::from(arr::<4>($w)); $body },
            5 => { let $h = Five::from(arr::<5>($w)); $body },
            6 => { let $h = Six::from(arr::<6>($w)); $body },
            7 => { let $h = Seven::from(arr::<7>($w)); $body },
            _ => unreachable!(),
        }
    };
}
/// Same for the ranking sizes only.
macro_rules! ranker_n {
    ($n:expr, $w:expr, $h:ident => $body:expr) => {
        match $n {
            5 => { let $h = Five::from(arr::<5>($w)); $body },
            6 => { let $h = Six::from(arr::<6>($w)); $body },
            7 => { let $h = Seven::from(arr::<7>($w)); $body },
            _ => unreachable!(),
        }
    };
}

/// The five trait entry points; one guard on the fast path, one per call if anything unwound.
fn values<H: HandRanker>(h: &H) -> [Option<u16>; 5] {
    if let Some(v) = g(|| {
        [
            h.hand_rank_value(),
            h.hand_rank().value,
            h.hand_rank_value_and_hand().0,
            h.hand_rank_value_validated(),
            h.hand_rank_validated().value,
        ]
    }) {
        return v.map(Some);
    }
    [
        g(|| h.hand_rank_value()),
        g(|| h.hand_rank().value),
        g(|| h.hand_rank_value_and_hand().0),
        g(|| h.hand_rank_value_validated()),
        g(|| h.hand_rank_validated().value),
    ]
}
/// "entry point = value" for every entry point that did not return `exp`.
fn disagree(got: &[Option<u16>], exp: u16) -> String {
    let v: Vec<String> = got.iter().enumerate().filter(|(_, x)| **x != Some(exp)).map(|(e, x)| format!("{} = {}", EP[e], show(*x))).collect();
    v.join(", ")
}
fn words_of<const N: usize>(ix: &[usize]) -> [u32; N] {
    let mut w = [0u32; N];
    for i in 0..N {
        w[i] = DECK[ix[i]];
    }
    w
}
fn rank_case(w: &[u32]) -> String {
    cs(&format!("rank {}", w.len()), w)
}
/// Position of an event: work item in the high half, running counter in the low half.
#[inline]
fn at(item: usize, k: u64) -> u64 {
    ((item as u64) << 36) | k
}

// ---- C01 --------------------------------------------------------------------------------------
pub fn c01(c: &Ctx) {
    let r = Ref::build();
    c.flush("reference built");
    let sub = c.sub("five distinct cards rank to the rule-based ordinal");
    let pre = prefixes();
    let orders = c.pick(1, 3);
    par(pre.len(), |it| {
        if !sub.want(at(it, 0)) {
            return;
        }
        let mut k = 0u64;
        combos2(5, pre[it].0, pre[it].1, |ix| {
            let exp = r.tab5[colex5(ix)];
            let mut w: [u32; 5] = words_of(ix);
            let mut rng = Sm64::new(mix(c.seed, pack(ix)));
            for o in 0..=orders {
                if o > 0 {
                    rng.shuffle(&mut w);
                }
                let h = Five::from(w);
                let v = values(&h);
                let got = [v[0], v[1], v[2], v[3], v[4], g(|| evaluate::five_cards(w))];
                if got.iter().any(|x| *x != Some(exp)) {
                    fail_at!(sub, at(it, k), rank_case(&w), "Five, entry points that disagree", exp, disagree(&got, exp));
                }
                k += 1;
            }
        });
    });
    c.flush("all 2,598,960 fives");
}

// ---- C02 / C03 / C09 share the six/seven sweep -------------------------------------------------
/// Visit all sixes and (quick: every 8th, offset by seed; thorough: all) sevens, in deck order and
/// in one seeded slot order each. f(item, counter, deck indices ascending, words).
fn sweep67(c: &Ctx, shuffled: bool, f: &(impl Fn(usize, &mut u64, &[usize], &[u32]) + Sync), stop: &(impl Fn(u64) -> bool + Sync)) {
    let pre = prefixes();
    for n in [6usize, 7] {
        let stride = if n == 7 && !c.thorough { 8 } else { 1 };
        par(pre.len(), |it0| {
            let it = it0 + if n == 7 { pre.len() } else { 0 };
            if stop(at(it, 0)) {
                return;
            }
            let mut k = 0u64;
            let mut cnt = (c.seed as usize).wrapping_add(it0) % stride;
            combos2(n, pre[it0].0, pre[it0].1, |ix| {
                cnt += 1;
                if cnt % stride != 0 {
                    return;
                }
                let mut w = [0u32; 7];
                for i in 0..n {
                    w[i] = DECK[ix[i]];
                }
                f(it, &mut k, ix, &w[..n]);
                if shuffled {
                    Sm64::new(mix(c.seed, pack(ix))).shuffle(&mut w[..n]);
                    f(it, &mut k, ix, &w[..n]);
                }
            });
        });
        c.flush(if n == 6 { "sixes" } else { "sevens" });
    }
}

pub fn c02(c: &Ctx) {
    let r = Ref::build();
    let sub = c.sub("six/seven cards rank to the best five-card ordinal");
    sweep67(
        c,
        true,
        &|it, k, ix, w| {
            let exp = r.best(ix);
            let v = ranker_n!(w.len(), w, h => values(&h));
            if v[..3].iter().any(|x| *x != Some(exp)) {
                fail_at!(sub, at(it, *k), rank_case(w), format!("{}-card, entry points that disagree", w.len()), exp, disagree(&v[..3], exp));
            }
            *k += 1;
        },
        &|o| !sub.want(o),
    );
}

// ---- C03 --------------------------------------------------------------------------------------
pub fn c03(c: &Ctx) {
    // five-card inputs: reported hand is the input unchanged
    let id = c.sub("five-card input is reported unchanged");
    let pre = prefixes();
    par(pre.len(), |it| {
        if !id.want(at(it, 0)) {
            return;
        }
        let mut k = 0u64;
        combos2(5, pre[it].0, pre[it].1, |ix| {
            let mut w: [u32; 5] = words_of(ix);
            for o in 0..2 {
                if o > 0 {
                    Sm64::new(mix(c.seed, pack(ix))).shuffle(&mut w);
                }
                let got = g(|| Five::from(w).hand_rank_value_and_hand().1.to_arr());
                if got != Some(w) {
                    fail_at!(id, at(it, k), rank_case(&w), "reported hand", cs("", &w), got.map_or("panic".into(), |a| cs("", &a)));
                }
                k += 1;
            }
        });
    });
    // any words: identity whenever the call returns normally
    let alpha = near_miss_alphabet();
    let mut rng = c.rng(3);
    for _ in 0..c.pick(200_000, 2_000_000) {
        let mut w = [0u32; 5];
        for x in &mut w {
            *x = if rng.chance(60) { rng.pick(&DECK) } else if rng.chance(80) { rng.pick(&alpha) } else { rng.next() as u32 };
        }
        if let Some(got) = g(|| Five::from(w).hand_rank_value_and_hand().1.to_arr()) {
            if got != w {
                fail!(id, rank_case(&w), "reported hand (arbitrary words)", cs("", &w), cs("", &got));
            }
        }
    }
    c.flush("fives identity");
    let sub = c.sub("six/seven: reported hand is a sorted witness from the input");
    sweep67(
        c,
        true,
        &|it, k, _ix, w| {
            let n = w.len();
            let got = ranker_n!(n, w, h => g(|| h.hand_rank_value_and_hand()));
            let problem: Option<(&str, String)> = match got {
                None => Some(("hand_rank_value_and_hand()", "panic".into())),
                Some((v, f)) => {
                    let a = f.to_arr();
                    let re = g(|| Five::from(a).hand_rank_value());
                    if !a.iter().all(|x| w.contains(x)) {
                        Some(("reported cards all come from the input", cs("", &a)))
                    } else if !a.windows(2).all(|p| p[0] > p[1]) {
                        Some(("reported cards distinct and in descending order", cs("", &a)))
                    } else if re != Some(v) {
                        Some(("reported hand ranks to the reported value", format!("reported {v}, hand{} ranks to {}", cs("", &a), show(re))))
                    } else {
                        None
                    }
                },
            };
            if let Some((what, act)) = problem {
                fail_at!(sub, at(it, *k), rank_case(w), format!("{n}-card {what}"), "holds", act);
            }
            *k += 1;
        },
        &|o| !sub.want(o),
    );
}

// ---- C04 --------------------------------------------------------------------------------------
/// Non-card words that look like cards: blank, all-ones, every single-bit corruption of every
/// card, cards with multiples flags, small integers, field-inconsistent words.
pub fn near_miss_alphabet() -> Vec<u32> {
    let mut a = vec![0u32, u32::MAX];
    for &c in &DECK {
        for b in 0..32 {
            a.push(c ^ (1 << b));
        }
        for f in 1..8u32 {
            a.push(c | (f << 29));
        }
    }
    a.extend(1..=64u32);
    let asp = layout(12, 3);
    a.push(asp ^ PRIME[12] ^ PRIME[11]); // ace of spades carrying the king's prime
    a.push((asp & !(15 << 8)) | (11 << 8)); // ... the king's rank number
    a.push(asp | (1 << 27)); // two rank bits
    a.push(asp & 0xFFFF); // no rank bit
    a.push(asp & !0xF000); // no suit bit
    a.push(asp | 0xF000); // all suit bits
    a.push((1 << 29) | (13 << 8) | (1 << 12) | 43); // "rank 13"
    a.push(0x1FFF_0000 | (1 << 15) | (12 << 8) | 41);
    a.push(asp << 1);
    a.push(asp >> 1);
    a.sort_unstable();
    a.dedup();
    a.retain(|w| !is_card(*w));
    a
}

fn c04_hand(w: &[u32], s_valid: &Sub, s_rank: &Sub) {
    let n = w.len();
    let distinct = (0..n).all(|i| (i + 1..n).all(|j| w[i] != w[j]));
    let exp = distinct && w.iter().all(|x| is_card(*x));
    let got = hand_n!(n, w, h => g(|| h.is_valid()));
    if got != Some(exp) {
        fail!(s_valid, cs(&format!("valid {n}"), w), "is_valid()", exp, show(got));
    }
    if n < 5 {
        return;
    }
    let (vv, hv, hr) = ranker_n!(n, w, h => (g(|| h.hand_rank_value_validated()), if exp { g(|| h.hand_rank_value()) } else { None }, g(|| h.hand_rank_validated().value)));
    let mut eps = vec![("hand_rank_value_validated()", vv), ("hand_rank_validated().value", hr)];
    if n == 5 {
        eps.push(("evaluate::five_cards", g(|| evaluate::five_cards(arr::<5>(w)))));
    }
    for (name, v) in eps {
        let bad = match (v, exp) {
            (None, _) => Some("returns normally".to_string()),
            (Some(x), false) if x != 0 => Some("0 (hand is not valid)".to_string()),
            (Some(x), true) if x == 0 || Some(x) != hv => Some(format!("non-zero and equal to hand_rank_value() = {}", show(hv))),
            _ => None,
        };
        if let Some(e) = bad {
            fail!(s_rank, rank_case(w), format!("{n}-slot {name}"), e, show(v));
        }
    }
}

/// All 2^32 words through both spellings of the card filter.
pub fn scan_filter(c: &Ctx, sub: &'static Sub) {
    par(4096, |it| {
        let lo = (it as u64) << 20;
        if !sub.want(lo) {
            return;
        }
        for w in lo..lo + (1 << 20) {
            let w = w as u32;
            let exp = if is_card(w) { w } else { 0 };
            let a = CardNumber::filter(black_box(w));
            let b = <CKCNumber as PokerCard>::filter(black_box(w));
            if a != exp {
                fail_at!(sub, u64::from(w), format!("filter {w}"), "CardNumber::filter", exp, a);
            }
            if b != exp {
                fail_at!(sub, u64::from(w), format!("filter {w}"), "PokerCard::filter", exp, b);
            }
        }
    });
    c.flush("filter over all 2^32 words");
}

pub fn c04(c: &Ctx) {
    let alpha = near_miss_alphabet();
    let s_valid = c.sub("is_valid iff all slots real cards and pairwise distinct");
    let s_rank = c.sub("validated ranking: no panic, 0 iff not valid, else the unvalidated value");
    let mut rng = c.rng(4);
    for n in 2..=7usize {
        let mut deck = DECK;
        rng.shuffle(&mut deck);
        let base = &deck[..n];
        c04_hand(base, s_valid, s_rank);
        // every slot x every alphabet word; every slot pair made equal (card, and non-card)
        for i in 0..n {
            for &x in &alpha {
                let mut w = base.to_vec();
                w[i] = x;
                c04_hand(&w, s_valid, s_rank);
            }
            for j in 0..n {
                if i != j {
                    let mut w = base.to_vec();
                    w[j] = w[i];
                    c04_hand(&w, s_valid, s_rank);
                    let x = rng.pick(&alpha);
                    w[i] = x;
                    w[j] = x;
                    c04_hand(&w, s_valid, s_rank);
                }
            }
        }
        // seeded arrangements mixing cards and alphabet words, with forced repeats now and then
        for _ in 0..c.pick(200_000, 2_000_000) {
            let bad = [0, 0, 5, 15, 40][rng.below(5) as usize];
            let mut w = [0u32; 7];
            for x in &mut w[..n] {
                *x = if rng.chance(bad) { rng.pick(&alpha) } else { rng.pick(&DECK) };
            }
            if rng.chance(15) {
                let (i, j) = (rng.below(n as u64) as usize, rng.below(n as u64) as usize);
                w[j] = w[i];
            }
            if rng.chance(2) {
                w[rng.below(n as u64) as usize] = rng.next() as u32;
            }
            c04_hand(&w[..n], s_valid, s_rank);
        }
    }
    c.flush("hands of sizes 2..7");
    scan_filter(c, c.sub("card filter passes exactly the 52 card words"));
}

// ---- C05 --------------------------------------------------------------------------------------
const EP5: [&str; 5] = ["hand_rank_value()", "hand_rank()", "hand_rank_value_and_hand()", "hand_rank_value_validated()", "hand_rank_validated()"];

/// Which of the five entry points unwind (fast path: one guard around all of them).
fn panics<H: HandRanker>(h: &H) -> [bool; 5] {
    if g(|| {
        black_box(h.hand_rank_value());
        black_box(h.hand_rank());
        black_box(h.hand_rank_value_and_hand());
        black_box(h.hand_rank_value_validated());
        black_box(h.hand_rank_validated());
    })
    .is_some()
    {
        return [false; 5];
    }
    [
        g(|| h.hand_rank_value()).is_none(),
        g(|| h.hand_rank()).is_none(),
        g(|| h.hand_rank_value_and_hand()).is_none(),
        g(|| h.hand_rank_value_validated()).is_none(),
        g(|| h.hand_rank_validated()).is_none(),
    ]
}
fn c05_nopanic(w: &[u32], sub: &Sub, ord: u64, label: &str) {
    if !sub.want(ord) {
        return;
    }
    let p = ranker_n!(w.len(), w, h => panics(&h));
    if p.contains(&true) {
        let which: Vec<&str> = (0..5).filter(|e| p[*e]).map(|e| EP5[e]).collect();
        fail_at!(sub, ord, rank_case(w), format!("{label}entry points that unwind: {}", which.join(", ")), "every entry point returns normally", "panic");
    }
}
/// value 0 / Invalid for a five-slot hand holding a blank
fn c05_blank_five(w: &[u32; 5], sub: &Sub, ord: u64) {
    if !sub.want(ord) {
        return;
    }
    let h = Five::from(*w);
    let v = g(|| h.hand_rank_value());
    let r = g(|| h.hand_rank());
    let ok = r.is_some_and(|r| r.value == 0 && r.name == HandRankName::Invalid && r.class == HandRankClass::Invalid);
    if v != Some(0) || !ok {
        fail_at!(sub, ord, rank_case(w), "Five hand_rank_value() ; hand_rank()", "0 ; value 0, name Invalid, class Invalid", format!("{} ; {}", show(v), showd(r)));
    }
}

pub fn c05(c: &Ctx) {
    // alphabet index 0..51 = deck, 52 = blank
    let word = |i: usize| if i == 52 { 0 } else { DECK[i] };
    let s_def = c.sub("default hands: ranking returns normally");
    let d5 = Five::default().to_arr();
    c05_nopanic(&d5, s_def, 0, "Five::default() ");
    c05_nopanic(&Six::default().to_arr(), s_def, 10, "Six::default() ");
    c05_nopanic(&Seven::default().to_arr(), s_def, 20, "Seven::default() ");
    let s_bv = c.sub("five slots with a blank: value 0 and Invalid");
    let s_bp = c.sub("five slots with a blank: ranking returns normally");
    let s_cp = c.sub("five slots of real cards with repetition: ranking returns normally");
    let items: Vec<(usize, usize)> = (0..53).rev().flat_map(|a| (0..=a).rev().map(move |b| (a, b))).collect();
    par(items.len(), |it| {
        let (i0, i1) = items[it];
        if !(s_bv.want(at(it, 0)) || s_bp.want(at(it, 0)) || s_cp.want(at(it, 0))) {
            return;
        }
        let mut k = 0u64;
        for i2 in (0..=i1).rev() {
            for i3 in (0..=i2).rev() {
                for i4 in (0..=i3).rev() {
                    let ix = [i0, i1, i2, i3, i4];
                    let mut w = ix.map(word);
                    for o in 0..2 {
                        if o > 0 {
                            Sm64::new(mix(c.seed, pack(&ix))).shuffle(&mut w);
                            if w == ix.map(word) {
                                continue; // same arrangement again
                            }
                        }
                        if i0 == 52 {
                            c05_nopanic(&w, s_bp, at(it, k), "Five ");
                            c05_blank_five(&w, s_bv, at(it, k));
                        } else {
                            c05_nopanic(&w, s_cp, at(it, k), "Five ");
                        }
                        k += 8;
                    }
                }
            }
        }
    });
    c.flush("all 4,187,106 five-slot multisets over cards and blank");
    // six / seven slots: seeded multisets, biased towards blanks and repeats
    for n in [6usize, 7] {
        let s_b = c.sub(if n == 6 { "six slots with a blank: ranking returns normally" } else { "seven slots with a blank: ranking returns normally" });
        let s_c = c.sub(if n == 6 { "six slots of real cards with repetition: ranking returns normally" } else { "seven slots of real cards with repetition: ranking returns normally" });
        let chunks = c.pick(300, 3000) as usize;
        par(chunks, |it| {
            if !(s_b.want(at(it, 0)) || s_c.want(at(it, 0))) {
                return;
            }
            let mut rng = Sm64::new(mix(c.seed, 500 + n as u64 * 100_000 + it as u64));
            for k in 0..1000u64 {
                let pool = [52usize, 13, 4, 2][rng.below(4) as usize]; // small pools (runs of the deck) force repeats
                let off = rng.below(52) as usize;
                let blank = [0, 0, 10, 30][rng.below(4) as usize];
                let mut w = [0u32; 7];
                for x in &mut w[..n] {
                    *x = if rng.chance(blank) { 0 } else { DECK[(off + rng.below(pool as u64) as usize) % 52] };
                }
                if pool == 2 && rng.chance(50) {
                    // deuces only: the smallest prime products
                    for x in &mut w[..n] {
                        *x = layout(0, rng.below(4) as u32);
                    }
                }
                let sub = if w[..n].contains(&0) { s_b } else { s_c };
                c05_nopanic(&w[..n], sub, at(it, k * 8), if n == 6 { "Six " } else { "Seven " });
            }
        });
    }
    c.flush("seeded six- and seven-slot multisets");
    // the public product search
    let s_f = c.sub("Five::find_in_products returns normally for every key");
    let mut keys: Vec<usize> = (0..=300_000).collect();
    for a in 0..13 {
        for b in a..13 {
            for cc in b..13 {
                for d in cc..13 {
                    for e in d..13 {
                        let p = (PRIME[a] * PRIME[b] * PRIME[cc] * PRIME[d] * PRIME[e]) as usize;
                        keys.extend([p - 1, p, p + 1]);
                    }
                }
            }
        }
    }
    keys.extend([(1 << 32) - 1, 1 << 32, (1 << 32) + 1, usize::MAX, usize::MAX - 1, 1 << 63, (1 << 63) - 1, (1 << 63) + 1]);
    let mut rng = c.rng(55);
    for _ in 0..c.pick(100_000, 1_000_000) {
        let x = rng.next();
        keys.push((x >> rng.below(64)) as usize);
    }
    for k in keys {
        if !s_f.open() {
            break;
        }
        if g(|| Five::find_in_products(black_box(k))).is_none() {
            fail!(s_f, format!("fip {k}"), "Five::find_in_products", "returns normally", "panic");
        }
    }
    c.flush("find_in_products keys");
}

// ---- C06 --------------------------------------------------------------------------------------
pub fn c06(c: &Ctx) {
    let r = Ref::build();
    // expected (category, class) Debug names by value; index 0 = Invalid
    let mut names: Vec<(String, String)> = vec![("Invalid".into(), "Invalid".into())];
    names.extend(r.classes.iter().map(|k| (CAT_NAME[k.cat as usize].to_string(), class_name(k))));
    let expect = |v: u16| -> &(String, String) { &names[if (1..=7462).contains(&v) { v as usize } else { 0 }] };
    let s = c.sub("HandRank::from(v) names the class of ordinal v");
    for v in 0..=u16::MAX {
        let (en, ec) = expect(v);
        let h = HandRank::from(v);
        let case = format!("hr {v}");
        if format!("{:?}", h.name) != *en {
            fail!(s, case, "name", en, format!("{:?}", h.name));
        }
        if format!("{:?}", h.class) != *ec {
            fail!(s, case, "class", ec, format!("{:?}", h.class));
        }
        if h.value != v {
            fail!(s, case, "value", v, h.value);
        }
        if HandRank::determine_name(&v) != h.name {
            fail!(s, case, "determine_name agrees with from", format!("{:?}", h.name), format!("{:?}", HandRank::determine_name(&v)));
        }
        if HandRank::determine_class(&v) != h.class {
            fail!(s, case, "determine_class agrees with from", format!("{:?}", h.class), format!("{:?}", HandRank::determine_class(&v)));
        }
        if !h.is_a_valid_hand_rank() {
            fail!(s, case, "is_a_valid_hand_rank()", true, false);
        }
    }
    if HandRank::default() != HandRank::from(0) {
        fail!(s, "hrdefault", "HandRank::default() == HandRank::from(0)", format!("{:?}", HandRank::from(0)), format!("{:?}", HandRank::default()));
    }
    c.flush("all 65,536 values");
    let sh = c.sub("hand_rank()/hand_rank_validated() carry the ordinal, category and class of the best five cards");
    let check = |w: &[u32], exp: u16, ord: u64| {
        let (a, b) = ranker_n!(w.len(), w, h => (g(|| h.hand_rank()), g(|| h.hand_rank_validated())));
        let (en, ec) = expect(exp);
        for (i, (what, x)) in [("hand_rank()", a), ("hand_rank_validated()", b)].into_iter().enumerate() {
            let ok = x.is_some_and(|x| x.value == exp && format!("{:?}", x.name) == *en && format!("{:?}", x.class) == *ec);
            if !ok {
                fail_at!(sh, ord + i as u64, rank_case(w), format!("{}-card {what}", w.len()), format!("value {exp} name {en} class {ec}"), showd(x));
            }
        }
    };
    let pre = prefixes();
    par(pre.len(), |it| {
        if !sh.want(at(it, 0)) {
            return;
        }
        let mut k = 0;
        combos2(5, pre[it].0, pre[it].1, |ix| {
            check(&words_of::<5>(ix), r.tab5[colex5(ix)], at(it, k));
            k += 2;
        });
    });
    c.flush("all fives");
    let chunks = c.pick(500, 5000) as usize;
    par(chunks, |it| {
        let it2 = it + pre.len();
        if !sh.want(at(it2, 0)) {
            return;
        }
        let mut rng = Sm64::new(mix(c.seed, 600 + it as u64));
        for k in 0..1000 {
            let n = 6 + (k & 1) as usize;
            let mut d = DECK;
            rng.shuffle(&mut d);
            check(&d[..n], r.best_of_words(&d[..n]), at(it2, k * 2));
        }
    });
    c.flush("seeded sixes and sevens");
}

// ---- C07 --------------------------------------------------------------------------------------
struct C07 {
    eq: &'static Sub,
    anti: &'static Sub,
    order: &'static Sub,
    inv: &'static Sub,
    pc: &'static Sub,
    ops: &'static Sub,
}
#[inline]
fn valid_value(v: u16) -> bool {
    (1..=7462).contains(&v)
}
#[inline]
fn c07_pair(s: &C07, a: u16, b: u16, x: &HandRank, y: &HandRank) {
    let ord = (u64::from(a) << 16) | u64::from(b);
    let case = || format!("hrcmp {a} {b}");
    let cm = x.cmp(y);
    if (cm == Ordering::Equal) != (x == y) {
        fail_at!(s.eq, ord, case(), "cmp == Equal iff the ranks are ==", format!("== is {}", x == y), format!("cmp is {cm:?}"));
    }
    let rev = y.cmp(x);
    if cm != rev.reverse() {
        fail_at!(s.anti, ord, case(), "cmp(x,y) == cmp(y,x).reverse()", format!("{:?}", rev.reverse()), format!("{cm:?}"));
    }
    match (valid_value(a), valid_value(b)) {
        (true, true) if cm != b.cmp(&a) => {
            fail_at!(s.order, ord, case(), "valid ranks: lower value compares Greater", format!("{:?}", b.cmp(&a)), format!("{cm:?}"));
        },
        (false, true) if cm != Ordering::Less => {
            fail_at!(s.inv, ord, case(), "invalid rank is Less than a valid one", "Less", format!("{cm:?}"));
        },
        (true, false) if cm != Ordering::Greater => {
            fail_at!(s.inv, ord, case(), "valid rank is Greater than an invalid one", "Greater", format!("{cm:?}"));
        },
        _ => {},
    }
    if x.partial_cmp(y) != Some(cm) {
        fail_at!(s.pc, ord, case(), "partial_cmp == Some(cmp)", format!("Some({cm:?})"), format!("{:?}", x.partial_cmp(y)));
    }
    let got = (x < y, x <= y, x > y, x >= y);
    let exp = (cm == Ordering::Less, cm != Ordering::Greater, cm == Ordering::Greater, cm != Ordering::Less);
    if got != exp {
        fail_at!(s.ops, ord, case(), "(<, <=, >, >=) agree with cmp", format!("{exp:?}"), format!("{got:?}"));
    }
}

pub fn c07(c: &Ctx) {
    let s = C07 {
        eq: c.sub("cmp is consistent with equality"),
        anti: c.sub("cmp is antisymmetric"),
        order: c.sub("stronger (lower) valid value is Greater"),
        inv: c.sub("invalid ranks are below valid ones"),
        pc: c.sub("partial_cmp agrees with cmp"),
        ops: c.sub("comparison operators agree with cmp"),
    };
    let tr = c.sub("cmp is transitive");
    let hr: Vec<HandRank> = (0..=u16::MAX).map(HandRank::from).collect();
    let mut set: Vec<u16> = vec![
        0, 1, 2, 10, 11, 166, 167, 322, 323, 1599, 1600, 1609, 1610, 2467, 2468, 3325, 3326, 6185, 6186, 7461, 7462,
        7463, 7464, 32767, 32768, 65534, 65535,
    ];
    let mut rng = c.rng(7);
    for i in 0..20 {
        set.push(if i < 12 { 1 + rng.below(7462) as u16 } else { rng.next() as u16 });
    }
    for &a in &set {
        for &b in &set {
            c07_pair(&s, a, b, &hr[a as usize], &hr[b as usize]);
            for &d in &set {
                let (x, y, z) = (&hr[a as usize], &hr[b as usize], &hr[d as usize]);
                let (xy, yz, xz) = (x.cmp(y), y.cmp(z), x.cmp(z));
                let bad = (xy != Ordering::Greater && yz != Ordering::Greater && xz == Ordering::Greater)
                    || (xy == Ordering::Equal && yz == Ordering::Equal && xz != Ordering::Equal)
                    || (xy == Ordering::Less && yz != Ordering::Greater && xz != Ordering::Less)
                    || (xy != Ordering::Greater && yz == Ordering::Less && xz != Ordering::Less);
                if bad {
                    fail!(tr, format!("hrcmp {a} {b} ; hrcmp {b} {d} ; hrcmp {a} {d}"), "transitivity", "x<=y, y<=z imply x<=z (strict if either is)", format!("{xy:?}, {yz:?}, but {xz:?}"));
                }
            }
        }
    }
    c.flush("boundary set: all pairs and triples");
    if c.thorough {
        par(65536, |a| {
            let subs = [s.eq, s.anti, s.order, s.inv, s.pc, s.ops];
            if !subs.iter().any(|q| q.want((a as u64) << 16)) {
                return;
            }
            for b in 0..=u16::MAX {
                c07_pair(&s, a as u16, b, &hr[a], &hr[b as usize]);
            }
        });
        c.flush("all 2^32 ordered pairs");
    } else {
        for _ in 0..2_000_000 {
            let x = rng.next();
            // half of the draws among / around the valid values
            let a = if x & 1 == 0 { (x >> 8) as u16 % 7480 } else { (x >> 8) as u16 };
            let b = if x & 2 == 0 { (x >> 32) as u16 % 7480 } else { (x >> 32) as u16 };
            c07_pair(&s, a, b, &hr[a as usize], &hr[b as usize]);
        }
        c.flush("2,000,000 seeded pairs");
    }
    // derived order of the two enums follows the value
    let se = c.sub("category/class enums are ordered strongest first");
    for v in 1..7462u16 {
        let w = v + 1;
        if HandRank::determine_name(&v) > HandRank::determine_name(&w) {
            fail!(se, format!("hr {v} ; hr {w}"), "determine_name(v) <= determine_name(v+1)", "<=", format!("{:?} > {:?}", HandRank::determine_name(&v), HandRank::determine_name(&w)));
        }
        if HandRank::determine_class(&v) > HandRank::determine_class(&w) {
            fail!(se, format!("hr {v} ; hr {w}"), "determine_class(v) <= determine_class(v+1)", "<=", format!("{:?} > {:?}", HandRank::determine_class(&v), HandRank::determine_class(&w)));
        }
    }
    for n in HandRankName::iter() {
        if (n != HandRankName::Invalid && n >= HandRankName::Invalid) || n > HandRankName::Invalid {
            fail!(se, format!("HandRankName::{n:?} vs Invalid"), "Invalid is the greatest category", "less than Invalid", "not less");
        }
    }
    for k in HandRankClass::iter() {
        if (k != HandRankClass::Invalid && k >= HandRankClass::Invalid) || k > HandRankClass::Invalid {
            fail!(se, format!("HandRankClass::{k:?} vs Invalid"), "Invalid is the greatest class", "less than Invalid", "not less");
        }
    }
    c.flush("enum order");
}

// ---- C08 --------------------------------------------------------------------------------------
/// spades -> hearts -> diamonds -> clubs -> spades, rank kept; blank stays blank.
fn ref_shift(w: u32) -> u32 {
    card_index(w).map_or(0, |_| layout((w >> 8) & 15, (((w >> 12) & 15).trailing_zeros() + 3) % 4))
}
const SUIT_PERMS: [[u32; 4]; 24] = {
    let mut out = [[0u32; 4]; 24];
    let mut n = 0;
    let mut a = 0;
    while a < 4 {
        let mut b = 0;
        while b < 4 {
            let mut cc = 0;
            while cc < 4 {
                if a != b && a != cc && b != cc {
                    out[n] = [a, b, cc, 6 - a - b - cc];
                    n += 1;
                }
                cc += 1;
            }
            b += 1;
        }
        a += 1;
    }
    out
};

pub fn c08(c: &Ctx) {
    let s1 = c.sub("card shift is the rank-preserving 4-cycle S->H->D->C->S");
    for &w in DECK.iter().chain(std::iter::once(&0u32)) {
        let got = w.shift_suit();
        if got != ref_shift(w) {
            fail!(s1, format!("shift {w}"), "shift_suit()", ref_shift(w), got);
        }
        let four = w.shift_suit().shift_suit().shift_suit().shift_suit();
        if four != w {
            fail!(s1, format!("shift {w}"), "four shifts restore the card", w, four);
        }
    }
    let s2 = c.sub("hand shift shifts every slot");
    let mut rng = c.rng(8);
    for n in 2..=7usize {
        for t in 0..c.pick(100_000, 1_000_000) {
            let mut w = [0u32; 7];
            for x in &mut w[..n] {
                *x = if t == 0 || rng.chance(12) { 0 } else { rng.pick(&DECK) };
            }
            let got: Vec<u32> = hand_n!(n, &w, h => h.shift_suit().to_arr().to_vec());
            let exp: Vec<u32> = w[..n].iter().map(|x| ref_shift(*x)).collect();
            if got != exp {
                fail!(s2, cs(&format!("shiftn {n}"), &w[..n]), "shift_suit()", cs("", &exp), cs("", &got));
            }
        }
    }
    c.flush("cards and containers");
    let s3 = c.sub("five-card value is invariant under suit relabelling and shifting");
    let pre = prefixes();
    par(pre.len(), |it| {
        if !s3.want(at(it, 0)) {
            return;
        }
        let mut k = 0u64;
        combos2(5, pre[it].0, pre[it].1, |ix| {
            let w: [u32; 5] = words_of(ix);
            let v0 = g(|| Five::from(w).hand_rank_value());
            for p in &SUIT_PERMS {
                let w2 = w.map(|x| layout((x >> 8) & 15, p[((x >> 12) & 15).trailing_zeros() as usize]));
                let v = g(|| Five::from(w2).hand_rank_value());
                if v != v0 || v.is_none() {
                    fail_at!(s3, at(it, k), format!("{} ; {}", rank_case(&w), rank_case(&w2)), format!("suits (C,D,H,S) relabelled to {p:?}"), show(v0), show(v));
                }
                k += 1;
            }
            let mut h = Five::from(w);
            for i in 1..4 {
                h = h.shift_suit();
                let v = g(|| h.hand_rank_value());
                if v != v0 || v.is_none() {
                    fail_at!(s3, at(it, k), format!("{} ; {}", rank_case(&w), rank_case(&h.to_arr())), format!("after {i} shift_suit()"), show(v0), show(v));
                }
                k += 1;
            }
        });
    });
    c.flush("all fives x 24 relabellings + 3 shifts");
    let s4 = c.sub("six/seven-card value is invariant under shifting");
    let chunks = c.pick(400, 4000) as usize;
    par(chunks, |it| {
        if !s4.want(at(it, 0)) {
            return;
        }
        let mut rng = Sm64::new(mix(c.seed, 800 + it as u64));
        for k in 0..1000u64 {
            let n = 6 + (k & 1) as usize;
            let mut d = DECK;
            rng.shuffle(&mut d);
            let w = &d[..n];
            let vals: Vec<(Vec<u32>, Option<u16>)> = ranker_n!(n, w, h => {
                let mut out = vec![(h.to_arr().to_vec(), g(|| h.hand_rank_value()))];
                let mut x = h;
                for _ in 0..3 {
                    x = x.shift_suit();
                    out.push((x.to_arr().to_vec(), g(|| x.hand_rank_value())));
                }
                out
            });
            for i in 1..4 {
                if vals[i].1 != vals[0].1 || vals[i].1.is_none() {
                    fail_at!(s4, at(it, k * 4 + i as u64), format!("{} ; {}", rank_case(w), rank_case(&vals[i].0)), format!("{n} cards after {i} shift_suit()"), show(vals[0].1), show(vals[i].1));
                }
            }
        }
    });
    c.flush("seeded sixes and sevens x 3 shifts");
}

// ---- C09 --------------------------------------------------------------------------------------
pub fn c09(c: &Ctx) {
    let s6 = c.sub("six-card value == min of its six five-card values");
    let s7 = c.sub("seven-card value == min of its seven six-card values");
    sweep67(
        c,
        false,
        &|it, k, _ix, w| {
            let n = w.len();
            let top = ranker_n!(n, w, h => g(|| h.hand_rank_value()));
            let mut subs: Vec<(Vec<u32>, Option<u16>)> = Vec::with_capacity(7);
            for o in 0..n {
                let mut x = [0u32; 6];
                let mut j = 0;
                for (i, v) in w.iter().enumerate() {
                    if i != o {
                        x[j] = *v;
                        j += 1;
                    }
                }
                let v = if n == 6 { g(|| Five::from(arr::<5>(&x)).hand_rank_value()) } else { g(|| Six::from(x).hand_rank_value()) };
                subs.push((x[..n - 1].to_vec(), v));
            }
            let sub = if n == 6 { s6 } else { s7 };
            let min = subs.iter().map(|s| s.1).min().flatten(); // None (panic) sorts first
            if top.is_none() || top != min {
                let worst = subs.iter().find(|s| s.1.is_none() || s.1 < top).or(subs.first()).unwrap();
                fail_at!(sub, at(it, *k), format!("{} ; {}", rank_case(w), rank_case(&worst.0)), format!("{n}-card value vs min over its {}-card sub-hands", n - 1), show(min), show(top));
            }
            *k += 1;
        },
        &|o| !(s6.want(o) || s7.want(o)),
    );
}
