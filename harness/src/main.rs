//! ckc-probe: the implementation side of the /verif machinery.
//!
//!   ckc-probe dump                    data of the implementation -> tools/gen_coq.py -> coq/Gen/*.v
//!   ckc-probe run   < cases           one operation per input line, one result line per case
//!   ckc-probe cases <family> [args]   big enumerated case files (same format as tools/inputs.py)
//!   ckc-probe sweep --op .. --k ..    exhaustive implementation-only run of a projection against a proved constant
//!   ckc-probe oracle <property> ...   direct search for an input violating a property (replay finder)

mod cases;
mod dump;
mod oracle;
mod oracle_a;
mod oracle_b;
mod refeval;
mod run;
mod sweep;

fn main() {
    let args: Vec<String> = std::env::args().collect();
    std::panic::set_hook(Box::new(|_| {}));
    match args.get(1).map(String::as_str) {
        Some("dump") => dump::dump(),
        Some("run") => run::run(&args[2..]),
        Some("cases") => cases::cases(&args[2..]),
        Some("oracle") => oracle::oracle(&args[2..]),
        Some("sweep") => sweep::sweep(&args[2..]),
        _ => {
            eprintln!("usage: ckc-probe dump | run | cases <family> | oracle <property>");
            std::process::exit(2);
        },
    }
}
