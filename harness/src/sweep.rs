//! `ckc-probe sweep`: exhaustive implementation-only families.
//!
//! For a PROJECTION op (chain7, best, wit, shiftinv, rankp, ...) whose value on the MODEL is a constant by a
//! theorem of coq/Props (e.g. C09: "seven <= every six-subset <= every five-subset and the minima are attained"
//! holds for every hand of distinct real cards, so the model's `chain7` line is `1 1 1 1` on each of them), the
//! model side of the correspondence needs no run at all: the implementation is run on EVERY hand of the domain and
//! its line compared with that constant. The cases go through the same `run::exec` as the sampled families, so a
//! line reported here replays verbatim with `ckc-probe run` and `modelrun`.
//!
//!   ckc-probe sweep --op "chain7" --k 7 --alphabet deck --order 2 --expect "1 1 1 1" [--threads 16] [--stride s --offset o]
//!
//! alphabet deck      : all C(52,k) k-subsets of the implementation's deck
//! alphabet deckblank : all k-multisets over the 52 deck cards and the blank word
//! alphabet deckblank_ordered : all 53^k ordered k-tuples over the 52 cards and blank (use --order 0)
//! alphabet u16_ordered : all ordered k-tuples of 16-bit values (k = 2: the 2^32 pairs of hand-rank values)
//! --expect-blank "<line>"     : the constant for cases that hold a blank word, when it differs
//! alphabet deckblank_invalid : those of them that hold a blank or a repeated card (not k distinct real cards)
//! order 0 : deck order (ace of spades first) / non-decreasing alphabet index
//! order 1 : reversed
//! order 2 : a permutation derived from the case counter and --seed (every hand in one pseudo-random slot order)
//! order 3 : words in descending numeric order (the order `sort()` gives)      order 4 : ascending numeric order
//! Output: `BAD <case> => <line>` for the first few cases per thread whose line differs from --expect,
//! `HANG <case>` (exit status 3) if a case does not return within 20 s, and a final `SWEPT <cases> BAD <count>`.

use crate::run::exec;
use crate::cases::spec_deck;
use std::panic::{catch_unwind, AssertUnwindSafe};
use std::sync::atomic::{AtomicU64, Ordering};
use std::sync::{Arc, Mutex};

fn arg<'a>(args: &'a [String], key: &str) -> Option<&'a str> {
    args.iter().position(|a| a == key).and_then(|i| args.get(i + 1)).map(String::as_str)
}

fn mix(mut x: u64) -> u64 {
    x = x.wrapping_add(0x9E37_79B9_7F4A_7C15);
    x = (x ^ (x >> 30)).wrapping_mul(0xBF58_476D_1CE4_E5B9);
    x = (x ^ (x >> 27)).wrapping_mul(0x94D0_49BB_1331_11EB);
    x ^ (x >> 31)
}

/// next k-subset of 0..n (strictly increasing indices); false when exhausted
fn next_combo(idx: &mut [usize], n: usize) -> bool {
    let k = idx.len();
    let mut i = k;
    while i > 0 && idx[i - 1] == n - k + i - 1 {
        i -= 1;
    }
    if i == 0 {
        return false;
    }
    idx[i - 1] += 1;
    for j in i..k {
        idx[j] = idx[j - 1] + 1;
    }
    true
}

/// next k-multiset over 0..n (non-decreasing indices); false when exhausted
fn next_multi(idx: &mut [usize], n: usize) -> bool {
    let k = idx.len();
    let mut i = k;
    while i > 0 && idx[i - 1] == n - 1 {
        i -= 1;
    }
    if i == 0 {
        return false;
    }
    idx[i - 1] += 1;
    for j in i..k {
        idx[j] = idx[i - 1];
    }
    true
}

/// next k-tuple over 0..n (odometer), the first component advancing by `step0` (one thread's share); false when exhausted
fn next_tuple(idx: &mut [usize], n: usize, step0: usize) -> bool {
    let mut i = idx.len();
    while i > 1 {
        if idx[i - 1] + 1 < n {
            idx[i - 1] += 1;
            return true;
        }
        idx[i - 1] = 0;
        i -= 1;
    }
    if idx[0] + step0 < n {
        idx[0] += step0;
        return true;
    }
    false
}

pub fn sweep(args: &[String]) {
    let op = arg(args, "--op").expect("--op").to_string();
    let k: usize = arg(args, "--k").expect("--k").parse().unwrap();
    let alphabet = arg(args, "--alphabet").unwrap_or("deck").to_string();
    let multi = alphabet.starts_with("deckblank");
    // deckblank_invalid: only the multisets that are NOT k distinct real cards (a blank or a repeated card)
    let invalid_only = alphabet == "deckblank_invalid";
    // deckblank_ordered: every ORDERED k-tuple over the 52 cards and blank (53^k), not only the multisets
    let ordered = alphabet == "deckblank_ordered" || alphabet == "u16_ordered";
    // cases holding a blank word may have their own constant
    let expect_blank = arg(args, "--expect-blank").map(str::to_string);
    let order: u32 = arg(args, "--order").map_or(0, |s| s.parse().unwrap());
    let expect = arg(args, "--expect").expect("--expect").to_string();
    let threads: u64 = arg(args, "--threads").map_or(16, |s| s.parse().unwrap());
    let stride: u64 = arg(args, "--stride").map_or(1, |s| s.parse().unwrap());
    let offset: u64 = arg(args, "--offset").map_or(0, |s| s.parse().unwrap());
    let seed: u64 = arg(args, "--seed").map_or(1, |s| s.parse().unwrap());
    let max_bad: usize = arg(args, "--max-bad").map_or(3, |s| s.parse().unwrap());
    let mut alpha: Vec<u32> = spec_deck().to_vec();
    if multi {
        alpha.push(0);
    }
    if alphabet == "u16_ordered" {
        // every 16-bit value (for pairs of hand-rank values)
        alpha = (0..=65535u32).collect();
    }
    let n = alpha.len();
    let bad_total = Arc::new(AtomicU64::new(0));
    // per thread: cases done (u64::MAX once finished) and the case being run
    // (third field: the pair being run on the fast path, encoded, 0 = none)
    let states: Vec<Arc<(AtomicU64, Mutex<String>, AtomicU64)>> =
        (0..threads).map(|_| Arc::new((AtomicU64::new(0), Mutex::new(String::new()), AtomicU64::new(0)))).collect();
    let fast_hrkey = op == "hrkey" && alphabet == "u16_ordered" && k == 2 && expect == "1 1 1" && order == 0;
    let mut handles = Vec::new();
    for t in 0..threads {
        let (op, expect, alpha, expect_blank) = (op.clone(), expect.clone(), alpha.clone(), expect_blank.clone());
        let (bad_total, state) = (bad_total.clone(), states[t as usize].clone());
        handles.push(std::thread::spawn(move || {
            let mut idx: Vec<usize> = if multi || ordered { vec![0; k] } else { (0..k).collect() };
            if ordered {
                // ordered tuples are split between the threads by their first component
                idx[0] = t as usize;
                if idx[0] >= n {
                    state.0.store(u64::MAX, Ordering::Relaxed);
                    return (0, Vec::new());
                }
            }
            // the all-pairs fast path converts each 16-bit value once (HandRank::from is exhaustively checked by C06)
            let ranks: Vec<ckc_rs::hand_rank::HandRank> =
                if fast_hrkey { (0..=65535u16).map(ckc_rs::hand_rank::HandRank::from).collect() } else { Vec::new() };
            let linear = |idx: &[usize]| idx.iter().fold(0u64, |a, i| a * n as u64 + *i as u64);
            let mut c: u64 = 0;
            let mut done: u64 = 0;
            let mut bad: Vec<String> = Vec::new();
            let mut line = String::with_capacity(128);
            let mut ws: Vec<u32> = vec![0; k];
            loop {
                let wanted = !invalid_only || idx[k - 1] == n - 1 || idx.windows(2).any(|w| w[0] == w[1]);
                if ordered {
                    c = linear(&idx);
                }
                let mine = if ordered { c % stride == offset } else { c % stride == offset && (c / stride) % threads == t };
                if wanted && mine {
                    for (j, i) in idx.iter().enumerate() {
                        ws[j] = alpha[*i];
                    }
                    match order {
                        1 => ws.reverse(),
                        2 => {
                            let mut h = mix(c ^ seed.wrapping_mul(0x1234_5678_9ABC_DEF1));
                            for j in (1..k).rev() {
                                let r = (h % (j as u64 + 1)) as usize;
                                h = mix(h);
                                ws.swap(j, r);
                            }
                        },
                        3 => ws.sort_unstable_by(|a, b| b.cmp(a)),
                        4 => ws.sort_unstable(),
                        _ => {},
                    }
                    // fast pre-filter for the cheapest projection (hrkey over 2^32 pairs): an all-true outcome needs no
                    // line; anything else (a false bit, an unwinding call) goes through `exec` like every other case
                    if fast_hrkey {
                        state.2.store(((u64::from(ws[0]) << 16) | u64::from(ws[1])) + 1, Ordering::Relaxed);
                        state.0.store(done, Ordering::Relaxed);
                        let bits = catch_unwind(AssertUnwindSafe(|| {
                            crate::run::hrkey_bits_of(&ranks[ws[0] as usize], &ranks[ws[1] as usize], ws[0] as u16, ws[1] as u16)
                        }))
                        .ok();
                        if bits == Some((true, true, true)) {
                            done += 1;
                            if !next_tuple(&mut idx, n, threads as usize) {
                                break;
                            }
                            continue;
                        }
                    }
                    line.clear();
                    line.push_str(&op);
                    for w in &ws {
                        line.push(' ');
                        line.push_str(&w.to_string());
                    }
                    if let Ok(mut cur) = state.1.lock() {
                        cur.clear();
                        cur.push_str(&line);
                    }
                    state.2.store(0, Ordering::Relaxed);
                    state.0.store(done, Ordering::Relaxed);
                    let r = catch_unwind(AssertUnwindSafe(|| exec(0, &line))).unwrap_or_else(|_| "P".to_string());
                    let want = match &expect_blank {
                        Some(e) if ws.contains(&0) => e,
                        _ => &expect,
                    };
                    if r != *want {
                        bad_total.fetch_add(1, Ordering::Relaxed);
                        if bad.len() < max_bad {
                            bad.push(format!("BAD {line} => {r}"));
                        }
                    }
                    done += 1;
                }
                c += 1;
                let more = if ordered {
                    next_tuple(&mut idx, n, threads as usize)
                } else if multi {
                    next_multi(&mut idx, n)
                } else {
                    next_combo(&mut idx, n)
                };
                if !more {
                    break;
                }
            }
            state.0.store(u64::MAX, Ordering::Relaxed);
            (done, bad)
        }));
    }
    // watchdog: a thread whose case does not return within 20 s
    {
        let states = states.clone();
        std::thread::spawn(move || {
            let mut last: Vec<u64> = vec![u64::MAX - 1; states.len()];
            let mut stale: Vec<u32> = vec![0; states.len()];
            loop {
                std::thread::sleep(std::time::Duration::from_secs(1));
                for (i, st) in states.iter().enumerate() {
                    let now = st.0.load(Ordering::Relaxed);
                    if now == last[i] && now != u64::MAX {
                        stale[i] += 1;
                    } else {
                        stale[i] = 0;
                        last[i] = now;
                    }
                    if stale[i] >= 20 {
                        let f = st.2.load(Ordering::Relaxed);
                        if f != 0 {
                            println!("HANG hrkey {} {}", (f - 1) >> 16, (f - 1) & 0xFFFF);
                        } else if let Ok(c) = st.1.lock() {
                            println!("HANG {c}");
                        }
                        std::process::exit(3);
                    }
                }
            }
        });
    }
    let mut total = 0;
    for h in handles {
        let (done, bad) = h.join().unwrap();
        total += done;
        for b in bad {
            println!("{b}");
        }
    }
    println!("SWEPT {total} BAD {}", bad_total.load(Ordering::Relaxed));
}
