//! Independent reference for the oracles: card layout, deck, a rules-of-poker five-card evaluator,
//! the 7462 hand classes with their names, and a splitmix64 generator. Nothing in this file calls
//! the crate under test or reads its lookup tables.

pub const PRIME: [u32; 13] = [2, 3, 5, 7, 11, 13, 17, 19, 23, 29, 31, 37, 41];

/// Card word of rank r (0 = deuce .. 12 = ace) and suit s (0 clubs, 1 diamonds, 2 hearts, 3 spades).
pub const fn layout(r: u32, s: u32) -> u32 {
    (1 << (16 + r)) | (1 << (12 + s)) | (r << 8) | PRIME[r as usize]
}
/// Deck order: spades, hearts, diamonds, clubs; each ace down to deuce.
pub const fn deck_rank(i: usize) -> u32 {
    12 - (i % 13) as u32
}
pub const fn deck_suit(i: usize) -> u32 {
    3 - (i / 13) as u32
}
pub const DECK: [u32; 52] = {
    let mut d = [0u32; 52];
    let mut i = 0;
    while i < 52 {
        d[i] = layout(deck_rank(i), deck_suit(i));
        i += 1;
    }
    d
};
/// Deck index of a word if it is one of the 52 card words.
pub fn card_index(w: u32) -> Option<usize> {
    let r = (w >> 8) & 15;
    let sb = (w >> 12) & 15;
    if r > 12 || sb.count_ones() != 1 {
        return None;
    }
    let s = sb.trailing_zeros();
    if w == layout(r, s) {
        Some(((3 - s) * 13 + (12 - r)) as usize)
    } else {
        None
    }
}
pub fn is_card(w: u32) -> bool {
    card_index(w).is_some()
}
/// Bit of a card in the 52-bit set representation (deck index i -> bit 51-i); 0 for non-cards.
pub fn card_bit(w: u32) -> u64 {
    card_index(w).map_or(0, |i| 1u64 << (51 - i))
}

// ---- splitmix64 -------------------------------------------------------------------------------
pub fn mix(a: u64, b: u64) -> u64 {
    let mut z = (a ^ b.wrapping_mul(0xD6E8_FEB8_6659_FD93)).wrapping_add(0x9E37_79B9_7F4A_7C15);
    z = (z ^ (z >> 30)).wrapping_mul(0xBF58_476D_1CE4_E5B9);
    z = (z ^ (z >> 27)).wrapping_mul(0x94D0_49BB_1331_11EB);
    z ^ (z >> 31)
}
pub struct Sm64(pub u64);
impl Sm64 {
    pub fn new(seed: u64) -> Self {
        Sm64(seed)
    }
    pub fn next(&mut self) -> u64 {
        self.0 = self.0.wrapping_add(0x9E37_79B9_7F4A_7C15);
        let mut z = self.0;
        z = (z ^ (z >> 30)).wrapping_mul(0xBF58_476D_1CE4_E5B9);
        z = (z ^ (z >> 27)).wrapping_mul(0x94D0_49BB_1331_11EB);
        z ^ (z >> 31)
    }
    pub fn below(&mut self, n: u64) -> u64 {
        ((u128::from(self.next()) * u128::from(n)) >> 64) as u64
    }
    pub fn pick<T: Copy>(&mut self, a: &[T]) -> T {
        a[self.below(a.len() as u64) as usize]
    }
    pub fn chance(&mut self, percent: u64) -> bool {
        self.below(100) < percent
    }
    pub fn shuffle<T>(&mut self, a: &mut [T]) {
        for i in (1..a.len()).rev() {
            let j = self.below(i as u64 + 1) as usize;
            a.swap(i, j);
        }
    }
}

// ---- rules-of-poker classification ------------------------------------------------------------
/// cat: 0 straight flush, 1 quads, 2 full house, 3 flush, 4 straight, 5 trips, 6 two pair, 7 pair,
/// 8 high card. tb: distinct ranks by (multiplicity desc, rank desc), zero padded; for straights
/// only the top card of the run (wheel: five). key: smaller = stronger.
#[derive(Clone, Copy, Debug, PartialEq, Eq)]
pub struct Class {
    pub key: u32,
    pub cat: u8,
    pub tb: [u8; 5],
}
const P13_5: u32 = 371_293;

pub fn classify(ranks: &[u8; 5], flush: bool) -> Class {
    let mut cnt = [0u8; 13];
    for &r in ranks {
        cnt[r as usize] += 1;
    }
    let mut g = [(0u8, 0u8); 5];
    let mut n = 0;
    for r in (0..13).rev() {
        if cnt[r] > 0 {
            g[n] = (cnt[r], r as u8);
            n += 1;
        }
    }
    g[..n].sort_by(|a, b| b.cmp(a));
    let straight_high = if n == 5 {
        let (hi, lo) = (g[0].1, g[4].1);
        if hi - lo == 4 {
            Some(hi)
        } else if hi == 12 && g[1].1 == 3 {
            Some(3) // A-5-4-3-2 plays five high
        } else {
            None
        }
    } else {
        None
    };
    let cat = match (straight_high, flush, g[0].0, g[1].0) {
        (Some(_), true, ..) => 0,
        (_, _, 4, _) => 1,
        (_, _, 3, 2) => 2,
        (None, true, ..) => 3,
        (Some(_), false, ..) => 4,
        (_, _, 3, _) => 5,
        (_, _, 2, 2) => 6,
        (_, _, 2, _) => 7,
        _ => 8,
    };
    let mut tb = [0u8; 5];
    if let Some(h) = straight_high {
        tb[0] = h;
    } else {
        for i in 0..n {
            tb[i] = g[i].1;
        }
    }
    let t = tb.iter().fold(0u32, |a, &d| a * 13 + u32::from(d));
    Class { key: u32::from(cat) * P13_5 + (P13_5 - 1 - t), cat, tb }
}

// ---- combinatorial index of five-card subsets -------------------------------------------------
const BIN: [[u32; 6]; 53] = {
    let mut b = [[0u32; 6]; 53];
    let mut n = 0;
    while n < 53 {
        b[n][0] = 1;
        let mut k = 1;
        while k < 6 {
            b[n][k] = if n == 0 { 0 } else { b[n - 1][k - 1] + b[n - 1][k] };
            k += 1;
        }
        n += 1;
    }
    b
};
pub const N5: usize = 2_598_960;
/// Colex index of deck indices c0 < c1 < c2 < c3 < c4.
#[inline]
pub fn colex5(c: &[usize]) -> usize {
    (BIN[c[0]][1] + BIN[c[1]][2] + BIN[c[2]][3] + BIN[c[3]][4] + BIN[c[4]][5]) as usize
}

pub struct Ref {
    /// the 7462 classes, strongest first: classes[v-1] has ordinal v
    pub classes: Vec<Class>,
    /// reference ordinal of every five-card subset, by colex index
    pub tab5: Vec<u16>,
}

impl Ref {
    pub fn build() -> Ref {
        let mut classes = Vec::new();
        for a in 0..13u8 {
            for b in a..13 {
                for c in b..13 {
                    for d in c..13 {
                        for e in d..13 {
                            if a == e {
                                continue; // five cards of one rank do not exist
                            }
                            let rk = [a, b, c, d, e];
                            classes.push(classify(&rk, false));
                            if a < b && b < c && c < d && d < e {
                                classes.push(classify(&rk, true));
                            }
                        }
                    }
                }
            }
        }
        classes.sort_by_key(|c| c.key);
        classes.dedup_by_key(|c| c.key);
        assert_eq!(classes.len(), 7462, "reference: number of hand classes");
        assert!(classes[0].cat == 0 && classes[0].tb[0] == 12, "reference: royal flush is 1");
        assert!(classes[7461].cat == 8 && classes[7461].tb == [5, 3, 2, 1, 0], "reference: 75432 is 7462");
        let keys: Vec<u32> = classes.iter().map(|c| c.key).collect();
        let mut tab5 = vec![0u16; N5];
        let mut seen = vec![false; 7463];
        for c0 in 0..52 {
            for c1 in c0 + 1..52 {
                for c2 in c1 + 1..52 {
                    for c3 in c2 + 1..52 {
                        for c4 in c3 + 1..52 {
                            let ix = [c0, c1, c2, c3, c4];
                            let rk = ix.map(|i| deck_rank(i) as u8);
                            let fl = ix.iter().all(|&i| deck_suit(i) == deck_suit(c0));
                            let k = classify(&rk, fl).key;
                            let ord = keys.binary_search(&k).expect("reference: class of a real hand") + 1;
                            tab5[colex5(&ix)] = ord as u16;
                            seen[ord] = true;
                        }
                    }
                }
            }
        }
        assert!(tab5.iter().all(|&v| v != 0), "reference: table complete");
        assert!(seen[1..].iter().all(|&s| s), "reference: every class is realised by some hand");
        Ref { classes, tab5 }
    }

    /// Best (smallest) five-card ordinal among the 5-subsets of 5, 6 or 7 ascending deck indices.
    #[inline]
    pub fn best(&self, c: &[usize]) -> u16 {
        let n = c.len();
        if n == 5 {
            return self.tab5[colex5(c)];
        }
        let mut best = u16::MAX;
        let mut s = [0usize; 5];
        for o1 in 0..n {
            let lim = if n == 6 { o1 + 1 } else { n };
            for o2 in (if n == 6 { o1 } else { o1 + 1 })..lim {
                let mut k = 0;
                for (i, &x) in c.iter().enumerate() {
                    if i != o1 && i != o2 {
                        s[k] = x;
                        k += 1;
                    }
                }
                best = best.min(self.tab5[colex5(&s)]);
            }
        }
        best
    }

    /// Same for distinct real card words in any order.
    pub fn best_of_words(&self, w: &[u32]) -> u16 {
        let mut ix: Vec<usize> = w.iter().map(|x| card_index(*x).expect("card word")).collect();
        ix.sort_unstable();
        self.best(&ix)
    }
}

// ---- names ------------------------------------------------------------------------------------
pub const SING: [&str; 13] =
    ["Deuce", "Trey", "Four", "Five", "Six", "Seven", "Eight", "Nine", "Ten", "Jack", "Queen", "King", "Ace"];
pub const PLUR: [&str; 13] = [
    "Deuces", "Treys", "Fours", "Fives", "Sixes", "Sevens", "Eights", "Nines", "Tens", "Jacks", "Queens", "Kings",
    "Aces",
];
pub const CAT_NAME: [&str; 9] =
    ["StraightFlush", "FourOfAKind", "FullHouse", "Flush", "Straight", "ThreeOfAKind", "TwoPair", "Pair", "HighCard"];
/// CardRank / CardSuit variant names by rank / suit number.
pub const RANK_ENUM: [&str; 13] =
    ["TWO", "THREE", "FOUR", "FIVE", "SIX", "SEVEN", "EIGHT", "NINE", "TEN", "JACK", "QUEEN", "KING", "ACE"];
pub const SUIT_ENUM: [&str; 4] = ["CLUBS", "DIAMONDS", "HEARTS", "SPADES"];

pub fn class_name(c: &Class) -> String {
    let (a, b) = (c.tb[0] as usize, c.tb[1] as usize);
    match c.cat {
        0 if a == 12 => "RoyalFlush".to_string(),
        0 => format!("{}HighStraightFlush", SING[a]),
        1 => format!("Four{}", PLUR[a]),
        2 => format!("{}Over{}", PLUR[a], PLUR[b]),
        3 => format!("{}HighFlush", SING[a]),
        4 => format!("{}HighStraight", SING[a]),
        5 => format!("Three{}", PLUR[a]),
        6 => format!("{}And{}", PLUR[a], PLUR[b]),
        7 => format!("PairOf{}", PLUR[a]),
        _ => format!("{}High", SING[a]),
    }
}
