//! `ckc-probe dump`: print the DATA of the implementation (tables, constants, finite function
//! graphs) in a line-oriented format that tools/gen_coq.py turns into coq/Gen/*.v.
//!
//! Line format:  `<section> <name> <n> v1 v2 ...`   (all numbers decimal)

use ckc_rs::cards::binary_card::{BinaryCard, BC64};
use ckc_rs::cards::five::Five;
use ckc_rs::cards::four::Four;
use ckc_rs::cards::seven::Seven;
use ckc_rs::cards::six::Six;
use ckc_rs::cards::two::Two;
use ckc_rs::deck::{Deck, DECK_SIZE, POKER_DECK};
use ckc_rs::hand_rank::{HandRank, HandRankClass, HandRankName, NO_HAND_RANK_VALUE};
use ckc_rs::verif_hooks as hk;
use ckc_rs::{evaluate, CKCNumber, CardNumber, CardRank, CardSuit, HandError, PokerCard, Shifty};
use std::fmt::Write as _;
use std::io::Write as _;
use strum::IntoEnumIterator;

fn line<T: std::fmt::Display>(out: &mut String, section: &str, name: &str, vals: &[T]) {
    let _ = write!(out, "{section} {name} {}", vals.len());
    for v in vals {
        let _ = write!(out, " {v}");
    }
    out.push('\n');
}

macro_rules! consts {
    ($out:expr, $sec:expr, $ty:ty, [$($name:ident),* $(,)?]) => {
        $( line($out, $sec, stringify!($name), &[<$ty>::$name as u128]); )*
    };
}

pub const CARD_NAMES: [&str; 52] = [
    "ACE_SPADES", "KING_SPADES", "QUEEN_SPADES", "JACK_SPADES", "TEN_SPADES", "NINE_SPADES", "EIGHT_SPADES",
    "SEVEN_SPADES", "SIX_SPADES", "FIVE_SPADES", "FOUR_SPADES", "TREY_SPADES", "DEUCE_SPADES", "ACE_HEARTS",
    "KING_HEARTS", "QUEEN_HEARTS", "JACK_HEARTS", "TEN_HEARTS", "NINE_HEARTS", "EIGHT_HEARTS", "SEVEN_HEARTS",
    "SIX_HEARTS", "FIVE_HEARTS", "FOUR_HEARTS", "TREY_HEARTS", "DEUCE_HEARTS", "ACE_DIAMONDS", "KING_DIAMONDS",
    "QUEEN_DIAMONDS", "JACK_DIAMONDS", "TEN_DIAMONDS", "NINE_DIAMONDS", "EIGHT_DIAMONDS", "SEVEN_DIAMONDS",
    "SIX_DIAMONDS", "FIVE_DIAMONDS", "FOUR_DIAMONDS", "TREY_DIAMONDS", "DEUCE_DIAMONDS", "ACE_CLUBS", "KING_CLUBS",
    "QUEEN_CLUBS", "JACK_CLUBS", "TEN_CLUBS", "NINE_CLUBS", "EIGHT_CLUBS", "SEVEN_CLUBS", "SIX_CLUBS", "FIVE_CLUBS",
    "FOUR_CLUBS", "TREY_CLUBS", "DEUCE_CLUBS",
];

pub fn rank_index(r: CardRank) -> usize {
    CardRank::iter().position(|x| x == r).unwrap()
}
pub fn suit_index(s: CardSuit) -> usize {
    CardSuit::iter().position(|x| x == s).unwrap()
}
pub fn name_index(n: HandRankName) -> usize {
    HandRankName::iter().position(|x| x == n).unwrap()
}
pub fn class_index(c: HandRankClass) -> usize {
    HandRankClass::iter().position(|x| x == c).unwrap()
}

pub const HAND_ERRORS: [HandError; 9] = [
    HandError::BlankCard,
    HandError::DuplicateCard,
    HandError::Incomplete,
    HandError::InvalidBinaryFormat,
    HandError::InvalidCard,
    HandError::InvalidCardCount,
    HandError::InvalidIndex,
    HandError::NotEnoughCards,
    HandError::TooManyCards,
];
pub fn hand_error_index(e: &HandError) -> usize {
    HAND_ERRORS.iter().position(|x| x == e).unwrap()
}

fn cmp_char(o: std::cmp::Ordering) -> char {
    match o {
        std::cmp::Ordering::Less => '<',
        std::cmp::Ordering::Equal => '=',
        std::cmp::Ordering::Greater => '>',
    }
}

/// Exhaustive scan of all 2^32 words with 16 threads. Returns the (w, filter w) pairs with a
/// non-blank image and the (w, from_ckc w) pairs with a non-empty image.
fn scan32() -> (Vec<(u32, u32)>, Vec<(u32, u64)>) {
    let threads = 16u64;
    let total: u64 = 1 << 32;
    let chunk = total / threads;
    let mut handles = Vec::new();
    for t in 0..threads {
        handles.push(std::thread::spawn(move || {
            let mut f = Vec::new();
            let mut b = Vec::new();
            let lo = t * chunk;
            let hi = if t == threads - 1 { total } else { lo + chunk };
            for w in lo..hi {
                let w = w as u32;
                let fw = CardNumber::filter(std::hint::black_box(w));
                if fw != 0 {
                    f.push((w, fw));
                }
                let fw2 = <CKCNumber as PokerCard>::filter(std::hint::black_box(w));
                if fw2 != fw {
                    // the two public spellings of the filter disagree: record both (never expected)
                    f.push((w, fw2));
                }
                let bw = BinaryCard::from_ckc(std::hint::black_box(w));
                if bw != 0 {
                    b.push((w, bw));
                }
            }
            (f, b)
        }));
    }
    let mut f = Vec::new();
    let mut b = Vec::new();
    for h in handles {
        let (ff, bb) = h.join().unwrap();
        f.extend(ff);
        b.extend(bb);
    }
    (f, b)
}

fn is_ws_set() -> Vec<u32> {
    let mut v = Vec::new();
    for c in 0u32..=0x10FFFF {
        if let Some(ch) = char::from_u32(c) {
            if ch.is_whitespace() {
                v.push(c);
            }
        }
    }
    v
}

#[allow(clippy::too_many_lines)]
pub fn dump() {
    let mut out = String::with_capacity(1 << 20);
    let o = &mut out;

    // ---- tables ----------------------------------------------------------------------------
    line(o, "TABLE", "FLUSHES", &hk::FLUSHES);
    line(o, "TABLE", "UNIQUE_5", &hk::UNIQUE_5);
    line(o, "TABLE", "PRODUCTS", &hk::PRODUCTS);
    line(o, "TABLE", "VALUES", &hk::VALUES);

    // ---- constants -------------------------------------------------------------------------
    consts!(o, "CONST_CN", CardNumber, [
        RANK_FLAG_FILTER, RANK_FLAG_SHIFT, RANK_PRIME_FILTER, SUIT_FILTER, SUIT_SHORT_MASK, SUIT_SHIFT,
        PAIR, TRIPS, QUADS, MULTIPLES_FILTER, BLANK,
        ACE_SPADES, KING_SPADES, QUEEN_SPADES, JACK_SPADES, TEN_SPADES, NINE_SPADES, EIGHT_SPADES,
        SEVEN_SPADES, SIX_SPADES, FIVE_SPADES, FOUR_SPADES, TREY_SPADES, DEUCE_SPADES, ACE_HEARTS,
        KING_HEARTS, QUEEN_HEARTS, JACK_HEARTS, TEN_HEARTS, NINE_HEARTS, EIGHT_HEARTS, SEVEN_HEARTS,
        SIX_HEARTS, FIVE_HEARTS, FOUR_HEARTS, TREY_HEARTS, DEUCE_HEARTS, ACE_DIAMONDS, KING_DIAMONDS,
        QUEEN_DIAMONDS, JACK_DIAMONDS, TEN_DIAMONDS, NINE_DIAMONDS, EIGHT_DIAMONDS, SEVEN_DIAMONDS,
        SIX_DIAMONDS, FIVE_DIAMONDS, FOUR_DIAMONDS, TREY_DIAMONDS, DEUCE_DIAMONDS, ACE_CLUBS, KING_CLUBS,
        QUEEN_CLUBS, JACK_CLUBS, TEN_CLUBS, NINE_CLUBS, EIGHT_CLUBS, SEVEN_CLUBS, SIX_CLUBS, FIVE_CLUBS,
        FOUR_CLUBS, TREY_CLUBS, DEUCE_CLUBS
    ]);
    consts!(o, "CONST_BC", BinaryCard, [
        BLANK, ALL, OVERFLOW, ACES, KINGS, QUEENS, JACKS, TENS, NINES, EIGHTS, SEVENS, SIXES, FIVES, FOURS,
        TREYS, DEUCES,
        ACE_SPADES, KING_SPADES, QUEEN_SPADES, JACK_SPADES, TEN_SPADES, NINE_SPADES, EIGHT_SPADES,
        SEVEN_SPADES, SIX_SPADES, FIVE_SPADES, FOUR_SPADES, TREY_SPADES, DEUCE_SPADES, ACE_HEARTS,
        KING_HEARTS, QUEEN_HEARTS, JACK_HEARTS, TEN_HEARTS, NINE_HEARTS, EIGHT_HEARTS, SEVEN_HEARTS,
        SIX_HEARTS, FIVE_HEARTS, FOUR_HEARTS, TREY_HEARTS, DEUCE_HEARTS, ACE_DIAMONDS, KING_DIAMONDS,
        QUEEN_DIAMONDS, JACK_DIAMONDS, TEN_DIAMONDS, NINE_DIAMONDS, EIGHT_DIAMONDS, SEVEN_DIAMONDS,
        SIX_DIAMONDS, FIVE_DIAMONDS, FOUR_DIAMONDS, TREY_DIAMONDS, DEUCE_DIAMONDS, ACE_CLUBS, KING_CLUBS,
        QUEEN_CLUBS, JACK_CLUBS, TEN_CLUBS, NINE_CLUBS, EIGHT_CLUBS, SEVEN_CLUBS, SIX_CLUBS, FIVE_CLUBS,
        FOUR_CLUBS, TREY_CLUBS, DEUCE_CLUBS
    ]);
    line(o, "CONST", "FIVE_POSSIBLE_COMBINATIONS", &[Five::POSSIBLE_COMBINATIONS]);
    line(o, "CONST", "FIVE_STRAIGHT_PADDING", &[Five::STRAIGHT_PADDING]);
    line(o, "CONST", "FIVE_WHEEL_OR_BITS", &[Five::WHEEL_OR_BITS]);
    line(o, "CONST", "EVALUATE_POSSIBLE_COMBINATIONS", &[evaluate::POSSIBLE_COMBINATIONS]);
    line(o, "CONST", "DECK_SIZE", &[DECK_SIZE]);
    line(o, "CONST", "DECK_LEN", &[Deck::len()]);
    line(o, "CONST", "NO_HAND_RANK_VALUE", &[NO_HAND_RANK_VALUE]);

    // ---- decks and preset tables -----------------------------------------------------------
    line(o, "LIST", "POKER_DECK", &POKER_DECK.arr());
    line(o, "LIST", "BC_DECK", &<BinaryCard as BC64>::DECK);
    let flat2 = |t: &[Two]| -> Vec<u32> { t.iter().flat_map(|x| x.to_arr()).collect() };
    line(o, "ROWS2", "TWO_AA", &flat2(&Two::AA));
    line(o, "ROWS2", "TWO_AK", &flat2(&Two::AK));
    line(o, "ROWS2", "TWO_AKs", &flat2(&Two::AKs));
    line(o, "ROWS2", "TWO_AKo", &flat2(&Two::AKo));
    line(o, "ROWS2", "TWO_AQs", &flat2(&Two::AQs));
    line(o, "ROWS2", "TWO_AQo", &flat2(&Two::AQo));
    let omaha: Vec<u8> = Four::OMAHA_PERMUTATIONS.iter().flatten().copied().collect();
    line(o, "ROWS2", "OMAHA_PERMUTATIONS", &omaha);
    let six: Vec<u8> = Six::FIVE_CARD_PERMUTATIONS.iter().flatten().copied().collect();
    line(o, "ROWS5", "SIX_PERMUTATIONS", &six);
    let seven: Vec<u8> = Seven::FIVE_CARD_PERMUTATIONS.iter().flatten().copied().collect();
    line(o, "ROWS5", "SEVEN_PERMUTATIONS", &seven);

    // ---- enums -----------------------------------------------------------------------------
    for (i, r) in CardRank::iter().enumerate() {
        let _ = writeln!(o, "ENUM CardRank {i} {r:?} {}", r as u32);
    }
    for (i, s) in CardSuit::iter().enumerate() {
        let _ = writeln!(o, "ENUM CardSuit {i} {s:?} {}", s as u32);
    }
    for (i, n) in HandRankName::iter().enumerate() {
        let _ = writeln!(o, "ENUM HandRankName {i} {n:?} {}", n as u32);
    }
    for (i, c) in HandRankClass::iter().enumerate() {
        let _ = writeln!(o, "ENUM HandRankClass {i} {c:?} {}", c as u32);
    }
    for (i, e) in HAND_ERRORS.iter().enumerate() {
        let _ = writeln!(o, "ENUM HandError {i} {e:?} {i}");
    }
    // observed derived order: for each variant, how many variants compare strictly below it, and
    // a consistency flag that the pairwise matrix is exactly the order of those positions
    {
        let names: Vec<HandRankName> = HandRankName::iter().collect();
        let pos: Vec<usize> = names.iter().map(|a| names.iter().filter(|b| *b < a).count()).collect();
        let mut consistent = true;
        for (i, a) in names.iter().enumerate() {
            for (j, b) in names.iter().enumerate() {
                consistent &= a.cmp(b) == pos[i].cmp(&pos[j]);
                consistent &= (a == b) == (i == j);
                consistent &= a.partial_cmp(b) == Some(a.cmp(b));
            }
        }
        line(o, "ORDER", "HandRankName", &pos);
        line(o, "ORDER_CONSISTENT", "HandRankName", &[u8::from(consistent)]);
        let classes: Vec<HandRankClass> = HandRankClass::iter().collect();
        let pos: Vec<usize> = classes.iter().map(|a| classes.iter().filter(|b| *b < a).count()).collect();
        let mut consistent = true;
        for (i, a) in classes.iter().enumerate() {
            for (j, b) in classes.iter().enumerate() {
                consistent &= a.cmp(b) == pos[i].cmp(&pos[j]);
                consistent &= (a == b) == (i == j);
                consistent &= a.partial_cmp(b) == Some(a.cmp(b));
            }
        }
        line(o, "ORDER", "HandRankClass", &pos);
        line(o, "ORDER_CONSISTENT", "HandRankClass", &[u8::from(consistent)]);
        let _ = cmp_char(std::cmp::Ordering::Equal);
    }

    // ---- per-rank / per-suit maps ----------------------------------------------------------
    let ranks: Vec<CardRank> = CardRank::iter().collect();
    let suits: Vec<CardSuit> = CardSuit::iter().collect();
    line(o, "RANKMAP", "number", &ranks.iter().map(|r| hk::rank_number(*r)).collect::<Vec<_>>());
    line(o, "RANKMAP", "prime", &ranks.iter().map(|r| hk::rank_prime(*r)).collect::<Vec<_>>());
    line(o, "RANKMAP", "bits", &ranks.iter().map(|r| hk::rank_bits(*r)).collect::<Vec<_>>());
    line(o, "RANKMAP", "shift8", &ranks.iter().map(|r| hk::rank_shift8(*r)).collect::<Vec<_>>());
    line(o, "SUITMAP", "binary_signature", &suits.iter().map(CardSuit::binary_signature).collect::<Vec<_>>());
    // create on all rank x suit pairs (row-major over the EnumIter order)
    let mut cr = Vec::new();
    for r in &ranks {
        for s in &suits {
            cr.push(<CKCNumber as PokerCard>::create(*r, *s));
        }
    }
    line(o, "GRID", "create", &cr);

    // field-domain graphs: rank-bit field f (13 bits) placed at bit 16; suit field (4 bits) at bit 12
    let mut g_rank = Vec::new();
    let mut g_rchar = Vec::new();
    let mut g_chen2 = Vec::new();
    for f in 0u32..(1 << 13) {
        let w: CKCNumber = f << 16;
        g_rank.push(rank_index(w.get_card_rank()));
        g_rchar.push(w.get_rank_char() as u32);
        g_chen2.push((w.get_chen_points() * 2.0) as i64);
    }
    line(o, "FIELD13", "get_card_rank", &g_rank);
    line(o, "FIELD13", "get_rank_char", &g_rchar);
    line(o, "FIELD13", "get_chen_points_x2", &g_chen2);
    let mut g_suit = Vec::new();
    let mut g_schar = Vec::new();
    let mut g_sletter = Vec::new();
    let mut g_next = Vec::new();
    for f in 0u32..16 {
        let w: CKCNumber = f << 12;
        g_suit.push(suit_index(w.get_card_suit()));
        g_schar.push(w.get_suit_char() as u32);
        g_sletter.push(w.get_suit_letter() as u32);
        g_next.push(suit_index(w.next_suit()));
    }
    line(o, "FIELD4", "get_card_suit", &g_suit);
    line(o, "FIELD4", "get_suit_char", &g_schar);
    line(o, "FIELD4", "get_suit_letter", &g_sletter);
    line(o, "FIELD4", "next_suit", &g_next);
    // shift_suit on the 52 cards and blank (a convenience graph; the logic is modelled)
    let mut sh = Vec::new();
    for c in POKER_DECK.arr() {
        sh.push(c.shift_suit());
    }
    sh.push(CardNumber::BLANK.shift_suit());
    line(o, "LIST", "SHIFT_DECK", &sh);

    // ---- 2^32 scans ------------------------------------------------------------------------
    let (f, b) = scan32();
    let mut fv = Vec::new();
    for (w, fw) in &f {
        fv.push(u64::from(*w));
        fv.push(u64::from(*fw));
    }
    line(o, "PAIRS", "filter_nonblank", &fv);
    let mut bv = Vec::new();
    for (w, bw) in &b {
        bv.push(u64::from(*w));
        bv.push(*bw);
    }
    line(o, "PAIRS", "from_ckc_nonblank", &bv);

    // ---- from_binary_card on all 64 single bits --------------------------------------------
    let mut fb = Vec::new();
    for i in 0..64u32 {
        fb.push(<CKCNumber as PokerCard>::from_binary_card(1u64 << i));
    }
    line(o, "LIST", "from_binary_card_single_bits", &fb);

    // ---- hand rank maps on all 65 536 values (run-length encoded: start value, variant) ------
    {
        let mut rle = Vec::new();
        let mut prev = usize::MAX;
        for v in 0u32..=65535 {
            let n = name_index(HandRank::determine_name(&(v as u16)));
            if n != prev {
                rle.push(v as usize);
                rle.push(n);
                prev = n;
            }
        }
        line(o, "RLE", "determine_name", &rle);
        let mut rle = Vec::new();
        let mut prev = usize::MAX;
        for v in 0u32..=65535 {
            let n = class_index(HandRank::determine_class(&(v as u16)));
            if n != prev {
                rle.push(v as usize);
                rle.push(n);
                prev = n;
            }
        }
        line(o, "RLE", "determine_class", &rle);
    }

    // ---- character graphs over all scalar values -------------------------------------------
    {
        let mut rk = Vec::new();
        let mut st = Vec::new();
        for c in 0u32..=0x10FFFF {
            if let Some(ch) = char::from_u32(c) {
                let r = CardRank::from_char(ch);
                if r != CardRank::BLANK {
                    rk.push(c as usize);
                    rk.push(rank_index(r));
                }
                let s = CardSuit::from_char(ch);
                if s != CardSuit::BLANK {
                    st.push(c as usize);
                    st.push(suit_index(s));
                }
            }
        }
        line(o, "PAIRS", "rank_from_char", &rk);
        line(o, "PAIRS", "suit_from_char", &st);
        line(o, "LIST", "whitespace", &is_ws_set());
    }

    std::io::stdout().write_all(out.as_bytes()).unwrap();
}
