//! `ckc-probe cases <family> ...`: enumerate big exhaustive case files quickly (the same
//! one-operation-per-line format tools/inputs.py writes for the seeded families).

/// The 52 card words in deck order (spades, hearts, diamonds, clubs; ace down to deuce), built from the documented
/// layout alone - NOT read from the implementation's deck, so that a defect of the deck cannot change the domain the
/// enumerations and sweeps run over (C10 / C18 prove that the implementation's deck is this list).
pub fn spec_deck() -> [u32; 52] {
    const PRIMES: [u32; 13] = [2, 3, 5, 7, 11, 13, 17, 19, 23, 29, 31, 37, 41];
    let mut d = [0u32; 52];
    let mut i = 0;
    for s in (0..4u32).rev() {
        for r in (0..13u32).rev() {
            d[i] = (1 << (16 + r)) | (1 << (12 + s)) | (r << 8) | PRIMES[r as usize];
            i += 1;
        }
    }
    d
}
use std::io::Write;

fn arg<'a>(args: &'a [String], key: &str) -> Option<&'a str> {
    args.iter().position(|a| a == key).and_then(|i| args.get(i + 1)).map(String::as_str)
}

/// Visit all k-subsets of 0..n in lexicographic order.
fn combos(n: usize, k: usize, mut f: impl FnMut(&[usize])) {
    let mut idx: Vec<usize> = (0..k).collect();
    loop {
        f(&idx);
        let mut i = k;
        while i > 0 && idx[i - 1] == n - k + i - 1 {
            i -= 1;
        }
        if i == 0 {
            return;
        }
        idx[i - 1] += 1;
        for j in i..k {
            idx[j] = idx[j - 1] + 1;
        }
    }
}

pub fn cases(args: &[String]) {
    let fam = args.first().map(String::as_str).unwrap_or("");
    let deck = spec_deck();
    let stdout = std::io::stdout();
    let mut w = std::io::BufWriter::with_capacity(1 << 20, stdout.lock());
    let stride: usize = arg(args, "--stride").map_or(1, |s| s.parse().unwrap());
    let offset: usize = arg(args, "--offset").map_or(0, |s| s.parse().unwrap());
    match fam {
        // all C(52,k) hands in deck order, prefix given by --op (e.g. "rank 5", "pred5")
        "hands" => {
            let k: usize = arg(args, "--k").unwrap().parse().unwrap();
            let op = arg(args, "--op").unwrap();
            let mut c = 0usize;
            combos(52, k, |idx| {
                if c % stride == offset {
                    write!(w, "{op}").unwrap();
                    for i in idx {
                        write!(w, " {}", deck[*i]).unwrap();
                    }
                    writeln!(w).unwrap();
                }
                c += 1;
            });
        },
        // all ordered pairs of distinct deck cards
        "pairs" => {
            let op = arg(args, "--op").unwrap();
            for a in 0..52 {
                for b in 0..52 {
                    if a != b {
                        writeln!(w, "{op} {} {}", deck[a], deck[b]).unwrap();
                    }
                }
            }
        },
        // all k-multisets over {52 deck cards, blank} (non-decreasing alphabet index), op prefix --op
        "multisets" => {
            let k: usize = arg(args, "--k").unwrap().parse().unwrap();
            let op = arg(args, "--op").unwrap();
            let mut alpha: Vec<u32> = deck.to_vec();
            alpha.push(0);
            let n = alpha.len();
            let mut idx = vec![0usize; k];
            let mut c = 0usize;
            loop {
                if c % stride == offset {
                    write!(w, "{op}").unwrap();
                    for i in &idx {
                        write!(w, " {}", alpha[*i]).unwrap();
                    }
                    writeln!(w).unwrap();
                }
                c += 1;
                let mut i = k;
                while i > 0 && idx[i - 1] == n - 1 {
                    i -= 1;
                }
                if i == 0 {
                    break;
                }
                idx[i - 1] += 1;
                for j in i..k {
                    idx[j] = idx[i - 1];
                }
            }
        },
        // every Unicode scalar value as the FIRST character of a card token (followed by 'S') and as the SECOND
        // (after 'A'): the token-level symbol tables, exhaustively, through the real parse path
        "scalars" => {
            let op = arg(args, "--op").unwrap();
            for c in 0u32..=0x10FFFF {
                if char::from_u32(c).is_some() {
                    writeln!(w, "{op} {c} 83").unwrap();
                    writeln!(w, "{op} 65 {c}").unwrap();
                }
            }
        },
        _ => {
            eprintln!("unknown case family {fam}");
            std::process::exit(2);
        },
    }
    w.flush().unwrap();
}
