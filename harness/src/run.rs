//! `ckc-probe run`: read one operation per line from stdin, call the real crate, print one result
//! line per case. Every call that may unwind is wrapped in `catch_unwind` and reported as `P`.
//! The same case files are executed by the extracted Coq model (ocaml/modelrun) and the outputs
//! are compared textually.
#![allow(deprecated)]

use crate::dump::{class_index, hand_error_index, name_index, rank_index, suit_index};
use ckc_rs::cards::binary_card::{BinaryCard, BC64};
use ckc_rs::cards::five::Five;
use ckc_rs::cards::four::Four;
use ckc_rs::cards::seven::Seven;
use ckc_rs::cards::six::Six;
use ckc_rs::cards::three::Three;
use ckc_rs::cards::two::Two;
use ckc_rs::cards::{HandRanker, HandValidator, Permutator};
use ckc_rs::deck::Deck;
use ckc_rs::hand_rank::{HandRank, HandRankName};
use ckc_rs::{evaluate, parse, CKCNumber, CardNumber, CardRank, CardSuit, PokerCard, Shifty};
use std::fmt::Write as _;
use std::io::{BufRead, Write};
use std::panic::{catch_unwind, AssertUnwindSafe};
use strum::IntoEnumIterator;

fn guard<T>(f: impl FnOnce() -> T) -> Option<T> {
    catch_unwind(AssertUnwindSafe(f)).ok()
}

fn b(x: bool) -> u8 {
    u8::from(x)
}

fn push_opt<T: std::fmt::Display>(o: &mut String, v: Option<T>) {
    match v {
        Some(x) => {
            let _ = write!(o, " {x}");
        },
        None => o.push_str(" P"),
    }
}

fn hr_str(h: &HandRank) -> String {
    format!("{} {} {}", h.value, name_index(h.name), class_index(h.class))
}

fn words(a: &[u32]) -> String {
    a.iter().map(u32::to_string).collect::<Vec<_>>().join(" ")
}

fn scalars_to_string(a: &[u64]) -> String {
    a.iter().map(|c| char::from_u32(*c as u32).expect("scalar value")).collect()
}

fn leak(s: String) -> &'static str {
    Box::leak(s.into_boxed_str())
}

fn ord_code(o: std::cmp::Ordering) -> i8 {
    match o {
        std::cmp::Ordering::Less => -1,
        std::cmp::Ordering::Equal => 0,
        std::cmp::Ordering::Greater => 1,
    }
}

fn a2(v: &[u64]) -> [u32; 2] {
    [v[0] as u32, v[1] as u32]
}
fn a3(v: &[u64]) -> [u32; 3] {
    [v[0] as u32, v[1] as u32, v[2] as u32]
}
fn a4(v: &[u64]) -> [u32; 4] {
    [v[0] as u32, v[1] as u32, v[2] as u32, v[3] as u32]
}
fn a5(v: &[u64]) -> [u32; 5] {
    [v[0] as u32, v[1] as u32, v[2] as u32, v[3] as u32, v[4] as u32]
}
fn a6(v: &[u64]) -> [u32; 6] {
    [v[0] as u32, v[1] as u32, v[2] as u32, v[3] as u32, v[4] as u32, v[5] as u32]
}
fn a7(v: &[u64]) -> [u32; 7] {
    [v[0] as u32, v[1] as u32, v[2] as u32, v[3] as u32, v[4] as u32, v[5] as u32, v[6] as u32]
}

/// Apply `$body` to the hand container of size `$n` built from `$v` (bound to `$h`).
macro_rules! with_hand {
    ($n:expr, $v:expr, $h:ident, $body:expr) => {
        match $n {
            2 => {
                let $h = Two::from(a2($v));
                $body
            },
            3 => {
                let $h = Three::from(a3($v));
                $body
            },
            4 => {
                let $h = Four::from(a4($v));
                $body
            },
            5 => {
                let $h = Five::from(a5($v));
                $body
            },
            6 => {
                let $h = Six::from(a6($v));
                $body
            },
            7 => {
                let $h = Seven::from(a7($v));
                $body
            },
            _ => panic!("bad hand size"),
        }
    };
}

fn rank_ops<H: HandRanker + HandValidator>(h: &H, o: &mut String) {
    push_opt(o, guard(|| h.hand_rank_value()));
    push_opt(o, guard(|| hr_str(&h.hand_rank())));
    push_opt(
        o,
        guard(|| {
            let (v, f) = h.hand_rank_value_and_hand();
            format!("{v} {}", words(&f.to_arr()))
        }),
    );
    push_opt(o, guard(|| h.hand_rank_value_validated()));
    push_opt(o, guard(|| hr_str(&h.hand_rank_validated())));
}

fn acc_arr(n: usize, v: &[u64]) -> String {
    // read the container back three ways: to_arr, accessors, iter
    match n {
        2 => {
            let h = Two::from(a2(v));
            format!(
                "{} | {} {} | {}",
                words(&h.to_arr()),
                h.first(),
                h.second(),
                words(&h.iter().copied().collect::<Vec<_>>())
            )
        },
        3 => {
            let h = Three::from(a3(v));
            format!(
                "{} | {} {} {} | {}",
                words(&h.to_arr()),
                h.first(),
                h.second(),
                h.third(),
                words(&h.iter().copied().collect::<Vec<_>>())
            )
        },
        4 => {
            let h = Four::from(a4(v));
            format!(
                "{} | {} {} {} {} | {}",
                words(&h.to_arr()),
                h.first(),
                h.second(),
                h.third(),
                h.forth(),
                words(&h.iter().copied().collect::<Vec<_>>())
            )
        },
        5 => {
            let h = Five::from(a5(v));
            format!(
                "{} | {} {} {} {} {} | {}",
                words(&h.to_arr()),
                h.first(),
                h.second(),
                h.third(),
                h.forth(),
                h.fifth(),
                words(&h.iter().copied().collect::<Vec<_>>())
            )
        },
        6 => {
            let h = Six::from(a6(v));
            format!(
                "{} | {} {} {} {} {} {} | {}",
                words(&h.to_arr()),
                h.first(),
                h.second(),
                h.third(),
                h.forth(),
                h.fifth(),
                h.sixth(),
                words(&h.iter().copied().collect::<Vec<_>>())
            )
        },
        7 => {
            let h = Seven::from(a7(v));
            format!(
                "{} | {} {} {} {} {} {} {} | {}",
                words(&h.to_arr()),
                h.first(),
                h.second(),
                h.third(),
                h.forth(),
                h.fifth(),
                h.sixth(),
                h.seventh(),
                words(&h.iter().copied().collect::<Vec<_>>())
            )
        },
        _ => panic!("bad size"),
    }
}

/// Container history: state is a Vec of words kept *inside the real container* after every step.
fn hist(n: usize, toks: &[&str]) -> String {
    let mut o = String::new();
    let mut cur: Vec<u64> = vec![0; n];
    let mut i = 0;
    let num = |s: &str| s.parse::<u64>().expect("number");
    while i < toks.len() {
        match toks[i] {
            "default" => {
                cur = with_hand_default(n);
                i += 1;
            },
            "arr" => {
                let v: Vec<u64> = toks[i + 1..=i + n].iter().map(|s| num(s)).collect();
                cur = with_hand!(n, &v, h, h.to_arr().iter().map(|x| u64::from(*x)).collect());
                i += 1 + n;
            },
            "new" => {
                let v: Vec<u64> = toks[i + 1..=i + n].iter().map(|s| num(s)).collect();
                cur = match n {
                    2 => Two::new(v[0] as u32, v[1] as u32).to_arr().iter().map(|x| u64::from(*x)).collect(),
                    5 => Five::new(v[0] as u32, v[1] as u32, v[2] as u32, v[3] as u32, v[4] as u32)
                        .to_arr()
                        .iter()
                        .map(|x| u64::from(*x))
                        .collect(),
                    6 => Six::from_1_and_2_and_3(v[0] as u32, Two::from(a2(&v[1..3])), Three::from(a3(&v[3..6])))
                        .to_arr()
                        .iter()
                        .map(|x| u64::from(*x))
                        .collect(),
                    7 => Seven::new(Two::from(a2(&v[0..2])), Five::from(a5(&v[2..7])))
                        .to_arr()
                        .iter()
                        .map(|x| u64::from(*x))
                        .collect(),
                    3 => Three(a3(&v)).to_arr().iter().map(|x| u64::from(*x)).collect(),
                    _ => with_hand!(n, &v, h, h.to_arr().iter().map(|x| u64::from(*x)).collect()),
                };
                i += 1 + n;
            },
            "refarr" => {
                // Two::from(&[..]) exists only for Two; other sizes fall back to the by-value form
                let v: Vec<u64> = toks[i + 1..=i + n].iter().map(|s| num(s)).collect();
                cur = if n == 2 {
                    Two::from(&a2(&v)).to_arr().iter().map(|x| u64::from(*x)).collect()
                } else {
                    with_hand!(n, &v, h, h.to_arr().iter().map(|x| u64::from(*x)).collect())
                };
                i += 1 + n;
            },
            "set" => {
                let slot = num(toks[i + 1]) as usize;
                let w = num(toks[i + 2]) as u32;
                cur = set_slot(n, &cur, slot, w);
                i += 3;
            },
            t => panic!("bad hist token {t}"),
        }
        let _ = write!(o, " ; {}", acc_arr(n, &cur));
    }
    o
}

fn with_hand_default(n: usize) -> Vec<u64> {
    match n {
        2 => Two::default().to_arr().iter().map(|x| u64::from(*x)).collect(),
        3 => Three::default().to_arr().iter().map(|x| u64::from(*x)).collect(),
        4 => Four::default().to_arr().iter().map(|x| u64::from(*x)).collect(),
        5 => Five::default().to_arr().iter().map(|x| u64::from(*x)).collect(),
        6 => Six::default().to_arr().iter().map(|x| u64::from(*x)).collect(),
        7 => Seven::default().to_arr().iter().map(|x| u64::from(*x)).collect(),
        _ => panic!("bad size"),
    }
}

macro_rules! setter {
    ($h:ident, $slot:expr, $w:expr, [$($i:expr => $m:ident),*]) => {
        match $slot { $( $i => $h.$m($w), )* _ => panic!("bad slot") }
    };
}

fn set_slot(n: usize, cur: &[u64], slot: usize, w: u32) -> Vec<u64> {
    let r: Vec<u32> = match n {
        2 => {
            let mut h = Two::from(a2(cur));
            setter!(h, slot, w, [0 => set_first, 1 => set_second]);
            h.to_arr().to_vec()
        },
        3 => {
            let mut h = Three::from(a3(cur));
            setter!(h, slot, w, [0 => set_first, 1 => set_second, 2 => set_third]);
            h.to_arr().to_vec()
        },
        4 => {
            let mut h = Four::from(a4(cur));
            setter!(h, slot, w, [0 => set_first, 1 => set_second, 2 => set_third, 3 => set_forth]);
            h.to_arr().to_vec()
        },
        5 => {
            let mut h = Five::from(a5(cur));
            setter!(h, slot, w, [0 => set_first, 1 => set_second, 2 => set_third, 3 => set_forth, 4 => set_fifth]);
            h.to_arr().to_vec()
        },
        6 => {
            let mut h = Six::from(a6(cur));
            setter!(h, slot, w, [0 => set_first, 1 => set_second, 2 => set_third, 3 => set_forth, 4 => set_fifth, 5 => set_sixth]);
            h.to_arr().to_vec()
        },
        7 => {
            let mut h = Seven::from(a7(cur));
            setter!(h, slot, w, [0 => set_first, 1 => set_second, 2 => set_third, 3 => set_forth, 4 => set_fifth, 5 => set_sixth, 6 => set_seventh]);
            h.to_arr().to_vec()
        },
        _ => panic!("bad size"),
    };
    r.iter().map(|x| u64::from(*x)).collect()
}

fn parse_hand(n: usize, s: &'static str) -> Option<Vec<u32>> {
    match n {
        2 => Two::try_from(s).ok().map(|h| h.to_arr().to_vec()),
        3 => Three::try_from(s).ok().map(|h| h.to_arr().to_vec()),
        4 => Four::try_from(s).ok().map(|h| h.to_arr().to_vec()),
        5 => Five::try_from(s).ok().map(|h| h.to_arr().to_vec()),
        6 => Six::try_from(s).ok().map(|h| h.to_arr().to_vec()),
        7 => Seven::try_from(s).ok().map(|h| h.to_arr().to_vec()),
        _ => panic!("bad size"),
    }
}

fn parse_hand_err(n: usize, s: &'static str) -> Option<usize> {
    match n {
        2 => Two::try_from(s).err().map(|e| hand_error_index(&e)),
        3 => Three::try_from(s).err().map(|e| hand_error_index(&e)),
        4 => Four::try_from(s).err().map(|e| hand_error_index(&e)),
        5 => Five::try_from(s).err().map(|e| hand_error_index(&e)),
        6 => Six::try_from(s).err().map(|e| hand_error_index(&e)),
        7 => Seven::try_from(s).err().map(|e| hand_error_index(&e)),
        _ => panic!("bad size"),
    }
}

/// C07 over a pair of values: does cmp agree with what the property fixes (stronger = lower valid value is Greater;
/// invalid below valid; two invalid ranks: Equal iff same value, antisymmetric); do == and != agree with the values and
/// with cmp; do partial_cmp and the four operators agree with cmp?
pub fn hrkey_bits(a: u16, b: u16) -> (bool, bool, bool) {
    hrkey_bits_of(&HandRank::from(a), &HandRank::from(b), a, b)
}

/// the same on two ranks already converted from `a` and `b` (the all-pairs sweep converts each value once)
pub fn hrkey_bits_of(x: &HandRank, y: &HandRank, a: u16, b: u16) -> (bool, bool, bool) {
    use std::cmp::Ordering::{Equal, Greater, Less};
    let inval = |v: u16| v == 0 || v > 7462;
    let c = x.cmp(y);
    let spec_ok = match (inval(a), inval(b)) {
        (false, false) => c == b.cmp(&a),
        (true, false) => c == Less,
        (false, true) => c == Greater,
        (true, true) => (c == Equal) == (a == b) && y.cmp(x) == c.reverse(),
    };
    let eq_ok = (x == y) == (a == b) && (x != y) == (a != b) && (c == Equal) == (x == y);
    let ops_ok = x.partial_cmp(y) == Some(c)
        && (x < y) == (c == Less)
        && (x <= y) == (c != Greater)
        && (x > y) == (c == Greater)
        && (x >= y) == (c != Less);
    (spec_ok, eq_ok, ops_ok)
}

#[allow(clippy::too_many_lines)]
pub fn exec(lineno: usize, l: &str) -> String {
    let toks: Vec<&str> = l.split_ascii_whitespace().collect();
    let op = toks[0];
    let nums = || -> Vec<u64> {
        toks[1..].iter().map(|s| s.parse::<u64>().unwrap_or_else(|_| panic!("line {lineno}: bad number {s}"))).collect()
    };
    let mut o = String::new();
    match op {
        "filter" => {
            let w = nums()[0] as u32;
            let _ = write!(o, " {} {}", CardNumber::filter(w), <CKCNumber as PokerCard>::filter(w));
        },
        "create" => {
            let v = nums();
            let r = CardRank::iter().nth(v[0] as usize).unwrap();
            let s = CardSuit::iter().nth(v[1] as usize).unwrap();
            let _ = write!(o, " {}", <CKCNumber as PokerCard>::create(r, s));
        },
        "acc" => {
            let w = nums()[0] as u32;
            let _ = write!(
                o,
                " {} {} {} {} {} {} {} {} {} {} {} {} {} {}",
                rank_index(w.get_card_rank()),
                suit_index(w.get_card_suit()),
                w.get_rank_prime(),
                w.get_rank_bit(),
                w.get_rank_flag(),
                w.get_suit_bit(),
                w.get_suit_flag(),
                w.get_rank_char() as u32,
                w.get_suit_char() as u32,
                w.get_suit_letter() as u32,
                b(w.is_blank()),
                (w.get_chen_points() * 2.0) as i64,
                suit_index(w.next_suit()),
                w.as_u32()
            );
        },
        // projection for C10 / C20: the field and character accessors only
        "accf" => {
            let w = nums()[0] as u32;
            let _ = write!(
                o,
                " {} {} {} {} {} {} {} {} {} {} {} {}",
                rank_index(w.get_card_rank()),
                suit_index(w.get_card_suit()),
                w.get_rank_prime(),
                w.get_rank_bit(),
                w.get_rank_flag(),
                w.get_suit_bit(),
                w.get_suit_flag(),
                w.get_rank_char() as u32,
                w.get_suit_char() as u32,
                w.get_suit_letter() as u32,
                b(w.is_blank()),
                w.as_u32()
            );
        },
        // projection for C17: the per-card high-card points only (doubled)
        "accp" => {
            let w = nums()[0] as u32;
            let _ = write!(o, " {}", (w.get_chen_points() * 2.0) as i64);
        },
        "flags" => {
            let w = nums()[0] as u32;
            let _ = write!(
                o,
                " {} {} {} {}",
                w.flag_as_pair(),
                w.flag_as_trips(),
                w.flag_as_quads(),
                w.strip_multiples_flags()
            );
        },
        "shift" => {
            let w = nums()[0] as u32;
            let _ = write!(o, " {}", w.shift_suit());
        },
        "fromckc" => {
            let w = nums()[0] as u32;
            let _ = write!(o, " {}", BinaryCard::from_ckc(w));
        },
        "frombc" => {
            let v = nums()[0];
            let _ = write!(o, " {}", <CKCNumber as PokerCard>::from_binary_card(v));
        },
        "deckget" => {
            let i = nums()[0] as usize;
            push_opt(&mut o, guard(|| Deck::get(i)));
        },
        "valid" => {
            let v = nums();
            let n = v[0] as usize;
            with_hand!(n, &v[1..], h, {
                push_opt(&mut o, guard(|| b(h.is_valid())));
                push_opt(&mut o, guard(|| b(h.is_corrupt())));
                push_opt(&mut o, guard(|| b(h.are_unique())));
                push_opt(&mut o, guard(|| b(h.contain_blank())));
            });
        },
        // projection for C04: only "is the hand reported valid?" (the property does not fix the helper predicates)
        "isvalid" => {
            let v = nums();
            let n = v[0] as usize;
            with_hand!(n, &v[1..], h, {
                push_opt(&mut o, guard(|| b(h.is_valid())));
            });
        },
        "rank" => {
            let v = nums();
            let n = v[0] as usize;
            match n {
                5 => {
                    let h = Five::from(a5(&v[1..]));
                    rank_ops(&h, &mut o);
                    push_opt(&mut o, guard(|| evaluate::five_cards(a5(&v[1..]))));
                },
                6 => rank_ops(&Six::from(a6(&v[1..])), &mut o),
                7 => rank_ops(&Seven::from(a7(&v[1..])), &mut o),
                _ => panic!("bad size"),
            }
        },
        // projection for C06: the rank records reported for a hand (value, name, class), not the reported cards
        "hrank" => {
            let v = nums();
            let n = v[0] as usize;
            fn hh<H: HandRanker + HandValidator>(h: &H, o: &mut String) {
                push_opt(o, guard(|| hr_str(&h.hand_rank())));
                push_opt(o, guard(|| hr_str(&h.hand_rank_validated())));
            }
            match n {
                5 => hh(&Five::from(a5(&v[1..])), &mut o),
                6 => hh(&Six::from(a6(&v[1..])), &mut o),
                7 => hh(&Seven::from(a7(&v[1..])), &mut o),
                _ => panic!("bad size"),
            }
        },
        // projection for C02 / C09: values only (no reported hand)
        "rankv" => {
            let v = nums();
            let n = v[0] as usize;
            fn vals<H: HandRanker + HandValidator>(h: &H, o: &mut String) {
                push_opt(o, guard(|| h.hand_rank_value()));
                push_opt(o, guard(|| h.hand_rank().value));
                push_opt(o, guard(|| h.hand_rank_value_and_hand().0));
                push_opt(o, guard(|| h.hand_rank_value_validated()));
                push_opt(o, guard(|| h.hand_rank_validated().value));
            }
            match n {
                5 => {
                    vals(&Five::from(a5(&v[1..])), &mut o);
                    push_opt(&mut o, guard(|| evaluate::five_cards(a5(&v[1..]))));
                },
                6 => vals(&Six::from(a6(&v[1..])), &mut o),
                7 => vals(&Seven::from(a7(&v[1..])), &mut o),
                _ => panic!("bad size"),
            }
        },
        // projection for C02: does every entry point of a six/seven-slot hand return the best (lowest non-zero)
        // value among its five-slot sub-hands, each ranked on its own as a Five?
        "best" => {
            let v = nums();
            let n = v[0] as usize;
            let ws = &v[1..];
            let m = guard(|| {
                let mut m = 0u16;
                let mut idx = [0usize, 1, 2, 3, 4];
                loop {
                    let five = [ws[idx[0]], ws[idx[1]], ws[idx[2]], ws[idx[3]], ws[idx[4]]];
                    let x = Five::from(a5(&five)).hand_rank_value();
                    if x != 0 && (m == 0 || x < m) {
                        m = x;
                    }
                    let mut i = 5;
                    while i > 0 && idx[i - 1] == n - 5 + i - 1 {
                        i -= 1;
                    }
                    if i == 0 {
                        break;
                    }
                    idx[i - 1] += 1;
                    for j in i..5 {
                        idx[j] = idx[j - 1] + 1;
                    }
                }
                m
            });
            fn eqs<H: HandRanker + HandValidator>(h: &H, m: Option<u16>, o: &mut String) {
                push_opt(o, guard(|| b(Some(h.hand_rank_value()) == m)));
                push_opt(o, guard(|| b(Some(h.hand_rank().value) == m)));
                push_opt(o, guard(|| b(Some(h.hand_rank_value_and_hand().0) == m)));
                push_opt(o, guard(|| b(Some(h.hand_rank_value_validated()) == m)));
                push_opt(o, guard(|| b(Some(h.hand_rank_validated().value) == m)));
            }
            match n {
                6 => eqs(&Six::from(a6(ws)), m, &mut o),
                7 => eqs(&Seven::from(a7(ws)), m, &mut o),
                _ => panic!("bad size"),
            }
        },
        // projection for C04: validity and the validated entry points, for arbitrary words
        "vrank" => {
            let v = nums();
            let n = v[0] as usize;
            // valid? | validated value is 0? | hand_rank_validated carries the validated value? |
            // (valid hands only) validated value == unvalidated value?
            fn vv<H: HandRanker + HandValidator>(h: &H, o: &mut String) -> Option<u16> {
                let valid = guard(|| h.is_valid());
                push_opt(o, valid.map(b));
                let val = guard(|| h.hand_rank_value_validated());
                push_opt(o, val.map(|x| b(x == 0)));
                push_opt(o, guard(|| b(Some(h.hand_rank_validated().value) == val)));
                if valid == Some(true) {
                    push_opt(o, guard(|| b(Some(h.hand_rank_value()) == val)));
                }
                val
            }
            match n {
                5 => {
                    let val = vv(&Five::from(a5(&v[1..])), &mut o);
                    push_opt(&mut o, guard(|| b(Some(evaluate::five_cards(a5(&v[1..]))) == val)));
                },
                6 => {
                    vv(&Six::from(a6(&v[1..])), &mut o);
                },
                7 => {
                    vv(&Seven::from(a7(&v[1..])), &mut o);
                },
                _ => panic!("bad size"),
            }
        },
        // projection for C03: is the reported hand a sorted witness? (for five: is it the input?)
        "wit" => {
            let v = nums();
            let n = v[0] as usize;
            let input: Vec<u32> = v[1..].iter().map(|x| *x as u32).collect();
            let r = match n {
                5 => guard(|| Five::from(a5(&v[1..])).hand_rank_value_and_hand()),
                6 => guard(|| Six::from(a6(&v[1..])).hand_rank_value_and_hand()),
                7 => guard(|| Seven::from(a7(&v[1..])).hand_rank_value_and_hand()),
                _ => panic!("bad size"),
            };
            match r {
                None => o.push_str("P"),
                Some((val, hand)) => {
                    let h = hand.to_arr();
                    if n == 5 {
                        let _ = write!(o, "{}", b(h.to_vec() == input));
                    } else {
                        let from_input = h.iter().all(|c| input.contains(c));
                        let distinct = (0..5).all(|i| (i + 1..5).all(|j| h[i] != h[j]));
                        let desc = h.windows(2).all(|w| w[0] >= w[1]);
                        let re = guard(|| hand.hand_rank_value());
                        let _ = write!(o, "{} {} {} {}", b(from_input), b(distinct), b(desc), b(re == Some(val)));
                    }
                },
            }
        },
        // projection for C08: is the value unchanged by one, two and three suit shifts?
        "shiftinv" => {
            let v = nums();
            let n = v[0] as usize;
            macro_rules! inv {
                ($h:expr) => {{
                    let h0 = $h;
                    let v0 = guard(|| h0.hand_rank_value());
                    let h1 = h0.shift_suit();
                    let h2 = h1.shift_suit();
                    let h3 = h2.shift_suit();
                    let w0 = guard(|| h0.hand_rank_value_validated());
                    for h in [h1, h2, h3] {
                        push_opt(&mut o, guard(|| b(Some(h.hand_rank_value()) == v0)));
                        push_opt(&mut o, guard(|| b(Some(h.hand_rank_value_validated()) == w0)));
                    }
                    push_opt(&mut o, Some(b(h3.shift_suit().to_arr() == h0.to_arr())));
                }};
            }
            match n {
                5 => inv!(Five::from(a5(&v[1..]))),
                6 => inv!(Six::from(a6(&v[1..]))),
                7 => inv!(Seven::from(a7(&v[1..]))),
                _ => panic!("bad size"),
            }
        },
        // projection for C01: do all six five-card entry points return the same in-range value for all 120 slot orders?
        "perm5" => {
            let v = nums();
            let r = guard(|| {
                let v0 = Five::from(a5(&v)).hand_rank_value();
                let mut same = true;
                let mut p = [0usize, 1, 2, 3, 4];
                let mut c = [0usize; 5];
                let mut i = 0;
                let mut check = |p: &[usize; 5]| {
                    let w = [v[p[0]], v[p[1]], v[p[2]], v[p[3]], v[p[4]]];
                    let h = Five::from(a5(&w));
                    same &= h.hand_rank_value() == v0
                        && h.hand_rank().value == v0
                        && h.hand_rank_value_and_hand().0 == v0
                        && h.hand_rank_value_validated() == v0
                        && h.hand_rank_validated().value == v0
                        && evaluate::five_cards(a5(&w)) == v0;
                };
                check(&p);
                while i < 5 {
                    if c[i] < i {
                        if i % 2 == 0 { p.swap(0, i) } else { p.swap(c[i], i) }
                        check(&p);
                        c[i] += 1;
                        i = 0;
                    } else {
                        c[i] = 0;
                        i += 1;
                    }
                }
                format!("{} {}", b(same), b((1..=7462).contains(&v0)))
            });
            push_opt(&mut o, r);
        },
        // projection for C09 (validated entry points): is the validated value the plain value?
        "vsame" => {
            let v = nums();
            let n = v[0] as usize;
            fn vs<H: HandRanker + HandValidator>(h: &H, o: &mut String) {
                push_opt(o, guard(|| b(h.hand_rank_value_validated() == h.hand_rank_value() && h.hand_rank_validated().value == h.hand_rank_value())));
            }
            match n {
                5 => vs(&Five::from(a5(&v[1..])), &mut o),
                6 => vs(&Six::from(a6(&v[1..])), &mut o),
                7 => vs(&Seven::from(a7(&v[1..])), &mut o),
                _ => panic!("bad size"),
            }
        },
        // projection for C06 on hands that need not be valid: the VALIDATED rank record, and whether the plain record is
        // the conversion of the plain value (what value an invalid hand gets from the plain path is left open)
        "hrankv" => {
            let v = nums();
            let n = v[0] as usize;
            fn hv<H: HandRanker + HandValidator>(h: &H, o: &mut String) {
                push_opt(o, guard(|| hr_str(&h.hand_rank_validated())));
                push_opt(o, guard(|| b(h.hand_rank() == HandRank::from(h.hand_rank_value()))));
            }
            match n {
                5 => hv(&Five::from(a5(&v[1..])), &mut o),
                6 => hv(&Six::from(a6(&v[1..])), &mut o),
                7 => hv(&Seven::from(a7(&v[1..])), &mut o),
                _ => panic!("bad size"),
            }
        },
        // projection for C06: is the rank record reported for a hand the conversion of the hand's value (plain and
        // validated), and not Invalid?
        "hrself" => {
            let v = nums();
            let n = v[0] as usize;
            fn hs<H: HandRanker + HandValidator>(h: &H, o: &mut String) {
                push_opt(o, guard(|| b(h.hand_rank() == HandRank::from(h.hand_rank_value()))));
                push_opt(o, guard(|| b(h.hand_rank_validated() == HandRank::from(h.hand_rank_value_validated()))));
                push_opt(o, guard(|| b(!h.hand_rank().is_invalid() && h.hand_rank().is_a_valid_hand_rank())));
            }
            match n {
                5 => hs(&Five::from(a5(&v[1..])), &mut o),
                6 => hs(&Six::from(a6(&v[1..])), &mut o),
                7 => hs(&Seven::from(a7(&v[1..])), &mut o),
                _ => panic!("bad size"),
            }
        },
        // projection for C08: is the value (plain and validated) the same under all 24 relabellings of the four suits?
        // A relabelled card is built from the documented layout alone (same rank field, the suit bit moved) - not through
        // the crate's accessors or `create`, so that this projection speaks about ranking only.
        "relabel" => {
            let v = nums();
            let n = v[0] as usize;
            let ws = &v[1..];
            let r = guard(|| {
                let mut same = true;
                let mut same_v = true;
                macro_rules! vals {
                    ($w:expr) => {
                        match n {
                            5 => { let h = Five::from(a5($w)); (h.hand_rank_value(), h.hand_rank_value_validated()) },
                            6 => { let h = Six::from(a6($w)); (h.hand_rank_value(), h.hand_rank_value_validated()) },
                            7 => { let h = Seven::from(a7($w)); (h.hand_rank_value(), h.hand_rank_value_validated()) },
                            _ => panic!("bad size"),
                        }
                    };
                }
                let (v0, w0) = vals!(ws);
                let mut p = [0u32, 1, 2, 3];
                // all 24 permutations of the four suits (clubs 0 .. spades 3), Heap's algorithm
                let mut c = [0usize; 4];
                let mut i = 0;
                let mut check = |p: &[u32; 4]| {
                    let mut h = [0u64; 7];
                    for (k, w) in ws.iter().enumerate() {
                        let card = *w as u32;
                        let nib = (card >> 12) & 0xF;
                        // suit = log2 of the suit nibble (0 for an empty nibble, like the model's N.log2)
                        let s = if nib == 0 { 0 } else { 31 - nib.leading_zeros() };
                        let rank = (card >> 8) & 0xF;
                        const PRIMES: [u32; 16] = [2, 3, 5, 7, 11, 13, 17, 19, 23, 29, 31, 37, 41, 0, 0, 0];
                        let ns = if s < 4 { p[s as usize] } else { s };
                        // layout r s of the specification (only meaningful for the 13 ranks; sweeps use real cards)
                        h[k] = u64::from((1u32 << (16 + rank)) | (1 << (12 + ns)) | (rank << 8) | PRIMES[rank as usize]);
                    }
                    let (v1, w1) = vals!(&h[..n]);
                    same &= v1 == v0;
                    same_v &= w1 == w0;
                };
                check(&p);
                while i < 4 {
                    if c[i] < i {
                        if i % 2 == 0 { p.swap(0, i) } else { p.swap(c[i], i) }
                        check(&p);
                        c[i] += 1;
                        i = 0;
                    } else {
                        c[i] = 0;
                        i += 1;
                    }
                }
                format!("{} {}", b(same), b(same_v))
            });
            push_opt(&mut o, r);
        },
        // projection for C09: seven <= every six-subset <= every five-subset, and the minima are attained
        "chain7" | "chain7s" => {
            let v = nums();
            let ws: Vec<u32> = v.iter().map(|x| *x as u32).collect();
            let r = guard(|| {
                // chain7s: the same relation with every container built through the OTHER construction paths
                // (Default + setters, Seven::new, Six::from_1_and_2_and_3, Five::new)
                let via_setters = op == "chain7s";
                let mk7 = |w: &[u64]| -> Seven {
                    if via_setters {
                        let mut s = Seven::default();
                        s.set_first(w[0] as u32);
                        s.set_second(w[1] as u32);
                        s.set_third(w[2] as u32);
                        s.set_forth(w[3] as u32);
                        s.set_fifth(w[4] as u32);
                        s.set_sixth(w[5] as u32);
                        s.set_seventh(w[6] as u32);
                        let t = Seven::new(Two::from(a2(&w[0..2])), Five::from(a5(&w[2..7])));
                        if w[0] % 2 == 0 { s } else { t }
                    } else {
                        Seven::from(a7(w))
                    }
                };
                let mk6 = |w: &[u64]| -> Six {
                    if via_setters {
                        if w[1] % 2 == 0 {
                            Six::from_1_and_2_and_3(w[0] as u32, Two::from(a2(&w[1..3])), Three::from(a3(&w[3..6])))
                        } else {
                            let mut s = Six::default();
                            s.set_first(w[0] as u32);
                            s.set_second(w[1] as u32);
                            s.set_third(w[2] as u32);
                            s.set_forth(w[3] as u32);
                            s.set_fifth(w[4] as u32);
                            s.set_sixth(w[5] as u32);
                            s
                        }
                    } else {
                        Six::from(a6(w))
                    }
                };
                let mk5 = |w: &[u64]| -> Five {
                    if via_setters {
                        if w[2] % 2 == 0 {
                            Five::new(w[0] as u32, w[1] as u32, w[2] as u32, w[3] as u32, w[4] as u32)
                        } else {
                            let mut s = Five::default();
                            s.set_first(w[0] as u32);
                            s.set_second(w[1] as u32);
                            s.set_third(w[2] as u32);
                            s.set_forth(w[3] as u32);
                            s.set_fifth(w[4] as u32);
                            s
                        }
                    } else {
                        Five::from(a5(w))
                    }
                };
                let v7 = mk7(&v).hand_rank_value();
                let mut ok76 = true;
                let mut ok65 = true;
                let mut min6 = u16::MAX;
                let mut min_ok = true;
                for skip in 0..7 {
                    let mut six = [0u64; 6];
                    for i in 0..6 {
                        six[i] = u64::from(ws[if i < skip { i } else { i + 1 }]);
                    }
                    let v6 = mk6(&six).hand_rank_value();
                    ok76 &= v7 <= v6;
                    min6 = min6.min(v6);
                    let mut min5 = u16::MAX;
                    for skip5 in 0..6 {
                        let mut five = [0u64; 5];
                        for i in 0..5 {
                            five[i] = six[if i < skip5 { i } else { i + 1 }];
                        }
                        let v5 = mk5(&five).hand_rank_value();
                        ok65 &= v6 <= v5;
                        min5 = min5.min(v5);
                    }
                    min_ok &= min5 == v6;
                }
                format!("{} {} {} {}", b(ok76), b(v7 == min6), b(ok65), b(min_ok))
            });
            push_opt(&mut o, r);
        },
        // projection for C05: for every ranking entry point only "returned normally?"; for a
        // five-slot hand that contains a blank also the value / name / class it was given
        "rankp" => {
            let v = nums();
            let n = v[0] as usize;
            fn okp<T>(o: &mut String, r: Option<T>) {
                o.push_str(if r.is_some() { " ok" } else { " P" });
            }
            fn all<H: HandRanker + HandValidator>(h: &H, o: &mut String) {
                okp(o, guard(|| h.hand_rank_value()));
                okp(o, guard(|| h.hand_rank()));
                okp(o, guard(|| h.hand_rank_value_and_hand()));
                okp(o, guard(|| h.hand_rank_value_validated()));
                okp(o, guard(|| h.hand_rank_validated()));
            }
            match n {
                5 => {
                    let h = Five::from(a5(&v[1..]));
                    all(&h, &mut o);
                    okp(&mut o, guard(|| evaluate::five_cards(a5(&v[1..]))));
                    if v[1..].contains(&0) {
                        // a five holding a blank: what EVERY entry point gave it (value 0 / the Invalid rank)
                        push_opt(&mut o, guard(|| h.hand_rank_value()));
                        push_opt(&mut o, guard(|| hr_str(&h.hand_rank())));
                        push_opt(&mut o, guard(|| h.hand_rank_value_and_hand().0));
                        push_opt(&mut o, guard(|| h.hand_rank_value_validated()));
                        push_opt(&mut o, guard(|| hr_str(&h.hand_rank_validated())));
                        push_opt(&mut o, guard(|| evaluate::five_cards(a5(&v[1..]))));
                    }
                },
                6 => all(&Six::from(a6(&v[1..])), &mut o),
                7 => all(&Seven::from(a7(&v[1..])), &mut o),
                _ => panic!("bad size"),
            }
        },
        // projection for C05: only "returned normally?" (the property does not fix the index)
        "fipp" => {
            let k = nums()[0] as usize;
            o.push_str(if guard(|| Five::find_in_products(k)).is_some() { "ok" } else { "P" });
        },
        "fip" => {
            let k = nums()[0] as usize;
            push_opt(&mut o, guard(|| Five::find_in_products(k)));
        },
        "pred5" => {
            let v = nums();
            let h = Five::from(a5(&v));
            push_opt(&mut o, guard(|| b(h.is_flush())));
            push_opt(&mut o, guard(|| b(h.is_straight())));
            push_opt(&mut o, guard(|| b(h.is_straight_flush())));
            push_opt(&mut o, guard(|| b(h.is_wheel())));
            push_opt(&mut o, guard(|| h.or_rank_bits()));
            push_opt(&mut o, guard(|| h.and_bits()));
            push_opt(&mut o, guard(|| h.or_bits()));
            push_opt(&mut o, guard(|| h.multiply_primes()));
            push_opt(&mut o, guard(|| b(evaluate::is_flush(a5(&v)))));
            push_opt(&mut o, guard(|| evaluate::or_rank_bits(a5(&v))));
        },
        // projection for C13: the four predicates, the deprecated free functions against the methods, and the
        // predicates against the category NAME obtained by ranking the same hand (booleans only)
        "pred5p" => {
            let v = nums();
            let h = Five::from(a5(&v));
            let (f, s, sf) = (guard(|| h.is_flush()), guard(|| h.is_straight()), guard(|| h.is_straight_flush()));
            push_opt(&mut o, f.map(b));
            push_opt(&mut o, s.map(b));
            push_opt(&mut o, sf.map(b));
            push_opt(&mut o, guard(|| b(h.is_wheel())));
            push_opt(&mut o, guard(|| b(Some(evaluate::is_flush(a5(&v))) == f)));
            push_opt(&mut o, guard(|| b(evaluate::or_rank_bits(a5(&v)) == h.or_rank_bits() as usize)));
            let name = guard(|| h.hand_rank().name);
            let is = |a: HandRankName, c: HandRankName| name.map(|n| n == a || n == c);
            push_opt(&mut o, guard(|| b(f.is_some() && is(HandRankName::Flush, HandRankName::StraightFlush) == f)));
            push_opt(&mut o, guard(|| b(s.is_some() && is(HandRankName::Straight, HandRankName::StraightFlush) == s)));
            push_opt(&mut o, guard(|| b(sf.is_some() && is(HandRankName::StraightFlush, HandRankName::StraightFlush) == sf)));
        },
        // projection for C11 (sorting): non-increasing? same multiset as the input? in-place form agrees? idempotent?
        "sortp" => {
            let v = nums();
            let n = v[0] as usize;
            let input: Vec<u32> = v[1..].iter().map(|x| *x as u32).collect();
            with_hand!(n, &v[1..], h, {
                let s = h.sort();
                let mut t = h;
                t.sort_in_place();
                let sa = s.to_arr();
                let desc = sa.windows(2).all(|w| w[0] >= w[1]);
                let mut a = input.clone();
                let mut c = sa.to_vec();
                a.sort_unstable();
                c.sort_unstable();
                let _ = write!(o, " {} {} {} {}", b(desc), b(a == c), b(t.to_arr() == sa), b(s.sort().to_arr() == sa));
            });
        },
        // projection for C15 (set from a hand): count = distinct real cards among the slots; each of them is a member; no bit
        // above the 52 card bits; peeling lists exactly those cards in deck order, then blank with the set unchanged
        "bcsetp" => {
            let v = nums();
            let n = v[0] as usize;
            let bc = match n {
                2 => BinaryCard::from_two(Two::from(a2(&v[1..]))),
                3 => BinaryCard::from_three(Three::from(a3(&v[1..]))),
                4 => BinaryCard::from_four(Four::from(a4(&v[1..]))),
                5 => BinaryCard::from_five(Five::from(a5(&v[1..]))),
                6 => BinaryCard::from_six(Six::from(a6(&v[1..]))),
                7 => BinaryCard::from_seven(Seven::from(a7(&v[1..]))),
                _ => panic!("bad size"),
            };
            let deck = ckc_rs::deck::POKER_DECK.arr();
            let members: Vec<u32> = deck.iter().copied().filter(|c| v[1..].iter().any(|w| *w as u32 == *c)).collect();
            let count_ok = bc.number_of_cards() as usize == members.len();
            let has_ok = members.iter().all(|c| bc.has(BinaryCard::from_ckc(*c)));
            let no_overflow = bc >> 52 == 0;
            let mut x = bc;
            let mut peeled: Vec<u32> = Vec::new();
            for _ in 0..members.len() {
                let r = x.peel();
                peeled.push(<CKCNumber as PokerCard>::from_binary_card(r));
            }
            let rest = x;
            let last = x.peel();
            let peel_ok = peeled == members && last == 0 && x == rest && rest == 0;
            let valid_ok = bc.is_valid() == !members.is_empty();
            let _ = write!(o, " {} {} {} {} {}", b(count_ok), b(has_ok), b(no_overflow), b(peel_ok), b(valid_ok));
        },
        "sort" => {
            let v = nums();
            let n = v[0] as usize;
            with_hand!(n, &v[1..], h, {
                let s = h.sort();
                let mut t = h;
                t.sort_in_place();
                let _ = write!(o, " {} | {}", words(&s.to_arr()), words(&t.to_arr()));
            });
        },
        "shiftn" => {
            let v = nums();
            let n = v[0] as usize;
            with_hand!(n, &v[1..], h, {
                let _ = write!(o, " {}", words(&h.shift_suit().to_arr()));
            });
        },
        "two" => {
            let v = nums();
            let h = Two::from(a2(&v));
            push_opt(&mut o, guard(|| h.chen_formula()));
            push_opt(&mut o, guard(|| h.get_gap()));
            push_opt(&mut o, guard(|| h.high_card()));
            push_opt(&mut o, guard(|| b(h.is_connector())));
            push_opt(&mut o, guard(|| b(h.is_pocket_pair())));
            push_opt(&mut o, guard(|| b(h.is_suited())));
            push_opt(&mut o, guard(|| b(h.is_suited_connector())));
        },
        // the starting-hand helpers on a two-card hand given as TEXT (the crate's own parser builds the hand)
        "twotext" => {
            let s = leak(scalars_to_string(&nums()));
            match guard(|| Two::try_from(s)) {
                None => o.push_str(" P"),
                Some(Err(_)) => o.push_str(" Err"),
                Some(Ok(h)) => {
                    push_opt(&mut o, guard(|| h.chen_formula()));
                    push_opt(&mut o, guard(|| h.get_gap()));
                    push_opt(&mut o, guard(|| h.high_card()));
                    push_opt(&mut o, guard(|| b(h.is_connector())));
                    push_opt(&mut o, guard(|| b(h.is_pocket_pair())));
                    push_opt(&mut o, guard(|| b(h.is_suited())));
                    push_opt(&mut o, guard(|| b(h.is_suited_connector())));
                },
            }
        },
        "bcfrom" => {
            let v = nums();
            let n = v[0] as usize;
            let r = match n {
                2 => BinaryCard::from_two(Two::from(a2(&v[1..]))),
                3 => BinaryCard::from_three(Three::from(a3(&v[1..]))),
                4 => BinaryCard::from_four(Four::from(a4(&v[1..]))),
                5 => BinaryCard::from_five(Five::from(a5(&v[1..]))),
                6 => BinaryCard::from_six(Six::from(a6(&v[1..]))),
                7 => BinaryCard::from_seven(Seven::from(a7(&v[1..]))),
                _ => panic!("bad size"),
            };
            let _ = write!(o, " {r}");
        },
        "bcops" => {
            let v = nums();
            let (x, c) = (v[0], v[1]);
            let _ = write!(
                o,
                " {} {} {} {} {} {}",
                x.fold_in(c),
                b(x.has(c)),
                x.number_of_cards(),
                b(x.is_single_card()),
                b(BC64::is_valid(&x)),
                x.as_u64()
            );
        },
        "peel" => {
            // peel until blank is returned, then `extra` more times; print (returned, state) pairs
            let v = nums();
            let mut x = v[0];
            let extra = v[1];
            let mut left = extra;
            let mut steps = 0;
            loop {
                let r = x.peel();
                let _ = write!(o, " {r} {x}");
                steps += 1;
                if r == 0 {
                    if left == 0 {
                        break;
                    }
                    left -= 1;
                }
                if steps > 80 {
                    o.push_str(" RUNAWAY");
                    break;
                }
            }
        },
        "twofrombc" => {
            let x = nums()[0];
            match guard(|| Two::try_from(x)) {
                None => o.push_str(" P"),
                Some(Ok(t)) => {
                    let _ = write!(o, " Ok {} {} {}", t.first(), t.second(), BinaryCard::from_two(t));
                },
                Some(Err(e)) => {
                    let _ = write!(o, " Err {}", hand_error_index(&e));
                },
            }
        },
        "hr" => {
            let v = nums()[0] as u16;
            let h = HandRank::from(v);
            let _ = write!(
                o,
                " {} {} {} {} {}",
                hr_str(&h),
                b(h.is_invalid()),
                b(h.is_a_valid_hand_rank()),
                name_index(HandRank::determine_name(&v)),
                class_index(HandRank::determine_class(&v))
            );
        },
        "hrdefault" => {
            let h = HandRank::default();
            let _ = write!(o, " {} {} {}", hr_str(&h), b(h.is_invalid()), b(h.is_a_valid_hand_rank()));
        },
        "hrcmp" => {
            let v = nums();
            let x = HandRank::from(v[0] as u16);
            let y = HandRank::from(v[1] as u16);
            let pc = match x.partial_cmp(&y) {
                Some(c) => i32::from(ord_code(c)),
                None => 9,
            };
            let _ = write!(
                o,
                " {} {} {} {} {} {} {} {}",
                ord_code(x.cmp(&y)),
                pc,
                b(x == y),
                b(x != y),
                b(x < y),
                b(x <= y),
                b(x > y),
                b(x >= y)
            );
        },
        // projections for C07: the property does not fix the order AMONG invalid ranks, only that it is a lawful
        // total order consistent with ==; for two invalid ranks print the laws, otherwise the comparison itself
        "hrcmpp" => {
            let v = nums();
            let inval = |a: u64| a == 0 || a > 7462;
            let x = HandRank::from(v[0] as u16);
            let y = HandRank::from(v[1] as u16);
            let c = x.cmp(&y);
            if inval(v[0]) && inval(v[1]) {
                use std::cmp::Ordering::{Equal, Greater, Less};
                let _ = write!(
                    o,
                    " I {} {} {} {} {} {} {} {} {}",
                    b((c == Equal) == (x == y)),
                    b(y.cmp(&x) == c.reverse()),
                    b(x.partial_cmp(&y) == Some(c)),
                    b((x == y) == (v[0] == v[1])),
                    b((x != y) == !(x == y)),
                    b((x < y) == (c == Less)),
                    b((x <= y) == (c != Greater)),
                    b((x > y) == (c == Greater)),
                    b((x >= y) == (c != Less))
                );
            } else {
                let pc = match x.partial_cmp(&y) {
                    Some(c) => i32::from(ord_code(c)),
                    None => 9,
                };
                let _ = write!(o, " {} {} {} {} {} {} {} {}", ord_code(c), pc, b(x == y), b(x != y), b(x < y), b(x <= y), b(x > y), b(x >= y));
            }
        },
        // projection for C07 over ALL pairs: does cmp agree with what the property fixes (stronger = lower valid value is
        // Greater; invalid below valid; two invalid ranks: Equal iff same value, antisymmetric), do ==, partial_cmp and the four
        // operators agree with cmp?
        "hrkey" => {
            let v = nums();
            let (spec_ok, eq_ok, ops_ok) = hrkey_bits(v[0] as u16, v[1] as u16);
            let _ = write!(o, " {} {} {}", b(spec_ok), b(eq_ok), b(ops_ok));
        },
        "hrtri" => {
            use std::cmp::Ordering::{Equal, Greater};
            let v = nums();
            let (x, y, z) = (HandRank::from(v[0] as u16), HandRank::from(v[1] as u16), HandRank::from(v[2] as u16));
            let le = |p: &HandRank, q: &HandRank| p.cmp(q) != Greater;
            let _ = write!(
                o,
                " {} {}",
                b(!(le(&x, &y) && le(&y, &z)) || le(&x, &z)),
                b(x.cmp(&y) != Equal || x.cmp(&z) == y.cmp(&z))
            );
        },
        "parsecard" => {
            let s = scalars_to_string(&nums());
            let (r, su) = parse::get_rank_and_suit(&s);
            push_opt(&mut o, guard(|| <CKCNumber as PokerCard>::from_index(&s)));
            let _ = write!(o, " {} {}", rank_index(r), suit_index(su));
        },
        "parsehand" => {
            let v = nums();
            let n = v[0] as usize;
            let s = leak(scalars_to_string(&v[1..]));
            match guard(|| parse_hand(n, s)) {
                None => o.push_str(" P"),
                // the property says "fails", not which error: the kind is only checked to exist
                Some(None) => {
                    let _ = write!(o, " None{}", if parse_hand_err(n, s).is_some() { "" } else { " (no error value)" });
                },
                Some(Some(ws)) => {
                    let _ = write!(o, " Some {}", words(&ws));
                },
            }
            if n == 5 {
                match guard(|| parse::five_from_index(s)) {
                    None => o.push_str(" | P"),
                    Some(None) => o.push_str(" | None"),
                    Some(Some(ws)) => {
                        let _ = write!(o, " | Some {}", words(&ws));
                    },
                }
            }
        },
        "bcindex" => {
            let s = scalars_to_string(&nums());
            push_opt(&mut o, guard(|| BinaryCard::from_index(&s)));
        },
        "render" => {
            let w = nums()[0] as u32;
            let g: String = [w.get_rank_char(), w.get_suit_char()].iter().collect();
            let l: String = [w.get_rank_char(), w.get_suit_letter()].iter().collect();
            let _ = write!(
                o,
                " {} {}",
                <CKCNumber as PokerCard>::from_index(&g),
                <CKCNumber as PokerCard>::from_index(&l)
            );
        },
        "hist" => {
            let n: usize = toks[1].parse().unwrap();
            o = hist(n, &toks[2..]);
        },
        "perm" => {
            let v = nums();
            let n = v[0] as usize;
            let ws = &v[1..=n];
            let p: Vec<u8> = v[n + 1..n + 6].iter().map(|x| *x as u8).collect();
            let p5 = [p[0], p[1], p[2], p[3], p[4]];
            let r = match n {
                6 => guard(|| Six::from(a6(ws)).five_from_permutation(p5).to_arr()),
                7 => guard(|| Seven::from(a7(ws)).five_from_permutation(p5).to_arr()),
                _ => panic!("bad size"),
            };
            match r {
                None => o.push_str(" P"),
                Some(a) => {
                    let _ = write!(o, " {}", words(&a));
                },
            }
        },
        _ => panic!("line {lineno}: unknown op {op}"),
    }
    o.trim_start().to_string()
}

pub fn run(args: &[String]) {
    use std::sync::atomic::{AtomicUsize, Ordering};
    use std::sync::{Arc, Mutex};
    let verbose = args.iter().any(|a| a == "--verbose");
    // watchdog: a case that does not return within HANG_SECS is reported as `HANG <case>` on the output
    // (in place of its result line) and the process exits with status 3, so that a non-terminating loop in
    // the implementation becomes a concrete replay instead of a stuck check
    const HANG_SECS: u64 = 20;
    let progress = Arc::new(AtomicUsize::new(0));
    let current = Arc::new(Mutex::new(String::new()));
    let done_out = Arc::new(Mutex::new(Vec::<u8>::new()));
    {
        let (progress, current, done_out) = (progress.clone(), current.clone(), done_out.clone());
        std::thread::spawn(move || {
            let mut last = usize::MAX;
            let mut stale = 0u64;
            loop {
                std::thread::sleep(std::time::Duration::from_secs(1));
                let now = progress.load(Ordering::SeqCst);
                if now == last && now != 0 {
                    stale += 1;
                } else {
                    stale = 0;
                    last = now;
                }
                if stale >= HANG_SECS {
                    let case = current.lock().map(|c| c.clone()).unwrap_or_default();
                    let mut out = std::io::stdout();
                    if let Ok(buf) = done_out.lock() {
                        let _ = out.write_all(&buf);
                    }
                    let _ = writeln!(out, "HANG {case}");
                    let _ = out.flush();
                    eprintln!("HANG: no return within {HANG_SECS}s on case: {case}");
                    std::process::exit(3);
                }
            }
        });
    }
    let stdin = std::io::stdin();
    for (i, l) in stdin.lock().lines().enumerate() {
        let l = l.unwrap();
        if l.trim().is_empty() || l.starts_with('#') {
            continue;
        }
        if let Ok(mut c) = current.lock() {
            c.clear();
            c.push_str(&l);
        }
        progress.store(i + 1, Ordering::SeqCst);
        // an op that is not individually guarded and unwinds is reported as the outcome `P` for the whole case
        let r = catch_unwind(AssertUnwindSafe(|| exec(i + 1, &l))).unwrap_or_else(|_| "P".to_string());
        let mut buf = done_out.lock().unwrap();
        if verbose {
            writeln!(buf, "{l} => {r}").unwrap();
        } else {
            writeln!(buf, "{r}").unwrap();
        }
        if buf.len() > (1 << 20) {
            std::io::stdout().write_all(&buf).unwrap();
            buf.clear();
        }
    }
    progress.store(0, Ordering::SeqCst);
    let buf = done_out.lock().unwrap();
    let mut out = std::io::stdout();
    out.write_all(&buf).unwrap();
    out.flush().unwrap();
}
