//! `ckc-probe oracle <property> --seed <u64> --tier quick|thorough`: evaluate a property's own
//! predicate directly on the real code, against an independent rule-based reference (refeval.rs),
//! to FIND a concrete failing input. Never used to conclude that a property holds.
//!
//! Output: one `FAIL {json}` line per violation (at most MAXF per sub-check, the ones that come
//! first in enumeration order, so the output is a function of the seed), nothing otherwise.
//! This file: reporting, threading and shared helpers. The searches are in oracle_a.rs (C01-C09,
//! evaluator properties) and oracle_b.rs (C10-C20).

use crate::refeval::{mix, Sm64};
use std::cell::Cell;
use std::panic::{catch_unwind, AssertUnwindSafe};
use std::sync::atomic::{AtomicU64, AtomicUsize, Ordering::Relaxed};
use std::sync::Mutex;

pub const MAXF: usize = 5;

thread_local! { static GUARDED: Cell<bool> = const { Cell::new(false) }; }

/// Run a crate call; None if it unwound.
#[inline]
pub fn g<T>(f: impl FnOnce() -> T) -> Option<T> {
    let prev = GUARDED.with(|c| c.replace(true));
    let r = catch_unwind(AssertUnwindSafe(f)).ok();
    GUARDED.with(|c| c.set(prev));
    r
}
pub fn show<T: std::fmt::Display>(o: Option<T>) -> String {
    o.map_or_else(|| "panic".to_string(), |v| v.to_string())
}
pub fn showd<T: std::fmt::Debug>(o: Option<T>) -> String {
    o.map_or_else(|| "panic".to_string(), |v| format!("{v:?}"))
}
/// `op w1 w2 ...`
pub fn cs<T: std::fmt::Display>(op: &str, ws: &[T]) -> String {
    let mut s = op.to_string();
    for w in ws {
        s.push(' ');
        s.push_str(&w.to_string());
    }
    s
}
/// Scalar values of a text, for the parsecard / parsehand / bcindex case formats.
pub fn scalars(op: &str, s: &str) -> String {
    cs(op, &s.chars().map(|c| c as u32).collect::<Vec<_>>())
}
fn js(s: &str) -> String {
    let mut o = String::from("\"");
    for c in s.chars() {
        match c {
            '"' => o.push_str("\\\""),
            '\\' => o.push_str("\\\\"),
            c if (c as u32) < 0x20 || c as u32 == 0x7f => o.push_str(&format!("\\u{:04x}", c as u32)),
            c => o.push(c),
        }
    }
    o.push('"');
    o
}

/// One sub-check: keeps the MAXF violations with the smallest enumeration position `ord`.
pub struct Sub {
    name: &'static str,
    n: AtomicUsize,
    bound: AtomicU64,
    seq: AtomicU64,
    kept: Mutex<Vec<(u64, String)>>,
    printed: Mutex<Vec<String>>,
}
impl Sub {
    /// Is a violation at position `ord` still of interest? (monotone: once false, stays false)
    #[inline]
    pub fn want(&self, ord: u64) -> bool {
        ord <= self.bound.load(Relaxed)
    }
    pub fn open(&self) -> bool {
        self.n.load(Relaxed) < MAXF
    }
    pub fn next_ord(&self) -> u64 {
        self.seq.fetch_add(1, Relaxed)
    }
    pub fn put(&self, ord: u64, case: &str, what: &str, exp: &str, act: &str) {
        let line = format!(
            "FAIL {{\"case\":{},\"what\":{},\"expected\":{},\"actual\":{}}}",
            js(case),
            js(&format!("{}: {}", self.name, what)),
            js(exp),
            js(act)
        );
        let mut k = self.kept.lock().unwrap();
        k.push((ord, line));
        k.sort_by_key(|a| a.0);
        k.truncate(MAXF);
        if k.len() == MAXF {
            self.bound.store(k[MAXF - 1].0, Relaxed);
        }
        self.n.fetch_add(1, Relaxed);
    }
}
/// Sequential sub-checks: position = order of discovery.
macro_rules! fail {
    ($sub:expr, $case:expr, $what:expr, $exp:expr, $act:expr) => {{
        let s: &crate::oracle::Sub = $sub;
        let o = s.next_ord();
        if s.want(o) {
            s.put(o, &$case, &$what, &$exp.to_string(), &$act.to_string());
        }
    }};
}
/// Parallel sub-checks: explicit position so that the kept set does not depend on scheduling.
macro_rules! fail_at {
    ($sub:expr, $ord:expr, $case:expr, $what:expr, $exp:expr, $act:expr) => {{
        let s: &crate::oracle::Sub = $sub;
        let o: u64 = $ord;
        if s.want(o) {
            s.put(o, &$case, &$what, &$exp.to_string(), &$act.to_string());
        }
    }};
}
pub(crate) use {fail, fail_at};

pub struct Ctx {
    pub seed: u64,
    pub thorough: bool,
    subs: Mutex<Vec<&'static Sub>>,
    t0: std::time::Instant,
}
impl Ctx {
    pub fn sub(&self, name: &'static str) -> &'static Sub {
        let s: &'static Sub = Box::leak(Box::new(Sub {
            name,
            n: AtomicUsize::new(0),
            bound: AtomicU64::new(u64::MAX),
            seq: AtomicU64::new(0),
            kept: Mutex::new(Vec::new()),
            printed: Mutex::new(Vec::new()),
        }));
        self.subs.lock().unwrap().push(s);
        s
    }
    /// Print the kept violations that were not printed yet (at most MAXF per sub-check in total).
    /// Called at the end of every phase so that a killed run still leaves its findings.
    pub fn flush(&self, phase: &str) {
        for s in self.subs.lock().unwrap().iter() {
            let k = s.kept.lock().unwrap();
            let mut done = s.printed.lock().unwrap();
            let before = done.len();
            for (_, l) in k.iter() {
                if done.len() < MAXF && !done.contains(l) {
                    println!("{l}");
                    done.push(l.clone());
                }
            }
            if done.len() > before {
                eprintln!("oracle: sub-check '{}': {} violations recorded, {} printed", s.name, s.n.load(Relaxed), done.len());
            }
        }
        eprintln!("oracle: [{:7.2}s] {phase}", self.t0.elapsed().as_secs_f64());
    }
    pub fn rng(&self, salt: u64) -> Sm64 {
        Sm64::new(mix(self.seed, salt))
    }
    pub fn pick(&self, quick: u64, thorough: u64) -> u64 {
        if self.thorough {
            thorough
        } else {
            quick
        }
    }
}

/// Run f(0..n) on all cores; items are handed out in increasing order.
pub fn par(n: usize, f: impl Fn(usize) + Sync) {
    let threads = std::thread::available_parallelism().map_or(16, std::num::NonZero::get).max(1);
    let next = AtomicUsize::new(0);
    std::thread::scope(|s| {
        for _ in 0..threads {
            s.spawn(|| loop {
                let i = next.fetch_add(1, Relaxed);
                if i >= n {
                    break;
                }
                f(i);
            });
        }
    });
}

/// All (a, b), a < b < 52 in lexicographic order: the work items of the subset enumerations.
pub fn prefixes() -> Vec<(usize, usize)> {
    (0..52).flat_map(|a| (a + 1..52).map(move |b| (a, b))).collect()
}
/// All k-subsets {a < b < ...} of 0..52 with the given two smallest members, lexicographically.
#[inline]
pub fn combos2(k: usize, a: usize, b: usize, mut f: impl FnMut(&[usize])) {
    let mut ix = [0usize; 7];
    ix[0] = a;
    ix[1] = b;
    for j in 2..k {
        ix[j] = ix[j - 1] + 1;
    }
    if ix[k - 1] >= 52 {
        return;
    }
    loop {
        f(&ix[..k]);
        let mut i = k;
        while i > 2 && ix[i - 1] == 52 - k + i - 1 {
            i -= 1;
        }
        if i == 2 {
            return;
        }
        ix[i - 1] += 1;
        for j in i..k {
            ix[j] = ix[j - 1] + 1;
        }
    }
}
/// Deck indices packed 6 bits each (a per-hand seed salt).
#[inline]
pub fn pack(ix: &[usize]) -> u64 {
    ix.iter().fold(1u64, |a, &i| (a << 6) | i as u64)
}
pub fn leak(s: String) -> &'static str {
    Box::leak(s.into_boxed_str())
}

fn usage() -> ! {
    eprintln!("usage: ckc-probe oracle <C01..C20> [--seed <u64>] [--tier quick|thorough]");
    std::process::exit(2);
}

pub fn oracle(args: &[String]) {
    let mut id: Option<String> = None;
    let mut seed = 1u64;
    let mut thorough = false;
    let mut i = 0;
    while i < args.len() {
        match args[i].as_str() {
            "--seed" => {
                seed = args.get(i + 1).and_then(|s| s.parse().ok()).unwrap_or_else(|| usage());
                i += 2;
            },
            "--tier" => {
                thorough = match args.get(i + 1).map(String::as_str) {
                    Some("quick") => false,
                    Some("thorough") => true,
                    _ => usage(),
                };
                i += 2;
            },
            a if !a.starts_with('-') && id.is_none() => {
                id = Some(a.to_uppercase());
                i += 1;
            },
            _ => usage(),
        }
    }
    let id = id.unwrap_or_else(|| usage());
    type F = fn(&Ctx);
    let table: [(&str, F); 20] = [
        ("C01", crate::oracle_a::c01),
        ("C02", crate::oracle_a::c02),
        ("C03", crate::oracle_a::c03),
        ("C04", crate::oracle_a::c04),
        ("C05", crate::oracle_a::c05),
        ("C06", crate::oracle_a::c06),
        ("C07", crate::oracle_a::c07),
        ("C08", crate::oracle_a::c08),
        ("C09", crate::oracle_a::c09),
        ("C10", crate::oracle_b::c10),
        ("C11", crate::oracle_b::c11),
        ("C12", crate::oracle_b::c12),
        ("C13", crate::oracle_b::c13),
        ("C14", crate::oracle_b::c14),
        ("C15", crate::oracle_b::c15),
        ("C16", crate::oracle_b::c16),
        ("C17", crate::oracle_b::c17),
        ("C18", crate::oracle_b::c18),
        ("C19", crate::oracle_b::c19),
        ("C20", crate::oracle_b::c20),
    ];
    let Some((_, f)) = table.iter().find(|(n, _)| *n == id) else { usage() };
    // crate panics inside g() are expected and silent; anything else is a bug of the oracle itself
    std::panic::set_hook(Box::new(|info| {
        if !GUARDED.with(Cell::get) {
            eprintln!("oracle: INTERNAL ERROR (no verdict): {info}");
        }
    }));
    let ctx = Ctx { seed, thorough, subs: Mutex::new(Vec::new()), t0: std::time::Instant::now() };
    let ok = catch_unwind(AssertUnwindSafe(|| f(&ctx))).is_ok();
    ctx.flush(if ok { "done" } else { "aborted by an internal error" });
    std::process::exit(0);
}
