//! `ckc-probe oracle <property> ...`: evaluate a property's own predicate directly on the real
//! code, against an independent rule-based reference, to FIND a concrete failing input once a proof
//! obligation or the correspondence broke. Never used to conclude that a property holds.

pub fn oracle(args: &[String]) {
    let _ = args;
    eprintln!("oracle: not built yet");
    std::process::exit(2);
}
