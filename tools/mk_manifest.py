#!/usr/bin/env python3
"""Write MANIFEST.json from tools/families.py (claimed properties) and properties.jsonl."""
import json
import os
import sys

ROOT = os.path.dirname(os.path.dirname(os.path.abspath(__file__)))
sys.path.insert(0, os.path.join(ROOT, "tools"))
import families  # noqa: E402

props = [json.loads(l) for l in open(os.path.join(ROOT, "properties.jsonl"))]
checks = []
na = []
for p in props:
    pid = p["id"]
    spec = families.PROPS.get(pid)
    if spec is None or spec.get("unclaimed"):
        na.append({"property_id": pid, "reason": (spec or {}).get("unclaimed", "check still under construction in this round; not claimed yet (technique applies: Coq proof + correspondence)")})
        continue
    checks.append({
        "property_id": pid,
        "quick_cmd": "./check %s --tier quick" % pid,
        "thorough_cmd": "./check %s --tier thorough" % pid,
        "evidence_file": "/verif/evidence/%s.json" % pid,
        "replay_cmd_template": "./check %s --replay {path}" % pid,
        "engine": "coq-proof+correspondence",
        "level_claimed": {
            "category": "proof",
            "text": spec.get("level_text", "Coq theorems (coq/Props/%s.v, exact statements in DESIGN.md section 12) about a model whose data is regenerated from "
                             "the running code on every run and whose logic is tied to the code by a differential correspondence check against the "
                             "extracted model, in both build profiles. %s" % (pid, spec.get("explanation", ""))),
            "design_ref": spec.get("design_ref", "DESIGN.md section 4, %s" % pid),
        },
        "level_note": spec.get("level_note", "Trusted: Coq 8.16.1 kernel + bytecode VM (no native_compute), dump/gen_coq printer, hand-written Model tied by correspondence "
                               "(sampled where not exhaustive), ExtrOcamlBasic extraction + OCaml driver, Spec as the reading of the property. No axioms: every theorem "
                               "is Closed under the global context (Print Assumptions re-run on every check; coqchk -o in the thorough tier). "
                               + " ".join("Assumes: " + a + "." for a in spec.get("assumptions", []))),
        "technique": spec.get("technique", "machine-checked proof in Coq 8.16 (induction + kernel reflection over regenerated data) with executable-model correspondence check"),
    })
m = {
    "version": 1,
    "setup_cmd": "./setup",
    "hooks": {
        "guard": "cargo feature verif-hooks",
        "enable": "the harness crate depends on ckc-rs with features = [\"verif-hooks\"] (harness/Cargo.toml); cargo build --offline",
        "baseline_off_cmd": "cd /repo && cargo test --workspace --no-fail-fast --offline",
        "source_commits": json.load(open(os.path.join(ROOT, "hooks.json")))["source_commits"],
        "add_only": True,
    },
    "engines": [{
        "name": "coq-proof+correspondence",
        "path": "/verif/check",
        "serves_properties": [c["property_id"] for c in checks],
        "kind_free_text": "Coq 8.16.1 development (coq/), data layer regenerated from the implementation by harness `ckc-probe dump` + tools/gen_coq.py, hand-written executable model extracted to OCaml and compared with the implementation on generated/exhaustive case files; Rust oracle only searches for replays.",
    }],
    "checks": checks,
    "not_applicable": na,
    "notes": "246 seeded changes (seeded/) are all reported by the check of their target property; 33 neutral changes (seeded/neutral) pass all 20 checks. All checks share /verif/.build (cargo target dir, dump cache, Coq .vo files, extracted model); a file lock is held for the build steps only, so checks may be started in parallel. Genuine defects repaired by fix: commits are listed in known_findings.json.",
}
with open(os.path.join(ROOT, "MANIFEST.json"), "w") as f:
    json.dump(m, f, indent=1)
    f.write("\n")
print("MANIFEST.json: %d checks, %d not claimed" % (len(checks), len(na)))
