#!/usr/bin/env python3
"""Regenerate the theorem index (DESIGN.md section 12) from coq/Props/*.v."""
import glob
import os
import re

ROOT = os.path.dirname(os.path.dirname(os.path.abspath(__file__)))
out = []
for p in sorted(glob.glob(os.path.join(ROOT, "coq", "Props", "C*.v"))):
    pid = os.path.basename(p)[:-2]
    txt = open(p).read()
    head = re.match(r"\(\*(.*?)\*\)", txt, flags=re.S)
    out.append("### %s" % pid)
    if head:
        first = " ".join(head.group(1).split())
        out.append("*%s*" % first[:400])
    out.append("")
    for m in re.finditer(r"^\s*Theorem\s+(\w+)\s*:(.*?)\nProof\.(.*?)Qed\.", txt, flags=re.M | re.S):
        stmt = " ".join(m.group(2).split())
        how = " ".join(m.group(3).split())
        out.append("* `%s` : `%s`  — %s" % (m.group(1), stmt, how))
    out.append("")
begin = "<!-- THEOREM-INDEX-BEGIN -->"
end = "<!-- THEOREM-INDEX-END -->"
d = open(os.path.join(ROOT, "DESIGN.md")).read()
block = begin + "\n" + "\n".join(out) + "\n" + end
if begin in d:
    d = d[:d.index(begin)] + block + d[d.index(end) + len(end):]
else:
    d += "\n---------------------------------------------------------------------------------------------------\n\n" \
         "## 12. Theorem index (generated from coq/Props/*.v by tools/mk_theorem_index.py)\n\n" \
         "Every theorem below is closed by `exact <lemma>` (or a one-line projection) and is followed in its file by\n" \
         "`Print Assumptions`, which reports `Closed under the global context` for all of them.\n\n" + block + "\n"
open(os.path.join(ROOT, "DESIGN.md"), "w").write(d)
print("theorems:", sum(1 for l in out if l.startswith("* `")))
