#!/usr/bin/env python3
import fcntl
import os
import sys

sys.path.insert(0, os.path.dirname(os.path.abspath(__file__)))
import driver  # noqa: E402


def main():
    os.makedirs(driver.BUILD, exist_ok=True)
    lockf = open(os.path.join(driver.BUILD, "lock"), "w")
    fcntl.flock(lockf, fcntl.LOCK_EX)
    try:
        bins = driver.build_harness(["release", "chk"])
        driver.dump_and_gen(bins["release"])
        rc, out = driver.coq_make([], timeout=7200)
        if rc != 0:
            # a failing proof is reported by the property's own check; setup still builds the rest
            driver.log("coq make reported errors (left to the per-property checks):\n" + out[-3000:])
            driver.coq_make(["-k"], timeout=7200)
        driver.build_model()
    except driver.Broken as b:
        driver.log("setup: %s failed: %s" % (b.stage, b.detail))
        return 1
    return 0


if __name__ == "__main__":
    sys.exit(main())
