"""Case generators for the correspondence check. Every random choice comes from one splitmix64
state seeded by VERIF_SEED, so a disagreement replays exactly.

A case is one line `op arg arg ...` (decimal numbers). A family is a dict:
  name, lines (list of str) OR cases_cmd (args for `ckc-probe cases`), exhaustive (bool),
  rule (how generated, what makes a case non-trivial), categories (distribution dict)
"""

MASK64 = (1 << 64) - 1


class Rng:
    def __init__(self, seed):
        self.s = seed & MASK64

    def next(self):
        self.s = (self.s + 0x9E3779B97F4A7C15) & MASK64
        z = self.s
        z = ((z ^ (z >> 30)) * 0xBF58476D1CE4E5B9) & MASK64
        z = ((z ^ (z >> 27)) * 0x94D049BB133111EB) & MASK64
        return z ^ (z >> 31)

    def below(self, n):
        return self.next() % n

    def choice(self, xs):
        return xs[self.below(len(xs))]

    def shuffle(self, xs):
        xs = list(xs)
        for i in range(len(xs) - 1, 0, -1):
            j = self.below(i + 1)
            xs[i], xs[j] = xs[j], xs[i]
        return xs

    def sample(self, xs, k):
        return self.shuffle(xs)[:k]


# ---- the 52 card words, from the documented layout (independent of the dump) -----------------
PRIMES = [2, 3, 5, 7, 11, 13, 17, 19, 23, 29, 31, 37, 41]


def layout(r, s):
    return (1 << (16 + r)) | (1 << (12 + s)) | (r << 8) | PRIMES[r]


DECK = [layout(r, s) for s in (3, 2, 1, 0) for r in range(12, -1, -1)]
PAIR, TRIPS, QUADS = 1 << 29, 1 << 30, 1 << 31


def rank_of(w):
    return (w >> 8) & 0xF


def suit_of(w):
    return {0x1000: 0, 0x2000: 1, 0x4000: 2, 0x8000: 3}[w & 0xF000]


def near_miss_words():
    """every single-bit corruption of every card, flagged cards, small numbers, field mixes"""
    ws = []
    for c in DECK:
        for b in range(32):
            ws.append(c ^ (1 << b))
    for c in DECK:
        ws += [c | PAIR, c | TRIPS, c | QUADS, c | PAIR | TRIPS | QUADS]
    ws += list(range(0, 65))
    ws += [0xFFFFFFFF, 0xFFFFFFFE, 0x80000000, 0x7FFFFFFF, 0x1FFF0000, 0xF000, 0x3F]
    # inconsistent fields: every (rank bit r1, rank number r2, prime r3) that is not one rank, with every single suit bit:
    # each field is well-formed on its own, only the cross-check between them fails (13^3 - 13 = 2184 mixes x 4 suits)
    for r1 in range(13):
        for r2 in range(13):
            for r3 in range(13):
                if not (r1 == r2 == r3):
                    for s_ in range(4):
                        ws.append((1 << (16 + r1)) | (0x1000 << s_) | (r2 << 8) | PRIMES[r3])
    # rank numbers 13..15 (outside the 13 ranks) under every suit bit, with and without a rank bit
    for n_ in (13, 14, 15):
        for s_ in range(4):
            ws += [(0x1000 << s_) | (n_ << 8), (1 << 28) | (0x1000 << s_) | (n_ << 8) | 41, (1 << (16 + n_)) | (0x1000 << s_) | (n_ << 8)]
    # two suit bits / no suit bit
    for c in DECK[:13]:
        ws.append(c | 0x4000)
        ws.append(c & ~0xF000)
    seen = set()
    out = []
    for w in ws:
        w &= 0xFFFFFFFF
        if w not in seen:
            seen.add(w)
            out.append(w)
    return out


def fam(name, lines, rule, exhaustive=False, categories=None, nontrivial=None, profiles=None, pinned=False, beyond=False):
    """pinned: the theorems fix the model's output on these cases, so a disagreement is itself a failing input.
    beyond: the family compares behaviour the property does NOT fix (it only ties helper definitions of the model); a
    disagreement there is recorded as model drift in the evidence and is not a verdict."""
    return {
        "beyond": beyond,
        "profiles": profiles or ["release", "chk"],
        "pinned": pinned,
        "name": name,
        "lines": lines,
        "rule": rule,
        "exhaustive": exhaustive,
        "categories": categories or {},
        "nontrivial": nontrivial,
    }


def fam_cmd(name, cases_args, rule, exhaustive=True, shard=True, profiles=None, pinned=False):
    return {"name": name, "cases_cmd": cases_args, "rule": rule, "exhaustive": exhaustive, "categories": {}, "shard": shard,
            "profiles": profiles or ["release", "chk"], "pinned": pinned}


def fam_sweep(name, op, k, order, expect, theorem, rule, seed=1, stride=1, offset=0, alphabet="deck", profiles=None, blank_case=None):
    """exhaustive implementation-only family: `ckc-probe sweep` runs the projection `op` on every k-subset of the deck (or
    k-multiset over deck + blank) in the given slot order; the model's line is the constant `expect` by `theorem`"""
    args = ["--op", op, "--k", str(k), "--order", str(order), "--alphabet", alphabet, "--seed", str(seed),
            "--stride", str(stride), "--offset", str(offset % max(1, stride))]
    return {"name": name, "sweep": args, "expect": expect, "theorem": theorem, "rule": rule, "exhaustive": stride == 1,
            "categories": {}, "profiles": profiles or ["release"], "pinned": True, "blank_case": blank_case}


# ---- word-level families ------------------------------------------------------------------------
def words_family(rng, n_random):
    nm = near_miss_words()
    rnd = [rng.next() & 0xFFFFFFFF for _ in range(n_random)]
    return DECK + [0] + nm + rnd, {"cards": 52, "blank": 1, "near_miss": len(nm), "random_u32": n_random}


def c10_families(rng, tier):
    n = 2000 if tier == "quick" else 200000
    ws, cats = words_family(rng, n)
    fams = []
    fams.append(fam("filter", ["filter %d" % w for w in ws],
                    "filter on the 52 cards, blank, every single-bit corruption of every card, flagged cards, "
                    "small numbers, inconsistent-field words and seeded random u32 words; non-trivial = distinct "
                    "word", categories=cats, pinned=True))
    fams.append(fam("create", ["create %d %d" % (r, s) for r in range(14) for s in range(5)],
                    "create on all 14 x 5 (rank variant, suit variant) pairs", exhaustive=True, pinned=True))
    fams.append(fam("accessors", ["accf %d" % w for w in DECK + [0]],
                    "rank, suit, prime, bit, flag and character accessors on the 52 cards and blank", exhaustive=True, pinned=True))
    return fams


def c18_families(rng, tier):
    idx = list(range(0, 70001)) + [(1 << 32) - 1, 1 << 32, (1 << 32) + 1, 1 << 63, (1 << 64) - 1, (1 << 64) - 2]
    for k in (8, 16, 24, 32, 40, 48, 56):   # an in-range low part under every byte boundary (truncating casts)
        idx += [(1 << k) + j for j in (0, 1, 51, 52, 255)]
    # wrap-around candidates: an index whose quotient by a small divisor (1, suit size, deck size, ...) is a multiple of 2^8 / 2^16 /
    # 2^32 plus something small, so that an index split into parts with a truncating cast lands back inside the deck
    wrap = set()
    for d in (1, 2, 4, 13, 26, 52):
        for w_ in (8, 16, 32):
            for k in (1, 2, 3, 5, (1 << (63 - w_)) // d):
                for q in range(0, 6):
                    for j in (0, 1, 7, 12, 13, 51, 52):
                        v = d * ((k << w_) + q) + j
                        if v < (1 << 64):
                            wrap.add(v)
    idx += sorted(wrap)
    n = 2000 if tier == "quick" else 200000
    idx += [rng.next() >> rng.below(64) for _ in range(n)]
    return [fam("deck_get", ["deckget %d" % i for i in idx],
                "Deck::get on EVERY index 0..=70000 (all u8/u16 truncation classes), 2^k + small offsets for every byte boundary, indices whose "
                "quotient by 1/2/4/13/26/52 wraps a u8/u16/u32 back into the deck, "
                "usize::MAX and seeded random usize of every magnitude; non-trivial = distinct index",
                categories={"in_range": sum(1 for i in idx if i < 52), "past_end": sum(1 for i in idx if i >= 52)}, pinned=True)]


# ---- hands ---------------------------------------------------------------------------------------
def rand_hand(rng, k):
    """k distinct deck cards in a random slot order"""
    idx = []
    while len(idx) < k:
        i = rng.below(52)
        if i not in idx:
            idx.append(i)
    return [DECK[i] for i in idx]


def line(op, ws):
    return op + " " + " ".join(str(w) for w in ws)


def category_of(ws):
    """rule-based category of five real cards (independent of the implementation); 8 = straight flush"""
    rs = sorted((rank_of(w) for w in ws), reverse=True)
    fl = len({suit_of(w) for w in ws}) == 1
    cnt = sorted((rs.count(r) for r in set(rs)), reverse=True)
    distinct = len(set(rs)) == 5
    straight = distinct and (rs[0] - rs[4] == 4 or rs == [12, 3, 2, 1, 0])
    if straight and fl:
        return 8
    if cnt[0] == 4:
        return 7
    if cnt == [3, 2]:
        return 6
    if fl:
        return 5
    if straight:
        return 4
    if cnt[0] == 3:
        return 3
    if cnt == [2, 2, 1]:
        return 2
    if cnt[0] == 2:
        return 1
    return 0


CAT_NAMES = ["high_card", "pair", "two_pair", "trips", "straight", "flush", "full_house", "quads", "straight_flush"]


def shuffled_fives(rng, n, op):
    lines, cats = [], {}
    for _ in range(n):
        h = rand_hand(rng, 5)
        c = CAT_NAMES[category_of(h)]
        cats[c] = cats.get(c, 0) + 1
        lines.append(line(op, h))
    return lines, cats


def structured_fives(rng, op):
    """hands of every category in several slot orders, incl. repeated-rank hands spanning 5 ranks"""
    out = []
    for top in range(4, 13):
        for s in range(4):
            sf = [layout(top - i, s) for i in range(5)]
            out.append(rng.shuffle(sf))
            st = [layout(top - i, (s + i) % 4) for i in range(5)]
            out.append(rng.shuffle(st))
    for s in range(4):
        out.append(rng.shuffle([layout(r, s) for r in (12, 3, 2, 1, 0)]))
        out.append(rng.shuffle([layout(r, (s + r) % 4) for r in (12, 3, 2, 1, 0)]))
    # pair / trips / quads inside a five-rank window (the span test trap), all windows
    for lo in range(0, 9):
        for dup in range(lo + 1, lo + 4):
            out.append(rng.shuffle([layout(lo + 4, 3), layout(lo, 2), layout(dup, 0), layout(dup, 1), layout(lo + 1 if dup != lo + 1 else lo + 2, 0)]))
        out.append(rng.shuffle([layout(lo + 4, 3), layout(lo + 4, 2), layout(lo + 4, 1), layout(lo + 4, 0), layout(lo, 1)]))
        out.append(rng.shuffle([layout(lo + 4, 3), layout(lo + 4, 2), layout(lo + 4, 1), layout(lo, 0), layout(lo, 1)]))
    return [line(op, h) for h in out]


def c01_families(rng, tier):
    n = 200000 if tier == "quick" else 2000000
    sh, cats = shuffled_fives(rng, n, "rankv 5")
    return [
        fam_cmd("fives_deck_order", ["hands", "--k", "5", "--op", "rankv 5"],
                "ALL 2,598,960 five-card subsets of the deck in deck order through all six five-card entry points "
                "(hand_rank_value, hand_rank, hand_rank_value_and_hand, hand_rank_value_validated, hand_rank_validated, "
                "evaluate::five_cards); every case distinct and non-trivial (a real hand)", pinned=True),
        fam("fives_structured", structured_fives(rng, "rankv 5"),
            "straights, straight flushes, wheels and repeated-rank hands spanning five ranks, shuffled slots", pinned=True),
        fam("fives_shuffled", sh, "seeded random five distinct cards in random slot order; non-trivial = distinct line",
            categories=cats, pinned=True),
        fam("perm5_projection", [line("perm5", rand_hand(rng, 5)) for _ in range(300)] + structured_fives(rng, "perm5"),
            "the projection the slot-order sweep uses, on model and implementation", pinned=True),
        fam_sweep("perm5_all_orders", "perm5", 5, 0, "1 1", "C01_projection",
                  "ALL 2,598,960 five-card hands x ALL 120 slot orders x the six entry points: one in-range value per hand "
                  "(implementation-only: the model's line is constant by the theorem)", profiles=["release"] if tier == "quick" else ["release", "chk"]),
    ]


def c13_families(rng, tier):
    n = 200000 if tier == "quick" else 2000000
    sh, cats = shuffled_fives(rng, n, "pred5p")
    mech, _ = shuffled_fives(rng, 20000, "pred5")
    return [
        fam_cmd("pred5_deck_order", ["hands", "--k", "5", "--op", "pred5p"],
                "ALL 2,598,960 five-card subsets in deck order: is_flush, is_straight, is_straight_flush, is_wheel; evaluate::is_flush and "
                "evaluate::or_rank_bits agree with the methods; each predicate agrees with the category name of hand_rank() of the same "
                "hand (projection: booleans only)", pinned=True),
        fam("pred5_structured", structured_fives(rng, "pred5p"),
            "straights, wheels and repeated-rank hands spanning five ranks, shuffled slots", pinned=True),
        fam("pred5_shuffled", sh, "seeded random hands in random slot order", categories=cats, pinned=True),
        fam("pred5_mechanism", mech, "the intermediate words or_rank_bits, and_bits, or_bits, multiply_primes on seeded hands (beyond the "
            "property: ties the model's helpers)", beyond=True),
    ]


def prime_products():
    out = set()

    def go(start, k, acc):
        if k == 0:
            out.add(acc)
            return
        for i in range(start, 13):
            go(i, k - 1, acc * PRIMES[i])
    go(0, 5, 1)
    return sorted(out)


def card_or_blank_multiset(rng, k, p_blank):
    ws = []
    for _ in range(k):
        ws.append(0 if rng.below(100) < p_blank else DECK[rng.below(52)])
    return ws


def c05_families(rng, tier):
    prods = prime_products()
    keys = set()
    for p in prods:
        keys.update((p - 1, p, p + 1))
    keys.update([0, 1, 2, 31, 32, 33, 47, 48, 49, (1 << 32) - 1, 1 << 32, (1 << 32) + 1, (1 << 63) - 1, 1 << 63,
                 (1 << 64) - 1, (1 << 64) - 2, 104553157, 104553158, 104553156])
    keys = sorted(keys)
    rnd = [rng.next() >> rng.below(64) for _ in range(20000)]
    fams = [
        fam("find_in_products", ["fipp %d" % k for k in keys + rnd],
            "Five::find_in_products on every product of five rank primes and each +-1 (every key class a comparison search "
            "can distinguish), the extremes of usize, seeded usize of every magnitude",
            categories={"product_classes": len(keys), "random_usize": len(rnd)}, profiles=["release", "chk"], pinned=True),
    ]
    if tier == "thorough":
        fams.append(fam_cmd("five_multisets", ["multisets", "--k", "5", "--op", "rankp 5"],
                            "ALL 4,187,106 five-slot multisets over {52 cards, blank} on model and implementation: every ranking entry point "
                            "returns normally; a hand with a blank gets value 0 / Invalid", profiles=["release", "chk"], pinned=True))
    sw5 = sweeps(rng, tier, lambda k: "rankp %d" % k, "ok ok ok ok ok ok", "C05_projection + C05_blank_five",
                 "every ranking entry point returns normally; a hand holding a blank gets value 0 / Invalid (constant read off the model)",
                 sizes=(5,), alphabet="deckblank", name="rankp_multisets", quick_strides={5: (1, 4, 4)}, blank_case="rankp 5 0 0 0 0 0")
    for f in sw5:
        f["profiles"] = ["release", "chk"]
    fams += sw5
    n = 100000 if tier == "quick" else 1000000
    for k in (5, 6, 7):
        lines, cats = [], {"with_blank": 0, "with_repeat": 0, "all_distinct_cards": 0}
        for i in range(n if k > 5 else n // 2):
            ws = card_or_blank_multiset(rng, k, (0, 10, 40, 90)[i % 4])
            if 0 in ws:
                cats["with_blank"] += 1
            elif len(set(ws)) < k:
                cats["with_repeat"] += 1
            else:
                cats["all_distinct_cards"] += 1
            lines.append(line("rankp %d" % k, ws))
        lines.append(line("rankp %d" % k, [0] * k))
        fams.append(fam("slots%d_card_or_blank" % k, lines,
                        "seeded %d-slot arrays over {52 cards, blank} in random order with repetition (blank density 0/10/40/90%%), "
                        "plus the all-blank default hand" % k, categories=cats, profiles=["release", "chk"], pinned=True))
    sw = sweeps(rng, tier, lambda k: "rankp %d" % k, "ok ok ok ok ok", "C05_projection",
                "every ranking entry point returns normally", alphabet="deckblank", name="rankp_multisets",
                quick_strides={6: (4, 16, 16), 7: (128, 512, 512)}, thorough_stride={7: 4})
    for f in sw:
        f["profiles"] = ["release", "chk"]     # the property is about every build profile
    fams += sw
    st = 64 if tier == "quick" else 1
    fams.append(fam_sweep("five_ordered_arrays", "rankp 5", 5, 0, "ok ok ok ok ok ok", "C05_projection + C05_blank_five",
                          "ALL 53^5 = 418,195,493 ORDERED five-slot arrays over {52 cards, blank}%s: every entry point returns normally; an "
                          "array holding a blank gets value 0 / Invalid (that constant is read off the model on the all-blank hand)"
                          % ("" if st == 1 else " (1 of every %d, seeded offset)" % st), stride=st, offset=rng.below(st),
                          alphabet="deckblank_ordered", profiles=["release", "chk"],
                          blank_case="rankp 5 0 0 0 0 0"))
    if tier == "thorough":
        fams.append(fam_cmd("six_multisets_slice", ["multisets", "--k", "6", "--op", "rankp 6", "--stride", "8", "--offset", str(rng.below(8))],
                            "every 8th of the 6-slot multisets over {52 cards, blank}", exhaustive=False,
                            profiles=["release", "chk"], pinned=True))
    return fams


# ---- six / seven card hands (C02, C03, C09) ---------------------------------------------------------
SIX_ROWS = [[0, 1, 2, 3, 4], [0, 1, 2, 3, 5], [0, 1, 2, 4, 5], [0, 1, 3, 4, 5], [0, 2, 3, 4, 5], [1, 2, 3, 4, 5]]


def combos(n, k):
    import itertools
    return [list(c) for c in itertools.combinations(range(n), k)]


def row_targeted(rng, n, op):
    """for EVERY five-slot combination of n slots: a hand whose unique best five sits exactly in those slots
    (a straight flush there, low unconnected off-suit cards elsewhere), plus a rotated and a shuffled variant"""
    out = []
    for row in combos(n, 5):
        for top, suit in ((12, 3), (8, 1), (4, 0)):
            best = [layout(top - i, suit) for i in range(5)] if top > 4 else [layout(r, suit) for r in (3, 2, 1, 0, 12)]
            junk_ranks = [r for r in (0, 2, 4, 6) if all(rank_of(b) != r for b in best)]
            junk = [layout(junk_ranks[i], (suit + 1 + i) % 4) for i in range(n - 5)]
            h = [None] * n
            for slot, c in zip(row, rng.shuffle(best)):
                h[slot] = c
            rest = [i for i in range(n) if i not in row]
            for slot, c in zip(rest, junk):
                h[slot] = c
            out.append(h)
            out.append(h[1:] + h[:1])
    return [line(op, h) for h in out]


def best_category(ws):
    import itertools
    return max(category_of(list(c)) for c in itertools.combinations(ws, 5))


def seeded_hands(rng, n, count, op):
    lines, cats = [], {}
    for _ in range(count):
        h = rand_hand(rng, n)
        if len(lines) < 20000:  # measure the category distribution on a prefix (cheap)
            c = CAT_NAMES[best_category(h)]
            cats[c] = cats.get(c, 0) + 1
        lines.append(line(op, h))
    return lines, cats


def made_hands(rng, n, count, op):
    """hands built around a strong five (straight flush / quads / full house / flush / straight) so that the rare
    categories are exercised, completed with random other cards, random slot order"""
    out = []
    for i in range(count):
        kind = i % 5
        if kind == 0:
            top, s = 4 + rng.below(9), rng.below(4)
            five = [layout(top - k, s) for k in range(5)]
        elif kind == 1:
            r, k = rng.below(13), rng.below(13)
            five = [layout(r, s) for s in range(4)] + [layout(k if k != r else (k + 1) % 13, rng.below(4))]
        elif kind == 2:
            r, k = rng.below(13), rng.below(12)
            k = k if k < r else k + 1
            ss = rng.shuffle([0, 1, 2, 3])
            five = [layout(r, ss[0]), layout(r, ss[1]), layout(r, ss[2]), layout(k, ss[0]), layout(k, ss[3])]
        elif kind == 3:
            s = rng.below(4)
            five = [layout(r, s) for r in rng.sample(list(range(13)), 5)]
        else:
            top = 4 + rng.below(9)
            five = [layout(top - k, rng.below(4)) for k in range(5)]
        rest = [c for c in DECK if c not in five]
        out.append(rng.shuffle(five + rng.sample(rest, n - 5)))
    return [line(op, h) for h in out]


def six_seven_families(rng, tier, op, what, pinned=True):
    nq = 60000 if tier == "quick" else 600000
    fams = []
    for n in (6, 7):
        sh, cats = seeded_hands(rng, n, nq, "%s %d" % (op, n))
        fams.append(fam("rows%d" % n, row_targeted(rng, n, "%s %d" % (op, n)),
                        "for EVERY five-slot combination of %d slots a hand whose unique best five sits exactly in those slots, "
                        "x3 kinds of best hand, plus a slot rotation of each; %s" % (n, what), pinned=pinned))
        fams.append(fam("made%d" % n, made_hands(rng, n, nq // 6, "%s %d" % (op, n)),
                        "hands built around a straight flush / quads / full house / flush / straight plus random cards, shuffled slots",
                        pinned=pinned))
        fams.append(fam("seeded%d" % n, sh, "seeded random %d distinct cards in random slot order (category distribution of the "
                        "best hand measured on the first 20000)" % n, categories=cats, pinned=pinned))
    if tier == "thorough":
        fams.append(fam_cmd("all_sixes", ["hands", "--k", "6", "--op", "%s 6" % op],
                            "ALL 20,358,520 six-card subsets in deck order", pinned=pinned))
        fams.append(fam_cmd("sevens_slice", ["hands", "--k", "7", "--op", "%s 7" % op, "--stride", "16", "--offset", str(rng.below(16))],
                            "every 16th of the 133,784,560 seven-card subsets in deck order (seeded offset)", exhaustive=False, pinned=pinned))
    return fams


def sweeps(rng, tier, op_of, expect, theorem, what, sizes=(6, 7), quick_strides=None, alphabet="deck", name="sweep",
           thorough_stride=None, blank_case=None):
    """exhaustive implementation-only sweeps of a constant projection over all k-card hands in several slot orders:
    shuffled (order 2), descending numeric = what sort() produces (3), deck order (0), and in the thorough tier also
    reversed (1) and ascending (4), the shuffled order in the overflow-checked profile as well. Quick tier: a 1/stride
    slice at a seeded offset (stride 1 = everything)."""
    seed = rng.below(1 << 30) + 1
    out = []
    for k in sizes:
        qs = (quick_strides or {}).get(k) or {5: (1, 2, 2), 6: (1, 4, 4), 7: (8, 32, 32)}.get(k, (1, 1, 1))
        ts = (thorough_stride or {}).get(k, 1)
        plan = [(2, qs[0], ["release"]), (3, qs[1], ["release"]), (0, qs[2], ["release"])] if tier == "quick" else \
               [(2, ts, ["release", "chk"]), (3, ts, ["release"]), (0, ts, ["release"]), (1, 2 * ts, ["release"]), (4, 2 * ts, ["release"])]
        for order, stride, profs in plan:
            oname = {0: "deck order", 1: "reversed deck order", 2: "one seeded shuffle per hand", 3: "descending numeric order",
                     4: "ascending numeric order"}[order]
            dom = ("all C(52,%d) hands" % k) if alphabet == "deck" else ("all %d-slot multisets over the 52 cards and blank" % k)
            out.append(fam_sweep("%s%d_order%d" % (name, k, order), op_of(k), k, order, expect, theorem,
                                 "%s%s, %s: %s (implementation-only: the model's line is constant by the theorem)" %
                                 (dom, "" if stride == 1 else " (1 of every %d, seeded offset)" % stride, oname, what),
                                 seed=seed, stride=stride, offset=rng.below(stride) if stride > 1 else 0, alphabet=alphabet,
                                 profiles=profs, blank_case=blank_case))
    return out


def c02_families(rng, tier):
    fams = six_seven_families(rng, tier, "rankv", "values only")
    lines = [line("best 6", rand_hand(rng, 6)) for _ in range(1500)] + [line("best 7", rand_hand(rng, 7)) for _ in range(1500)]
    lines += [l.replace("x ", "best 7 ", 1) for l in made_hands(rng, 7, 600, "x")] + [l.replace("x ", "best 6 ", 1) for l in made_hands(rng, 6, 600, "x")]
    fams.append(fam("best_projection", lines, "the projection the sweeps use, on model and implementation: does every entry point "
                    "return the lowest value among the five-slot sub-hands ranked on their own", pinned=True))
    fams += sweeps(rng, tier, lambda k: "best %d" % k, "1 1 1 1 1", "C02_projection",
                   "every entry point returns the lowest five-card sub-hand value", name="best")
    return fams


def c03_families(rng, tier):
    n5 = 20000 if tier == "quick" else 200000
    sh, cats = shuffled_fives(rng, n5, "wit 5")
    # projection `wit`: both sides print whether the reported hand is drawn from the input, duplicate-free, descending and
    # re-ranks to the reported value (the property lets the code report ANY such witness, so the cards are not compared)
    fams = six_seven_families(rng, tier, "wit", "is the reported hand a sorted witness re-ranking to the reported value")
    fams.append(fam("fives_identity", sh, "five-card hands: the reported hand is the input", categories=cats, pinned=True))
    fams += sweeps(rng, tier, lambda k: "wit %d" % k, "1 1 1 1", "C03_projection",
                   "the reported hand is drawn from the input, duplicate-free, descending and re-ranks to the reported value",
                   name="wit")
    return fams


def c09_families(rng, tier):
    n = 6000 if tier == "quick" else 120000
    lines = [line("chain7", rand_hand(rng, 7)) for _ in range(n)]
    lines += [l.replace("x ", "chain7 ", 1) for l in made_hands(rng, 7, n // 2, "x")]
    lines += [l.replace("x 7 ", "chain7 ", 1) for l in row_targeted(rng, 7, "x 7")]
    # the same relation with the containers built through the other construction paths (setters, from-parts)
    lines += [line("chain7s", rand_hand(rng, 7)) for _ in range(n // 3)]
    lines += [l.replace("x 7 ", "chain7s ", 1) for l in row_targeted(rng, 7, "x 7")]
    fams = [fam("seven_six_five_chains", lines,
                "seeded, made and row-targeted sevens: v7 <= all seven six-card values, v7 = their minimum, each v6 <= its six "
                "five-card values and equals their minimum (projection: booleans only; 1 + 7 + 42 rankings per case)", pinned=True)]
    fams.append(fam("vsame_projection", [line("vsame %d" % (5 + j % 3), rand_hand(rng, 5 + j % 3)) for j in range(900)],
                    "the projection the validated-value sweeps use, on model and implementation", pinned=True))
    fams += sweeps(rng, tier, lambda k: "vsame %d" % k, "1", "C09_projection_validated",
                   "the validated entry points return the plain value on distinct real cards (so the chain is theirs too)",
                   sizes=(6, 7), name="vsame", quick_strides={6: (1, 4, 4), 7: (4, 16, 16)})
    fams += sweeps(rng, tier, lambda k: "chain7", "1 1 1 1", "C09_projection",
                   "seven <= each six-subset <= each five-subset and both minima attained", sizes=(7,), name="chain")
    return fams


# ---- C04 ----------------------------------------------------------------------------------------------
def c04_alphabet():
    return DECK + [0] + near_miss_words()


def c04_families(rng, tier):
    alpha = c04_alphabet()
    fams = []
    sub, pairs, rnd, parts = [], [], [], []
    cats = {"valid": 0, "duplicate": 0, "corrupt": 0}
    nr = 20000 if tier == "quick" else 300000
    for n in range(2, 8):
        op = ("vrank %d" % n) if n >= 5 else None
        base = rand_hand(rng, n)
        for slot in range(n):
            for w in alpha:
                h = list(base)
                h[slot] = w
                sub.append(line("isvalid %d" % n, h))
                if w != 0xFFFFFFFF and len(parts) < 30000:
                    parts.append(line("valid %d" % n, h))
                if op and (w in DECK or w % 7 == 0 or w == 0 or w == 0xFFFFFFFF):
                    sub.append(line(op, h))
        for i in range(n):
            for j in range(n):
                if i < j:
                    for b in range(3):
                        h = rand_hand(rng, n)
                        h[j] = h[i]
                        pairs.append(line("isvalid %d" % n, h))
                        if op:
                            pairs.append(line(op, h))
        for k in range(nr // 6):
            kind = k % 4
            h = rand_hand(rng, n)
            if kind == 1:
                i, j = rng.below(n), rng.below(n)
                h[j] = h[i]
            elif kind == 2:
                h[rng.below(n)] = rng.choice(alpha)
            elif kind == 3:
                h = [rng.choice(alpha) if rng.below(3) == 0 else c for c in h]
            ok = len(set(h)) == n and all(c in DECK for c in h)
            cats["valid" if ok else ("duplicate" if len(set(h)) < n else "corrupt")] += 1
            rnd.append(line("isvalid %d" % n, h))
            if op:
                rnd.append(line(op, h))
    garb = []
    hi_words = [0xFFFFFFFF, 0xFFFFFFFE, 0xFFFFFFFD, 0xFFFFFFFC, 0xFFFFFFFB, 0xFFFFFFFA, 0xFFFFFFF9, 0x1FFFF000, 0x1FFF8000, 0x1FFF4000]
    for n in (5, 6, 7):
        for s_ in range(4):
            suited = [layout(r, s_) for r in (12, 11, 10, 9, 8, 7, 6)][:n]
            for slot in range(n):
                for m in (PAIR, TRIPS, QUADS, PAIR | TRIPS | QUADS):
                    h = list(suited)
                    h[slot] |= m
                    garb.append(line("vrank %d" % n, h))
                    garb.append(line("isvalid %d" % n, h))
                for w in hi_words:
                    h = list(suited)
                    h[slot] = w
                    garb.append(line("vrank %d" % n, h))
        garb.append(line("vrank %d" % n, hi_words[:n]))
        garb.append(line("vrank %d" % n, [0x1FFF8000 | (i + 1) for i in range(n)]))
        for _ in range(300):
            garb.append(line("vrank %d" % n, [(rng.next() & 0xFFFFFFFF) | 0x8000 for _ in range(n)]))
            garb.append(line("vrank %d" % n, [rng.next() & 0xFFFFFFFF for _ in range(n)]))
    # words with SEVERAL rank bits: the OR of the rank bits of the hand reaches the values just past the end of the 7,937-entry
    # tables (7937..8191) and other dense patterns, in mixed suits (the non-flush lookup) and in one suit (the flush lookup)
    for n in (5, 6, 7):
        for tgt in list(range(7936, 8192, 1 if n == 5 else 5)) + [0x1F01, 0x1FFF, 0x1F1F, 0x1E01]:
            bits = [b_ for b_ in range(13) if tgt >> b_ & 1]
            top = bits[-4:] if len(bits) >= 4 else bits
            rest = [b_ for b_ in bits if b_ not in top]
            for suited in (False, True):
                h = []
                for j, b_ in enumerate(top):
                    h.append(layout(b_, 3 if suited else j % 4))
                multi = layout(top[0], 3 if suited else 1)
                for b_ in rest:
                    multi |= 1 << (16 + b_)
                h.append(multi)
                while len(h) < n:
                    h.append(layout(len(h), 3 if suited else 2) if len(h) not in top else layout(0, 0))
                h = h[:n]
                if rng.below(2):
                    h.reverse()
                garb.append(line("vrank %d" % n, h))
    fams.append(fam("flush_like_garbage", garb, "sizes 5..7: one-suit hands with one slot flagged (pair/trips/quads) or replaced by a word with "
                    "all rank bits set, all-garbage hands sharing a suit bit, random u32 hands: words for which UNVALIDATED ranking would index "
                    "out of range, so validated ranking must return 0 before looking anything up", profiles=["release", "chk"], pinned=True))
    fams.append(fam("slot_substitution", sub, "sizes 2..7: every slot x every alphabet word (52 cards, blank, every single-bit corruption "
                    "of every card, flagged cards, 0xFFFFFFFF, 0..64, inconsistent-field words) substituted into a valid hand: "
                    "is the hand reported valid (projection: is_valid only); validated ranking for sizes 5..7 on a sub-alphabet",
                    profiles=["release", "chk"], pinned=True))
    fams.append(fam("equal_slot_pairs", pairs, "sizes 2..7: EVERY slot pair (i,j) made equal, three hands each", profiles=["release", "chk"], pinned=True))
    fams.append(fam("seeded_arrangements", rnd, "seeded hands: valid / one duplicated slot / one alphabet word / several alphabet words",
                    categories=cats, profiles=["release", "chk"], pinned=True))
    cb = DECK + [0]
    small = [line("isvalid 2", [a, b]) for a in cb for b in cb] + [line("isvalid 3", [a, b, c]) for a in cb for b in cb for c in cb]
    fams.append(fam("all_two_three", small, "ALL 53^2 two-slot and 53^3 three-slot arrangements over {52 cards, blank}", exhaustive=True,
                    profiles=["release"], pinned=True))
    fams.append(fam("validator_parts", parts, "is_valid / is_corrupt / are_unique / contain_blank separately on slot substitutions (beyond "
                    "the property, which only fixes what is reported valid: ties the model's helper predicates; words equal to the "
                    "0xFFFFFFFF sentinel of Six/Seven are left out)", profiles=["release"], beyond=True))
    for k in (5, 6, 7):
        tail = " 1" if k == 5 else ""
        fams += sweeps(rng, tier, lambda k_: "vrank %d" % k_, "1 0 1 1" + tail, "C04_projection_hand",
                       "distinct real cards: reported valid, validated value non-zero, carried by hand_rank_validated, equal to the unvalidated value",
                       sizes=(k,), name="vrank_valid", quick_strides={5: (1, 4, 4), 6: (4, 16, 16), 7: (16, 64, 64)})
        fams += sweeps(rng, tier, lambda k_: "vrank %d" % k_, "0 1 1" + tail, "C04_projection + C04_is_valid",
                       "a blank or a repeated card among the slots: reported not valid, validated value 0",
                       sizes=(k,), name="vrank_invalid", alphabet="deckblank_invalid", thorough_stride={7: 8},
                       quick_strides={5: (1, 4, 4), 6: (4, 16, 16), 7: (32, 128, 128)})
    for k in (2, 3, 4):
        fams += sweeps(rng, tier, lambda k_: "isvalid %d" % k_, "0", "C04_is_valid", "a blank or a repeated card among the slots: not valid",
                       sizes=(k,), name="isvalid_invalid", alphabet="deckblank_invalid")
        fams += sweeps(rng, tier, lambda k_: "isvalid %d" % k_, "1", "C04_is_valid", "distinct real cards: valid", sizes=(k,), name="isvalid_valid")
    ws, wc = words_family(rng, 2000 if tier == "quick" else 200000)
    fams.append(fam("filter", ["filter %d" % w for w in ws], "the per-slot recogniser on cards, near-miss words and seeded u32 (its complete "
                    "2^32 graph is regenerated into Gen/Scan.v on every run)", categories=wc, pinned=True))
    return fams


# ---- C06 / C07 ------------------------------------------------------------------------------------------
BOUNDARY = [0, 1, 2, 9, 10, 11, 12, 22, 23, 165, 166, 167, 168, 321, 322, 323, 324, 1598, 1599, 1600, 1601, 1608, 1609, 1610, 1611,
            2466, 2467, 2468, 2469, 3324, 3325, 3326, 3327, 6184, 6185, 6186, 6187, 7460, 7461, 7462, 7463, 7464, 7465, 8191, 8192,
            16383, 16384, 32767, 32768, 32769, 65534, 65535]


def dup_or_blank_hand(rng, k):
    h = rand_hand(rng, k)
    m = rng.below(3)
    if m == 0:
        h[rng.below(k)] = 0
    elif m == 1:
        a, b = rng.below(k), rng.below(k)
        if a == b:
            b = (a + 1) % k
        h[b] = h[a]
    else:
        h[rng.below(k)] = 0
        a, b = rng.below(k), rng.below(k)
        if a != b:
            h[b] = h[a]
    return h


def c06_families(rng, tier):
    n5 = 50000 if tier == "quick" else 500000
    sh, cats = shuffled_fives(rng, n5, "hrank 5")
    return [
        fam("all_values", ["hr %d" % v for v in range(65536)] + ["hrdefault"],
            "HandRank::from on ALL 65,536 values: value, name, class, is_invalid, is_a_valid_hand_rank, determine_name, "
            "determine_class; and HandRank::default()", exhaustive=True, pinned=True),
        fam("hands_rank", sh + structured_fives(rng, "hrank 5") + made_hands(rng, 6, 3000, "hrank 6") + made_hands(rng, 7, 3000, "hrank 7"),
            "hand_rank() / hand_rank_validated() (value, name, class) of seeded and structured five-, six- and seven-card hands",
            categories=cats, pinned=True),
        fam("invalid_hands_rank", [line("hrankv %d" % (5 + j % 3), dup_or_blank_hand(rng, 5 + j % 3)) for j in range(3000)],
            "five-, six- and seven-slot hands holding a blank or a repeated card in a random slot (inside or outside the best five): "
            "hand_rank_validated() is the Invalid rank of value 0; hand_rank() is the conversion of hand_rank_value() (projection: "
            "which value the plain path gives an invalid hand is left open)", pinned=True),
        fam("hrself_projection", [line("hrself %d" % (5 + j % 3), rand_hand(rng, 5 + j % 3)) for j in range(900)],
            "the projection the sweeps use, on model and implementation", pinned=True),
    ] + sweeps(rng, tier, lambda k: "hrself %d" % k, "1 1 1", "C06_projection",
               "the reported rank record (plain and validated) is the conversion of the hand's value, is not Invalid and passes its own "
               "consistency test", sizes=(5, 6, 7), name="hrself", quick_strides={5: (1, 4, 4), 6: (4, 16, 16), 7: (16, 64, 64)})


def c07_families(rng, tier):
    n = 150000 if tier == "quick" else 3000000
    b = BOUNDARY + [rng.below(65536) for _ in range(12)]
    # projection `hrcmpp`: for two INVALID ranks the laws (Equal iff ==, antisymmetry, partial_cmp, operators against cmp), since
    # the property leaves the order among invalid ranks open; otherwise cmp, partial_cmp, ==, !=, <, <=, >, >= themselves
    pairs = ["hrcmpp %d %d" % (x, y) for x in b for y in b]
    rnd = []
    cats = {"valid_valid": 0, "valid_invalid": 0, "invalid_invalid": 0}
    for i in range(n):
        k = i % 4
        x = rng.below(7464) if k != 3 else rng.below(65536)
        y = rng.below(7464) if k in (0, 1) else rng.below(65536)
        if k == 1 and rng.below(4) == 0:
            y = x
        vx, vy = 1 <= x <= 7462, 1 <= y <= 7462
        cats["valid_valid" if vx and vy else ("invalid_invalid" if not vx and not vy else "valid_invalid")] += 1
        rnd.append("hrcmpp %d %d" % (x, y))
    diag = ["hrcmpp %d %d" % (v, v) for v in range(0, 65536, 1 if tier == "thorough" else 7)]
    adj_valid, adj_other, direction = [], [], []
    for v in list(range(0, 7470)) + list(range(7470, 65535, 1 if tier == "thorough" else 13)) + [32767, 65534]:
        tgt = adj_valid if 1 <= v and v + 1 <= 7462 else adj_other
        tgt.append("hrcmpp %d %d" % (v, v + 1))
        tgt.append("hrcmpp %d %d" % (v + 1, v))
        if not (1 <= v <= 7462) and not (1 <= v + 1 <= 7462) and len(direction) < 20000:
            direction.append("hrcmp %d %d" % (v, v + 1))
    direction += ["hrcmp 0 %d" % v for v in (7463, 7464, 30000, 65535)] + ["hrcmp %d 0" % v for v in (7463, 65535)]
    tri = []
    nt = 60000 if tier == "quick" else 1000000
    pool = b + [0, 7463, 7464, 65535, 65534, 32768]
    for i in range(nt):
        k = i % 5
        if k == 0:
            t = [rng.choice(pool) for _ in range(3)]
        elif k == 1:      # three invalid values
            t = [rng.choice([0] + [7463 + rng.below(65536 - 7463)]) if rng.below(8) else 0 for _ in range(3)]
        elif k == 2:      # three valid values, close together
            c0 = 1 + rng.below(7462)
            t = [max(1, min(7462, c0 + rng.below(5) - 2)) for _ in range(3)]
        elif k == 3:      # mixed, with repeats
            t = [rng.below(65536), rng.below(7464), rng.below(65536)]
            if rng.below(3) == 0:
                t[2] = t[0]
        else:
            t = [rng.below(65536) for _ in range(3)]
        tri.append("hrtri %d %d %d" % tuple(t))
    return [
        fam("diagonal", diag, "every 7th value (thorough: every value) against itself: cmp Equal, ==, <=, >= (fixed by C07_reflexive / C07_eq)",
            pinned=True),
        fam("adjacent_valid", adj_valid, "every adjacent pair of valid values in both orders: the lower value is Greater (fixed by C07_order)",
            pinned=True),
        fam("adjacent_other", adj_other, "adjacent pairs around 0 and 7462/7463 and adjacent invalid values up to 65535 (every 13th; thorough: all) "
            "in both orders: valid against invalid by value, two invalid ranks by the laws (Equal iff ==, antisymmetric, operators agree)", pinned=True),
        fam("boundary_pairs", pairs, "ALL ordered pairs over every category boundary +-1, 0, 7462..7465, powers of two, 65534/65535 and 12 seeded "
            "values: cmp, partial_cmp, ==, !=, <, <=, >, >= (two invalid ranks: the laws)", pinned=True),
        fam("seeded_pairs", rnd, "seeded pairs: both valid / mixed / both arbitrary u16, some equal", categories=cats, pinned=True),
        fam("seeded_triples", tri, "seeded triples (boundary pool / three invalid / three close valid / mixed with repeats / arbitrary): "
            "a <= b and b <= c imply a <= c; cmp(a,b) = Equal implies cmp(a,c) = cmp(b,c)", pinned=True),
        fam("hrkey_projection", [l.replace("hrcmpp", "hrkey", 1) for l in pairs[:2000] + rnd[:2000]],
            "the projection the all-pairs sweep uses, on model and implementation", pinned=True),
        fam_sweep("all_value_pairs", "hrkey", 2, 0, "1 1 1", "C07_projection",
                  "ALL 65,536 x 65,536 = 4,294,967,296 ordered pairs of converted values, both build profiles: cmp is what the property fixes "
                  "(lower valid value Greater, invalid below valid, two invalid ranks Equal iff same value and antisymmetric); ==, !=, "
                  "partial_cmp, <, <=, >, >= agree with cmp (each value is converted once; a pair whose three bits are not all true is "
                  "re-run as an ordinary case)", alphabet="u16_ordered", profiles=["release", "chk"]),
        fam("invalid_order_direction", direction, "cmp itself on pairs of invalid values (BEYOND the property, which does not fix the order among "
            "invalid ranks: records whether the model's choice, higher value sorts lower, is still the code's)", beyond=True),
    ]


# ---- C08 --------------------------------------------------------------------------------------------------
def c08_families(rng, tier):
    n = 20000 if tier == "quick" else 300000
    hands = []
    cats = {}
    for i in range(n):
        k = 2 + i % 6
        # (the choice must be independent of the size: `i % 3` is a function of `i % 6`)
        h = card_or_blank_multiset(rng, k, (10, 30)[rng.below(2)]) if rng.below(3) == 0 else rand_hand(rng, k)
        key = "size%d_%s" % (k, "with_blank" if 0 in h else ("repeat" if len(set(h)) < k else "distinct_cards"))
        cats[key] = cats.get(key, 0) + 1
        hands.append(line("shiftn %d" % k, h))
    val = []
    for i in range(n // 2):
        k = 5 + i % 3
        val.append(line("shiftinv %d" % k, rand_hand(rng, k)))
    val += [l.replace("x ", "shiftinv 6 ", 1) for l in made_hands(rng, 6, n // 10, "x")]
    val += [l.replace("x ", "shiftinv 7 ", 1) for l in made_hands(rng, 7, n // 10, "x")]
    val += [l.replace("x", "shiftinv", 1) for l in row_targeted(rng, 6, "x 6") + row_targeted(rng, 7, "x 7")]
    rel = [line("relabel %d" % (5 + j % 3), rand_hand(rng, 5 + j % 3)) for j in range(600)]
    rel += [l.replace("x ", "relabel 6 ", 1) for l in made_hands(rng, 6, 150, "x")] + [l.replace("x ", "relabel 7 ", 1) for l in made_hands(rng, 7, 150, "x")]
    return sweeps(rng, tier, lambda k: "relabel %d" % k, "1 1", "C08_projection_relabel",
                  "value and validated value identical under all 24 relabellings of the four suits (cards rebuilt from the documented layout "
                  "alone: same rank field, the suit bit moved)", sizes=(5, 6, 7), name="relabel", quick_strides={5: (1, 4, 4), 6: (16, 64, 64), 7: (128, 512, 512)},
                  thorough_stride={7: 4}) + [
        fam("relabel_projection", rel, "the projection the relabelling sweeps use, on model and implementation", pinned=True)] + \
        sweeps(rng, tier, lambda k: "shiftinv %d" % k, "1 1 1 1 1 1 1", "C08_projection",
                  "value and validated value unchanged by one, two and three shifts; four shifts restore the hand",
                  sizes=(5, 6, 7), name="shiftinv", quick_strides={5: (1, 2, 2), 6: (2, 8, 8), 7: (16, 64, 64)}) + [
        fam("shift_card", ["shift %d" % w for w in DECK + [0]], "shift_suit on all 52 cards and blank", exhaustive=True, pinned=True),
        fam("shift_words", ["shift %d" % w for w in near_miss_words()], "shift_suit on near-miss words (beyond the property: ties the model's logic)", beyond=True),
        fam("shift_hands", hands, "shift_suit of Two..Seven over cards (and blanks) in random order: slot-wise", categories=cats, pinned=True),
        fam("value_invariance", val, "seeded, made and row-targeted five/six/seven-card hands: is hand_rank_value unchanged by one, two and three "
            "suit shifts, and do four shifts restore the hand (projection: booleans only, so a wrong-but-invariant value is not an alarm here)", pinned=True),
    ]


def shift_word(w):
    if w not in DECK:
        return 0
    s = suit_of(w)
    return layout(rank_of(w), 3 if s == 0 else s - 1)


# ---- C11 ---------------------------------------------------------------------------------------------------
def multisets_of(alpha, k):
    import itertools
    return [list(c) for c in itertools.combinations_with_replacement(alpha, k)]


def c11_families(rng, tier):
    alpha = [0, 1, layout(0, 0), layout(0, 1), layout(12, 3), layout(12, 3) | PAIR, 0xFFFFFFFF]
    ms = []
    for k in range(2, 8):
        for m in multisets_of(alpha, k):
            ms.append(line("sort %d" % k, rng.shuffle(m)))
    cb = DECK + [0, 0xFFFFFFFF]
    ms += [line("sort 2", [a, b]) for a in cb for b in cb]   # ALL two-slot arrangements over {52 cards, blank, u32::MAX}
    n = 30000 if tier == "quick" else 500000
    rnd, cats = [], {"random_u32": 0, "cards": 0, "card_or_blank_repeats": 0}
    for i in range(n):
        k = 2 + i % 6
        kind = rng.below(3)   # independent of the size
        if kind == 0:
            h = [rng.next() & 0xFFFFFFFF for _ in range(k)]
            cats["random_u32"] += 1
        elif kind == 1:
            h = rand_hand(rng, k)
            cats["cards"] += 1
        else:
            h = card_or_blank_multiset(rng, k, 15)
            cats["card_or_blank_repeats"] += 1
        rnd.append(line("sort %d" % k, h))
    clustered = []
    for j in range(6000 if tier == "quick" else 100000):
        k = 2 + j % 6
        base = rng.choice(DECK) if rng.below(3) == 0 else rng.next() & 0xFFFFFFFF
        kind = rng.below(5)
        if kind == 0:      # single-bit neighbours of one word (and the word itself, repeated)
            h = [base ^ (1 << rng.below(32)) if rng.below(3) else base for _ in range(k)]
        elif kind == 1:    # same upper 20 bits
            h = [(base & 0xFFFFF000) | rng.below(1 << 12) for _ in range(k)]
        elif kind == 2:    # same upper 16 bits
            h = [(base & 0xFFFF0000) | rng.below(1 << 16) for _ in range(k)]
        elif kind == 3:    # differing inside one byte
            sh = 8 * rng.below(4)
            h = [base ^ (rng.below(256) << sh) for _ in range(k)]
        else:              # same lower 16 bits
            h = [(base & 0xFFFF) | (rng.below(1 << 16) << 16) for _ in range(k)]
        clustered.append(line("sort %d" % k, h))
    return [
        fam("sort_clustered", clustered, "hands whose words are close to one another (single-bit neighbours of one word, words sharing their upper "
            "20 / upper 16 / lower 16 bits, words differing inside one byte; the base is a card or a random word): a sort key or comparator that "
            "ignores or misorders some bits shows only on such hands", pinned=True),
        fam("sort_multisets", ms, "sizes 2..7: ALL multisets over a 7-word alphabet (blank, 1, two deuces, ace of spades, a flagged ace, "
            "0xFFFFFFFF), shuffled: sort() and sort_in_place()", pinned=True),
        fam("sort_seeded", rnd, "seeded hands of arbitrary u32 words / distinct cards / cards and blanks with repeats", categories=cats, pinned=True),
        fam("sortp_projection", [l.replace("sort ", "sortp ", 1) for l in rnd[:3000]], "the projection the sweeps use, on model and implementation "
            "(non-increasing, same multiset, in-place form agrees, idempotent)", pinned=True),
    ] + sweeps(rng, tier, lambda k: "sortp %d" % k, "1 1 1 1", "C11_projection",
               "sort() is non-increasing, a rearrangement of the input, equal to sort_in_place() and idempotent", sizes=(2, 3, 4, 5, 6, 7),
               alphabet="deckblank", name="sortp", thorough_stride={7: 8},
               quick_strides={2: (1, 1, 1), 3: (1, 1, 1), 4: (1, 1, 1), 5: (1, 4, 4), 6: (4, 16, 16), 7: (32, 128, 128)})


# ---- C12 ---------------------------------------------------------------------------------------------------
RANK_SYMS = [ord(c) for c in "AaKkQqJjTt0987654321"]
SUIT_SYMS = [ord(c) for c in "SsHhDdCc"] + [0x2660, 0x2664, 0x2665, 0x2661, 0x2666, 0x2662, 0x2663, 0x2667]
OTHER_CHARS = [0, 1, 0x20, 0x09, 0x0A, 0x5F, ord("x"), ord("B"), ord("E"), ord("1"), 0x7F, 0x80, 0xA0, 0xFF, 0x3A3, 0x2000, 0x2028, 0x3000, 0x265F,
               0x2668, 0xFE0F, 0xD7FF, 0xE000, 0xFFFD, 0x1F0A1, 0x10FFFF]
WS_CHARS = [0x20, 0x09, 0x0A, 0x0B, 0x0C, 0x0D, 0x85, 0xA0, 0x1680, 0x2000, 0x2003, 0x2028, 0x2029, 0x202F, 0x205F, 0x3000]


def is_ws(c):
    return chr(c).isspace() or c in (0x85,)


def rust_ws(c):
    """char::is_whitespace (Unicode White_Space)"""
    return (0x9 <= c <= 0xD) or c in (0x20, 0x85, 0xA0, 0x1680, 0x2028, 0x2029, 0x202F, 0x205F, 0x3000) or 0x2000 <= c <= 0x200A


def count_tokens(s):
    n, inside = 0, False
    for c in s:
        if rust_ws(c):
            inside = False
        elif not inside:
            inside = True
            n += 1
    return n


def long_texts(rng, count):
    """hand texts that are LONG for their token count: tokens with tails of up to 120 characters, whitespace runs of up to 40
    characters, total length from a dozen to several hundred bytes; exactly n tokens or n - 1"""
    out = []
    card_tokens = [[r, s] for r in RANK_SYMS[:13] for s in SUIT_SYMS[:8:2] + SUIT_SYMS[8:12]]
    tail_chars = [ord(c) for c in "abcdefghijklmnopqrstuvwxyzAKQJT0123456789()-_.,;:"] + [0x2660, 0x2665, 0xE9, 0x4E2D]
    for j in range(count):
        n = 2 + j % 6
        nt = n if j % 5 else n - 1
        s = [rng.choice(WS_CHARS) for _ in range(rng.below(3) * rng.below(20))]
        for t_ in range(nt):
            tok = list(rng.choice(card_tokens)) if rng.below(5) else [rng.choice(tail_chars)]
            tok += [rng.choice(tail_chars) for _ in range((0, 3, 30, 120)[rng.below(4)] and rng.below((0, 3, 30, 120)[rng.below(4)] + 1))]
            s += tok
            if t_ + 1 < nt or rng.below(2):
                s += [rng.choice(WS_CHARS) for _ in range(1 + rng.below(3) * rng.below(20))]
        out.append("parsehand %d %s" % (n, " ".join(str(c) for c in s)))
    return out


def long_token_lists(rng, count):
    """texts of MANY tokens (8 .. 150) for the bit-set parser: cards with repeats, blanks and junk, and a card that appears for the
    first time at the very end (so that nothing may stop reading early)"""
    out = []
    names = [[ord("AKQJT98765432"[12 - r]), ord("cdhs"[s_])] for s_ in range(4) for r in range(13)]
    for j in range(count):
        nt = (8, 9, 20, 52, 53, 54, 60, 104, 150)[j % 9] + rng.below(3)
        pool = [rng.choice(names) for _ in range(1 + rng.below(12))]
        fresh = rng.choice([nm for nm in names if nm not in pool] or names)
        s = []
        for t_ in range(nt - 1):
            k = rng.below(10)
            tok = rng.choice(pool) if k < 7 else ([ord("X"), ord("X")] if k < 9 else [ord("z")])
            s += tok + [rng.choice(WS_CHARS) for _ in range(1 + rng.below(2))]
        s += fresh
        out.append("bcindex " + " ".join(str(c) for c in s))
    return out


def minimal_texts():
    out = []
    singles = [ord(c) for c in "AKQ2x7_s"]
    cards = [[ord("A"), ord("S")], [ord("k"), 0x2665], [ord("2"), ord("c")], [ord("T"), 0x2662], [ord("9"), ord("D")], [ord("q"), ord("h")],
             [ord("0"), 0x2660]]
    for n in range(2, 8):
        for nt in (n, n - 1):
            for variant, toks in (("single", [[singles[(j + n) % len(singles)]] for j in range(nt)]), ("cards", [cards[j % len(cards)] for j in range(nt)])):
                for si, sep in enumerate(WS_CHARS):
                    for lead, trail in ((0, 0), (1, 0), (0, 1), (1, 1)):
                        if variant == "cards" and si % 4 != (lead + 2 * trail):
                            continue
                        s = [sep] * lead
                        for j, t in enumerate(toks):
                            s += t + ([sep] if j + 1 < len(toks) else [])
                        s += [WS_CHARS[(si + 1) % len(WS_CHARS)]] * trail
                        out.append("parsehand %d %s" % (n, " ".join(str(c) for c in s)))
    return out


def c12_families(rng, tier):
    alpha = sorted(set(RANK_SYMS + SUIT_SYMS + OTHER_CHARS))
    tails = [[], [ord("x")], [0x2660], [ord("A"), ord("S"), ord("K")], [0x10FFFF, 0]]
    tok = []
    for a in alpha:
        if is_ws(a):
            continue
        tok.append("parsecard %d" % a)
        for b in alpha:
            if is_ws(b):
                continue
            for t in tails:
                if any(is_ws(x) for x in t):
                    continue
                tok.append("parsecard " + " ".join(str(x) for x in [a, b] + t))
    tok.append("parsecard")
    # token lists with random unicode whitespace runs
    hands = []
    extra = []
    cats = {"too_few_tokens": 0, "exact": 0, "extra_tokens": 0}
    card_tokens = [[r, s] for r in RANK_SYMS[:13] for s in SUIT_SYMS[:8:2] + SUIT_SYMS[8:12]]
    nh = 4000 if tier == "quick" else 80000
    for i in range(nh):
        n = 2 + i % 6
        nt = rng.below(10)
        s = []
        for _ in range(rng.below(3)):
            s.append(rng.choice(WS_CHARS))
        for _t in range(nt):
            kind = rng.below(6)
            if kind <= 3:
                t = list(rng.choice(card_tokens))
            elif kind == 4:
                t = [rng.choice(alpha) for _ in range(1 + rng.below(3))]
                t = [c for c in t if not is_ws(c)] or [ord("z")]
            else:
                t = list(rng.choice(card_tokens)) + [rng.choice(alpha) for _ in range(rng.below(3))]
                t = [c for c in t if not is_ws(c)]
            s += t
            for _ in range(1 + rng.below(3)):
                s.append(rng.choice(WS_CHARS))
        cats["too_few_tokens" if nt < n else ("exact" if nt == n else "extra_tokens")] += 1
        (hands if nt <= n else extra).append("parsehand %d %s" % (n, " ".join(str(c) for c in s)))
        if i % 3 == 0:
            hands.append("bcindex " + " ".join(str(c) for c in s))
    hands += ["parsehand %d" % n for n in range(2, 8)] + ["bcindex"]
    # arbitrary scalar strings
    ns = 5000 if tier == "quick" else 100000
    arb = []
    for i in range(ns):
        ln = rng.below(12)
        s = []
        for _ in range(ln):
            k = rng.below(4)
            c = rng.below(0x80) if k == 0 else (rng.below(0x800) if k == 1 else (rng.below(0x10000) if k == 2 else rng.below(0x110000)))
            if 0xD800 <= c <= 0xDFFF:
                c = 0x20
            s.append(c)
        arb.append("parsecard " + " ".join(str(c) for c in s if not is_ws(c)))
        (arb if count_tokens(s) <= 2 + i % 6 else extra).append("parsehand %d %s" % (2 + i % 6, " ".join(str(c) for c in s)))
        arb.append("bcindex " + " ".join(str(c) for c in s))
    return [
        fam("token_pairs", tok, "card tokens: EVERY ordered pair of leading characters from an alphabet of all rank and suit symbols, separators, "
            "1-4 byte characters, U+0000, U+10FFFF, U+FE0F x 5 tails; single-character and empty tokens", pinned=True),
        fam("hand_texts", hands, "hand parsers of sizes 2..7 (and BinaryCard::from_index, parse::five_from_index) on 0..9 tokens separated by "
            "random Unicode whitespace runs; tokens are cards, junk, or cards with tails", categories=cats, pinned=True),
        fam("minimal_texts", minimal_texts(), "hand parsers of sizes 2..7 on the SHORTEST texts: n or n-1 one-character or two-character tokens, "
            "one separator between tokens (each whitespace character in turn), with and without leading / trailing whitespace", pinned=True),
        fam("long_texts", long_texts(rng, 1500 if tier == "quick" else 30000), "hand parsers on texts that are long for their token count: "
            "tokens with tails of up to 120 characters, whitespace runs of up to 40, n or n - 1 tokens, up to several hundred bytes", pinned=True),
        fam("hand_texts_extra_tokens", extra, "hand parsers given MORE tokens than slots (beyond the property, which fixes too few and exactly "
            "enough: the model, like the code, ignores the rest)", beyond=True),
        fam("arbitrary_strings", arb, "seeded arbitrary scalar-value strings through the card, hand and bit-set parsers", pinned=True),
        fam_cmd("all_scalars", ["scalars", "--op", "parsecard"],
                "EVERY Unicode scalar value as the first character of a token (before 'S') and as the second (after 'A') through "
                "CKCNumber::from_index and parse::get_rank_and_suit: the token-level symbol tables, exhaustively (2 x 1,112,064 cases)",
                pinned=True),
        fam("render_roundtrip", ["render %d" % w for w in DECK + [0]], "render with rank+suit glyph / rank+suit letter, parse back; 52 cards and blank",
            exhaustive=True, pinned=True),
    ]


# ---- C14 / C15 / C16 ----------------------------------------------------------------------------------------
def popcount_value(rng, k, span=64):
    bits = rng.sample(list(range(span)), k)
    v = 0
    for b in bits:
        v |= 1 << b
    return v


def c14_families(rng, tier):
    ws, wc = words_family(rng, 2000 if tier == "quick" else 200000)
    n = 30000 if tier == "quick" else 1000000
    bs = [1 << i for i in range(64)]
    two = [(1 << i) | (1 << j) for i in range(64) for j in range(i)]
    rnd = [rng.next() >> rng.below(64) for _ in range(n)] + [popcount_value(rng, 1 + rng.below(4)) for _ in range(n // 4)]
    return [
        fam("from_ckc_words", ["fromckc %d" % w for w in ws], "BinaryCard::from_ckc on cards, blank, near-miss words, seeded u32 (its complete 2^32 "
            "graph is regenerated into Gen/Scan.v on every run)", categories=wc, pinned=True),
        fam("from_bc_single_bits", ["frombc %d" % b for b in bs + [0]], "from_binary_card on all 64 single bits and 0", exhaustive=True, pinned=True),
        fam("from_bc_two_bits", ["frombc %d" % b for b in two], "from_binary_card on all 2,016 two-bit values", exhaustive=True, pinned=True),
        fam("from_bc_three_bits", ["frombc %d" % ((1 << i) | (1 << j) | (1 << k)) for i in range(64) for j in range(i) for k in range(j)],
            "from_binary_card on all 41,664 three-bit values", exhaustive=True, profiles=["release"], pinned=True),
        fam("from_bc_bit_complements", ["frombc %d" % (((1 << 64) - 1) ^ b) for b in bs + two] + ["frombc %d" % (((1 << 52) - 1) ^ b) for b in bs[:52]],
            "from_binary_card on the complements of all one- and two-bit values (in 64 bits) and of every card bit within the 52 card bits",
            exhaustive=True, profiles=["release"], pinned=True),
        fam("from_bc_seeded", ["frombc %d" % b for b in rnd], "seeded u64 of every magnitude and sparse values of 1..4 bits", pinned=True),
    ]


def structured_sets():
    full = (1 << 52) - 1
    out = [0, full, (1 << 64) - 1, full ^ 1, full ^ (1 << 51), 1 << 52, 1 << 63, (1 << 52) | 1, full | (1 << 52), ((1 << 64) - 1) ^ full]
    out += [1 << i for i in range(64)]
    for r in range(13):
        g = 0
        for s in range(4):
            g |= 1 << (51 - (13 * s + r))
        out.append(g)
        out.append(g | (1 << 60))
    for s in range(4):
        out.append(((1 << 13) - 1) << (13 * s))
    return out


def c15_families(rng, tier):
    n = 3000 if tier == "quick" else 100000
    sets = structured_sets()
    for i in range(n):
        d = (2, 8, 32, 56)[i % 4]
        sets.append(popcount_value(rng, 1 + rng.below(d), 64 if rng.below(2) else 52))   # span independent of the density
    peel = ["peel %d 3" % b for b in sets]
    ops = []
    for i, b in enumerate(sets):
        c = sets[(i * 7 + 3) % len(sets)]
        ops.append("bcops %d %d" % (b, c))
        ops.append("bcops %d %d" % (b, b & c))
        ops.append("bcops %d %d" % (b, 1 << rng.below(64)))
    hands = []
    for i in range(n * 3):
        k = 2 + i % 6
        hands.append(line("bcfrom %d" % k, card_or_blank_multiset(rng, k, 15)))
    for k in range(2, 8):
        for i in range(k):
            for j in range(i + 1, k):
                h = rand_hand(rng, k)
                h[j] = h[i]
                hands.append(line("bcfrom %d" % k, h))
                g = [0] * k
                g[i] = g[j] = h[i]
                hands.append(line("bcfrom %d" % k, g))
    cb = DECK + [0]
    hands += [line("bcfrom 2", [a, b]) for a in cb for b in cb]   # ALL two-slot arrangements over {52 cards, blank}
    for k in range(2, 8):
        hands.append(line("bcfrom %d" % k, [0] * k))
        hands.append(line("bcfrom %d" % k, [DECK[0]] * k))
    texts = [l for l in c12_families(rng, "quick")[1]["lines"] if l.startswith("bcindex")]
    return [
        fam("peel_histories", peel, "peel to exhaustion + 3 extra peels on structured sets (empty, full, all 64 bits, singletons, rank and suit "
            "groups, overflow bits, full minus one) and seeded u64 at four densities", pinned=True),
        fam("set_ops", ops, "fold_in, has, number_of_cards, is_single_card, is_valid on set pairs", pinned=True),
        fam("set_ops_lane_unions", ["bcops %d %d" % (v, (v * 0x9E3779B97F4A7C15 + 1) & ((1 << 64) - 1)) for v in lane_sets(rng, tier == "thorough")],
            "the same on unions of whole bytes (+ extra bits; thorough: all unions of whole nibbles): dense regular sets", profiles=["release"], pinned=True),
        fam("from_hands", hands, "from_two .. from_seven over {52 cards, blank} with repetition", pinned=True),
        fam("from_text", texts, "BinaryCard::from_index on token texts", pinned=True),
        fam("from_long_text", long_token_lists(rng, 900 if tier == "quick" else 20000), "BinaryCard::from_index on texts of 8 .. 150 tokens "
            "(repeats, blanks, junk) whose last token is a card not seen before", pinned=True),
        fam("bcsetp_projection", [l.replace("bcfrom ", "bcsetp ", 1) for l in hands[:3000]], "the projection the sweeps use, on model and "
            "implementation", pinned=True),
    ] + sweeps(rng, tier, lambda k: "bcsetp %d" % k, "1 1 1 1 1", "C15_projection",
               "the set built from the hand has exactly the distinct real cards among the slots (count, membership, no overflow bit, valid iff "
               "non-empty) and peeling lists them in deck order, then blank", sizes=(2, 3, 4, 5, 6, 7), alphabet="deckblank", name="bcsetp",
               thorough_stride={7: 8},
               quick_strides={2: (1, 1, 1), 3: (1, 1, 1), 4: (1, 1, 1), 5: (1, 4, 4), 6: (4, 16, 16), 7: (32, 128, 128)})


def lane_sets(rng, nibbles):
    """unions of whole bytes (all 256), each with one extra bit (64) and a few two-extra-bit variants; optionally all 65,536 unions of
    whole nibbles: where hand-written parallel bit counts (lane sums, masks) go wrong"""
    out = []
    for m in range(256):
        v = 0
        for b in range(8):
            if m >> b & 1:
                v |= 0xFF << (8 * b)
        out.append(v)
        for e in range(64):
            out.append(v | (1 << e))
        for _ in range(12):
            out.append(v | (1 << rng.below(64)) | (1 << rng.below(64)))
    if nibbles:
        for m in range(1 << 16):
            v = 0
            for b in range(16):
                if m >> b & 1:
                    v |= 0xF << (4 * b)
            out.append(v)
    return out


def c16_families(rng, tier):
    vals = [0] + [1 << i for i in range(64)] + [(1 << i) | (1 << j) for i in range(64) for j in range(64) if i != j]
    n = 200 if tier == "quick" else 5000
    rnd = [popcount_value(rng, k) for k in range(0, 65) for _ in range(n // 10 if k > 3 else n)]
    return [
        fam("one_two_bits", ["twofrombc %d" % v for v in vals], "ALL 64 x 64 one- and two-bit values (ordered pairs, so every two-bit value twice) and 0",
            exhaustive=True, pinned=True),
        fam("three_bits", ["twofrombc %d" % ((1 << a) | (1 << b) | (1 << c)) for a in range(64) for b in range(a) for c in range(b)],
            "ALL 41,664 three-bit values (too many cards, whatever the bits)", exhaustive=True, profiles=["release"], pinned=True),
        fam("two_cards_in_complement", ["twofrombc %d" % (((1 << 64) - 1) ^ ((1 << a) | (1 << b))) for a in range(64) for b in range(a)],
            "the complements of all two-bit values (62 bits set)", exhaustive=True, profiles=["release"], pinned=True),
        fam("seeded_popcounts", ["twofrombc %d" % v for v in rnd], "seeded u64 of every population count 0..64", pinned=True),
        fam("lane_unions", ["twofrombc %d" % v for v in lane_sets(rng, True)], "unions of whole bytes (all 256, each also with every single extra bit "
            "and some pairs of extra bits) and all 65,536 unions of whole nibbles", profiles=["release"], pinned=True),
    ]


# ---- C17 / C19 / C20 ------------------------------------------------------------------------------------------
def two_texts(rng):
    out = []
    rank_ch = "AKQJT98765432"
    for j in range(2500):
        a, b = rng.below(52), rng.below(52)
        if a == b:
            continue
        toks = []
        for c in (a, b):
            r, s_ = 12 - (c % 13), 3 - (c // 13)
            rc = rank_ch[12 - r]
            rc = rc.lower() if rng.below(4) == 0 else rc
            sc = rng.choice([ord("SHDC"[3 - s_]), ord("shdc"[3 - s_]), [0x2663, 0x2666, 0x2665, 0x2660][s_], [0x2667, 0x2662, 0x2661, 0x2664][s_]])
            toks.append([ord(rc), sc])
        def ws_run(lo):
            return [rng.choice(WS_CHARS) for _ in range(lo + (rng.below(3) if rng.below(2) else 0))]
        s = ws_run(0) + toks[0] + ws_run(1) + toks[1] + ws_run(0)
        out.append("twotext " + " ".join(str(x) for x in s))
    return out


def c17_families(rng, tier):
    return [
        fam_cmd("all_pairs", ["pairs", "--op", "two"], "ALL 52 x 51 ordered pairs of distinct cards: chen_formula, get_gap, high_card, is_connector, "
                "is_pocket_pair, is_suited, is_suited_connector", profiles=["release", "chk"], pinned=True),
        fam("card_points", ["accp %d" % w for w in DECK + [0]], "per-card Chen points (doubled) on the 52 cards and blank", exhaustive=True, pinned=True),
        fam("pairs_from_text", two_texts(rng), "two distinct cards given as TEXT through Two::try_from (rank + suit letter or glyph, either case; "
            "leading / trailing / repeated Unicode whitespace): the same helpers on the parsed hand", pinned=True),
        fam("shifted_pairs", [line("two", [shift_word(a), shift_word(b)]) for a in DECK[::3] for b in DECK[1::5] if a != b],
            "suit-shifted pairs", pinned=True),
    ]


def c19_families(rng, tier):
    n = 3000 if tier == "quick" else 60000
    hist = []
    cats = {"set": 0, "arr": 0, "new": 0, "default": 0}
    for n_slots in range(2, 8):
        # every setter once on distinct sentinel words
        for slot in range(n_slots):
            base = [1000 + i for i in range(n_slots)]
            hist.append("hist %d arr %s set %d %d" % (n_slots, " ".join(map(str, base)), slot, 4000000000 + slot))
            hist.append("hist %d new %s set %d %d" % (n_slots, " ".join(map(str, base)), slot, 77 + slot))
            hist.append("hist %d default set %d %d" % (n_slots, slot, 5 + slot))
        hist.append("hist %d refarr %s" % (n_slots, " ".join(str(9 + i) for i in range(n_slots))))
        # boundary words into every slot over an occupied slot: blank (0), u32::MAX, and a word already present elsewhere
        for slot in range(n_slots):
            base = [DECK[i] for i in range(n_slots)]
            other = base[(slot + 1) % n_slots]
            hist.append("hist %d arr %s set %d 0 set %d %d set %d 4294967295 set %d %d set %d 0"
                        % (n_slots, " ".join(map(str, base)), slot, slot, DECK[20], slot, slot, other, (slot + 1) % n_slots))
    for i in range(n):
        n_slots = 2 + i % 6
        toks = ["hist", str(n_slots)]
        for _ in range(1 + rng.below(40)):
            k = rng.below(10)
            if k < 7:
                kind = rng.below(10)
                w = 0 if kind == 0 else (rng.next() & 0xFFFFFFFF if kind < 5 else rng.choice(DECK))
                toks += ["set", str(rng.below(n_slots)), str(w)]
                cats["set"] += 1
            elif k == 7:
                toks += ["refarr" if rng.below(3) == 0 else "arr"] + [str(rng.next() & 0xFFFFFFFF) for _ in range(n_slots)]
                cats["arr"] += 1
            elif k == 8:
                toks += ["new"] + [str(rng.next() & 0xFFFFFFFF) for _ in range(n_slots)]
                cats["new"] += 1
            else:
                toks += ["default"]
                cats["default"] += 1
        hist.append(" ".join(toks))
    # histories over a SMALL pool of words, so that a written word often equals the word already in that slot, the word in a
    # neighbouring slot, or differs from one only in the three mark bits; constructor arguments come from the same pool
    small = []
    for i in range(n):
        n_slots = 2 + i % 6
        w0 = rng.choice(DECK)
        pool = [0, w0, w0 | 0x20000000, w0 | 0x40000000, w0 | 0x80000000, rng.choice(DECK), rng.next() & 0xFFFFFFFF, 0xFFFFFFFF][:4 + rng.below(5)]
        toks = ["hist", str(n_slots)]
        for _ in range(2 + rng.below(14)):
            k = rng.below(10)
            if k < 7:
                toks += ["set", str(rng.below(n_slots)), str(rng.choice(pool))]
            elif k == 7:
                toks += ["refarr" if rng.below(3) == 0 else "arr"] + [str(rng.choice(pool)) for _ in range(n_slots)]
            elif k == 8:
                toks += ["new"] + [str(rng.choice(pool)) for _ in range(n_slots)]
            else:
                toks += ["default"]
        small.append(" ".join(toks))
    perms = []
    oor = []
    import itertools
    for n_slots in (6, 7):
        ws = [100 + 11 * i for i in range(n_slots)]
        tuples = list(itertools.product(range(n_slots), repeat=5))
        for t in tuples:
            perms.append("perm %d %s %s" % (n_slots, " ".join(map(str, ws)), " ".join(map(str, t))))
        for bad in ([0, 1, 2, 3, n_slots], [255, 0, 0, 0, 0], [n_slots, n_slots, 0, 1, 2]):
            oor.append("perm %d %s %s" % (n_slots, " ".join(map(str, ws)), " ".join(map(str, bad))))
    perms0 = []
    for n_slots in (6, 7):
        for z in range(n_slots):
            ws = [100 + 11 * i for i in range(n_slots)]
            ws[z] = 0
            for t in itertools.product(range(n_slots), repeat=5):
                perms0.append("perm %d %s %s" % (n_slots, " ".join(map(str, ws)), " ".join(map(str, t))))
    return [
        fam("selection_with_a_blank", perms0, "ALL 6^5 and 7^5 in-range index tuples on hands holding the blank word in each position in turn",
            exhaustive=True, profiles=["release"], pinned=True),
        fam("histories", hist, "every setter of every size after every constructor on distinct sentinel words; seeded histories of 1..40 "
            "constructor / setter calls with arbitrary u32 words; after EVERY step the container is read back by to_arr, accessors and iter",
            categories=cats, pinned=True),
        fam("small_pool_histories", small, "seeded histories whose words come from a pool of 4..8 words (blank, a card, the same card with each "
            "mark bit, another card, a random word, u32::MAX): written words coincide with the slot's own word, a neighbour's word, or "
            "differ from one in the mark bits only; from-parts constructors get overlapping parts", pinned=True),
        fam("five_from_permutation", perms, "slot-index selection from six and seven slots: ALL 6^5 and 7^5 in-range index tuples",
            exhaustive=True, pinned=True),
        fam("selection_out_of_range", oor, "out-of-range slot indices (beyond the property, which quantifies over in-range tuples: the model says panic)", beyond=True),
    ]


def c20_families(rng, tier):
    marks = [0, PAIR, TRIPS, QUADS, PAIR | TRIPS, PAIR | QUADS, TRIPS | QUADS, PAIR | TRIPS | QUADS]
    ws = [c | m for c in DECK for m in marks]
    return [
        fam("flags", ["flags %d" % w for w in ws + [0]], "flag_as_pair / trips / quads and strip_multiples_flags on ALL 52 cards x 8 mark "
            "combinations (and blank)", exhaustive=True, pinned=True),
        fam("marked_accessors", ["accf %d" % w for w in ws], "rank, suit, prime, bit, flag and character accessors on ALL 52 x 8 marked words", exhaustive=True, pinned=True),
    ]
