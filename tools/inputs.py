"""Case generators for the correspondence check. Every random choice comes from one splitmix64
state seeded by VERIF_SEED, so a disagreement replays exactly.

A case is one line `op arg arg ...` (decimal numbers). A family is a dict:
  name, lines (list of str) OR cases_cmd (args for `ckc-probe cases`), exhaustive (bool),
  rule (how generated, what makes a case non-trivial), categories (distribution dict)
"""

MASK64 = (1 << 64) - 1


class Rng:
    def __init__(self, seed):
        self.s = seed & MASK64

    def next(self):
        self.s = (self.s + 0x9E3779B97F4A7C15) & MASK64
        z = self.s
        z = ((z ^ (z >> 30)) * 0xBF58476D1CE4E5B9) & MASK64
        z = ((z ^ (z >> 27)) * 0x94D049BB133111EB) & MASK64
        return z ^ (z >> 31)

    def below(self, n):
        return self.next() % n

    def choice(self, xs):
        return xs[self.below(len(xs))]

    def shuffle(self, xs):
        xs = list(xs)
        for i in range(len(xs) - 1, 0, -1):
            j = self.below(i + 1)
            xs[i], xs[j] = xs[j], xs[i]
        return xs

    def sample(self, xs, k):
        return self.shuffle(xs)[:k]


# ---- the 52 card words, from the documented layout (independent of the dump) -----------------
PRIMES = [2, 3, 5, 7, 11, 13, 17, 19, 23, 29, 31, 37, 41]


def layout(r, s):
    return (1 << (16 + r)) | (1 << (12 + s)) | (r << 8) | PRIMES[r]


DECK = [layout(r, s) for s in (3, 2, 1, 0) for r in range(12, -1, -1)]
PAIR, TRIPS, QUADS = 1 << 29, 1 << 30, 1 << 31


def rank_of(w):
    return (w >> 8) & 0xF


def suit_of(w):
    return {0x1000: 0, 0x2000: 1, 0x4000: 2, 0x8000: 3}[w & 0xF000]


def near_miss_words():
    """every single-bit corruption of every card, flagged cards, small numbers, field mixes"""
    ws = []
    for c in DECK:
        for b in range(32):
            ws.append(c ^ (1 << b))
    for c in DECK:
        ws += [c | PAIR, c | TRIPS, c | QUADS, c | PAIR | TRIPS | QUADS]
    ws += list(range(0, 65))
    ws += [0xFFFFFFFF, 0xFFFFFFFE, 0x80000000, 0x7FFFFFFF, 0x1FFF0000, 0xF000, 0x3F]
    # inconsistent fields: rank bit of one rank with number/prime of another
    for r in range(13):
        for r2 in (0, 5, 12):
            if r != r2:
                ws.append((1 << (16 + r)) | 0x8000 | (r2 << 8) | PRIMES[r2])
    # two suit bits / no suit bit
    for c in DECK[:13]:
        ws.append(c | 0x4000)
        ws.append(c & ~0xF000)
    seen = set()
    out = []
    for w in ws:
        w &= 0xFFFFFFFF
        if w not in seen:
            seen.add(w)
            out.append(w)
    return out


def fam(name, lines, rule, exhaustive=False, categories=None, nontrivial=None, profiles=None, pinned=False):
    return {
        "profiles": profiles or ["release"],
        "pinned": pinned,
        "name": name,
        "lines": lines,
        "rule": rule,
        "exhaustive": exhaustive,
        "categories": categories or {},
        "nontrivial": nontrivial,
    }


def fam_cmd(name, cases_args, rule, exhaustive=True, shard=True, profiles=None, pinned=False):
    return {"name": name, "cases_cmd": cases_args, "rule": rule, "exhaustive": exhaustive, "categories": {}, "shard": shard,
            "profiles": profiles or ["release"], "pinned": pinned}


# ---- word-level families ------------------------------------------------------------------------
def words_family(rng, n_random):
    nm = near_miss_words()
    rnd = [rng.next() & 0xFFFFFFFF for _ in range(n_random)]
    return DECK + [0] + nm + rnd, {"cards": 52, "blank": 1, "near_miss": len(nm), "random_u32": n_random}


def c10_families(rng, tier):
    n = 2000 if tier == "quick" else 200000
    ws, cats = words_family(rng, n)
    fams = []
    fams.append(fam("filter", ["filter %d" % w for w in ws],
                    "filter on the 52 cards, blank, every single-bit corruption of every card, flagged cards, "
                    "small numbers, inconsistent-field words and seeded random u32 words; non-trivial = distinct "
                    "word", categories=cats))
    fams.append(fam("create", ["create %d %d" % (r, s) for r in range(14) for s in range(5)],
                    "create on all 14 x 5 (rank variant, suit variant) pairs", exhaustive=True))
    fams.append(fam("accessors", ["acc %d" % w for w in DECK + [0]],
                    "all accessors on the 52 cards and blank", exhaustive=True))
    return fams


def c18_families(rng, tier):
    idx = list(range(0, 64)) + [(1 << 32) - 1, 1 << 32, (1 << 32) + 1, 1 << 63, (1 << 64) - 1, (1 << 64) - 2, 255, 256, 65535, 65536]
    n = 2000 if tier == "quick" else 200000
    idx += [rng.next() >> rng.below(64) for _ in range(n)]
    return [fam("deck_get", ["deckget %d" % i for i in idx],
                "Deck::get on 0..63, powers-of-two boundaries, usize::MAX and seeded random usize of every "
                "magnitude; non-trivial = distinct index",
                categories={"in_range": sum(1 for i in idx if i < 52), "past_end": sum(1 for i in idx if i >= 52)})]


# ---- hands ---------------------------------------------------------------------------------------
def rand_hand(rng, k):
    """k distinct deck cards in a random slot order"""
    idx = []
    while len(idx) < k:
        i = rng.below(52)
        if i not in idx:
            idx.append(i)
    return [DECK[i] for i in idx]


def line(op, ws):
    return op + " " + " ".join(str(w) for w in ws)


def category_of(ws):
    """rule-based category of five real cards (independent of the implementation); 8 = straight flush"""
    rs = sorted((rank_of(w) for w in ws), reverse=True)
    fl = len({suit_of(w) for w in ws}) == 1
    cnt = sorted((rs.count(r) for r in set(rs)), reverse=True)
    distinct = len(set(rs)) == 5
    straight = distinct and (rs[0] - rs[4] == 4 or rs == [12, 3, 2, 1, 0])
    if straight and fl:
        return 8
    if cnt[0] == 4:
        return 7
    if cnt == [3, 2]:
        return 6
    if fl:
        return 5
    if straight:
        return 4
    if cnt[0] == 3:
        return 3
    if cnt == [2, 2, 1]:
        return 2
    if cnt[0] == 2:
        return 1
    return 0


CAT_NAMES = ["high_card", "pair", "two_pair", "trips", "straight", "flush", "full_house", "quads", "straight_flush"]


def shuffled_fives(rng, n, op):
    lines, cats = [], {}
    for _ in range(n):
        h = rand_hand(rng, 5)
        c = CAT_NAMES[category_of(h)]
        cats[c] = cats.get(c, 0) + 1
        lines.append(line(op, h))
    return lines, cats


def structured_fives(rng, op):
    """hands of every category in several slot orders, incl. repeated-rank hands spanning 5 ranks"""
    out = []
    for top in range(4, 13):
        for s in range(4):
            sf = [layout(top - i, s) for i in range(5)]
            out.append(rng.shuffle(sf))
            st = [layout(top - i, (s + i) % 4) for i in range(5)]
            out.append(rng.shuffle(st))
    for s in range(4):
        out.append(rng.shuffle([layout(r, s) for r in (12, 3, 2, 1, 0)]))
        out.append(rng.shuffle([layout(r, (s + r) % 4) for r in (12, 3, 2, 1, 0)]))
    # pair / trips / quads inside a five-rank window (the span test trap), all windows
    for lo in range(0, 9):
        for dup in range(lo + 1, lo + 4):
            out.append(rng.shuffle([layout(lo + 4, 3), layout(lo, 2), layout(dup, 0), layout(dup, 1), layout(lo + 1 if dup != lo + 1 else lo + 2, 0)]))
        out.append(rng.shuffle([layout(lo + 4, 3), layout(lo + 4, 2), layout(lo + 4, 1), layout(lo + 4, 0), layout(lo, 1)]))
        out.append(rng.shuffle([layout(lo + 4, 3), layout(lo + 4, 2), layout(lo + 4, 1), layout(lo, 0), layout(lo, 1)]))
    return [line(op, h) for h in out]


def c01_families(rng, tier):
    n = 200000 if tier == "quick" else 2000000
    sh, cats = shuffled_fives(rng, n, "rank 5")
    return [
        fam_cmd("fives_deck_order", ["hands", "--k", "5", "--op", "rank 5"],
                "ALL 2,598,960 five-card subsets of the deck in deck order through all six five-card entry points "
                "(hand_rank_value, hand_rank, hand_rank_value_and_hand, hand_rank_value_validated, hand_rank_validated, "
                "evaluate::five_cards); every case distinct and non-trivial (a real hand)", pinned=True),
        fam("fives_structured", structured_fives(rng, "rank 5"),
            "straights, straight flushes, wheels and repeated-rank hands spanning five ranks, shuffled slots", pinned=True),
        fam("fives_shuffled", sh, "seeded random five distinct cards in random slot order; non-trivial = distinct line",
            categories=cats, pinned=True),
    ]


def c13_families(rng, tier):
    n = 200000 if tier == "quick" else 2000000
    sh, cats = shuffled_fives(rng, n, "pred5")
    return [
        fam_cmd("pred5_deck_order", ["hands", "--k", "5", "--op", "pred5"],
                "ALL 2,598,960 five-card subsets in deck order: is_flush, is_straight, is_straight_flush, is_wheel, "
                "or_rank_bits, and_bits, or_bits, multiply_primes, evaluate::is_flush, evaluate::or_rank_bits", pinned=True),
        fam("pred5_structured", structured_fives(rng, "pred5"),
            "straights, wheels and repeated-rank hands spanning five ranks, shuffled slots", pinned=True),
        fam("pred5_shuffled", sh, "seeded random hands in random slot order", categories=cats, pinned=True),
    ]


def prime_products():
    out = set()

    def go(start, k, acc):
        if k == 0:
            out.add(acc)
            return
        for i in range(start, 13):
            go(i, k - 1, acc * PRIMES[i])
    go(0, 5, 1)
    return sorted(out)


def card_or_blank_multiset(rng, k, p_blank):
    ws = []
    for _ in range(k):
        ws.append(0 if rng.below(100) < p_blank else DECK[rng.below(52)])
    return ws


def c05_families(rng, tier):
    prods = prime_products()
    keys = set()
    for p in prods:
        keys.update((p - 1, p, p + 1))
    keys.update([0, 1, 2, 31, 32, 33, 47, 48, 49, (1 << 32) - 1, 1 << 32, (1 << 32) + 1, (1 << 63) - 1, 1 << 63,
                 (1 << 64) - 1, (1 << 64) - 2, 104553157, 104553158, 104553156])
    keys = sorted(keys)
    rnd = [rng.next() >> rng.below(64) for _ in range(20000)]
    fams = [
        fam("find_in_products", ["fip %d" % k for k in keys + rnd],
            "Five::find_in_products on every product of five rank primes and each +-1 (every key class a comparison search "
            "can distinguish), the extremes of usize, seeded usize of every magnitude",
            categories={"product_classes": len(keys), "random_usize": len(rnd)}, profiles=["release", "chk"], pinned=True),
        fam_cmd("five_multisets", ["multisets", "--k", "5", "--op", "rankp 5"],
                "ALL 4,187,106 five-slot multisets over {52 cards, blank}: every ranking entry point returns normally; "
                "a hand with a blank gets value 0 / Invalid", profiles=["release", "chk"], pinned=True),
    ]
    n = 100000 if tier == "quick" else 1000000
    for k in (5, 6, 7):
        lines, cats = [], {"with_blank": 0, "with_repeat": 0, "all_distinct_cards": 0}
        for i in range(n if k > 5 else n // 2):
            ws = card_or_blank_multiset(rng, k, (0, 10, 40, 90)[i % 4])
            if 0 in ws:
                cats["with_blank"] += 1
            elif len(set(ws)) < k:
                cats["with_repeat"] += 1
            else:
                cats["all_distinct_cards"] += 1
            lines.append(line("rankp %d" % k, ws))
        lines.append(line("rankp %d" % k, [0] * k))
        fams.append(fam("slots%d_card_or_blank" % k, lines,
                        "seeded %d-slot arrays over {52 cards, blank} in random order with repetition (blank density 0/10/40/90%%), "
                        "plus the all-blank default hand" % k, categories=cats, profiles=["release", "chk"], pinned=True))
    if tier == "thorough":
        fams.append(fam_cmd("six_multisets_slice", ["multisets", "--k", "6", "--op", "rankp 6", "--stride", "8", "--offset", str(rng.below(8))],
                            "every 8th of the 6-slot multisets over {52 cards, blank}", exhaustive=False,
                            profiles=["release", "chk"], pinned=True))
    return fams
