"""Case generators for the correspondence check. Every random choice comes from one splitmix64
state seeded by VERIF_SEED, so a disagreement replays exactly.

A case is one line `op arg arg ...` (decimal numbers). A family is a dict:
  name, lines (list of str) OR cases_cmd (args for `ckc-probe cases`), exhaustive (bool),
  rule (how generated, what makes a case non-trivial), categories (distribution dict)
"""

MASK64 = (1 << 64) - 1


class Rng:
    def __init__(self, seed):
        self.s = seed & MASK64

    def next(self):
        self.s = (self.s + 0x9E3779B97F4A7C15) & MASK64
        z = self.s
        z = ((z ^ (z >> 30)) * 0xBF58476D1CE4E5B9) & MASK64
        z = ((z ^ (z >> 27)) * 0x94D049BB133111EB) & MASK64
        return z ^ (z >> 31)

    def below(self, n):
        return self.next() % n

    def choice(self, xs):
        return xs[self.below(len(xs))]

    def shuffle(self, xs):
        xs = list(xs)
        for i in range(len(xs) - 1, 0, -1):
            j = self.below(i + 1)
            xs[i], xs[j] = xs[j], xs[i]
        return xs

    def sample(self, xs, k):
        return self.shuffle(xs)[:k]


# ---- the 52 card words, from the documented layout (independent of the dump) -----------------
PRIMES = [2, 3, 5, 7, 11, 13, 17, 19, 23, 29, 31, 37, 41]


def layout(r, s):
    return (1 << (16 + r)) | (1 << (12 + s)) | (r << 8) | PRIMES[r]


DECK = [layout(r, s) for s in (3, 2, 1, 0) for r in range(12, -1, -1)]
PAIR, TRIPS, QUADS = 1 << 29, 1 << 30, 1 << 31


def rank_of(w):
    return (w >> 8) & 0xF


def suit_of(w):
    return {0x1000: 0, 0x2000: 1, 0x4000: 2, 0x8000: 3}[w & 0xF000]


def near_miss_words():
    """every single-bit corruption of every card, flagged cards, small numbers, field mixes"""
    ws = []
    for c in DECK:
        for b in range(32):
            ws.append(c ^ (1 << b))
    for c in DECK:
        ws += [c | PAIR, c | TRIPS, c | QUADS, c | PAIR | TRIPS | QUADS]
    ws += list(range(0, 65))
    ws += [0xFFFFFFFF, 0xFFFFFFFE, 0x80000000, 0x7FFFFFFF, 0x1FFF0000, 0xF000, 0x3F]
    # inconsistent fields: rank bit of one rank with number/prime of another
    for r in range(13):
        for r2 in (0, 5, 12):
            if r != r2:
                ws.append((1 << (16 + r)) | 0x8000 | (r2 << 8) | PRIMES[r2])
    # two suit bits / no suit bit
    for c in DECK[:13]:
        ws.append(c | 0x4000)
        ws.append(c & ~0xF000)
    seen = set()
    out = []
    for w in ws:
        w &= 0xFFFFFFFF
        if w not in seen:
            seen.add(w)
            out.append(w)
    return out


def fam(name, lines, rule, exhaustive=False, categories=None, nontrivial=None):
    return {
        "name": name,
        "lines": lines,
        "rule": rule,
        "exhaustive": exhaustive,
        "categories": categories or {},
        "nontrivial": nontrivial,
    }


def fam_cmd(name, cases_args, rule, exhaustive=True, shard=True):
    return {"name": name, "cases_cmd": cases_args, "rule": rule, "exhaustive": exhaustive, "categories": {}, "shard": shard}


# ---- word-level families ------------------------------------------------------------------------
def words_family(rng, n_random):
    nm = near_miss_words()
    rnd = [rng.next() & 0xFFFFFFFF for _ in range(n_random)]
    return DECK + [0] + nm + rnd, {"cards": 52, "blank": 1, "near_miss": len(nm), "random_u32": n_random}


def c10_families(rng, tier):
    n = 2000 if tier == "quick" else 200000
    ws, cats = words_family(rng, n)
    fams = []
    fams.append(fam("filter", ["filter %d" % w for w in ws],
                    "filter on the 52 cards, blank, every single-bit corruption of every card, flagged cards, "
                    "small numbers, inconsistent-field words and seeded random u32 words; non-trivial = distinct "
                    "word", categories=cats))
    fams.append(fam("create", ["create %d %d" % (r, s) for r in range(14) for s in range(5)],
                    "create on all 14 x 5 (rank variant, suit variant) pairs", exhaustive=True))
    fams.append(fam("accessors", ["acc %d" % w for w in DECK + [0]],
                    "all accessors on the 52 cards and blank", exhaustive=True))
    return fams


def c18_families(rng, tier):
    idx = list(range(0, 64)) + [(1 << 32) - 1, 1 << 32, (1 << 32) + 1, 1 << 63, (1 << 64) - 1, (1 << 64) - 2, 255, 256, 65535, 65536]
    n = 2000 if tier == "quick" else 200000
    idx += [rng.next() >> rng.below(64) for _ in range(n)]
    return [fam("deck_get", ["deckget %d" % i for i in idx],
                "Deck::get on 0..63, powers-of-two boundaries, usize::MAX and seeded random usize of every "
                "magnitude; non-trivial = distinct index",
                categories={"in_range": sum(1 for i in idx if i < 52), "past_end": sum(1 for i in idx if i >= 52)})]
