#!/usr/bin/env python3
"""Run checks against a seeded change WITHOUT touching /repo or /verif's build state:
     tools/mutant_test.py <patch.diff> [Cxx ...]      (default: all claimed properties)
   A scratch git worktree of /repo gets the patch; a scratch copy of /verif (with its build cache)
   runs the checks against it via VERIF_REPO; both are removed afterwards. Prints one line per check."""
import json
import os
import shutil
import subprocess
import sys
import tempfile

ROOT = os.path.dirname(os.path.dirname(os.path.abspath(__file__)))


def main():
    patch = os.path.abspath(sys.argv[1])
    props = sys.argv[2:]
    if not props:
        props = [c["property_id"] for c in json.load(open(os.path.join(ROOT, "MANIFEST.json")))["checks"]]
    base = tempfile.mkdtemp(prefix="mt-", dir="/tmp")
    repo = os.path.join(base, "repo")
    verif = os.path.join(base, "verif")
    results = {}
    try:
        subprocess.run(["git", "-C", "/repo", "worktree", "add", "-q", "--detach", repo, "HEAD"], check=True)
        r = subprocess.run(["git", "-C", repo, "apply", patch], stderr=subprocess.PIPE, text=True)
        if r.returncode != 0:
            print("PATCH DOES NOT APPLY: " + r.stderr.strip())
            return 2
        subprocess.run(["rsync", "-a", "--exclude", ".git", "--exclude", "replays", "--exclude", "seeded", ROOT + "/", verif + "/"], check=True)
        env = dict(os.environ, VERIF_REPO=repo)
        for p in props:
            r = subprocess.run(["./check", p, "--tier", os.environ.get("VERIF_TIER", "quick")], cwd=verif, env=env,
                               stdout=subprocess.PIPE, stderr=subprocess.STDOUT, text=True)
            lines = [l for l in r.stdout.splitlines() if l.startswith("VIOLATION") or "NOT VERIFIED" in l or " holds:" in l]
            verdict = "VIOLATION" if r.returncode == 1 else ("ok" if r.returncode == 0 else "rc=%d" % r.returncode)
            detail = ""
            for l in r.stdout.splitlines():
                if l.startswith("VIOLATION"):
                    rp = l.split("replay=")[1].split()[0]
                    try:
                        rep = json.load(open(rp))
                        fi = rep.get("failing_input")
                        detail = (" no-failing-input-found" if "no-failing-input-found" in l else "") + \
                            " | broke: " + "; ".join(x["stage"] + ("(" + x["detail"][:160] + ")" if x["stage"] != "correspondence" else "") for x in rep["no_longer_checks"]) + \
                            (" | input: " + json.dumps(fi)[:300] if fi else "")
                    except Exception as e:  # noqa: BLE001
                        detail = " (replay unreadable: %s)" % e
            results[p] = verdict
            print("%s %s%s" % (p, verdict, detail), flush=True)
            if r.returncode not in (0, 1):
                print(r.stdout[-1500:])
    finally:
        subprocess.run(["git", "-C", "/repo", "worktree", "remove", "--force", repo])
        shutil.rmtree(base, ignore_errors=True)
    return 0


if __name__ == "__main__":
    sys.exit(main())
