"""Registry: per property, the correspondence families (tools/inputs.py), whether the overflow-checked
build is exercised too, and notes for the evidence file."""
import inputs

PROPS = {
    "C10": {
        "families": inputs.c10_families,
        "explanation": "Theorems over the regenerated constants, deck, create grid, accessor graphs and the complete 2^32 filter graph; "
                       "logic of create/accessors tied by exhaustive correspondence on all 70 variant pairs and all 52 cards + blank.",
        "assumptions": ["accessors depend on the word only through the masked field they extract (checked on cards, blank and near-miss words)"],
    },
    "C18": {
        "families": inputs.c18_families,
        "explanation": "Closed computations on the regenerated deck, preset and slot-index tables; Deck::get proved for every index.",
        "assumptions": [],
    },
}
