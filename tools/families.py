"""Registry: per property, the correspondence families (tools/inputs.py), whether the overflow-checked
build is exercised too, and notes for the evidence file."""
import inputs

PROPS = {
    "C10": {
        "families": inputs.c10_families,
        "explanation": "Theorems over the regenerated constants, deck, create grid, accessor graphs and the complete 2^32 filter graph; "
                       "logic of create/accessors tied by exhaustive correspondence on all 70 variant pairs and all 52 cards + blank.",
        "assumptions": ["accessors depend on the word only through the masked field they extract (checked on cards, blank and near-miss words)"],
    },
    "C01": {
        "families": inputs.c01_families,
        "explanation": "C01_value/C01_order/C01_onto: abstraction of the evaluator to (ranks, flush bit) by bit-level lemmas, "
                       "kernel reflection of the regenerated tables against the rules-of-poker ordinal over all 7,462 classes "
                       "(sorted rank multisets), lifted to every slot order by permutation invariance; logic tied by running all "
                       "2,598,960 hands through the extracted model and the implementation.",
        "assumptions": [],
    },
    "C13": {
        "families": inputs.c13_families,
        "explanation": "C13_predicates for any five real cards in any order (reflection over the 6,188 rank multisets after the "
                       "abstraction lemma), C13_category for distinct cards (reflection over the 7,462 classes).",
        "assumptions": [],
    },
    "C05": {
        "families": inputs.c05_families,
        "chk": True,
        "explanation": "C05_search_total (loop-invariant proof for every key, both overflow settings), C05_rank_total and "
                       "C05_blank_five over card-or-blank hands; both build profiles exercised with catch_unwind.",
        "assumptions": ["a Rust panic is modelled as the outcome Panic of the model's res type; real unwinding is observed by the harness (catch_unwind)"],
    },
    "C18": {
        "families": inputs.c18_families,
        "explanation": "Closed computations on the regenerated deck, preset and slot-index tables; Deck::get proved for every index.",
        "assumptions": [],
    },
}
