"""Registry: per property, the correspondence families (tools/inputs.py), whether the overflow-checked
build is exercised too, and notes for the evidence file."""
import inputs

PROPS = {
    "C10": {
        "families": inputs.c10_families,
        "explanation": "Theorems over the regenerated constants, deck, create grid, accessor graphs and the complete 2^32 filter graph; "
                       "logic of create/accessors tied by exhaustive correspondence on all 70 variant pairs and all 52 cards + blank.",
        "assumptions": ["accessors depend on the word only through the masked field they extract (checked on cards, blank and near-miss words)"],
    },
    "C01": {
        "families": inputs.c01_families,
        "explanation": "C01_value/C01_order/C01_onto: abstraction of the evaluator to (ranks, flush bit) by bit-level lemmas, "
                       "kernel reflection of the regenerated tables against the rules-of-poker ordinal over all 7,462 classes "
                       "(sorted rank multisets), lifted to every slot order by permutation invariance; logic tied by running all "
                       "2,598,960 hands through the extracted model and the implementation.",
        "assumptions": [],
    },
    "C13": {
        "families": inputs.c13_families,
        "explanation": "C13_predicates for any five real cards in any order (reflection over the 6,188 rank multisets after the "
                       "abstraction lemma), C13_category for distinct cards (reflection over the 7,462 classes).",
        "assumptions": [],
    },
    "C05": {
        "families": inputs.c05_families,
        "chk": True,
        "explanation": "C05_search_total (loop-invariant proof for every key, both overflow settings), C05_rank_total and "
                       "C05_blank_five over card-or-blank hands; both build profiles exercised with catch_unwind.",
        "assumptions": ["a Rust panic is modelled as the outcome Panic of the model's res type; real unwinding is observed by the harness (catch_unwind)"],
    },
    "C18": {
        "families": inputs.c18_families,
        "explanation": "Closed computations on the regenerated deck, preset and slot-index tables; Deck::get proved for every index.",
        "assumptions": [],
    },
}

def _p(fn, expl, chk=False, assumptions=None):
    d = {"families": fn, "explanation": expl, "assumptions": assumptions or []}
    if chk:
        d["chk"] = True
    return d


PROPS.update({
    "C02": _p(inputs.c02_families, "C02_value / C02_lower / C02_attained / C02_slot_order: general proof (best-of loop invariant, completeness of the regenerated "
              "slot tables lifted through select, sub-sequence / permutation lemmas, permutation invariance of the five-card value)."),
    "C03": _p(inputs.c03_families, "C03_five_identity, C03_witness: the remembered candidate is a sub-sequence of the input; its descending sort is a "
              "permutation (value invariant) and non-increasing. The reported hand is compared exactly."),
    "C04": _p(inputs.c04_families, "C04_is_valid for any words (each differently written uniqueness test proved equivalent to NoDup, sentinel case included), "
              "C04_validated / C04_zero_iff for any words via C01/C02's value range.", chk=True),
    "C06": _p(inputs.c06_families, "C06_invalid (general run-length lemma on the complete regenerated graphs), C06_describes (kernel reflection over the "
              "7,462 classes: category and class Debug-name built from the structure of the hand), C06_ranges, C06_consistent, C06_cards (with C01)."),
    "C07": _p(inputs.c07_families, "C07_key: cmp = compare of an injective integer key (case analysis, no sweep), hence reflexive, antisymmetric, transitive, "
              "total for all pairs and triples; C07_eq; C07_order; C07_enums by reflection over 7,461 adjacent values on the observed derived order."),
    "C17": _p(inputs.c17_families, "C17_chen by reflection over all 52 x 52 ordered pairs against a Chen spec written from the statement in doubled "
              "integers; helpers; symmetry; per-card points.", chk=True,
              assumptions=["f32 arithmetic and ceil are modelled exactly in doubled integers (every intermediate value is a multiple of 0.5 of magnitude <= 22)"]),
    "C08": _p(inputs.c08_families, "C08_card/C08_cycle by sweep over 52 cards; C08_slots definitional; C08_relabel_invariant general for any suit "
              "bijection (C01 for five, combs_map + C02 for six/seven)."),
    "C09": _p(inputs.c09_families, "C09_monotone / C09_min_of_sub / C09_chain: pure logic from C02's lower bound and attainment."),
    "C11": _p(inputs.c11_families, "C11_order general arithmetic on the layout; C11_sort for any list; sort_unstable modelled by its specification "
              "(uniqueness of the sorted arrangement proved).",
              assumptions=["slice::sort_unstable + reverse produce the non-increasing arrangement (library, modelled by specification)"]),
    "C12": _p(inputs.c12_families, "C12_symbols over all scalar values (exhaustive regenerated graphs), C12_token, C12_hand, C12_tokens, C12_roundtrip.",
              assumptions=["str::chars and str::split_whitespace / char::is_whitespace are the standard library's (whitespace set regenerated exhaustively)"]),
    "C14": _p(inputs.c14_families, "C14_positions, C14_roundtrip, C14_word_default (complete 2^32 graph), C14_bits_default for every N."),
    "C15": _p(inputs.c15_families, "set semantics by testbit reasoning; C15_peel and C15_peel_all by induction over the deck list / peel history."),
    "C16": _p(inputs.c16_families, "C16_* for every N from C15's peel lemmas and C14."),
    "C19": _p(inputs.c19_families, "C19_refines by induction over the history; readers; select.",
              assumptions=["the containers do not branch on the stored values (sentinel and random words exercised)"]),
    "C20": _p(inputs.c20_families, "C20_bits/accessors/strip/order: general from layout < 2^29 and bit lemmas."),
})
