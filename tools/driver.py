#!/usr/bin/env python3
"""Driver for one property check. See DESIGN.md section 1.5.

  check <Cxx> [--tier quick|thorough] [--replay <file>]

Exit 0: every proof obligation of the property checked against the data regenerated from /repo's
current tree, and the projected correspondence between the model and the implementation agreed on
every case explored. Exit 1 with a line `VIOLATION property=<id> replay=<path>` otherwise.
"""
import fcntl
import hashlib
import json
import os
import re
import shutil
import subprocess
import sys
import time

ROOT = os.path.dirname(os.path.dirname(os.path.abspath(__file__)))
sys.path.insert(0, os.path.join(ROOT, "tools"))
import inputs  # noqa: E402
import families  # noqa: E402

REPO = os.environ.get("VERIF_REPO", "/repo")
BUILD = os.path.join(ROOT, ".build")
COQ = os.path.join(ROOT, "coq")
HARNESS = os.path.join(ROOT, "harness")
TARGET = os.path.join(BUILD, "target")
OCAML = os.path.join(BUILD, "ocaml")
NPROC = 16

ENV = dict(os.environ)
ENV.update({"CARGO_NET_OFFLINE": "true", "CARGO_TARGET_DIR": TARGET, "LC_ALL": "C"})

GATE_RE = re.compile(r"\b(Admitted|admit|Axiom|Axioms|Parameter|Parameters|Conjecture|Conjectures|Hypothesis|Hypotheses|"
                     r"Variable|Variables|Abort All|Section|Context|Admit Obligations)\b|Unset Guard|Guard Checking|bypass_check|type-in-type|"
                     r"impredicative-set|Unset Universe Checking|Unset Positivity")


def log(msg):
    print("[check] " + msg, flush=True)


def sh(cmd, timeout=None, cwd=None, env=None, stdin=None, stdout=None):
    """run a build step; a step that exceeds its time limit is reported like a failed step (return code 124)"""
    try:
        return subprocess.run(cmd, cwd=cwd, env=env or ENV, timeout=timeout, stdin=stdin,
                              stdout=stdout if stdout is not None else subprocess.PIPE,
                              stderr=subprocess.STDOUT if stdout is None else subprocess.PIPE, text=True, errors="replace")
    except subprocess.TimeoutExpired as e:
        out = e.stdout if isinstance(e.stdout, str) else (e.stdout or b"").decode("utf-8", "replace")
        return subprocess.CompletedProcess(cmd, 124, stdout=out + "\nTIMEOUT: %s did not finish within %s s" % (" ".join(cmd[:3]), timeout), stderr="")


def file_hash(path):
    h = hashlib.sha256()
    with open(path, "rb") as f:
        for blk in iter(lambda: f.read(1 << 20), b""):
            h.update(blk)
    return h.hexdigest()


class Broken(Exception):
    """a build step of the machinery failed (proof obligation, harness compile, ...)"""

    def __init__(self, stage, detail):
        super().__init__(stage)
        self.stage = stage
        self.detail = detail


# ------------------------------------------------------------------------------------------------
def build_harness(profiles):
    os.makedirs(BUILD, exist_ok=True)
    lock_src = os.path.join(REPO, "Cargo.lock")
    lock_dst = os.path.join(HARNESS, "Cargo.lock")
    if os.path.exists(lock_src):
        if not os.path.exists(lock_dst) or open(lock_src).read() not in open(lock_dst).read():
            # seed the harness lockfile from the repository's (cargo adds the harness package itself)
            if not os.path.exists(lock_dst):
                shutil.copy(lock_src, lock_dst)
    # the harness depends on the repository by path: point it at the tree under test
    ct = os.path.join(HARNESS, "Cargo.toml")
    txt = open(ct).read()
    new = re.sub(r'ckc-rs = \{ path = "[^"]*"', 'ckc-rs = { path = "%s"' % REPO, txt)
    if new != txt:
        with open(ct, "w") as f:
            f.write(new)
    bins = {}
    for prof in profiles:
        t0 = time.time()
        args = ["cargo", "build", "--offline", "--quiet", "--profile", prof] if prof != "release" else \
               ["cargo", "build", "--offline", "--quiet", "--release"]
        r = sh(args, cwd=HARNESS, timeout=3600)
        if r.returncode != 0:
            raise Broken("harness-build", r.stdout[-4000:])
        bins[prof] = os.path.join(TARGET, prof, "ckc-probe")
        log("harness built (%s) in %.1fs" % (prof, time.time() - t0))
    return bins


def dump_and_gen(probe):
    h = file_hash(probe)
    dump = os.path.join(BUILD, "dump.txt")
    stamp = os.path.join(BUILD, "dump.hash")
    if not (os.path.exists(dump) and os.path.exists(stamp) and open(stamp).read() == h):
        t0 = time.time()
        with open(dump + ".tmp", "w") as f:
            try:
                r = subprocess.run([probe, "dump"], stdout=f, stderr=subprocess.PIPE, text=True, timeout=3600)
            except subprocess.TimeoutExpired:
                raise Broken("dump", "ckc-probe dump did not finish within 3600 s")
        if r.returncode != 0:
            raise Broken("dump", r.stderr[-4000:])
        os.replace(dump + ".tmp", dump)
        with open(stamp, "w") as f:
            f.write(h)
        log("dumped implementation data (2^32 scans included) in %.1fs" % (time.time() - t0))
    r = sh([sys.executable, os.path.join(ROOT, "tools", "gen_coq.py"), dump, os.path.join(COQ, "Gen")])
    if r.returncode != 0:
        raise Broken("gen", r.stdout[-4000:])
    log(r.stdout.strip())


def coq_makefile():
    mk = os.path.join(COQ, "Makefile")
    cp = os.path.join(COQ, "_CoqProject")
    if not os.path.exists(mk) or os.path.getmtime(mk) < os.path.getmtime(cp):
        r = sh(["coq_makefile", "-f", "_CoqProject", "-o", "Makefile"], cwd=COQ)
        if r.returncode != 0:
            raise Broken("coq_makefile", r.stdout)


def coq_make(targets, timeout=7200):
    coq_makefile()
    t0 = time.time()
    r = sh(["make", "-j%d" % NPROC, "-f", "Makefile"] + targets, cwd=COQ, timeout=timeout)
    log("make %s: rc=%d in %.1fs" % (" ".join(targets), r.returncode, time.time() - t0))
    return r.returncode, r.stdout


def gate():
    """grep gate over the whole development: no Admitted/Axiom/... anywhere"""
    bad = []
    for d, _, fs in os.walk(COQ):
        for fn in fs:
            if fn.endswith(".v"):
                p = os.path.join(d, fn)
                txt = open(p).read()
                # strip comments
                txt2 = re.sub(r"\(\*.*?\*\)", "", txt, flags=re.S)
                for m in GATE_RE.finditer(txt2):
                    if m.group(0) in ("Variable", "Variables", "Hypothesis", "Hypotheses"):
                        # allowed only inside a Section; we simply forbid them: none are used
                        pass
                    bad.append("%s: %s" % (os.path.relpath(p, ROOT), m.group(0)))
    return bad


def theorem_names(prop):
    p = os.path.join(COQ, "Props", prop + ".v")
    txt = open(p).read()
    txt = re.sub(r"\(\*.*?\*\)", "", txt, flags=re.S)
    return re.findall(r"^\s*Theorem\s+(\w+)", txt, flags=re.M)


def theorem_statements(prop):
    p = os.path.join(COQ, "Props", prop + ".v")
    txt = open(p).read()
    out = []
    for m in re.finditer(r"^\s*Theorem\s+(\w+)\s*:(.*?)\nProof\.", txt, flags=re.M | re.S):
        out.append({"theorem": m.group(1), "statement": " ".join(m.group(2).split())})
    return out


ALLOWED_AXIOMS = set()  # target: every theorem closed under the global context


def print_assumptions(prop, names):
    """re-run Print Assumptions for every property theorem; return (closed, report)"""
    tmp = os.path.join(BUILD, "assume_%s.v" % prop)
    with open(tmp, "w") as f:
        f.write("From CKC Require Import Props.%s.\n" % prop)
        for n in names:
            f.write('Goal True. idtac "@@ %s". Abort.\nPrint Assumptions %s.\n' % (n, n))
    r = sh(["coqc", "-Q", COQ, "CKC", "-o", os.path.join(BUILD, "assume_%s.vo" % prop), tmp], cwd=BUILD, timeout=1800)
    if r.returncode != 0:
        return 0, {"error": r.stdout[-2000:]}
    report = {}
    cur = None
    for line in r.stdout.splitlines():
        if line.startswith("@@ "):
            cur = line[3:].strip()
            report[cur] = []
        elif cur is not None and line.strip():
            report[cur].append(line.strip())
    closed = 0
    for n in names:
        lines = report.get(n, ["<missing>"])
        if lines == ["Closed under the global context"]:
            closed += 1
        else:
            axs = [l.split(":")[0].strip() for l in lines if ":" in l and not l.startswith("Axioms")]
            if axs and all(a in ALLOWED_AXIOMS for a in axs):
                closed += 1
    return closed, report


def coqchk(prop):
    """independent re-check of the compiled property file and everything it depends on (thorough tier);
    cached by the hash of every .vo in the development"""
    h = hashlib.sha256()
    for d, _, fs in sorted(os.walk(COQ)):
        for fn in sorted(fs):
            if fn.endswith(".vo"):
                h.update(fn.encode())
                h.update(file_hash(os.path.join(d, fn)).encode())
    key = h.hexdigest()
    cache = os.path.join(BUILD, "coqchk_%s.json" % prop)
    if os.path.exists(cache):
        c = json.load(open(cache))
        if c.get("key") == key:
            return c
    t0 = time.time()
    try:
        r = sh(["coqchk", "-silent", "-o", "-Q", COQ, "CKC", "CKC.Props.%s" % prop], cwd=BUILD, timeout=5400)
        out, rc = r.stdout, r.returncode
    except subprocess.TimeoutExpired:
        out, rc = "coqchk timed out", 124
    axioms = "unknown"
    m = re.search(r"\* Axioms:\s*(.*?)(?:\n\s*\n|\n\* |\Z)", out, flags=re.S)
    if m:
        axioms = " ".join(m.group(1).split())
    c = {"key": key, "rc": rc, "axioms": axioms, "wall_s": round(time.time() - t0, 1), "tail": out[-600:]}
    if c.get("rc") == 0:      # a failed or timed-out run must not be replayed from the cache
        write_json(cache, c)
    log("coqchk %s: rc=%d axioms=%s (%.0fs)" % (prop, rc, axioms, time.time() - t0))
    return c


def build_model():
    """extract the model and build ocaml/modelrun when needed"""
    rc, out = coq_make(["Extract/Extract.vo"])
    if rc != 0:
        raise Broken("model-build", out[-4000:])
    os.makedirs(OCAML, exist_ok=True)
    src_ml = os.path.join(COQ, "model.ml")
    src_mli = os.path.join(COQ, "model.mli")
    drv = os.path.join(ROOT, "ocaml", "modelrun.ml")
    exe = os.path.join(OCAML, "modelrun")
    key = file_hash(src_ml) + file_hash(src_mli) + file_hash(drv)
    stamp = os.path.join(OCAML, "stamp")
    if os.path.exists(exe) and os.path.exists(stamp) and open(stamp).read() == key:
        return exe
    t0 = time.time()
    for f in (src_ml, src_mli, drv):
        shutil.copy(f, OCAML)
    r = sh(["bash", "-c", "ulimit -s unlimited; ocamlfind ocamlopt -O3 -w -a model.mli model.ml modelrun.ml -o modelrun"],
           cwd=OCAML, timeout=3600)
    if r.returncode != 0:
        raise Broken("model-compile", r.stdout[-4000:])
    with open(stamp, "w") as f:
        f.write(key)
    log("extracted model compiled in %.1fs" % (time.time() - t0))
    return exe


# ------------------------------------------------------------------------------------------------
def _pad(out_path, n_expected):
    """a runner that stopped early (watchdog HANG, exit status 3) leaves fewer result lines than cases: pad with
    NOT-RUN so that later shards stay aligned with their cases"""
    with open(out_path) as f:
        n = sum(1 for _ in f)
    if n < n_expected:
        with open(out_path, "a") as f:
            for _ in range(n_expected - n):
                f.write("NOT-RUN\n")


def run_sharded(cmd, case_file, out_file, nlines, shards):
    """run `cmd < chunk` on `shards` contiguous chunks of case_file in parallel; concatenate.
    Exit status 3 = the harness watchdog saw a case that did not return (reported as a `HANG <case>` line)."""
    if shards <= 1:
        with open(case_file) as fi, open(out_file, "w") as fo:
            r = subprocess.run(cmd, stdin=fi, stdout=fo, stderr=subprocess.PIPE, text=True)
        if r.returncode == 3:
            _pad(out_file, nlines)
        elif r.returncode != 0:
            raise Broken("runner", "%s: %s" % (" ".join(cmd), r.stderr[-2000:]))
        return
    per = (nlines + shards - 1) // shards
    chunk_files = []
    counts = []
    with open(case_file) as fi:
        for k in range(shards):
            cf = "%s.chunk%d" % (case_file, k)
            c = 0
            with open(cf, "w") as fo:
                for _ in range(per):
                    line = fi.readline()
                    if not line:
                        break
                    fo.write(line)
                    c += 1
            chunk_files.append(cf)
            counts.append(c)
    procs = []
    for k, cf in enumerate(chunk_files):
        fi = open(cf)
        fo = open("%s.out%d" % (out_file, k), "w")
        procs.append((subprocess.Popen(["bash", "-c", "ulimit -s unlimited; exec \"$@\"", "x"] + cmd, stdin=fi, stdout=fo,
                                       stderr=subprocess.PIPE, text=True), fi, fo))
    errs = []
    for k, (p, fi, fo) in enumerate(procs):
        _, err = p.communicate()
        fi.close()
        fo.close()
        if p.returncode == 3:
            _pad("%s.out%d" % (out_file, k), counts[k])
        elif p.returncode != 0:
            errs.append(err[-2000:])
    with open(out_file, "w") as fo:
        for k in range(len(chunk_files)):
            with open("%s.out%d" % (out_file, k)) as fi:
                shutil.copyfileobj(fi, fo)
            os.remove("%s.out%d" % (out_file, k))
            os.remove(chunk_files[k])
    if errs:
        raise Broken("runner", "%s: %s" % (" ".join(cmd), errs[0]))


def sweep_domain_size(args):
    """the number of cases `ckc-probe sweep` must report for these arguments (None when not computed here)"""
    import math
    a = dict(zip(args[0::2], args[1::2]))
    k, alphabet = int(a["--k"]), a.get("--alphabet", "deck")
    stride, offset = int(a.get("--stride", 1)), int(a.get("--offset", 0))
    if alphabet == "deck":
        n = math.comb(52, k)
    elif alphabet == "deckblank":
        n = math.comb(53 + k - 1, k)
    elif alphabet == "deckblank_ordered":
        n = 53 ** k
    elif alphabet == "u16_ordered":
        n = 65536 ** k
    elif alphabet == "deckblank_invalid" and stride == 1:
        return math.comb(53 + k - 1, k) - math.comb(52, k)
    else:
        return None
    # cases c in 0..n with c % stride == offset
    return (n - offset + stride - 1) // stride if offset < n else 0


def sweep_family(fam, bins, modelrun, mismatches):
    """an exhaustive implementation-only family (harness/src/sweep.rs): the model's line for this projection is the
    constant fam["expect"] on every case of the domain BY THE THEOREM fam["theorem"], so only the implementation
    runs over the domain; every case whose line differs is then run on the model as well (which confirms the
    constant on that case) and reported like any other pinned mismatch"""
    t0 = time.time()
    name = fam["name"]
    total = 0
    fam_mis = 0
    samples = []
    for prof in fam.get("profiles", ["release"]):
        cmd = [bins[prof], "sweep"] + fam["sweep"] + ["--expect", fam["expect"], "--threads", str(NPROC)]
        if fam.get("blank_case"):
            # the constant for cases holding a blank is read off the model on one such case
            try:
                mb = subprocess.run(["bash", "-c", "ulimit -s unlimited; exec \"$@\"", "x", modelrun, "--chk", "1" if prof == "chk" else "0"],
                                    input=fam["blank_case"] + "\n", stdout=subprocess.PIPE, text=True, timeout=1800)
            except subprocess.TimeoutExpired:
                raise Broken("runner", "modelrun gave no line for the blank case within 1800 s")
            if mb.returncode != 0 or not mb.stdout.strip():
                raise Broken("runner", "modelrun gave no line for the blank case %s" % fam["blank_case"])
            cmd += ["--expect-blank", mb.stdout.strip()]
        try:
            r = subprocess.run(cmd, stdout=subprocess.PIPE, stderr=subprocess.PIPE, text=True, timeout=14400)
        except subprocess.TimeoutExpired:
            raise Broken("runner", "%s: no result within 4 h" % " ".join(cmd))
        if r.returncode not in (0, 3):
            raise Broken("runner", "%s: %s" % (" ".join(cmd), r.stderr[-2000:]))
        bad = []
        swept_seen = False
        for l in r.stdout.splitlines():
            if l.startswith("BAD "):
                case, _, out = l[4:].partition(" => ")
                bad.append((case, out))
            elif l.startswith("HANG "):
                bad.append((l[5:], "HANG"))
            elif l.startswith("SWEPT "):
                total = int(l.split()[1])
                fam_mis += int(l.split()[3])
                swept_seen = True
        if r.returncode == 3 and not bad:
            raise Broken("runner", "%s: exit status 3 (watchdog) without a HANG line" % " ".join(cmd))
        if r.returncode == 0:
            want = sweep_domain_size(fam["sweep"])
            if not swept_seen or total <= 0 or (want is not None and total != want):
                raise Broken("runner", "%s: swept %s cases, expected %s" % (" ".join(cmd), total if swept_seen else "no SWEPT line", want))
        if bad:
            try:
                mr = subprocess.run(["bash", "-c", "ulimit -s unlimited; exec \"$@\"", "x", modelrun, "--chk", "1" if prof == "chk" else "0"],
                                    input="\n".join(c for c, _ in bad) + "\n", stdout=subprocess.PIPE, text=True, timeout=1800)
            except subprocess.TimeoutExpired:
                raise Broken("runner", "modelrun did not answer on the cases a sweep reported within 1800 s")
            if mr.returncode != 0:
                raise Broken("runner", "modelrun failed on the cases a sweep reported")
            mout = mr.stdout.splitlines()
            real = 0
            for k, (case, out) in enumerate(bad):
                model = mout[k].strip() if k < len(mout) else fam["expect"]
                if model != out:
                    real += 1
                    if sum(1 for m in mismatches if not m.get("beyond")) < 20:
                        mismatches.append({"family": name, "profile": prof, "line": 0, "case": case, "implementation": out,
                                           "model": model, "pinned": True,
                                           "note": "exhaustive implementation-only sweep; the model's line is the constant '%s' "
                                                   "by theorem %s" % (fam["expect"], fam["theorem"])})
            if not real:
                raise Broken("sweep", "family %s: the implementation differs from the expected constant '%s' on %s but agrees "
                             "with the model there: the constant claimed for theorem %s is wrong" %
                             (name, fam["expect"], bad[0][0], fam["theorem"]))
            if r.returncode == 3:
                fam_mis += 1
    log("family %-22s %8d cases x %d profile(s): %s (%.1fs) [sweep, model constant by %s]" % (
        name, total, len(fam.get("profiles", ["release"])), "agree" if not fam_mis else "%d MISMATCHES" % fam_mis,
        time.time() - t0, fam["theorem"]))
    return {"family": name, "cases": total, "distinct": total, "profiles": fam.get("profiles", ["release"]),
            "exhaustive": bool(fam.get("exhaustive")), "rule": fam["rule"], "categories": {}, "mismatches": fam_mis,
            "samples": ["ckc-probe sweep " + " ".join(fam["sweep"]) + " --expect '%s'" % fam["expect"]],
            "model_side": "constant '%s' by theorem %s (not executed except on differing cases)" % (fam["expect"], fam["theorem"]),
            "wall_s": round(time.time() - t0, 2)}


def correspondence(prop, fams, bins, modelrun, work, stats=None, mismatches=None):
    """run every family on the implementation and on the model; return (stats, mismatches). The two lists may be
    passed in, so that what was found survives a Broken raised by a later family."""
    stats = [] if stats is None else stats
    mismatches = [] if mismatches is None else mismatches
    os.makedirs(work, exist_ok=True)
    for fam in fams:
        t0 = time.time()
        name = fam["name"]
        if "sweep" in fam:
            stats.append(sweep_family(fam, bins, modelrun, mismatches))
            continue
        case_file = os.path.join(work, "%s.cases" % name)
        if "cases_cmd" in fam:
            with open(case_file, "w") as fo:
                r = subprocess.run([bins["release"], "cases"] + fam["cases_cmd"], stdout=fo, stderr=subprocess.PIPE, text=True)
            if r.returncode != 0:
                raise Broken("cases", r.stderr[-2000:])
            with open(case_file) as f:
                nlines = sum(1 for _ in f)
        else:
            with open(case_file, "w") as fo:
                fo.write("\n".join(fam["lines"]) + ("\n" if fam["lines"] else ""))
            nlines = len(fam["lines"])
        profiles = fam.get("profiles", ["release"])
        shards_model = max(1, min(NPROC, nlines // fam.get("per_shard", 4000)))
        shards_impl = max(1, min(NPROC, nlines // 200000))
        fam_mis = 0
        for prof in profiles:
            impl_out = os.path.join(work, "%s.%s.impl" % (name, prof))
            model_out = os.path.join(work, "%s.%s.model" % (name, prof))
            run_sharded([bins[prof], "run"], case_file, impl_out, nlines, shards_impl)
            run_sharded([modelrun, "--chk", "1" if prof == "chk" else "0"], case_file, model_out, nlines, shards_model)
            for side, outp in (("implementation", impl_out), ("model", model_out)):
                with open(outp) as fo_:
                    got = sum(1 for _ in fo_)
                if got != nlines:
                    raise Broken("runner", "family %s (%s, %s): %d result lines for %d cases" % (name, prof, side, got, nlines))
            same = subprocess.run(["cmp", "-s", impl_out, model_out]).returncode == 0
            if not same:
                with open(case_file) as fc, open(impl_out) as fi, open(model_out) as fm:
                    for k, (c, a, b) in enumerate(zip(fc, fi, fm)):
                        if a != b and a.strip() != "NOT-RUN":
                            fam_mis += 1
                            # separate caps: drift of a `beyond` family must never crowd out a real disagreement
                            if sum(1 for m in mismatches if bool(m.get("beyond")) == bool(fam.get("beyond"))) < 20:
                                mismatches.append({"family": name, "profile": prof, "line": k + 1, "case": c.strip(),
                                                   "implementation": a.strip(), "model": b.strip(),
                                                   "pinned": bool(fam.get("pinned")), "beyond": bool(fam.get("beyond"))})
                    # length mismatch
                la = sum(1 for _ in open(impl_out))
                lb = sum(1 for _ in open(model_out))
                if la != lb and not fam_mis:
                    fam_mis += 1
                    mismatches.append({"family": name, "profile": prof, "line": min(la, lb) + 1,
                                       "case": "<output length differs: impl %d, model %d>" % (la, lb),
                                       "implementation": "", "model": ""})
            for f in (impl_out, model_out):
                if same and not os.environ.get("VERIF_KEEP"):
                    os.remove(f)
        # distinct non-trivial: distinct case lines
        if "cases_cmd" in fam:
            distinct = nlines  # enumerations never repeat a case
            samples = [l.strip() for l in open(case_file).readlines(4000)[:3]]
        else:
            distinct = len(set(fam["lines"]))
            samples = fam["lines"][:2] + fam["lines"][-1:]
        if not os.environ.get("VERIF_KEEP") and not fam_mis:
            os.remove(case_file)
        stats.append({"family": name, "cases": nlines, "distinct": distinct, "profiles": profiles, "beyond": bool(fam.get("beyond")),
                      "exhaustive": bool(fam.get("exhaustive")), "rule": fam["rule"],
                      "categories": fam.get("categories", {}), "mismatches": fam_mis, "samples": samples,
                      "wall_s": round(time.time() - t0, 2)})
        log("family %-22s %8d cases x %d profile(s): %s (%.1fs)" % (name, nlines, len(profiles),
                                                                  "agree" if not fam_mis else
                                                                  ("%d MISMATCHES" % fam_mis if not fam.get("beyond") else
                                                                   "%d differences OUTSIDE the property (model drift, no verdict)" % fam_mis),
                                                                  time.time() - t0))
    return stats, mismatches


# ------------------------------------------------------------------------------------------------
def run_oracle(prop, bins, seed, tier, hint=None):
    """search the implementation directly for an input violating the property; returns list of dicts"""
    found = []
    for prof in ("release", "chk"):
        if prof not in bins:
            continue
        args = [bins[prof], "oracle", prop, "--seed", str(seed), "--tier", tier]
        try:
            r = subprocess.run(args, stdout=subprocess.PIPE, stderr=subprocess.PIPE, text=True, timeout=1200)
        except subprocess.TimeoutExpired:
            continue
        for line in r.stdout.splitlines():
            if line.startswith("FAIL "):
                try:
                    d = json.loads(line[5:])
                except json.JSONDecodeError:
                    d = {"raw": line[5:]}
                d["profile"] = prof
                found.append(d)
        if found:
            break
    return found


def model_search(prop, bins, modelrun):
    """model-side search (Model/Search.v, extracted): the first hand class on which the regenerated tables disagree
    with the rules-of-poker ranking, as a concrete hand; confirmed by replaying it on the implementation"""
    if prop not in ("C01", "C02", "C06") or not modelrun or not bins:
        return []
    try:
        r = subprocess.run(["bash", "-c", "ulimit -s unlimited; exec \"$@\"", "x", modelrun, "--find"],
                           stdout=subprocess.PIPE, stderr=subprocess.PIPE, text=True, timeout=600)
    except subprocess.TimeoutExpired:
        return []
    out = []
    for line in r.stdout.splitlines():
        m = re.match(r"FOUND chk=(\d) expected=(\d+) actual=(\S+) case=(.*)", line)
        if not m:
            continue
        case, expected = m.group(4), m.group(2)
        prof = "chk" if m.group(1) == "1" and "chk" in bins else "release"
        rr = subprocess.run([bins[prof], "run"], input=case + "\n", stdout=subprocess.PIPE, text=True)
        impl = rr.stdout.strip().split()
        if impl and any(x != expected for x in impl):
            out.append({"case": case, "profile": prof, "what": "model-side search: the regenerated tables give this hand class "
                        "the value %s, the rules of poker give %s; the implementation returns (hand_rank_value, hand_rank, "
                        "value_and_hand, validated x2, evaluate::five_cards) = %s" % (m.group(3), expected, " ".join(impl)),
                        "expected": expected, "actual": " ".join(impl)})
            break
    return out


def load_known():
    p = os.path.join(ROOT, "known_findings.json")
    if not os.path.exists(p):
        return {"findings": [], "fixed": []}
    return json.load(open(p))


def write_json(path, obj):
    os.makedirs(os.path.dirname(path), exist_ok=True)
    with open(path + ".tmp", "w") as f:
        json.dump(obj, f, indent=1)
        f.write("\n")
    os.replace(path + ".tmp", path)


TRUSTED_BASE = [
    "Coq 8.16.1 kernel including its bytecode VM (vm_compute / vm_cast_no_check in reflection proofs); no native_compute",
    "axioms: none (every property theorem is 'Closed under the global context', re-checked by Print Assumptions on every run)",
    "harness/src/dump.rs + tools/gen_coq.py: print the implementation's tables, constants and finite function graphs into coq/Gen/*.v",
    "coq/Model/*.v: hand transcription of the Rust logic, tied to the code only by the correspondence check (ckc-probe run vs ocaml/modelrun on the same case files)",
    "extraction: ExtrOcamlBasic only (Extract Inductive bool, option, unit, list, prod, sumbool, sumor; Extract Inlined Constant andb, orb); no Extract Constant of ours; OCaml 4.13 compiler; ocaml/modelrun.ml driver",
    "coq/Spec/*.v: the reading of the property text (card layout, rules of poker, Chen formula, symbol tables)",
    "modelled, not verified: rustc/LLVM and core (integer and shift semantics, overflow checks per profile, bounds-checked indexing, sort_unstable, reverse, contains, any, count_ones, trailing_zeros, leading_zeros, cmp::max, chars(), split_whitespace/is_whitespace, f32 arithmetic and ceil, casts, derived traits, catch_unwind)",
]


def main(argv):
    t_start = time.time()
    if len(argv) < 2:
        print(__doc__)
        return 2
    prop = argv[1]
    tier = os.environ.get("VERIF_TIER", "quick")
    replay = None
    i = 2
    while i < len(argv):
        if argv[i] == "--tier":
            tier = argv[i + 1]
            i += 2
        elif argv[i] == "--replay":
            replay = argv[i + 1]
            i += 2
        else:
            i += 1
    if tier not in ("quick", "thorough"):
        tier = "quick"
    seed = int(os.environ.get("VERIF_SEED", "20260926"))
    spec = families.PROPS.get(prop)
    if spec is None:
        print("unknown property " + prop)
        return 2
    os.makedirs(BUILD, exist_ok=True)
    lockf = open(os.path.join(BUILD, "lock"), "w")
    fcntl.flock(lockf, fcntl.LOCK_EX)

    if replay:
        return do_replay(prop, replay)

    evidence_path = os.path.join(ROOT, "evidence", prop + ".json")
    broken = []       # (stage, detail)
    stats, mismatches, drift = [], [], []
    modelrun = None
    names = theorem_names(prop)
    discharged = 0
    assumptions = {}
    bins = {}
    try:
        profiles = ["release", "chk"]   # every property is exercised in both build profiles
        bins = build_harness(profiles)
        dump_and_gen(bins["release"])
    except Broken as b:
        broken.append((b.stage, b.detail))

    if not broken:
        # ---- proof obligations against the regenerated data
        rc, out = coq_make(["Props/%s.vo" % prop])
        if rc != 0:
            m = re.search(r'File "([^"]+)", line (\d+)[^\n]*\n(.*?)(?:\nmake|\Z)', out, flags=re.S)
            where = "%s:%s: %s" % (m.group(1), m.group(2), " ".join(m.group(3).split())[:600]) if m else out[-1500:]
            broken.append(("proof", where))
        else:
            discharged, assumptions = print_assumptions(prop, names)
            if discharged != len(names):
                broken.append(("assumptions", json.dumps(assumptions)[:1500]))
            elif tier == "thorough" and not os.environ.get("VERIF_NO_COQCHK"):
                chk_res = coqchk(prop)
                assumptions["coqchk"] = {k: chk_res[k] for k in ("rc", "axioms", "wall_s")}
                if chk_res["rc"] != 0 or chk_res["axioms"] not in ("<none>",):
                    broken.append(("coqchk", chk_res["tail"]))
        bad = gate()
        if bad:
            broken.append(("gate", "; ".join(bad[:20])))
        # ---- correspondence
        try:
            modelrun = build_model()
            # everything that writes shared build state (harness, dump, Gen, .vo files, the extracted model) is done: the
            # rest only RUNS those binaries and writes per-property files, so other checks need not wait for it
            try:
                fcntl.flock(lockf, fcntl.LOCK_UN)
            except OSError:
                pass
            rng = inputs.Rng(seed)
            fams = spec["families"](rng, tier)
            all_mis = []
            try:
                correspondence(prop, fams, bins, modelrun, os.path.join(BUILD, "work", prop), stats, all_mis)
            except Broken as b:
                broken.append((b.stage, b.detail))
            # families marked `beyond` compare behaviour the property does not fix: a difference there is model drift, recorded
            # in the evidence, and no verdict
            drift = [m for m in all_mis if m.get("beyond")]
            mismatches = [m for m in all_mis if not m.get("beyond")]
            n_real = sum(s["mismatches"] for s in stats if not s.get("beyond"))
            if mismatches or n_real:
                broken.append(("correspondence", "%d disagreeing case(s), first: %s" % (
                    n_real, json.dumps(mismatches[0]) if mismatches else "(in family %s)" % ", ".join(
                        s["family"] for s in stats if s["mismatches"] and not s.get("beyond")))))
        except Broken as b:
            broken.append((b.stage, b.detail))

    # ---- decide
    violations = []
    known = load_known()
    known_lines = []
    if broken:
        log("NOT VERIFIED: " + "; ".join("%s: %s" % (s, d[:300]) for s, d in broken))
        # a disagreement on a family whose outputs the theorems pin down completely IS a failing input: the model's
        # answer is proved to be what the property demands on that input. That argument needs the theorems to hold for the
        # CURRENT data, so it is used only when every proof obligation of the property still checks; when a proof broke as
        # well, the model's answer is no longer known to be right and the searches below must produce the input.
        proofs_intact = not any(st in ("proof", "assumptions", "gate", "coqchk") for st, _ in broken)
        found = []
        if proofs_intact:
            found = [{"case": m["case"], "profile": m["profile"], "family": m["family"],
                      "what": "implementation output differs from the output of the model, which the property's theorems pin down on this input",
                      "expected": m["model"], "actual": m["implementation"]} for m in mismatches if m.get("pinned")]
        if not found and any(st == "proof" for st, _ in broken):
            try:
                found += model_search(prop, bins, modelrun or build_model())
            except Broken:
                pass
        if len(found) < 3 and bins:
            found += run_oracle(prop, bins, seed, tier)
        # drop failing inputs that are listed known findings
        fresh = []
        for f in found:
            k = [kf for kf in known.get("findings", []) if kf["property"] == prop and kf.get("match") and kf["match"] in json.dumps(f)]
            if k:
                known_lines.append("KNOWN-FINDING: property=%s %s" % (prop, k[0]["what"]))
            else:
                fresh.append(f)
        os.makedirs(os.path.join(ROOT, "replays"), exist_ok=True)
        rid = hashlib.sha256(json.dumps([broken, fresh[:1]], sort_keys=True).encode()).hexdigest()[:12]
        rpath = os.path.join(ROOT, "replays", "%s-%s.json" % (prop, rid))
        rep = {
            "property": prop,
            "seed": seed,
            "tier": tier,
            "no_longer_checks": [{"stage": s, "detail": d} for s, d in broken],
            "failing_input": fresh[0] if fresh else None,
            "other_failing_inputs": fresh[1:10],
            "correspondence_mismatches": mismatches[:10],
            "replay_cmd": "./check %s --replay %s" % (prop, rpath),
        }
        write_json(rpath, rep)
        def is_known(obj):
            return any(kf["property"] == prop and kf.get("match") and kf["match"] in json.dumps(obj) for kf in known.get("findings", []))
        # a listed known finding explains the run only when the correspondence is ALL that broke and every recorded
        # disagreement is one of the listed inputs; anything else is a violation the file does not list
        explained = bool(found) and not fresh and all(st == "correspondence" for st, _ in broken) \
            and bool(mismatches) and all(is_known(m) for m in mismatches) \
            and sum(s_["mismatches"] for s_ in stats if not s_.get("beyond")) == len(mismatches)
        if fresh:
            violations.append("VIOLATION property=%s replay=%s" % (prop, rpath))
        elif not explained:
            violations.append("VIOLATION property=%s replay=%s no-failing-input-found" % (prop, rpath))

    total_cases = sum(s["cases"] * len(s["profiles"]) for s in stats)
    distinct = sum(s["distinct"] for s in stats)
    samples = []
    for s in stats:
        samples += ["%s: %s" % (s["family"], x) for x in s["samples"][:2]]
    stmts = theorem_statements(prop)
    ev = {
        "property_id": prop,
        "tier": tier,
        "seed": seed,
        "level": "proof",
        "coverage": {
            "obligations": len(names),
            "discharged": discharged if not any(s in ("proof",) for s, _ in broken) else 0,
            "checker_cmd": "cd coq && coq_makefile -f _CoqProject -o Makefile && make Props/%s.vo  (coqc 8.16.1, full .vo build) then Print Assumptions on each theorem" % prop,
            "trusted_base": TRUSTED_BASE + spec.get("trusted_extra", []),
            "theorems": stmts,
            "print_assumptions": assumptions,
            "evaluations": total_cases,
            "distinct_nontrivial": distinct,
            "rule": "correspondence check: identical case files executed by the implementation (ckc-probe run, release and overflow-checked build) and by the extracted Coq model (ocaml/modelrun); outputs compared "
                    "line by line; a case is non-trivial/distinct when its input line is distinct. Per family: "
                    + " | ".join("%s: %s" % (s["family"], s["rule"]) for s in stats),
            "samples": samples or [s["statement"] for s in stmts[:2]],
            "exhaustive": bool(stats) and all(s["exhaustive"] for s in stats),
            "families": [{k: s.get(k) for k in ("family", "cases", "distinct", "profiles", "exhaustive", "categories", "mismatches", "wall_s", "beyond", "model_side")} for s in stats],
            "model_drift_outside_property": [{k: m[k] for k in ("family", "case", "implementation", "model")} for m in drift[:10]],
            "explanation": spec.get("explanation", ""),
        },
        "assumptions": spec.get("assumptions", []),
        "wall_s": round(time.time() - t_start, 2),
        "violations": len(violations),
    }
    write_json(evidence_path, ev)
    for l in known_lines:
        print(l)
    if violations:
        for v in violations:
            print(v)
        return 1
    log("%s holds: %d/%d theorems checked (closed under the global context), %d correspondence cases agree, %.1fs"
        % (prop, discharged, len(names), total_cases, time.time() - t_start))
    return 0


def do_replay(prop, path):
    """print the replay file and re-run its failing input on the implementation (both build profiles) and on the model"""
    rep = json.load(open(path))
    print(json.dumps(rep, indent=1))
    fi = rep.get("failing_input")
    if fi and fi.get("case"):
        cases = [c.strip() for c in fi["case"].split(" ; ") if c.strip()]
        bins = build_harness(["release", "chk"])
        try:
            modelrun = build_model()
        except Broken:
            modelrun = None
        for case in cases:
            for prof in ("release", "chk"):
                r = subprocess.run([bins[prof], "run", "--verbose"], input=case + "\n", stdout=subprocess.PIPE,
                                   stderr=subprocess.PIPE, text=True)
                print("[implementation, %s] %s" % (prof, r.stdout.strip() or "(not a runnable case: %s)" % case))
            if modelrun:
                r = subprocess.run(["bash", "-c", "ulimit -s unlimited; exec \"$@\"", "x", modelrun, "--verbose"],
                                   input=case + "\n", stdout=subprocess.PIPE, stderr=subprocess.PIPE, text=True)
                print("[model] %s" % (r.stdout.strip() or "(not a runnable case)"))
    return 0


def guarded_main(argv):
    """an unexpected failure of the machinery itself (a time limit of a sub-process, an unreadable output, ...) must not end
    in a bare traceback: the property was not shown to hold, so it is reported as such, naming the internal error"""
    try:
        return main(argv)
    except Exception:  # noqa: BLE001
        import traceback
        tb = traceback.format_exc()
        sys.stderr.write(tb)
        prop = next((a for a in argv[1:] if re.fullmatch(r"C\d\d", a)), "C00")
        os.makedirs(os.path.join(ROOT, "replays"), exist_ok=True)
        rpath = os.path.join(ROOT, "replays", "%s-internal-%s.json" % (prop, hashlib.sha256(tb.encode()).hexdigest()[:12]))
        write_json(rpath, {"property": prop, "no_longer_checks": [{"stage": "internal", "detail": tb[-3000:]}], "failing_input": None})
        print("VIOLATION property=%s replay=%s no-failing-input-found" % (prop, rpath))
        return 1


if __name__ == "__main__":
    sys.exit(guarded_main(sys.argv))
