#!/usr/bin/env python3
"""Confirm a seeded change independently:  tools/confirm_mutant.py <patch.diff> <demo.rs> [workdir]
   In a scratch git worktree of /repo (removed afterwards): (1) the patch applies and the crate's own test
   suite still passes with it; (2) the demonstration test FAILS with the patch; (3) it PASSES without it.
   Prints one JSON line with the three outcomes."""
import json
import os
import shutil
import subprocess
import sys
import tempfile


def run(cmd, cwd, env):
    r = subprocess.run(cmd, cwd=cwd, env=env, stdout=subprocess.PIPE, stderr=subprocess.STDOUT, text=True)
    return r.returncode, r.stdout


def main():
    patch, demo = os.path.abspath(sys.argv[1]), os.path.abspath(sys.argv[2])
    base = tempfile.mkdtemp(prefix="cm-", dir="/tmp")
    wt = os.path.join(base, "repo")
    target = sys.argv[3] if len(sys.argv) > 3 else os.path.join(base, "target")
    env = dict(os.environ, CARGO_NET_OFFLINE="true", CARGO_TARGET_DIR=target)
    out = {"patch": os.path.basename(patch), "demo": os.path.basename(demo)}
    try:
        subprocess.run(["git", "-C", "/repo", "worktree", "add", "-q", "--detach", wt, "HEAD"], check=True)
        r = subprocess.run(["git", "-C", wt, "apply", patch], stderr=subprocess.PIPE, text=True)
        out["applies"] = r.returncode == 0
        if r.returncode != 0:
            out["error"] = r.stderr.strip()[:300]
            return
        rc, log = run(["cargo", "test", "--offline", "--lib"], wt, env)
        tail = [l for l in log.splitlines() if l.startswith("test result")]
        out["suite_passes_with_change"] = rc == 0
        out["suite_result"] = tail[-1] if tail else log[-300:]
        os.makedirs(os.path.join(wt, "tests"), exist_ok=True)
        name = os.path.splitext(os.path.basename(demo))[0]
        shutil.copy(demo, os.path.join(wt, "tests", name + ".rs"))
        # a change that shows only without debug assertions is demonstrated in the release profile (CONFIRM_RELEASE=1)
        rel = ["--release"] if os.environ.get("CONFIRM_RELEASE") else []
        if rel:
            out["demo_profile"] = "release"
        rc, log = run(["cargo", "test", "--offline", "--test", name] + rel, wt, env)
        tail = [l for l in log.splitlines() if l.startswith("test result")]
        out["demo_fails_with_change"] = rc != 0 and bool(tail)
        out["demo_with_change"] = tail[-1] if tail else log[-300:]
        subprocess.run(["git", "-C", wt, "checkout", "--", "src"], check=True)
        rc, log = run(["cargo", "test", "--offline", "--test", name] + rel, wt, env)
        tail = [l for l in log.splitlines() if l.startswith("test result")]
        out["demo_passes_without_change"] = rc == 0
        out["demo_without_change"] = tail[-1] if tail else log[-300:]
    finally:
        subprocess.run(["git", "-C", "/repo", "worktree", "remove", "--force", wt])
        if len(sys.argv) <= 3:
            shutil.rmtree(base, ignore_errors=True)
        else:
            shutil.rmtree(wt, ignore_errors=True)
            shutil.rmtree(base, ignore_errors=True)
        print(json.dumps(out), flush=True)


if __name__ == "__main__":
    main()
